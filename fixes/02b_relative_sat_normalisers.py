"""D2b: normalisers of Relative_Cost_Sat and Additive_Cardinal_Relative_Sat must be exact."""
import sys
from pabutools.election import (
    Project,
    Instance,
    ApprovalBallot,
    ApprovalProfile,
    CardinalBallot,
    CardinalProfile,
    Relative_Cost_Sat,
    Additive_Cardinal_Relative_Sat,
)
from pabutools.fractions import frac

a, b, c = Project("a", frac(1, 3)), Project("b", frac(1, 7)), Project("c", 2)
inst = Instance([a, b, c], budget_limit=1)
ok = True

ab = ApprovalBallot([a, b, c])
sat = Relative_Cost_Sat(inst, ApprovalProfile([ab], instance=inst), ab)
if sat.sat([a, b]) != 1 or sat.sat([a]) != frac(7, 10):
    ok = False
    print("FAIL Relative_Cost_Sat: sat({a,b}) =", sat.sat([a, b]), "sat({a}) =", sat.sat([a]))

cb = CardinalBallot({a: frac(1, 3), b: frac(1, 7), c: 5})
sat = Additive_Cardinal_Relative_Sat(inst, CardinalProfile([cb], instance=inst), cb)
if sat.sat([a, b]) != 1 or sat.sat([a]) != frac(7, 10):
    ok = False
    print("FAIL Additive_Cardinal_Relative_Sat: sat({a,b}) =", sat.sat([a, b]), "sat({a}) =", sat.sat([a]))

print("OK" if ok else "FAIL")
sys.exit(0 if ok else 1)
