"""D7a: META max_sum_cost below the budget must be kept as legal_max_cost by the parser."""
import sys
from pabutools.election.pabulib import parse_pabulib_from_string

def content(max_sum_cost):
    return """META
key;value
description;d
country;c
unit;u
instance;i
num_projects;2
num_votes;1
budget;100
vote_type;approval
rule;greedy
max_sum_cost;{}
PROJECTS
project_id;cost
1;40
2;50
VOTES
voter_id;vote
v1;1,2
""".format(max_sum_cost)

ok = True
inst, prof = parse_pabulib_from_string(content(60))
if prof.legal_max_cost != 60:
    ok = False
    print("FAIL: max_sum_cost 60 < budget 100 parsed as legal_max_cost =", prof.legal_max_cost)
inst, prof = parse_pabulib_from_string(content(100))
ok &= prof.legal_max_cost is None  # not a restriction: equal to the budget
ok &= inst.budget_limit == 100
print("OK" if ok else "FAIL")
sys.exit(0 if ok else 1)
