"""D4: Effort_Sat must give the same values on a profile and on its multiprofile."""
import sys
from pabutools.election import (
    Project,
    Instance,
    ApprovalBallot,
    ApprovalProfile,
    Effort_Sat,
)
from pabutools.fractions import frac

a, b = Project("a", 6), Project("b", 4)
inst = Instance([a, b], budget_limit=10)
b1, b2 = ApprovalBallot([a]), ApprovalBallot([a, b])
profile = ApprovalProfile([b1, b1, b2], instance=inst)
multiprofile = profile.as_multiprofile()

sat_p = profile.as_sat_profile(Effort_Sat)
sat_m = multiprofile.as_sat_profile(Effort_Sat)
ok = True
# a is approved by 3 voters: each gets 6/3 = 2 from a
for s in sat_p:
    ok &= s.sat([a]) == 2
for s in sat_m:
    if s.sat([a]) != 2:
        ok = False
        print("FAIL: share of a on the multiprofile is", s.sat([a]), "instead of 2")
ok &= sat_p.total_satisfaction([a, b]) == 10
if sat_m.total_satisfaction([a, b]) != 10:
    ok = False
    print("FAIL: total effort on the multiprofile is", sat_m.total_satisfaction([a, b]))
print("OK" if ok else "FAIL")
sys.exit(0 if ok else 1)
