"""D7e: fractional scores must survive parse(write(e)) exactly."""
import sys
from pabutools.election import Project, Instance, CardinalBallot, CardinalProfile
from pabutools.election.pabulib import parse_pabulib_from_string, election_as_pabulib_string
from pabutools.fractions import frac

p1, p2 = Project("p1", 40), Project("p2", 50)
inst = Instance([p1, p2], budget_limit=100)
inst.project_meta = {p1: {}, p2: {}}
prof = CardinalProfile(
    [CardinalBallot({p1: frac(1, 3), p2: 3}), CardinalBallot({p2: frac(22, 7)})], instance=inst
)
inst2, prof2 = parse_pabulib_from_string(election_as_pabulib_string(inst, prof))
ok = list(prof2) == list(prof)
if not ok:
    print("FAIL: wrote", list(prof), "read back", list(prof2))
print("OK" if ok else "FAIL")
sys.exit(0 if ok else 1)
