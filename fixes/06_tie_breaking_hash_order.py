"""R6: the winners of MES / sequential Phragmen with non-injective tie-breaking keys must not
depend on PYTHONHASHSEED."""
import os
import subprocess
import sys

CHILD = r"""
from pabutools.election import Instance, Project, ApprovalProfile, ApprovalBallot, Cost_Sat
from pabutools.rules import method_of_equal_shares, sequential_phragmen
from pabutools.tiebreaking import (
    min_cost_tie_breaking, max_cost_tie_breaking, app_score_tie_breaking,
)
p = [Project(f"p{i}", 2) for i in range(6)]
instance = Instance(p, budget_limit=4)
profile = ApprovalProfile([ApprovalBallot(p), ApprovalBallot(p)], instance=instance)
out = []
for name, tb in (("min_cost", min_cost_tie_breaking), ("max_cost", max_cost_tie_breaking),
                 ("app_score", app_score_tie_breaking)):
    out.append(("mes", name, [str(x) for x in method_of_equal_shares(
        instance, profile, sat_class=Cost_Sat, tie_breaking=tb)]))
    out.append(("phragmen", name, [str(x) for x in sequential_phragmen(
        instance, profile, tie_breaking=tb)]))
print(out)
"""

results = {}
for seed in ["0", "1", "2", "3", "4", "5", "42", "1234"]:
    env = dict(os.environ, PYTHONHASHSEED=seed)
    r = subprocess.run([sys.executable, "-c", CHILD], env=env, capture_output=True, text=True)
    if r.returncode != 0:
        print("FAIL child crashed", r.stderr[-500:])
        sys.exit(1)
    results[seed] = r.stdout.strip().splitlines()[-1]

distinct = set(results.values())
if len(distinct) > 1:
    print("FAIL: outcome depends on PYTHONHASHSEED")
    for seed, out in results.items():
        print("  seed", seed, out)
    sys.exit(1)
print("OK", distinct.pop())
