"""R7: rules / analytics must not write into the caller's parameter dictionaries."""
import sys

from pabutools.election import Instance, Project, ApprovalProfile, ApprovalBallot, Cost_Sat
from pabutools.rules import (
    method_of_equal_shares,
    greedy_utilitarian_welfare,
    exhaustion_by_budget_increase,
    completion_by_rule_combination,
)
from pabutools.analysis.mesanalytics import (
    calculate_effective_support,
    calculate_effective_supports,
)

p = [Project(f"p{i}", c) for i, c in enumerate([3, 1, 3, 2, 2])]
instance = Instance(p, budget_limit=4)
profile = ApprovalProfile(
    [ApprovalBallot([p[0], p[2], p[4]]), ApprovalBallot([p[0], p[1], p[2], p[3]])], instance=instance
)
fails = []

params = {"sat_class": Cost_Sat}
res1 = exhaustion_by_budget_increase(instance, profile, method_of_equal_shares, params)
if params != {"sat_class": Cost_Sat}:
    fails.append(f"exhaustion_by_budget_increase modified rule_params: {sorted(params)}")
# re-using the same dictionary must be harmless
try:
    res2 = exhaustion_by_budget_increase(
        instance, profile, method_of_equal_shares, params, resoluteness=False
    )
    if not isinstance(res2, list) or not all(isinstance(a, list) for a in res2):
        fails.append(f"re-used rule_params changed the answer: {res2!r}")
    method_of_equal_shares(instance, profile, **params)
except Exception as e:
    fails.append(f"re-using rule_params raised {type(e).__name__}: {e}")

plist = [{"sat_class": Cost_Sat}, {"sat_class": Cost_Sat}]
completion_by_rule_combination(
    instance, profile, [method_of_equal_shares, greedy_utilitarian_welfare], plist
)
if plist != [{"sat_class": Cost_Sat}, {"sat_class": Cost_Sat}]:
    fails.append(f"completion_by_rule_combination modified rule_params: {plist}")

alloc = method_of_equal_shares(instance, profile, sat_class=Cost_Sat)
mparams = {"sat_class": Cost_Sat}
calculate_effective_support(instance, profile, p[1], p[1] in alloc, mparams)
if mparams != {"sat_class": Cost_Sat}:
    fails.append(f"calculate_effective_support modified mes_params: {sorted(mparams)}")
mparams = {"sat_class": Cost_Sat}
calculate_effective_supports(instance, profile, alloc, mparams)
if mparams != {"sat_class": Cost_Sat}:
    fails.append(f"calculate_effective_supports modified mes_params: {sorted(mparams)}")

if fails:
    print("FAIL", len(fails))
    for f in fails:
        print("  ", f)
    sys.exit(1)
print("OK")
