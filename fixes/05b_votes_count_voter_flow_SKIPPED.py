"""D5b (NOT repaired: tests/test_analysis.py::test_profile_properties pins the multiplicity-ignoring output).
votes_count_by_project and voter_flow_matrix differ between a profile and its multiprofile."""
import sys
from pabutools.election import Project, Instance, ApprovalBallot, ApprovalProfile
from pabutools.analysis.profileproperties import votes_count_by_project, voter_flow_matrix

p1, p2 = Project("p1", 1), Project("p2", 2)
inst = Instance([p1, p2], budget_limit=3)
profile = ApprovalProfile(
    [ApprovalBallot([p1, p2])] + [ApprovalBallot([p2]) for _ in range(3)], instance=inst
)
multi = profile.as_multiprofile()
ok = True
if votes_count_by_project(profile) != votes_count_by_project(multi):
    ok = False
    print("FAIL votes_count_by_project:", votes_count_by_project(profile), votes_count_by_project(multi))
if voter_flow_matrix(inst, profile) != voter_flow_matrix(inst, multi):
    ok = False
    print("FAIL voter_flow_matrix:", voter_flow_matrix(inst, profile), voter_flow_matrix(inst, multi))
print("OK" if ok else "FAIL")
sys.exit(0 if ok else 1)
