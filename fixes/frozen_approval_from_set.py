"""FrozenApprovalBallot(approval_ballot) froze the ballot in set-iteration order: the result depended on the hash seed
and on the insertion history, differed from approval_ballot.frozen() and hashed differently, so a multiprofile
counted one ballot content as two entries.  Exit 0 when the two ways of freezing agree, 1 otherwise."""
import sys
from pabutools.election import Project, ApprovalBallot, FrozenApprovalBallot, ApprovalMultiProfile

ps = [Project("p%02d" % i, 1) for i in range(6)]
b = ApprovalBallot(ps)
b2 = ApprovalBallot(reversed(ps))
f1, f2, f3 = FrozenApprovalBallot(b), b.frozen(), FrozenApprovalBallot(b2)
mp = ApprovalMultiProfile([f1, f2, f3])
print(tuple(f1), tuple(f2), len(mp))
sys.exit(0 if f1 == f2 == f3 and hash(f1) == hash(f2) == hash(f3) and len(mp) == 1 else 1)
