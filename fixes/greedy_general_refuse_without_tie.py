"""The general greedy scheme consulted the tie-breaking rule in every round, also with a single best candidate:
with refuse_tie_breaking it raised TieBreakingException although no tie occurred.  Exit 0 when an election without
any tie is decided by the general scheme under refuse_tie_breaking (and a real tie still raises), 1 otherwise."""
import sys
from pabutools.election import Instance, Project, ApprovalProfile, ApprovalBallot, Cardinality_Sat
from pabutools.rules import greedy_utilitarian_welfare
from pabutools.tiebreaking import refuse_tie_breaking, TieBreakingException

p0, p1 = Project("p0", 1), Project("p1", 2)
inst = Instance([p0, p1], budget_limit=3)
prof = ApprovalProfile([ApprovalBallot([p0]), ApprovalBallot([p0]), ApprovalBallot([p1])], instance=inst)
ok = True
for res in (True, False):
    try:
        out = greedy_utilitarian_welfare(inst, prof, sat_class=Cardinality_Sat, is_sat_additive=False,
                                         tie_breaking=refuse_tie_breaking, resoluteness=res)
        print(res, out)
        ok = ok and (sorted(out) == [p0, p1] if res else [sorted(o) for o in out] == [[p0, p1]])
    except TieBreakingException as e:
        print(res, "raised:", e)
        ok = False
q0, q1 = Project("q0", 1), Project("q1", 1)
inst2 = Instance([q0, q1], budget_limit=1)
prof2 = ApprovalProfile([ApprovalBallot([q0]), ApprovalBallot([q1])], instance=inst2)
try:
    greedy_utilitarian_welfare(inst2, prof2, sat_class=Cardinality_Sat, is_sat_additive=False, tie_breaking=refuse_tie_breaking)
    ok = False
    print("no exception on a real tie")
except TieBreakingException:
    pass
sys.exit(0 if ok else 1)
