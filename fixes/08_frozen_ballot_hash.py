"""D8: equal ballots must freeze to equal frozen ballots with equal hashes (any insertion order)."""
import sys
from pabutools.election import (
    Project,
    Instance,
    ApprovalBallot,
    ApprovalProfile,
    CardinalBallot,
    CardinalProfile,
    CumulativeBallot,
    CumulativeProfile,
)

ok = True
a, b = Project("a", 1), Project("b", 1)
inst = Instance([a, b], budget_limit=2)

for ballot_class, profile_class in [(CardinalBallot, CardinalProfile), (CumulativeBallot, CumulativeProfile)]:
    b1, b2 = ballot_class({a: 1, b: 2}), ballot_class({b: 2, a: 1})
    assert b1 == b2
    f1, f2 = b1.frozen(), b2.frozen()
    if f1 != f2 or hash(f1) != hash(f2):
        ok = False
        print("FAIL {}: equal ballots, frozen equal: {}, same hash: {}".format(ballot_class.__name__, f1 == f2, hash(f1) == hash(f2)))
    multi = profile_class([b1, b2], instance=inst).as_multiprofile()
    if len(multi) != 1 or multi.multiplicity(f2) != 2:
        ok = False
        print("FAIL {}: multiprofile of two equal ballots:".format(profile_class.__name__), dict(multi))
    # different scores on the same projects remain different ballots
    ok &= ballot_class({a: 1, b: 2}).frozen() != ballot_class({a: 2, b: 1}).frozen()

# Approval ballots: two equal sets may iterate in different orders (depends on the hashes of the names)
projects = [Project("p{}".format(i), 1) for i in range(200)]
found = False
for i, p in enumerate(projects):
    for q in projects[i + 1:]:
        b1, b2 = ApprovalBallot([p, q]), ApprovalBallot([q, p])
        if list(b1) != list(b2):
            found = True
            assert b1 == b2
            f1, f2 = b1.frozen(), b2.frozen()
            if f1 != f2 or hash(f1) != hash(f2):
                ok = False
                print("FAIL ApprovalBallot: {} == {} but frozen {} != {}".format(set(b1), set(b2), f1, f2))
            multi = ApprovalProfile([b1, b2], instance=Instance([p, q])).as_multiprofile()
            if len(multi) != 1:
                ok = False
                print("FAIL ApprovalProfile: multiprofile of two equal ballots:", dict(multi))
            break
    if found:
        break
if not found:
    print("(no pair of names with different set iteration orders found under this hash seed)")
print("OK" if ok else "FAIL")
sys.exit(0 if ok else 1)
