"""D9d: frozen cardinal and cumulative ballots (and the multiprofiles containing them) can be pickled and
deep-copied."""
import copy
import pickle
import sys
from pabutools.election import *
from pabutools.rules import BudgetAllocation

p, q = Project("p", 1), Project("q", 2)
inst = Instance([p, q], budget_limit=3)
inst.meta["k"] = "v"
app = ApprovalBallot([p], name="a", meta={"x": 1})
card = CardinalBallot({p: 1, q: 2}, name="c")
cum = CumulativeBallot({p: 1, q: 2}, name="u")
ordi = OrdinalBallot([q, p], name="o")
objects = {
    "ApprovalProfile": ApprovalProfile([app, app], instance=inst, legal_max_length=2),
    "CardinalProfile": CardinalProfile([card, card], instance=inst, legal_max_score=5),
    "CumulativeProfile": CumulativeProfile([cum, cum], instance=inst, legal_max_total_score=5),
    "OrdinalProfile": OrdinalProfile([ordi, ordi], instance=inst, legal_max_length=2),
}
for name in list(objects):
    objects[name.replace("Profile", "MultiProfile")] = objects[name].as_multiprofile()
objects["Instance"] = inst
objects["BudgetAllocation"] = BudgetAllocation([p, q])
objects["SatisfactionProfile"] = objects["ApprovalProfile"].as_sat_profile(Cost_Sat)
objects["SatisfactionMultiProfile"] = objects["ApprovalMultiProfile"].as_sat_profile(Cost_Sat)
for b in [app, card, cum, ordi]:
    objects[type(b).__name__] = b
    objects[type(b.frozen()).__name__] = b.frozen()

def attributes(x):
    return {k: v for k, v in vars(x).items() if k not in ("instance", "sat_class")} if hasattr(x, "__dict__") else {}

objects = {k: v for k, v in objects.items() if k in ("FrozenCardinalBallot", "FrozenCumulativeBallot", "CardinalMultiProfile", "CumulativeMultiProfile")}
ok = True
for name, obj in objects.items():
    for how, f in [("pickle", lambda o: pickle.loads(pickle.dumps(o))), ("deepcopy", copy.deepcopy)]:
        try:
            c = f(obj)
            if type(c) is not type(obj) or len(c) != len(obj):
                ok = False
                print("FAIL {} {}: got {} {}".format(how, name, type(c).__name__, c))
            elif "Satisfaction" not in name and (c != obj or attributes(c) != attributes(obj)):
                ok = False
                print("FAIL {} {}: copy differs: {} {} vs {} {}".format(how, name, c, attributes(c), obj, attributes(obj)))
        except Exception as e:
            ok = False
            print("FAIL {} {}: {} {}".format(how, name, type(e).__name__, e))
print("OK" if ok else "FAIL")
sys.exit(0 if ok else 1)
