"""R2: the primal/dual welfare maximiser must return an optimum for fractional costs/profits."""
import itertools
import random
import sys

from pabutools.election import Instance, Project, ApprovalProfile, ApprovalBallot, Cost_Sat
from pabutools.fractions import frac
from pabutools.rules import max_additive_utilitarian_welfare, MaxAddUtilWelfareAlgo

fails = []


def check(label, costs, budget):
    projects = [Project(f"p{i}", c) for i, c in enumerate(costs)]
    instance = Instance(projects, budget_limit=budget)
    profile = ApprovalProfile([ApprovalBallot(projects), ApprovalBallot(projects)])
    res = max_additive_utilitarian_welfare(
        instance, profile, sat_class=Cost_Sat, inner_algo=MaxAddUtilWelfareAlgo.PRIMAL_DUAL
    )
    got = sum(p.cost for p in res)
    if got > budget or len(set(res)) != len(res):
        fails.append(f"{label}: infeasible outcome {list(res)}")
    best = max(
        sum(p.cost for p in s)
        for k in range(len(projects) + 1)
        for s in itertools.combinations(projects, k)
        if sum(p.cost for p in s) <= budget
    )
    if got != best:
        fails.append(
            f"{label}: costs={[str(c) for c in costs]} budget={budget}: "
            f"returned {sorted(res)} (welfare/voter {got}), optimum {best}"
        )


check("example", [frac(1, 2), frac(1, 3), frac(3, 4)], 1)

rng = random.Random(0)
for n in range(300):
    m = rng.randint(1, 6)
    costs = [frac(rng.randint(1, 12), rng.randint(1, 6)) for _ in range(m)]
    budget = frac(rng.randint(1, 20), rng.randint(1, 4))
    check(f"random{n}", costs, budget)

if fails:
    print("FAIL", len(fails))
    for f in fails[:5]:
        print("  ", f)
    sys.exit(1)
print("OK")
