"""D3: Cost_Log_Sat / Additive_Cost_Log_Sat (and the Sqrt variants) must accept fractional costs."""
import math
import sys
from pabutools.election import (
    Project,
    Instance,
    ApprovalBallot,
    ApprovalProfile,
    Cost_Log_Sat,
    Additive_Cost_Log_Sat,
    Cost_Sqrt_Sat,
    Additive_Cost_Sqrt_Sat,
)
from pabutools.fractions import frac

a, b = Project("a", frac(1, 2)), Project("b", 3)
inst = Instance([a, b], budget_limit=4)
ballot = ApprovalBallot([a, b])
profile = ApprovalProfile([ballot], instance=inst)
ok = True
for sat_class, expected in [
    (Cost_Log_Sat, math.log(1 + 0.5)),
    (Additive_Cost_Log_Sat, math.log(1 + 0.5)),
    (Cost_Sqrt_Sat, math.sqrt(0.5)),
    (Additive_Cost_Sqrt_Sat, math.sqrt(0.5)),
]:
    try:
        res = sat_class(inst, profile, ballot).sat([a])
        if abs(float(res) - expected) > 1e-12:
            ok = False
            print("FAIL", sat_class.__name__, res, expected)
    except Exception as e:
        ok = False
        print("FAIL", sat_class.__name__, type(e).__name__, e)
print("OK" if ok else "FAIL")
sys.exit(0 if ok else 1)
