"""D7d: a cumulative profile without legal_max_total_score must survive parse(write(e))."""
import sys
from pabutools.election import Project, Instance, CumulativeBallot, CumulativeProfile
from pabutools.election.pabulib import parse_pabulib_from_string, election_as_pabulib_string

p1, p2 = Project("p1", 40), Project("p2", 50)
inst = Instance([p1, p2], budget_limit=100)
inst.project_meta = {p1: {}, p2: {}}
prof = CumulativeProfile(
    [CumulativeBallot({p1: 2, p2: 3}), CumulativeBallot({p2: 5})], instance=inst
)
out = election_as_pabulib_string(inst, prof)
try:
    inst2, prof2 = parse_pabulib_from_string(out)
    ok = isinstance(prof2, CumulativeProfile) and list(prof2) == list(prof)
    ok &= prof2.legal_max_total_score is None
    if not ok:
        print("FAIL: read back", prof2, prof2.legal_max_total_score)
except Exception as e:
    ok = False
    print("FAIL:", type(e).__name__, e)

# A known limit is still written and read back
prof.legal_max_total_score = 5
inst3, prof3 = parse_pabulib_from_string(election_as_pabulib_string(inst, prof))
ok &= prof3.legal_max_total_score == 5
print("OK" if ok else "FAIL")
sys.exit(0 if ok else 1)
