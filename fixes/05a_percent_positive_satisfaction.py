"""D5a: percent_positive_satisfaction must agree on a profile and on its multiprofile."""
import sys
from pabutools.election import Project, Instance, ApprovalBallot, ApprovalProfile, Cost_Sat
from pabutools.analysis.votersatisfaction import percent_positive_satisfaction
from pabutools.fractions import frac

p1, p2 = Project("p1", 1), Project("p2", 2)
inst = Instance([p1, p2], budget_limit=3)
profile = ApprovalProfile(
    [ApprovalBallot([p1])] + [ApprovalBallot([p2]) for _ in range(3)], instance=inst
)
x = percent_positive_satisfaction(profile, [p2], Cost_Sat)
y = percent_positive_satisfaction(profile.as_multiprofile(), [p2], Cost_Sat)
ok = x == frac(3, 4) and y == frac(3, 4)
print("OK" if ok else "FAIL: profile {} multiprofile {} (expected 3/4)".format(x, y))
sys.exit(0 if ok else 1)
