"""D9b: `profile += [ballot of the wrong type]` must be rejected like append/extend/insert."""
import sys
from pabutools.election import (
    Project,
    Instance,
    ApprovalBallot,
    ApprovalProfile,
    CardinalBallot,
    CardinalProfile,
    CumulativeBallot,
    CumulativeProfile,
    OrdinalBallot,
    OrdinalProfile,
)

p, q = Project("p", 1), Project("q", 2)
inst = Instance([p, q], budget_limit=3)
app, card, cum, ordi = ApprovalBallot([p]), CardinalBallot({p: 1}), CumulativeBallot({p: 1}), OrdinalBallot([p, q])
ok = True
for profile_class, good, wrong in [
    (ApprovalProfile, app, card),
    (CardinalProfile, card, app),
    (CumulativeProfile, cum, app),
    (OrdinalProfile, ordi, app),
]:
    profile = profile_class([good], instance=inst)
    try:
        profile += [wrong]
        ok = False
        print("FAIL {}: += accepted a {}: {}".format(profile_class.__name__, type(wrong).__name__, list(profile)))
    except TypeError:
        pass
    # valid ballots are still accepted, from any iterable, and the profile keeps its type and attributes
    profile = profile_class([good], instance=inst)
    profile += [good]
    profile += (b for b in [good])
    if type(profile) is not profile_class or len(profile) != 3 or profile.instance is not inst:
        ok = False
        print("FAIL {}: += of valid ballots gives {} {}".format(profile_class.__name__, type(profile).__name__, list(profile)))
    # validation switched off: anything goes
    profile = profile_class([good], instance=inst, ballot_validation=False)
    profile += [wrong]
    ok &= len(profile) == 2
print("OK" if ok else "FAIL")
sys.exit(0 if ok else 1)
