"""R4: irresolute equal shares must work on cardinal / cumulative / ordinal (multi)profiles,
and be unchanged on approval profiles."""
import sys
import traceback

from pabutools.election import (
    Instance,
    Project,
    ApprovalProfile,
    ApprovalBallot,
    CardinalProfile,
    CardinalBallot,
    CumulativeProfile,
    CumulativeBallot,
    OrdinalProfile,
    OrdinalBallot,
    Cost_Sat,
    Additive_Cardinal_Sat,
    Additive_Borda_Sat,
)
from pabutools.rules import method_of_equal_shares

fails = []

p = [Project("p0", 2), Project("p1", 2), Project("p2", 2)]
instance = Instance(p, budget_limit=2)


def run(label, profile, sat, expected):
    for prof in (profile, profile.as_multiprofile()):
        name = f"{label} ({type(prof).__name__})"
        try:
            res = method_of_equal_shares(instance, prof, sat_class=sat, resoluteness=False)
        except Exception as e:
            fails.append(f"{name}: raised {type(e).__name__}: {e}")
            continue
        got = sorted(sorted(str(x) for x in alloc) for alloc in res)
        if got != expected:
            fails.append(f"{name}: got {got}, expected {expected}")


run(
    "cardinal",
    CardinalProfile(
        [CardinalBallot({p[0]: 3, p[1]: 3}), CardinalBallot({p[0]: 3, p[1]: 3, p[2]: 1})],
        instance=instance,
    ),
    Additive_Cardinal_Sat,
    [["p0"], ["p1"]],
)
run(
    "cumulative",
    CumulativeProfile(
        [CumulativeBallot({p[0]: 3, p[1]: 3}), CumulativeBallot({p[0]: 3, p[1]: 3, p[2]: 1})],
        instance=instance,
    ),
    Additive_Cardinal_Sat,
    [["p0"], ["p1"]],
)
run(
    "ordinal",
    OrdinalProfile(
        [OrdinalBallot([p[0], p[1], p[2]]), OrdinalBallot([p[1], p[0], p[2]])],
        instance=instance,
    ),
    Additive_Borda_Sat,
    [["p0"], ["p1"]],
)
run(
    "approval",
    ApprovalProfile(
        [ApprovalBallot([p[0], p[1]]), ApprovalBallot([p[0], p[1], p[2]])], instance=instance
    ),
    Cost_Sat,
    [["p0"], ["p1"]],
)

if fails:
    print("FAIL", len(fails))
    for f in fails:
        print("  ", f)
    sys.exit(1)
print("OK")
