"""MinAddVector: beta[c] of an unselected project was capped at the budget limit (docstring: beta[c] in (-inf, inf)),
so `priceable(..., relaxation=MinAddVector)` reported INFEASIBLE where a relaxed price system exists.
Exit 0 when the search succeeds, 1 otherwise."""
import sys
from pabutools.election import Instance, Project, ApprovalProfile, ApprovalBallot
from pabutools.analysis.priceability import priceable
from pabutools.analysis.priceability_relaxation import MinAddVector, MinAddVectorPositive

a, c = Project("a", 1), Project("c", 1)
inst = Instance([a, c], budget_limit=1)
prof = ApprovalProfile([ApprovalBallot([a]), ApprovalBallot([c]), ApprovalBallot([c]), ApprovalBallot([c])], instance=inst)
pos = priceable(inst, prof, [a], stable=True, exhaustive=True, relaxation=MinAddVectorPositive(inst, prof))
vec = priceable(inst, prof, [a], stable=True, exhaustive=True, relaxation=MinAddVector(inst, prof))
print("MinAddVectorPositive:", pos.status, "MinAddVector:", vec.status)
ok = pos.validate() is True and vec.validate() is True
sys.exit(0 if ok else 1)
