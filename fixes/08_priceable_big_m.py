"""R8: priceable() must not answer 'infeasible' just because a project costs more than
10 x the budget limit."""
import subprocess
import sys

CHILD = r"""
from pabutools.election import Instance, Project, ApprovalProfile, ApprovalBallot
from pabutools.analysis.priceability import priceable, validate_price_system
a, b = Project("a", 1), Project("b", 11)
instance = Instance([a, b], budget_limit=1)
profile = ApprovalProfile([ApprovalBallot([a]), ApprovalBallot([a, b])], instance=instance)
# the library's own validator accepts this price system for [a]
assert validate_price_system(instance, profile, [a], 0.5, [{a: 0.5, b: 0}, {a: 0.5, b: 0}])
ok = True
for kwargs in ({}, {"budget_allocation": [a]}, {"exhaustive": False}, {"stable": True},
               {"budget_allocation": [a], "exhaustive": False}):
    res = priceable(instance, profile, **kwargs)
    print(kwargs, res.status, res.validate(), res.allocation)
    if not res.validate():
        ok = False
    # [a] is the only exhaustive allocation; without exhaustiveness [] is priceable too
    elif kwargs.get("exhaustive", True) and list(res.allocation) != [a]:
        ok = False
print("RESULT", "OK" if ok else "FAIL")
"""

last = None
for attempt in range(3):  # the bundled CBC solver occasionally crashes the interpreter
    r = subprocess.run([sys.executable, "-c", CHILD], capture_output=True, text=True)
    last = r
    if "RESULT" in r.stdout:
        break
print(last.stdout[-1500:])
if "RESULT OK" in last.stdout:
    sys.exit(0)
print(last.stderr[-800:])
print("FAIL")
sys.exit(1)
