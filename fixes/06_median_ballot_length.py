"""D6: median_ballot_length must not truncate: lengths 1 and 2 have median 3/2."""
import sys
from pabutools.election import Project, Instance, ApprovalBallot, ApprovalProfile
from pabutools.analysis.profileproperties import median_ballot_length
from pabutools.fractions import frac

p1, p2 = Project("p1", 1), Project("p2", 2)
inst = Instance([p1, p2], budget_limit=3)
profile = ApprovalProfile([ApprovalBallot([p1]), ApprovalBallot([p1, p2])], instance=inst)
x = median_ballot_length(inst, profile)
y = median_ballot_length(inst, profile.as_multiprofile())
ok = x == frac(3, 2) and y == frac(3, 2)
odd = ApprovalProfile([ApprovalBallot([p1]), ApprovalBallot([p1, p2]), ApprovalBallot([p1, p2])], instance=inst)
ok &= median_ballot_length(inst, odd) == 2
print("OK" if ok else "FAIL: median of lengths 1 and 2 is {} / {} instead of 3/2".format(x, y))
sys.exit(0 if ok else 1)
