"""D1: Instance.is_trivial must be False when exactly the cheapest project fits (cost == budget)."""
import sys
from pabutools.election import Instance, Project

inst = Instance([Project("a", 2), Project("b", 3)], budget_limit=2)
# {a} is feasible and {a, b} is not: neither "everything fits" nor "nothing fits".
ok = inst.is_trivial() is False
ok &= Instance([Project("a", 2), Project("b", 3)], budget_limit=1).is_trivial() is True
ok &= Instance([Project("a", 2), Project("b", 3)], budget_limit=5).is_trivial() is True
print("OK" if ok else "FAIL: is_trivial() is True although exactly one project fits")
sys.exit(0 if ok else 1)
