"""D7c: blank lines inside a PaBuLib file are skipped by the parser."""
import sys
from pabutools.election.pabulib import parse_pabulib_from_string

content = """META
key;value
description;d
country;c
unit;u
instance;i
num_projects;2
num_votes;2
budget;100
vote_type;approval
rule;greedy

PROJECTS
project_id;cost
1;40

2;50
VOTES
voter_id;vote
v1;1,2

v2;2

"""
try:
    inst, prof = parse_pabulib_from_string(content)
    ok = len(inst) == 2 and len(prof) == 2 and inst.budget_limit == 100
    if not ok:
        print("FAIL: parsed", inst, prof)
except Exception as e:
    ok = False
    print("FAIL:", type(e).__name__, e)
print("OK" if ok else "FAIL")
sys.exit(0 if ok else 1)
