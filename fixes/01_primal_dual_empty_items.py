"""R1: max_additive_utilitarian_welfare (PRIMAL_DUAL) must not raise when no positive-cost
undecided project is left."""
import sys

from pabutools.election import Instance, Project, ApprovalProfile, ApprovalBallot, Cost_Sat
from pabutools.rules import max_additive_utilitarian_welfare, MaxAddUtilWelfareAlgo

fails = []


def run(label, instance, profile, init, expected):
    try:
        res = max_additive_utilitarian_welfare(
            instance,
            profile,
            sat_class=Cost_Sat,
            initial_budget_allocation=init,
            inner_algo=MaxAddUtilWelfareAlgo.PRIMAL_DUAL,
        )
    except Exception as e:
        fails.append(f"{label}: raised {type(e).__name__}: {e}")
        return
    if sorted(res) != sorted(expected):
        fails.append(f"{label}: got {sorted(res)} expected {sorted(expected)}")


# empty instance
run("empty instance", Instance([], budget_limit=5), ApprovalProfile([ApprovalBallot()]), [], [])

# every project already in the initial allocation
p = [Project("p0", 1), Project("p1", 2)]
run(
    "all in initial allocation",
    Instance(p, budget_limit=5),
    ApprovalProfile([ApprovalBallot(p)]),
    list(p),
    p,
)

# all costs 0
z = [Project("z0", 0), Project("z1", 0)]
run(
    "all costs zero",
    Instance(z, budget_limit=5),
    ApprovalProfile([ApprovalBallot(z)]),
    [],
    [],
)

if fails:
    print("FAIL")
    for f in fails:
        print("  ", f)
    sys.exit(1)
print("OK")
