"""D9a: ballot constructors keep the name/meta given by the caller; copies keep them unless overridden."""
import sys
from pabutools.election import (
    Project,
    ApprovalBallot,
    FrozenApprovalBallot,
    CardinalBallot,
    FrozenCardinalBallot,
    CumulativeBallot,
    FrozenCumulativeBallot,
    OrdinalBallot,
    FrozenOrdinalBallot,
)

p, q = Project("p", 1), Project("q", 2)
ok = True
cases = [
    (ApprovalBallot, [p, q]),
    (FrozenApprovalBallot, [p, q]),
    (CardinalBallot, {p: 1, q: 2}),
    (FrozenCardinalBallot, {p: 1, q: 2}),
    (CumulativeBallot, {p: 1, q: 2}),
    (FrozenCumulativeBallot, {p: 1, q: 2}),
    (OrdinalBallot, [p, q]),
    (FrozenOrdinalBallot, [p, q]),
]
for cls, init in cases:
    b = cls(init, name="x", meta={"a": 1})
    if b.name != "x" or b.meta != {"a": 1}:
        ok = False
        print("FAIL {}(init, name='x', meta={{'a': 1}}): name={!r} meta={!r}".format(cls.__name__, b.name, b.meta))
    d = cls(init)
    if d.name != "" or d.meta != {}:
        ok = False
        print("FAIL {}(init) defaults: name={!r} meta={!r}".format(cls.__name__, d.name, d.meta))
    e = cls()
    if e.name != "" or e.meta != {}:
        ok = False
        print("FAIL {}() defaults: name={!r} meta={!r}".format(cls.__name__, e.name, e.meta))
    c = cls(b)
    if c.name != "x" or c.meta != {"a": 1} or c != b:
        ok = False
        print("FAIL {}(ballot) copy: name={!r} meta={!r}".format(cls.__name__, c.name, c.meta))
    o = cls(b, name="y", meta={"b": 2})
    if o.name != "y" or o.meta != {"b": 2}:
        ok = False
        print("FAIL {}(ballot, name='y', ...) override: name={!r} meta={!r}".format(cls.__name__, o.name, o.meta))
    if hasattr(b, "frozen"):
        f = b.frozen()
        if f.name != "x" or f.meta != {"a": 1}:
            ok = False
            print("FAIL {}.frozen(): name={!r} meta={!r}".format(cls.__name__, f.name, f.meta))
    if hasattr(b, "copy") and hasattr(b, "frozen"):
        k = b.copy()
        if type(k) is not cls or k.name != "x" or k.meta != {"a": 1}:
            ok = False
            print("FAIL {}.copy(): {} name={!r} meta={!r}".format(cls.__name__, type(k).__name__, k.name, k.meta))
print("OK" if ok else "FAIL")
sys.exit(0 if ok else 1)
