"""D5 scan: every profile-taking public function of the analysis modules, profile vs multiprofile."""
import sys
from pabutools.election import *
from pabutools.analysis import profileproperties as pp, votersatisfaction as vs, category as cat
from pabutools.fractions import frac

projects = [Project("p1", 1, categories={"c1"}), Project("p2", 2, categories={"c2"}), Project("p3", 3, categories={"c1", "c2"})]
inst = Instance(projects, budget_limit=4, categories={"c1", "c2"})
p1, p2, p3 = projects
ap = ApprovalProfile([ApprovalBallot([p1, p2]), ApprovalBallot([p1, p3])] + [ApprovalBallot([p2]) for _ in range(3)] + [ApprovalBallot([p3])]*2, instance=inst)
cp = CardinalProfile([CardinalBallot({p1: 2, p2: 5}), CardinalBallot({p1: 1, p3: 1})] + [CardinalBallot({p2: 3}) for _ in range(3)], instance=inst)
alloc = [p1, p2]
bad = []
def cmp(name, f, prof):
    try:
        x, y = f(prof), f(prof.as_multiprofile())
    except Exception as e:
        print("ERR ", name, type(e).__name__, e); return
    same = (x == y) if not hasattr(x, "__iter__") or isinstance(x, dict) else list(x) == list(y)
    print("same" if same else "DIFF", name, x if same else (x, y))
    if not same: bad.append(name)

for n in ["avg_ballot_length", "median_ballot_length", "avg_ballot_cost", "median_ballot_cost", "avg_approval_score", "median_approval_score"]:
    cmp(n, lambda p, n=n: getattr(pp, n)(inst, p), ap)
for n in ["avg_total_score", "median_total_score"]:
    cmp(n, lambda p, n=n: getattr(pp, n)(inst, p), cp)
cmp("votes_count_by_project", pp.votes_count_by_project, ap)
cmp("votes_count_by_project(card)", pp.votes_count_by_project, cp)
cmp("voter_flow_matrix", lambda p: pp.voter_flow_matrix(inst, p), ap)
for sat in [Cost_Sat, Cardinality_Sat, Effort_Sat]:
    cmp("avg_satisfaction " + sat.__name__, lambda p: vs.avg_satisfaction(inst, p, alloc, sat), ap)
    cmp("percent_positive_satisfaction " + sat.__name__, lambda p: vs.percent_positive_satisfaction(p, [p1], sat), ap)
    cmp("gini " + sat.__name__, lambda p: vs.gini_coefficient_of_satisfaction(inst, p, alloc, sat), ap)
    cmp("hist " + sat.__name__, lambda p: vs.satisfaction_histogram(inst, p, alloc, sat, 3, 5), ap)
cmp("percent_non_empty_handed", lambda p: vs.percent_non_empty_handed(inst, p, [p1]), ap)
cmp("category_proportionality", lambda p: cat.category_proportionality(inst, p, alloc), ap)
print("DIFFERENT:", bad)
