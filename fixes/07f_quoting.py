"""D7f: names and metadata containing ';' or '"' must survive parse(write(e))."""
import sys
from pabutools.election import Project, Instance, ApprovalBallot, ApprovalProfile
from pabutools.election.pabulib import parse_pabulib_from_string, election_as_pabulib_string

p1, p2 = Project("p1", 40), Project("p2", 50)
inst = Instance([p1, p2], budget_limit=100)
inst.meta = {"description": 'Budget; the "green" one', "country": "c", "unit": "u", "instance": "i", "rule": "greedy"}
inst.project_meta = {p1: {"name": 'Park; with "trees"'}, p2: {"name": "plain"}}
b1 = ApprovalBallot([p1, p2])
b1.meta = {"voter_id": "v1", "neighborhood": 'north; "old town"'}
b2 = ApprovalBallot([p2])
b2.meta = {"voter_id": "v2", "neighborhood": "south"}
prof = ApprovalProfile([b1, b2], instance=inst)
out = election_as_pabulib_string(inst, prof)
ok = True
try:
    inst2, prof2 = parse_pabulib_from_string(out)
    if inst2.meta["description"] != inst.meta["description"]:
        ok = False
        print("FAIL description:", inst2.meta["description"])
    if inst2.project_meta[p1].get("name") != 'Park; with "trees"':
        ok = False
        print("FAIL project name:", inst2.project_meta[p1])
    if [b.meta for b in prof2] != [b1.meta, b2.meta]:
        ok = False
        print("FAIL ballot meta:", [b.meta for b in prof2])
    ok &= list(prof2) == list(prof) and {p.name: p.cost for p in inst2} == {"p1": 40, "p2": 50}
except Exception as e:
    ok = False
    print("FAIL:", type(e).__name__, e)
print("OK" if ok else "FAIL")
sys.exit(0 if ok else 1)
