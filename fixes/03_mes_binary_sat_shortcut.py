"""R3: MES on approval profiles with voter-normalised measures: the default (binary_sat shortcut)
must give the same result as binary_sat=False."""
import random
import sys

from pabutools.election import (
    Instance,
    Project,
    ApprovalProfile,
    ApprovalBallot,
    Cost_Sat,
    Cardinality_Sat,
    Relative_Cardinality_Sat,
    Relative_Cost_Sat,
    Relative_Cost_Approx_Normaliser_Sat,
)
from pabutools.rules import method_of_equal_shares

fails = []


def check(label, costs, budget, ballots, sat):
    projects = [Project(f"p{i}", c) for i, c in enumerate(costs)]
    instance = Instance(projects, budget_limit=budget)
    profile = ApprovalProfile(
        [ApprovalBallot(projects[i] for i in b) for b in ballots], instance=instance
    )
    ref = sorted(method_of_equal_shares(instance, profile, sat_class=sat, binary_sat=False))
    try:
        got = sorted(method_of_equal_shares(instance, profile, sat_class=sat))
    except Exception as e:
        fails.append(f"{label} {sat.__name__}: default call raised {type(e).__name__}: {e}")
        return
    if got != ref:
        fails.append(
            f"{label} {sat.__name__}: costs={costs} budget={budget} ballots={ballots}: "
            f"default {got} != binary_sat=False {ref}"
        )


check("example", [4, 1, 1], 3, [[1, 2], [0, 2], [], [1]], Relative_Cardinality_Sat)

rng = random.Random(0)
for n in range(400):
    m = rng.randint(2, 5)
    costs = [rng.randint(1, 5) for _ in range(m)]
    budget = rng.randint(1, 8)
    ballots = [
        [i for i in range(m) if rng.random() < 0.5] for _ in range(rng.randint(1, 5))
    ]
    for sat in (
        Cost_Sat,
        Cardinality_Sat,
        Relative_Cardinality_Sat,
        Relative_Cost_Sat,
        Relative_Cost_Approx_Normaliser_Sat,
    ):
        check(f"random{n}", costs, budget, ballots, sat)

if fails:
    print("FAIL", len(fails))
    for f in fails[:6]:
        print("  ", f)
    sys.exit(1)
print("OK")
