"""D7b: extra voter columns must survive parse(write(e)) and not leak into the PROJECTS section."""
import sys
from pabutools.election.pabulib import parse_pabulib_from_string, election_as_pabulib_string

content = """META
key;value
description;d
country;c
unit;u
instance;i
num_projects;2
num_votes;2
budget;100
vote_type;approval
rule;greedy
PROJECTS
project_id;cost;name
1;40;first
2;50;second
VOTES
voter_id;age;neighborhood;vote;education
v1;33;north;1,2;high
v2;44;south;2;low
"""
ok = True
inst, prof = parse_pabulib_from_string(content)
expected = [
    {"voter_id": "v1", "age": "33", "neighborhood": "north", "education": "high"},
    {"voter_id": "v2", "age": "44", "neighborhood": "south", "education": "low"},
]
if [b.meta for b in prof] != expected:
    ok = False
    print("FAIL parser: ballot meta", [b.meta for b in prof])
out = election_as_pabulib_string(inst, prof)
lines = out.splitlines()
proj_header = lines[lines.index("PROJECTS") + 1]
vote_header = lines[lines.index("VOTES") + 1]
if "neighborhood" in proj_header.split(";") or "education" in proj_header.split(";"):
    ok = False
    print("FAIL writer: voter columns in PROJECTS header:", proj_header)
if "neighborhood" not in vote_header.split(";") or "education" not in vote_header.split(";"):
    ok = False
    print("FAIL writer: voter columns missing in VOTES header:", vote_header)
inst2, prof2 = parse_pabulib_from_string(out)
if [b.meta for b in prof2] != expected:
    ok = False
    print("FAIL round trip: ballot meta", [b.meta for b in prof2])
if inst2.project_meta != inst.project_meta:
    ok = False
    print("FAIL round trip: project meta", inst2.project_meta)
print("OK" if ok else "FAIL")
sys.exit(0 if ok else 1)
