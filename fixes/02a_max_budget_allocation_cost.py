"""D2a: max_budget_allocation_cost must be exact for fractional costs (1/3 + 1/7 = 10/21)."""
import sys
from pabutools.election import Project
from pabutools.election.instance import max_budget_allocation_cost
from pabutools.fractions import frac

projects = [Project("a", frac(1, 3)), Project("b", frac(1, 7)), Project("c", 2)]
res = max_budget_allocation_cost(projects, 1)
ok = res == frac(10, 21)
ok &= max_budget_allocation_cost([Project("a", 3), Project("b", 4)], 5) == 4
ok &= max_budget_allocation_cost([], 5) == 0
print("OK" if ok else "FAIL: got {} instead of 10/21".format(res))
sys.exit(0 if ok else 1)
