"""R5: irresolute completion_by_rule_combination must complete every partial outcome."""
import sys

from pabutools.election import Instance, Project, ApprovalProfile, ApprovalBallot, Cost_Sat
from pabutools.rules import (
    method_of_equal_shares,
    greedy_utilitarian_welfare,
    completion_by_rule_combination,
)

p = [Project(f"p{i}", c) for i, c in enumerate([3, 1, 3, 2, 2])]
instance = Instance(p, budget_limit=4)
profile = ApprovalProfile(
    [ApprovalBallot([p[0], p[2], p[4]]), ApprovalBallot([p[0], p[1], p[2]])], instance=instance
)


def canon(allocs):
    return sorted(sorted(str(x) for x in a) for a in allocs)


first = method_of_equal_shares(instance, profile, sat_class=Cost_Sat, resoluteness=False)
print("MES outcomes:", canon(first))

# every partial outcome completed separately by the second rule
expected = []
for alloc in first:
    if instance.is_exhaustive(alloc):
        completed = [alloc]
    else:
        completed = greedy_utilitarian_welfare(
            instance, profile, sat_class=Cost_Sat, initial_budget_allocation=alloc, resoluteness=False
        )
    for c in completed:
        if sorted(c) not in [sorted(e) for e in expected]:
            expected.append(c)

got = completion_by_rule_combination(
    instance,
    profile,
    [method_of_equal_shares, greedy_utilitarian_welfare],
    [{"sat_class": Cost_Sat}, {"sat_class": Cost_Sat}],
    resoluteness=False,
)
print("completed:", canon(got))
print("expected :", canon(expected))
if canon(got) != canon(expected):
    print("FAIL")
    sys.exit(1)
print("OK")
