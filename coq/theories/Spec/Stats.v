(* Spec/Stats.v -- textbook definitions of the descriptive statistics, stated on the list of
   VOTERS (each voter once; no multiplicities, no incremental updates, no sorting).
   These are what the oracle compares the implementation with; Proofs/StatsP.v relates the
   executable mirror of the code (Model/Analysis.v) to them. *)
From PB Require Export Model.Analysis.
Open Scope Q_scope.

(* ---------- elementary statistics of a vector ---------- *)

(* arithmetic mean; Coq's x / 0 = 0, i.e. the mean of the empty vector is 0 (as the code returns) *)
Definition mean (l : list Q) : Q := Qsum l / Qnat (length l).

(* weighted mean of (value, multiplicity) pairs: sum v*mul / sum mul *)
Definition wsum (l : list (Q * nat)) : Q := Qsum (map (fun c => fst c * Qnat (snd c)) l).
Definition wcount (l : list (Q * nat)) : nat := fold_right (fun c n => (snd c + n)%nat) O l.
Definition wmean (l : list (Q * nat)) : Q := wsum l / Qnat (wcount l).

(* Gini coefficient: half the relative mean absolute difference,
   sum_i sum_j |x_i - x_j| / (2 n sum x); 0 for the all-zero vector (0/0 = 0) *)
Definition pair_abs_sum (l : list Q) : Q :=
  Qsum (map (fun x => Qsum (map (fun y => Qabs (x - y)) l)) l).
Definition gini (l : list Q) : Q := pair_abs_sum l / (2 * Qnat (length l) * Qsum l).

(* order statistics without sorting: the k-th smallest (k from 0) is the element with at most k
   elements strictly below it and more than k elements at or below it *)
Definition count_lt (l : list Q) (x : Q) : nat := length (filter (fun y => Qltb y x) l).
Definition count_le (l : list Q) (x : Q) : nat := length (filter (fun y => Qleb y x) l).
Definition is_kth (l : list Q) (k : nat) (x : Q) : bool :=
  Nat.leb (count_lt l x) k && Nat.ltb k (count_le l x).
Definition kth (l : list Q) (k : nat) : Q :=
  match find (is_kth l k) l with Some x => x | None => 0 end.
(* median: the middle order statistic, or the mean of the two middle ones *)
Definition median_os (l : list Q) : Q :=
  let n := length l in
  if Nat.even n then (kth l (n / 2 - 1) + kth l (n / 2)) / 2 else kth l (n / 2).

(* population variance *)
Definition variance (l : list Q) : Q :=
  Qsum (map (fun c => (c - mean l) * (c - mean l)) l) / Qnat (length l).

(* ---------- histogram ---------- *)

(* bins of the satisfaction histogram with k bins over [0, mx]: bin 0 holds satisfaction 0,
   bin j (0 < j) the interval ((j-1) mx/(k-1), j mx/(k-1)], the last bin also everything >= mx.
   bin_of searches the first upper edge that is not below s. *)
Fixpoint first_edge (mx sk : Q) (j : nat) (fuel : nat) : nat :=
  match fuel with
  | O => j
  | S f => if Qleb sk (Qnat j * mx) then j else first_edge mx sk (S j) f
  end.
Definition bin_of (k : nat) (mx s : Q) : nat := first_edge mx (s * Qnat (pred k)) 0 (pred k).

Definition count_b {A} (f : A -> bool) (l : list A) : nat := length (filter f l).

(* share of the voters whose satisfaction falls into bin j *)
Definition hist_share (k : nat) (mx : Q) (S : list Q) (j : nat) : Q :=
  Qnat (count_b (fun s => Nat.eqb (bin_of k mx s) j) S) / Qnat (length S).
Definition histogram (k : nat) (mx : Q) (S : list Q) : list Q := map (hist_share k mx S) (seq 0 k).

(* ---------- statistics of an election: V = the ballots of the voters, one entry per voter ---------- *)

Definition n_containing (V : list bal) (p : proj) : Q := Qnat (count_b (fun b => bhas b p) V).
Definition score_sum (V : list bal) (p : proj) : Q := Qsum (map (fun b => bscore b p) V).
(* number of voters who voted for both a and b; on the diagonal (as the library defines it): the number
   of voters who voted for a and for nothing else *)
Definition flow (V : list bal) (a b : proj) : Q :=
  if Nat.eqb a b then Qnat (count_b (fun bl => Nat.eqb (length bl) 1 && bhas bl a) V)
  else Qnat (count_b (fun bl => bhas bl a && bhas bl b) V).

Definition share_positive (S : list Q) : Q := Qnat (count_b (fun s => Qltb 0 s) S) / Qnat (length S).

(* category proportionality: mean over the categories of the squared difference between the share of
   the allocation's cost and the voters' average share of their ballot's cost going to the category *)
Definition cat_msd (I : inst) (pcats : list (list nat)) (ncat : nat) (V : list bal) (W : list proj) : Q :=
  let a c := cat_cost I pcats c W / tcost I W in
  let v c := mean (map (fun b => cat_cost I pcats c (bprojs b) / bcost I b) V) in
  mean (map (fun c => (a c - v c) * (a c - v c)) (seq 0 ncat)).

(* the voters behind a profile object *)
Definition expandP (P : prof) : list bal := flat_map (fun c => repeat (fst c) (snd c)) P.
