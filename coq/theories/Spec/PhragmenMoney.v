(* Spec/PhragmenMoney.v -- the continuous-money process that DEFINES sequential Phragmen
   (property C05), written on clock time and money balances only: no loads, no "new maximum
   load".  Definitions only (the relation, and an executable run); proofs in Proofs/PhragmenP.v.

   The process.  Every voter earns one unit of money per unit of time.  A state is the clock
   [now] and one balance per voter (per copy of a ballot class; a class of multiplicity k stands
   for k voters with that balance).  A remaining project p that has at least one supporter is DUE
   at the moment t at which its supporters together hold exactly its cost:
        holdings(p) + nsupp(p) * (t - now) = cost(p)         ([buy_time]).
   The clock jumps to the earliest due moment t over the remaining supported projects.  If SOME
   project due at t would push the total cost over the budget, the process stops (stop rule under
   ties: whichever due project the tie-breaking rule would have taken first -- DESIGN.md C05).
   Otherwise the due project that comes first in tie-breaking order (smallest key, equal keys by
   name) is bought: its supporters' balances drop to 0, everybody else keeps what he holds at t.

   Conventions of the implementation that the property's quantifier takes as given:
   (a) projects dearer than the whole budget (and those already in the initial allocation) are
       not part of the process at all ([money_projects]);
   (b) when no remaining project has a supporter, ALL remaining projects count as due together
       "at the end of time": the same stop rule applies (stop if some remaining project does not
       fit), otherwise the first one in tie-breaking order is added, and so on.
   Initial loads: a voter who starts with load l starts with balance -l at time 0 (a debt), or
   equivalently balance (T - l) at any time T.  With unequal initial loads a balance can be
   negative and a project can be "over-funded" (holdings > cost) when a debtor's balance is reset
   to 0; its due moment then lies in the PAST and it is bought at that virtual time.  In a
   [regular] state (no debts, nothing over-funded -- in particular from equal initial loads) the
   clock only moves forward and [buy_time] is the least t >= now at which the supporters hold the
   cost (Proofs/PhragmenP.v: [regular_step], [buy_time_future]). *)
From PB Require Export Base.Election.
Open Scope Q_scope.

Record mstate := mkM { now : Q; bal : list Q }.

(* number of voters approving p *)
Definition nsupp (P : list aballot) (p : proj) : Q :=
  Qsum (map (fun b => if approves b p then Qnat (amul b) else 0) P).
Definition supported (P : list aballot) (p : proj) : bool := negb (Qeqb (nsupp P p) 0).

(* money held right now by the supporters of p together *)
Definition holdings (P : list aballot) (bs : list Q) (p : proj) : Q :=
  Qsum (map (fun bx => if approves (fst bx) p then Qnat (amul (fst bx)) * snd bx else 0)
            (combine P bs)).
(* ... and at clock time t, if nothing is bought in between *)
Definition holdings_at (P : list aballot) (st : mstate) (p : proj) (t : Q) : Q :=
  holdings P (bal st) p + nsupp P p * (t - now st).

Definition buy_time (I : inst) (P : list aballot) (st : mstate) (p : proj) : Q :=
  now st + (cost I p - holdings P (bal st) p) / nsupp P p.

(* the clock moves to t, p is bought: its supporters pay all they hold.  ([Qred] is the identity
   up to ==; it keeps the executable run fast.) *)
Definition pay (P : list aballot) (st : mstate) (p : proj) (t : Q) : mstate :=
  mkM (Qred t)
      (map (fun bx => if approves (fst bx) p then 0 else Qred (snd bx + (t - now st)))
           (combine P (bal st))).

Definition fitsb (I : inst) (alloc : list proj) (p : proj) : bool :=
  Qleb (tcost I alloc + cost I p) (budget I).

Definition drop (p : proj) (l : list proj) : list proj := filter (fun q => negb (Nat.eqb q p)) l.

(* least element of d :: l *)
Fixpoint earliest (d : Q) (l : list Q) : Q :=
  match l with
  | [] => d
  | x :: r => let m := earliest d r in if Qleb x m then x else m
  end.

(* one round: what is due now, and when *)
Inductive mround := MDone | MStop | MBuy (due : list proj) (t : option Q).

Definition money_round (I : inst) (P : list aballot) (st : mstate)
           (rem alloc : list proj) : mround :=
  match rem with
  | [] => MDone
  | _ :: _ =>
      match filter (supported P) rem with
      | [] => (* convention (b) *)
          if forallb (fitsb I alloc) rem then MBuy rem None else MStop
      | q :: r =>
          let bt := buy_time I P st in
          let t := earliest (bt q) (map bt r) in
          let due := filter (fun p => Qeqb (bt p) t) (q :: r) in
          if forallb (fitsb I alloc) due then MBuy due (Some t) else MStop
      end
  end.

Definition after (P : list aballot) (st : mstate) (p : proj) (t : option Q) : mstate :=
  match t with Some t => pay P st p t | None => st end.

(* resolute run: the due project first in tie-breaking order is bought *)
Fixpoint money_res (fuel : nat) (I : inst) (P : list aballot) (tb : proj -> Q)
         (st : mstate) (rem alloc : list proj) : option (list proj) :=
  match money_round I P st rem alloc with
  | MDone | MStop => Some alloc
  | MBuy due t =>
      match fuel with
      | O => None
      | S f =>
          match tie_order tb (name_sort due) with
          | [] => None
          | p :: _ => money_res f I P tb (after P st p t) (drop p rem) (alloc ++ [p])
          end
      end
  end.

Fixpoint oconcat {A} (l : list (option (list A))) : option (list A) :=
  match l with
  | [] => Some []
  | x :: r => match x, oconcat r with
              | Some a, Some b => Some (a ++ b)
              | _, _ => None
              end
  end.

(* irresolute run: every due project is tried *)
Fixpoint money_irr (fuel : nat) (I : inst) (P : list aballot) (tb : proj -> Q)
         (st : mstate) (rem alloc : list proj) : option (list (list proj)) :=
  match money_round I P st rem alloc with
  | MDone | MStop => Some [alloc]
  | MBuy due t =>
      match fuel with
      | O => None
      | S f =>
          oconcat (map (fun p => money_irr f I P tb (after P st p t) (drop p rem) (alloc ++ [p]))
                       (tie_order tb (name_sort due)))
      end
  end.

(* convention (a) *)
Definition money_projects (I : inst) (enum init : list proj) : list proj :=
  filter (fun p => negb (memb p init) && Qleb (cost I p) (budget I)) enum.

(* initial loads as debts at time 0 *)
Definition money_start (loads : list Q) : mstate := mkM 0 (map Qopp loads).

Definition money_process_res (I : inst) (P : list aballot) (tb : proj -> Q) (enum : list proj)
           (loads : list Q) (init : list proj) : option (list proj) :=
  let rem := money_projects I enum init in
  money_res (S (length rem)) I P tb (money_start loads) rem init.

Definition money_process_irr (I : inst) (P : list aballot) (tb : proj -> Q) (enum : list proj)
           (loads : list Q) (init : list proj) : option (list (list proj)) :=
  let rem := money_projects I enum init in
  money_irr (S (length rem)) I P tb (money_start loads) rem init.

(* ---------- the same process as a transition relation ---------- *)

Definition conf := (mstate * list proj * list proj)%type.      (* state, remaining, bought *)

Definition due_at (I : inst) (P : list aballot) (st : mstate) (rem : list proj) (t : Q) (p : proj) : Prop :=
  In p rem /\ supported P p = true /\ holdings_at P st p t == cost I p.
Definition earliest_due (I : inst) (P : list aballot) (st : mstate) (rem : list proj) (t : Q) : Prop :=
  (exists p, due_at I P st rem t p) /\
  (forall q t', due_at I P st rem t' q -> t <= t').
Definition fits (I : inst) (alloc : list proj) (p : proj) : Prop :=
  tcost I alloc + cost I p <= budget I.
(* first of the candidates in tie-breaking order: least key, equal keys by name *)
Definition tb_first (tb : proj -> Q) (C : proj -> Prop) (p : proj) : Prop :=
  C p /\ forall q, C q -> tb p < tb q \/ (tb p == tb q /\ (p <= q)%nat).
Definition unsupported_all (P : list aballot) (rem : list proj) : Prop :=
  forall q, In q rem -> supported P q = false.

(* [money_step ... c c'] : one purchase; [choice] = tb_first tb for the resolute process and
   (fun C p => C p) for the irresolute one *)
Inductive money_step (I : inst) (P : list aballot)
          (choice : (proj -> Prop) -> proj -> Prop) : conf -> conf -> Prop :=
| ms_buy : forall st rem alloc t p,
    earliest_due I P st rem t ->
    (forall q, due_at I P st rem t q -> fits I alloc q) ->
    choice (due_at I P st rem t) p ->
    money_step I P choice (st, rem, alloc) (pay P st p t, drop p rem, alloc ++ [p])
| ms_tail : forall st rem alloc p,
    unsupported_all P rem ->
    (forall q, In q rem -> fits I alloc q) ->
    choice (fun q => In q rem) p ->
    money_step I P choice (st, rem, alloc) (st, drop p rem, alloc ++ [p]).

(* the process has ended: nothing left, or some due project would overshoot *)
Definition money_halted (I : inst) (P : list aballot) (c : conf) : Prop :=
  let '(st, rem, alloc) := c in
  rem = [] \/
  (exists t q, earliest_due I P st rem t /\ due_at I P st rem t q /\ ~ fits I alloc q) \/
  (unsupported_all P rem /\ exists q, In q rem /\ ~ fits I alloc q).

Inductive money_outcome (I : inst) (P : list aballot)
          (choice : (proj -> Prop) -> proj -> Prop) : conf -> list proj -> Prop :=
| mo_halt : forall st rem alloc, money_halted I P (st, rem, alloc) ->
    money_outcome I P choice (st, rem, alloc) alloc
| mo_step : forall c c' W, money_step I P choice c c' -> money_outcome I P choice c' W ->
    money_outcome I P choice c W.

(* a state without debts in which nothing is over-funded: the clock only moves forward from it *)
Definition regular (I : inst) (P : list aballot) (st : mstate) (rem : list proj) : Prop :=
  Forall (fun b => 0 <= b) (bal st) /\
  forall q, In q rem -> supported P q = true -> holdings P (bal st) q <= cost I q.
