(* Spec/SatSpec.v -- the documented formulas of the satisfaction measures, written directly on sets
   (closed form over W ∩ ballot, brute-force optima as normalisers).  Executable: the case-file oracle
   evaluates them on the implementation's inputs; Proofs/SatisfactionP.v proves the model equal to them. *)
From PB Require Export Model.Satisfaction.
Open Scope Q_scope.

(* W ∩ ballot, as the sub-list of W *)
Definition inter (b : ballot) (W : list proj) : list proj := filter (inb b) W.

(* x / N, and 0 when N is 0 *)
Definition quot (x N : Q) : Q := if Qeqb N 0 then 0 else x / N.

(* the voters of a profile, one ballot per voter *)
Definition expandP (P : profile) : list ballot := flat_map (fun bm => repeat (fst bm) (snd bm)) P.
(* number of voters whose ballot contains p *)
Definition voters (P : profile) (p : proj) : nat := length (filter (fun b' => inb b' p) (expandP P)).

(* |W ∩ A| *)
Definition card_spec (b : ballot) (W : list proj) : Q := Qnat (length (inter b W)).
(* c(W ∩ A) *)
Definition cost_spec (I : inst) (b : ballot) (W : list proj) : Q := tcost I (inter b W).
(* |W ∩ A| / max{|S| : S ⊆ A, c(S) <= B} *)
Definition rel_card_spec (I : inst) (b : ballot) (W : list proj) : Q :=
  quot (card_spec b W) (Qnat (max_card_bf (bcosts I b) (budget I))).
(* c(W ∩ A) / max{c(S) : S ⊆ A, c(S) <= B} *)
Definition rel_cost_spec (I : inst) (b : ballot) (W : list proj) : Q :=
  quot (cost_spec I b W) (max_cost_bf (bcosts I b) (budget I)).
(* c(W ∩ A) / min(c(A), B) *)
Definition rel_cost_approx_spec (I : inst) (b : ballot) (W : list proj) : Q :=
  quot (cost_spec I b W) (Qmin (tcost I (bmem b)) (budget I)).
(* Σ_{p ∈ W ∩ A} c(p) / |{voters i : p ∈ A_i}| *)
Definition effort_spec (I : inst) (P : profile) (b : ballot) (W : list proj) : Q :=
  Qsum (map (fun p => quot (cost I p) (Qnat (voters P p))) (inter b W)).
(* Σ_{p ∈ W} score(p) *)
Definition add_card_spec (b : ballot) (W : list proj) : Q := Qsum (map (bget b) W).
(* Σ_{p ∈ W} score(p) / max{score(S) : S ⊆ instance, c(S) <= B} *)
Definition add_card_rel_spec (I : inst) (b : ballot) (W : list proj) : Q :=
  quot (add_card_spec b W) (max_score_bf (score_items I b) (budget I)).
(* Borda: Σ_{p ∈ W ∩ ballot} number of projects ranked below p *)
Definition below (b : ballot) (p : proj) : nat := length (skipn (S (bpos b p)) b).
Definition borda_spec (b : ballot) (W : list proj) : Q :=
  Qsum (map (fun p => Qnat (below b p)) (inter b W)).
(* Chamberlin-Courant, approval: 1 iff W ∩ A is non-empty *)
Definition cc_app_spec (b : ballot) (W : list proj) : Q :=
  match inter b W with [] => 0 | _ :: _ => 1 end.
(* Chamberlin-Courant, cardinal: the largest score of a project of W ∩ ballot (0 if none is positive) *)
Definition cc_card_spec (b : ballot) (W : list proj) : Q := Qmax_list (map (bget b) (inter b W)).
