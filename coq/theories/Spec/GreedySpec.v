(* Spec/GreedySpec.v -- the declarative definition of the greedy welfare rule (DEFINITIONS ONLY).

   State: the allocation built so far (a list, initial allocation first).  A project [fits] when it belongs to the
   instance, is not selected yet and its cost still fits.  A round extends the allocation by a project that fits and
   has the largest gain in total satisfaction per unit of cost ([best]; zero cost counts as +infinity); when several
   do, the tie-breaking rule picks the one with the smallest key, the smallest rank (name order) among equal keys
   ([tb_first] -- this is "first element of tie_order tb (rank-sorted argmax)").  The run stops when nothing fits.

     greedy_run tb_first init W    the resolute rule: W is THE allocation produced (greedy_run_deterministic)
     greedy_run best     init W    some way of breaking the ties produces W (irresolute outcomes) *)
From PB Require Export Base.Election.
Open Scope Q_scope.

Definition Qx_le (a b : Qx) : Prop :=
  match a, b with
  | _, PInf => True
  | PInf, Fin _ => False
  | Fin x, Fin y => x <= y
  end.

Section Spec.
Variable I : inst.
Variable sat : list proj -> Q.   (* total satisfaction of a list of projects *)
Variable tb : proj -> Q.         (* tie-breaking key *)

Definition fits (alloc : list proj) (p : proj) : Prop :=
  (p < nproj I)%nat /\ ~ In p alloc /\ tcost I alloc + cost I p <= budget I.

Definition density (alloc : list proj) (p : proj) : Qx :=
  if Qlt_le_dec 0 (cost I p) then Fin ((sat (alloc ++ [p]) - sat alloc) / cost I p) else PInf.

Definition best (alloc : list proj) (p : proj) : Prop :=
  fits alloc p /\ forall q, fits alloc q -> Qx_le (density alloc q) (density alloc p).

Definition tb_first (alloc : list proj) (p : proj) : Prop :=
  best alloc p /\ forall q, best alloc q -> tb p < tb q \/ (tb p == tb q /\ (p <= q)%nat).

Inductive greedy_run (choice : list proj -> proj -> Prop) : list proj -> list proj -> Prop :=
| gr_stop : forall alloc, (forall p, ~ fits alloc p) -> greedy_run choice alloc alloc
| gr_step : forall alloc p W,
    choice alloc p -> greedy_run choice (alloc ++ [p]) W -> greedy_run choice alloc W.

End Spec.
