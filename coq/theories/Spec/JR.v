(* Spec/JR.v -- the proportionality notions checked by pabutools/analysis/justifiedrepresentation.py,
   written from the published definitions (Aziz-Lee-Talmon 2018; Peters-Pierczynski-Skowron 2021;
   Brill-Forster-Lackner-Maly-Peters 2023), NOT from the code.  Definitions only.

   Setting.  [P] is the profile, one entry per voter (two voters with equal ballots are two entries);
   a group is a non-empty sub-list of [P]; a project set [T] is a duplicate-free list of projects of
   the instance (its order is irrelevant to every definition below).
     approves i p   voter i approves project p                         (approval ballots)
     score i p      the score voter i gives to p                        (cardinal ballots)
     ut i p         the satisfaction voter i derives from project p under the measure in use;
                    measures are additive: sat_i(X) = sum of ut i p over X.  For an approval measure
                    ut i p = pv p if i approves p and 0 otherwise (Cost_Sat: pv = cost, Cardinality_Sat:
                    pv = 1), so sat_i(X) is the published sat(A_i /\ X); for Additive_Cardinal_Sat
                    ut = score.
     pv p           the value of project p under the approval measure, as such (used by PJR, which
                    speaks about the satisfaction of a set of projects, not of a voter).

   "Large enough": S deserves T when cost(T)/B <= |S|/n, stated without division.

   The "up to" relaxations are taken in the WEAK form  sat(W) + surplus >= threshold  where parts of
   the literature require a strict inequality after adding a project.  The weak form is what the
   module describes (surplus = min resp. max satisfaction of a project of T outside W), it makes the
   chain strong => plain => up-to-any => up-to-one true, and the Equal Shares guarantees (stated with
   the strict form) imply it.  In "up to one" the added project ranges over T outside W, as in the module;
   letting it range over all projects outside W (as some papers do) gives a requirement that is no stronger.

   The cohesiveness definitions ask for T <> [] like the code does; this only removes a vacuous case (every
   threshold of the empty set is 0: Proofs/JRP.v, sat_upto_empty_T).  The core quantifies over the empty T
   too, again like the code. *)
From PB Require Export Base.JRAux.
Open Scope Q_scope.

Inductive relax := Plain | UpToAny | UpToOne.

(* "satisfaction sW reaches the threshold thr, up to ...", where a project p of T outside W would add uf p:
   Plain:    thr <= sW
   UpToAny:  whichever project of T outside W is added, the threshold is reached
   UpToOne:  the threshold is reached already, or after adding one suitable project of T outside W *)
Definition sat_upto (r : relax) (uf : proj -> Q) (T W : list proj) (sW thr : Q) : Prop :=
  match r with
  | Plain => thr <= sW
  | UpToAny => forall p, In p T -> ~ In p W -> thr <= sW + uf p
  | UpToOne => thr <= sW \/ exists p, In p T /\ ~ In p W /\ thr <= sW + uf p
  end.

(* the relaxations ordered by strength: Plain is the strongest requirement, UpToOne the weakest *)
Definition relax_le (r r' : relax) : Prop :=
  match r, r' with
  | Plain, _ => True
  | UpToAny, Plain => False
  | UpToAny, _ => True
  | UpToOne, UpToOne => True
  | UpToOne, _ => False
  end.

(* smallest / largest value of g over a non-empty group *)
Definition gmin {V} (g : V -> Q) (S : list V) : Q := qmin_default 0 (map g S).
Definition gmax {V} (g : V -> Q) (S : list V) : Q := qmax_default 0 (map g S).

Section JR.
Variable I : inst.
Variable V : Type.
Variable P : list V.
Variable approves : V -> proj -> bool.
Variable score : V -> proj -> Q.
Variable ut : V -> proj -> Q.
Variable pv : proj -> Q.

Definition sat (i : V) (X : list proj) : Q := Qsum (map (ut i) X).
Definition val (X : list proj) : Q := Qsum (map pv X).

Definition is_group (S : list V) : Prop := sublist S P /\ S <> [].
Definition is_pset (T : list proj) : Prop := NoDup T /\ forall p, In p T -> (p < nproj I)%nat.

(* cost(T) / B <= |S| / n *)
Definition large_enough (S : list V) (T : list proj) : Prop :=
  tcost I T * Qnat (length P) <= Qnat (length S) * budget I.

(* ---- the core (any additive utilities; approval and cardinal ballots alike) ----
   W is in the core when no group S can point at a set T it could afford with its share of the budget
   and that EVERY member strictly prefers: for all S, T with S large enough for T, some member is at
   least as satisfied with W as with T ([core_no_blocking] in Proofs/JRP.v is the negative form). *)
Definition core (r : relax) (W : list proj) : Prop :=
  forall S T, is_group S -> is_pset T -> large_enough S T ->
  exists i, In i S /\ sat_upto r (ut i) T W (sat i W) (sat i T).

(* ---- approval ballots ---- *)
(* S is T-cohesive: S is large enough for T and every member approves all of T *)
Definition cohesive_app (S : list V) (T : list proj) : Prop :=
  is_group S /\ is_pset T /\ T <> [] /\ large_enough S T /\
  (forall i p, In i S -> In p T -> approves i p = true).

(* strong EJR: every member of a T-cohesive group is at least as satisfied with W as with T *)
Definition strong_EJR_app (W : list proj) : Prop :=
  forall S T, cohesive_app S T -> forall i, In i S -> sat i T <= sat i W.

(* EJR (and up-to-any / up-to-one): some member is *)
Definition EJR_app (r : relax) (W : list proj) : Prop :=
  forall S T, cohesive_app S T -> exists i, In i S /\ sat_upto r (ut i) T W (sat i W) (sat i T).

(* PJR: the part of W approved by at least one member is worth at least T *)
Definition approved_by (S : list V) (p : proj) : bool := existsb (fun i => approves i p) S.
Definition PJR_app (r : relax) (W : list proj) : Prop :=
  forall S T, cohesive_app S T -> sat_upto r pv T W (val (filter (approved_by S) W)) (val T).

(* ---- cardinal ballots ---- *)
(* S is (alpha,T)-cohesive: large enough for T and every member scores every p in T at least alpha p *)
Definition cohesive_card (S : list V) (T : list proj) (alpha : proj -> Q) : Prop :=
  is_group S /\ is_pset T /\ T <> [] /\ large_enough S T /\
  (forall i p, In i S -> In p T -> alpha p <= score i p).
Definition asum (alpha : proj -> Q) (T : list proj) : Q := Qsum (map alpha T).

Definition strong_EJR_card (W : list proj) : Prop :=
  forall S T alpha, cohesive_card S T alpha -> forall i, In i S -> asum alpha T <= sat i W.

Definition EJR_card (r : relax) (W : list proj) : Prop :=
  forall S T alpha, cohesive_card S T alpha ->
  exists i, In i S /\ sat_upto r (ut i) T W (sat i W) (asum alpha T).

(* PJR: the group as a whole values a project at the highest score one of its members gives it *)
Definition gscore (S : list V) (p : proj) : Q := gmax (fun i => score i p) S.
Definition PJR_card (r : relax) (W : list proj) : Prop :=
  forall S T alpha, cohesive_card S T alpha ->
  sat_upto r (gscore S) T W (Qsum (map (gscore S) W)) (asum alpha T).

(* ---- side conditions used by the theorems ---- *)
Definition ut_nonneg : Prop := forall i p, In i P -> 0 <= ut i p.
Definition score_nonneg : Prop := forall i p, In i P -> 0 <= score i p.
Definition pv_nonneg : Prop := forall p, 0 <= pv p.
(* the measure is an approval measure: what a voter gets from a project is its value if approved *)
Definition ut_approval : Prop :=
  forall i p, In i P -> ut i p == (if approves i p then pv p else 0).
(* Additive_Cardinal_Sat: the satisfaction is the score *)
Definition ut_is_score : Prop := forall i p, In i P -> ut i p == score i p.

End JR.
