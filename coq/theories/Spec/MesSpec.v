(* Spec/MesSpec.v -- the textbook Method of Equal Shares for additive utilities (DESIGN.md §4 C02).
   Independent of Model/MesRule.v: no sorting of supporters, no caches, no fast paths.

   State: the money [b_i] of every voter class (per copy).  For a project p with supporters
   S_p = { i | u_ip > 0 }:
       paid b rho p   = sum_{i in S_p} mul_i * min(b_i, rho * u_ip)
       is_rho b p rho = cost_p <= paid b rho p  /\  rho is the least such number
       affordable b p = cost_p <= sum_{i in S_p} mul_i * b_i
   A round buys the first project of  tie_order tb (argmin rho, in name order)  and charges every
   supporter min(b_i, rho * u_ip); the rule stops when nothing is affordable; supported zero-cost
   projects are always selected.

   Executable version [mes_spec]: the least rho of an affordable project is computed by linear
   interpolation of the piecewise-linear function [paid] between two adjacent breakpoints b_i/u_ip
   (the greatest with paid < cost and the least with paid >= cost) -- a different computation from
   the implementation's sorted sweep. *)
From PB Require Export Base.Election.
Open Scope Q_scope.

Section Election.
Variable costs : list Q.
Variable P : list vcls.
Variable tb : proj -> Q.

Definition s_cost (p : proj) : Q := nth p costs 0.
Definition s_util (i : nat) (p : proj) : Q := util (nth i P (mkV [] 0)) p.
Definition s_mul (i : nat) : Q := Qnat (vmul (nth i P (mkV [] 0))).
Definition s_bud (b : list Q) (i : nat) : Q := nth i b 0.

Definition s_supporters (p : proj) : list nat :=
  filter (fun i => Qltb 0 (s_util i p)) (seq 0 (length P)).

(* ---------- declarative part ---------- *)

Definition paid (b : list Q) (rho : Q) (p : proj) : Q :=
  Qsum (map (fun i => s_mul i * Qmin (s_bud b i) (rho * s_util i p)) (s_supporters p)).

Definition is_rho (b : list Q) (p : proj) (rho : Q) : Prop :=
  s_cost p <= paid b rho p /\ forall rho', s_cost p <= paid b rho' p -> rho <= rho'.

Definition supp_money (b : list Q) (p : proj) : Q :=
  Qsum (map (fun i => s_mul i * s_bud b i) (s_supporters p)).

Definition affordable (b : list Q) (p : proj) : Prop := s_cost p <= supp_money b p.

(* the money after p has been bought at price-per-utility rho *)
Definition charge (b : list Q) (rho : Q) (p : proj) : list Q :=
  map (fun i => if Qltb 0 (s_util i p) then s_bud b i - Qmin (s_bud b i) (rho * s_util i p)
                else s_bud b i) (seq 0 (length b)).

(* one textbook round from money b with candidate set [rem]: p is bought at rho *)
Definition spec_round (b : list Q) (rem : list proj) (p : proj) (rho : Q) : Prop :=
  In p rem /\ affordable b p /\ is_rho b p rho /\
  (forall q r, In q rem -> affordable b q -> is_rho b q r -> rho <= r) /\
  exists T, (forall q, In q T <-> In q rem /\ affordable b q /\ is_rho b q rho) /\
            StronglySorted lt T /\ hd_error (tie_order tb T) = Some p.

(* a complete run: the sequence of purchases *)
Inductive spec_run : list Q -> list proj -> list proj -> Prop :=
| spec_stop b rem : (forall q, In q rem -> ~ affordable b q) -> spec_run b rem []
| spec_buy b rem p rho b' W :
    spec_round b rem p rho ->
    (forall i, s_bud b' i == s_bud (charge b rho p) i) -> length b' = length b ->
    spec_run b' (filter (fun q => negb (Nat.eqb q p)) rem) W ->
    spec_run b rem (p :: W).

(* ---------- executable part ---------- *)

Definition affordableb (b : list Q) (p : proj) : bool := Qleb (s_cost p) (supp_money b p).

Definition breakpoints (b : list Q) (p : proj) : list Q :=
  0 :: map (fun i => s_bud b i / s_util i p) (s_supporters p).

Definition rho_interp (b : list Q) (p : proj) : option Q :=
  let c := s_cost p in
  let bps := breakpoints b p in
  match filter (fun t => Qleb c (paid b t p)) bps with
  | [] => None
  | h :: hr =>
      let hi := fold_left Qmin hr h in
      match filter (fun t => Qltb (paid b t p) c) bps with
      | [] => Some hi
      | l :: lr =>
          let lo := fold_left Qmax lr l in
          Some (Qred (lo + (c - paid b lo p) * (hi - lo) / (paid b hi p - paid b lo p)))
      end
  end.

Definition charge_red (b : list Q) (rho : Q) (p : proj) : list Q := map Qred (charge b rho p).

(* candidates of a round with their rho, in the order of [rem] *)
Definition rhos (b : list Q) (rem : list proj) : list (proj * Q) :=
  flat_map (fun p => if affordableb b p then
                       match rho_interp b p with Some r => [(p, r)] | None => [] end
                     else []) rem.

Definition argmin (l : list (proj * Q)) : option (Q * list proj) :=
  match l with
  | [] => None
  | (_, r0) :: t =>
      let best := fold_left (fun m x => Qmin m (snd x)) t r0 in
      Some (best, map fst (filter (fun x => Qeqb (snd x) best) l))
  end.

Definition drop (p : proj) (rem : list proj) : list proj := filter (fun q => negb (Nat.eqb q p)) rem.

(* resolute run; [rem] is kept in name (= rank) order *)
Fixpoint spec_exec (fuel : nat) (b : list Q) (rem : list proj) : option (list proj) :=
  match fuel with
  | O => None
  | S f =>
      match argmin (rhos b rem) with
      | None => Some []
      | Some (rho, T) =>
          match tie_order tb T with
          | [] => Some []
          | p :: _ =>
              match spec_exec f (charge_red b rho p) (drop p rem) with
              | Some W => Some (p :: W)
              | None => None
              end
          end
      end
  end.

(* irresolute: every tied project may be the one bought *)
Fixpoint spec_exec_all (fuel : nat) (b : list Q) (rem : list proj) : option (list (list proj)) :=
  match fuel with
  | O => None
  | S f =>
      match argmin (rhos b rem) with
      | None => Some [[]]
      | Some (rho, T) =>
          fold_left (fun res p =>
                       match res, spec_exec_all f (charge_red b rho p) (drop p rem) with
                       | Some L, Some L' => Some (L ++ map (cons p) L')
                       | _, _ => None
                       end) T (Some [])
      end
  end.

End Election.

(* ---------- the rule ---------- *)

Record spec_in := mkSpecIn {
  si_costs : list Q; si_budget : Q; si_voters : list vcls; si_tb : proj -> Q; si_init : list proj }.

Definition si_n (x : spec_in) : nat := length (si_costs x).
Definition si_cands (x : spec_in) : list proj :=
  filter (fun p => negb (memb p (si_init x))) (seq 0 (si_n x)).
Definition si_supported (x : spec_in) (p : proj) : bool :=
  match s_supporters (si_voters x) p with [] => false | _ => true end.
(* supported zero-cost projects: always in *)
Definition si_zeros (x : spec_in) : list proj :=
  filter (fun p => si_supported x p && Qleb (s_cost (si_costs x) p) 0) (si_cands x).
(* projects the rounds are about *)
Definition si_pool (x : spec_in) : list proj :=
  filter (fun p => si_supported x p && Qltb 0 (s_cost (si_costs x) p)) (si_cands x).
Definition si_tcost (x : spec_in) (W : list proj) : Q := Qsum (map (s_cost (si_costs x)) W).
(* every voter receives an equal share of what the initial allocation leaves of the budget *)
Definition si_share (x : spec_in) : Q :=
  (si_budget x - si_tcost x (si_init x)) / Qnat (nvoters (si_voters x)).

Definition spec_once (x : spec_in) (b0 : Q) : option (list proj) :=
  match spec_exec (si_costs x) (si_voters x) (si_tb x) (S (si_n x))
                  (repeat b0 (length (si_voters x))) (si_pool x) with
  | Some W => Some (si_init x ++ si_zeros x ++ W)
  | None => None
  end.
Definition spec_once_all (x : spec_in) (b0 : Q) : option (list (list proj)) :=
  match spec_exec_all (si_costs x) (si_voters x) (S (si_n x))
                      (repeat b0 (length (si_voters x))) (si_pool x) with
  | Some L => Some (map (fun W => si_init x ++ si_zeros x ++ W) L)
  | None => None
  end.

(* every voter receives (budget - cost of the initial allocation)/n *)
Definition mes_spec (x : spec_in) : option (list proj) := spec_once x (si_share x).
Definition mes_spec_all (x : spec_in) : option (list (list proj)) := spec_once_all x (si_share x).

(* iterated variant: add [inc] to every voter's endowment until the outcome is exhaustive (with
   respect to the pool) -- then it is returned -- or no longer feasible -- then the previous one is *)
Definition si_feasible (x : spec_in) (W : list proj) : bool := Qleb (si_tcost x W) (si_budget x).
Definition si_exhaustive (x : spec_in) (W : list proj) : bool :=
  forallb (fun p => memb p W || Qltb (si_budget x) (s_cost (si_costs x) p + si_tcost x W)) (si_pool x).

Fixpoint spec_iter (fuel : nat) (x : spec_in) (inc b0 : Q) (prev : option (list proj))
  : option (list proj) :=
  match fuel with
  | O => None
  | S f =>
      match spec_once x b0 with
      | None => None
      | Some W =>
          if negb (si_feasible x W) then prev
          else if si_exhaustive x W then Some W
          else spec_iter f x inc (Qred (b0 + inc)) (Some W)
      end
  end.
Definition mes_spec_iter (fuel : nat) (x : spec_in) (inc : Q) : option (list proj) :=
  spec_iter fuel x inc (si_share x) None.

Fixpoint spec_iter_all (fuel : nat) (x : spec_in) (inc b0 : Q) (prev : option (list (list proj)))
  : option (list (list proj)) :=
  match fuel with
  | O => None
  | S f =>
      match spec_once_all x b0 with
      | None => None
      | Some L =>
          if existsb (fun W => negb (si_feasible x W)) L then prev
          else if existsb (si_exhaustive x) L then Some L
          else spec_iter_all f x inc (Qred (b0 + inc)) (Some L)
      end
  end.
Definition mes_spec_iter_all (fuel : nat) (x : spec_in) (inc : Q) : option (list (list proj)) :=
  spec_iter_all fuel x inc (si_share x) None.
