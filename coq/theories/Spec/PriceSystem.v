(* Spec/PriceSystem.v -- (stable) priceability of a budget allocation for an approval profile with
   multiplicities 1, as propositions over a voter budget [b] and payments [pay : voter -> project -> Q].
   Conditions are named as in pabutools/analysis/priceability.py (C0a, C0b, C1..C5, S5); P0 is the
   non-negativity of payments that the definition of a price system requires (payment functions map into
   the non-negative reals).  Reference: Peters, Pierczynski, Skowron, "Proportional participatory budgeting
   with additive utilities"; https://www.cs.utoronto.ca/~nisarg/papers/priceability.pdf *)
From PB Require Export Base.Election.
Open Scope Q_scope.

(* voter i approves the projects listed in [nth i A []] *)
Definition profile := list (list proj).
Definition voters (A : profile) : list nat := seq 0 (length A).
Definition appr (A : profile) (i : nat) (c : proj) : bool := memb c (nth i A []).
Definition supporters (A : profile) (c : proj) : list nat := filter (fun i => appr A i c) (voters A).

Definition payfun := nat -> proj -> Q.

(* what voter i spends, what is left of the budget, what a project collects *)
Definition spent (I : inst) (pay : payfun) (i : nat) : Q := Qsum (map (pay i) (all_projects I)).
Definition leftover (I : inst) (b : Q) (pay : payfun) (i : nat) : Q := b - spent I pay i.
Definition paid_for (A : profile) (pay : payfun) (c : proj) : Q := Qsum (map (fun i => pay i c) (voters A)).
(* the largest single payment of voter i (0 when there is no project at all) *)
Definition maxpay (I : inst) (pay : payfun) (i : nat) : Q :=
  match map (pay i) (all_projects I) with
  | [] => 0
  | x :: r => fold_left Qmax r x
  end.
Definition stable_claim (I : inst) (b : Q) (pay : payfun) (i : nat) : Q :=
  Qmax (maxpay I pay i) (leftover I b pay i).

(* the allocation is a duplicate-free list of projects of the instance *)
Definition wf_alloc (I : inst) (W : list proj) : Prop := NoDup W /\ forall c, In c W -> (c < nproj I)%nat.

Section Conditions.
  Variables (I : inst) (A : profile) (W : list proj) (b : Q) (pay : payfun).

  Definition C0a : Prop := tcost I W <= budget I.
  Definition C0b : Prop :=
    forall c, (c < nproj I)%nat -> ~ In c W -> budget I < tcost I W + cost I c.
  Definition P0 : Prop := forall i c, (i < length A)%nat -> (c < nproj I)%nat -> 0 <= pay i c.
  Definition C1 : Prop :=
    forall i c, (i < length A)%nat -> (c < nproj I)%nat -> appr A i c = false -> pay i c == 0.
  Definition C2 : Prop := forall i, (i < length A)%nat -> spent I pay i <= b.
  Definition C3 : Prop := forall c, In c W -> paid_for A pay c == cost I c.
  Definition C4 : Prop := forall c, (c < nproj I)%nat -> ~ In c W -> paid_for A pay c == 0.
  Definition C5 : Prop :=
    forall c, (c < nproj I)%nat -> ~ In c W ->
      Qsum (map (leftover I b pay) (supporters A c)) <= cost I c.
  Definition S5 : Prop :=
    forall c, (c < nproj I)%nat -> ~ In c W ->
      Qsum (map (stable_claim I b pay) (supporters A c)) <= cost I c.

  (* (b, pay) is a price system for W; [stable] selects S5 instead of C5, [exh] adds C0b *)
  Definition price_system (stable exh : bool) : Prop :=
    C0a /\ (exh = true -> C0b) /\ P0 /\ C1 /\ C2 /\ C3 /\ C4 /\ (if stable then S5 else C5).

  (* the same conditions up to a tolerance eps on the rounded comparisons (C0a, C0b, C1 stay exact) *)
  Definition P0_tol (eps : Q) : Prop :=
    forall i c, (i < length A)%nat -> (c < nproj I)%nat -> - eps <= pay i c.
  Definition C2_tol (eps : Q) : Prop := forall i, (i < length A)%nat -> spent I pay i <= b + eps.
  Definition C3_tol (eps : Q) : Prop :=
    forall c, In c W -> paid_for A pay c <= cost I c + eps /\ cost I c <= paid_for A pay c + eps.
  Definition C4_tol (eps : Q) : Prop :=
    forall c, (c < nproj I)%nat -> ~ In c W -> paid_for A pay c <= eps /\ - eps <= paid_for A pay c.
  Definition C5_tol (eps : Q) : Prop :=
    forall c, (c < nproj I)%nat -> ~ In c W ->
      Qsum (map (leftover I b pay) (supporters A c)) <= cost I c + eps.
  Definition S5_tol (eps : Q) : Prop :=
    forall c, (c < nproj I)%nat -> ~ In c W ->
      Qsum (map (stable_claim I b pay) (supporters A c)) <= cost I c + eps.
  Definition price_system_tol (eps : Q) (stable exh : bool) : Prop :=
    C0a /\ (exh = true -> C0b) /\ P0_tol eps /\ C1 /\ C2_tol eps /\ C3_tol eps /\ C4_tol eps
    /\ (if stable then S5_tol eps else C5_tol eps).
End Conditions.

(* W is (stable-)priceable *)
Definition priceable_spec (I : inst) (A : profile) (W : list proj) (stable exh : bool) : Prop :=
  exists b pay, price_system I A W b pay stable exh.
