(* Spec/PriceSystem.v -- (stable) priceability of a budget allocation for an approval profile with
   multiplicities 1, as propositions over a voter budget [b] and payments [pay : voter -> project -> Q].
   Conditions are named as in pabutools/analysis/priceability.py (C0a, C0b, C1..C5, S5); P0 is the
   non-negativity of payments that the definition of a price system requires (payment functions map into
   the non-negative reals).  Reference: Peters, Pierczynski, Skowron, "Proportional participatory budgeting
   with additive utilities"; https://www.cs.utoronto.ca/~nisarg/papers/priceability.pdf *)
From PB Require Export Base.Election.
Open Scope Q_scope.

(* voter i approves the projects listed in [nth i A []] *)
Definition profile := list (list proj).
Definition voters (A : profile) : list nat := seq 0 (length A).
Definition appr (A : profile) (i : nat) (c : proj) : bool := memb c (nth i A []).
Definition supporters (A : profile) (c : proj) : list nat := filter (fun i => appr A i c) (voters A).

Definition payfun := nat -> proj -> Q.

(* what voter i spends, what is left of the budget, what a project collects *)
Definition spent (I : inst) (pay : payfun) (i : nat) : Q := Qsum (map (pay i) (all_projects I)).
Definition leftover (I : inst) (b : Q) (pay : payfun) (i : nat) : Q := b - spent I pay i.
Definition paid_for (A : profile) (pay : payfun) (c : proj) : Q := Qsum (map (fun i => pay i c) (voters A)).
(* the largest single payment of voter i (0 when there is no project at all) *)
Definition maxpay (I : inst) (pay : payfun) (i : nat) : Q :=
  match map (pay i) (all_projects I) with
  | [] => 0
  | x :: r => fold_left Qmax r x
  end.
Definition stable_claim (I : inst) (b : Q) (pay : payfun) (i : nat) : Q :=
  Qmax (maxpay I pay i) (leftover I b pay i).

(* the allocation is a duplicate-free list of projects of the instance *)
Definition wf_alloc (I : inst) (W : list proj) : Prop := NoDup W /\ forall c, In c W -> (c < nproj I)%nat.

Section Conditions.
  Variables (I : inst) (A : profile) (W : list proj) (b : Q) (pay : payfun).

  Definition C0a : Prop := tcost I W <= budget I.
  Definition C0b : Prop :=
    forall c, (c < nproj I)%nat -> ~ In c W -> budget I < tcost I W + cost I c.
  Definition P0 : Prop := forall i c, (i < length A)%nat -> (c < nproj I)%nat -> 0 <= pay i c.
  Definition C1 : Prop :=
    forall i c, (i < length A)%nat -> (c < nproj I)%nat -> appr A i c = false -> pay i c == 0.
  Definition C2 : Prop := forall i, (i < length A)%nat -> spent I pay i <= b.
  Definition C3 : Prop := forall c, In c W -> paid_for A pay c == cost I c.
  Definition C4 : Prop := forall c, (c < nproj I)%nat -> ~ In c W -> paid_for A pay c == 0.
  Definition C5 : Prop :=
    forall c, (c < nproj I)%nat -> ~ In c W ->
      Qsum (map (leftover I b pay) (supporters A c)) <= cost I c.
  Definition S5 : Prop :=
    forall c, (c < nproj I)%nat -> ~ In c W ->
      Qsum (map (stable_claim I b pay) (supporters A c)) <= cost I c.

  (* (b, pay) is a price system for W; [stable] selects S5 instead of C5, [exh] adds C0b *)
  Definition price_system (stable exh : bool) : Prop :=
    C0a /\ (exh = true -> C0b) /\ P0 /\ C1 /\ C2 /\ C3 /\ C4 /\ (if stable then S5 else C5).

  (* the same conditions up to a tolerance eps on the rounded comparisons (C0a, C0b, C1 stay exact) *)
  Definition P0_tol (eps : Q) : Prop :=
    forall i c, (i < length A)%nat -> (c < nproj I)%nat -> - eps <= pay i c.
  Definition C2_tol (eps : Q) : Prop := forall i, (i < length A)%nat -> spent I pay i <= b + eps.
  Definition C3_tol (eps : Q) : Prop :=
    forall c, In c W -> paid_for A pay c <= cost I c + eps /\ cost I c <= paid_for A pay c + eps.
  Definition C4_tol (eps : Q) : Prop :=
    forall c, (c < nproj I)%nat -> ~ In c W -> paid_for A pay c <= eps /\ - eps <= paid_for A pay c.
  Definition C5_tol (eps : Q) : Prop :=
    forall c, (c < nproj I)%nat -> ~ In c W ->
      Qsum (map (leftover I b pay) (supporters A c)) <= cost I c + eps.
  Definition S5_tol (eps : Q) : Prop :=
    forall c, (c < nproj I)%nat -> ~ In c W ->
      Qsum (map (stable_claim I b pay) (supporters A c)) <= cost I c + eps.
  Definition price_system_tol (eps : Q) (stable exh : bool) : Prop :=
    C0a /\ (exh = true -> C0b) /\ P0_tol eps /\ C1 /\ C2_tol eps /\ C3_tol eps /\ C4_tol eps
    /\ (if stable then S5_tol eps else C5_tol eps).
End Conditions.

(* W is (stable-)priceable *)
Definition priceable_spec (I : inst) (A : profile) (W : list proj) (stable exh : bool) : Prop :=
  exists b pay, price_system I A W b pay stable exh.

(* ------------------------------------------------------------------------------------------------ *)
(* Relaxations of stable priceability (pabutools/analysis/priceability_relaxation.py): the right-hand
   side of the stability condition S5 -- the cost of the non-selected project -- is replaced by a relaxed
   cost that depends on a parameter beta.  A value of type [relax] is a relaxation class TOGETHER WITH its
   parameter(s):  MinMul beta, MinAdd beta, MinAddVector (beta_c)_c, MinAddVectorPositive (beta_c)_c,
   MinAddOffset beta_global (beta_c)_c.  Vectors are lists indexed by project rank (missing entries = 0). *)
Inductive relax :=
| RMul (beta : Q)
| RAdd (beta : Q)
| RVec (betas : list Q)
| RVecPos (betas : list Q)
| ROff (bg : Q) (betas : list Q).

Definition beta_at (l : list Q) (c : proj) : Q := nth c l 0.

(* Relaxation.get_relaxed_cost *)
Definition relaxed_cost (I : inst) (R : relax) (c : proj) : Q :=
  match R with
  | RMul beta => cost I c * beta
  | RAdd beta => cost I c + beta
  | RVec l => cost I c + beta_at l c
  | RVecPos l => cost I c + beta_at l c
  | ROff g l => cost I c + g + beta_at l c
  end.

(* what each class minimises *)
Definition relax_objective (I : inst) (R : relax) : Q :=
  match R with
  | RMul beta => beta
  | RAdd beta => beta
  | RVec l => Qsum (map (beta_at l) (all_projects I))
  | RVecPos l => Qsum (map (beta_at l) (all_projects I))
  | ROff g _ => g
  end.

(* beta = 1 (MinMul) / beta = 0 (the additive classes): no relaxation *)
Inductive rkind := KMul | KAdd | KVec | KVecPos | KOff.
Definition kind_of (R : relax) : rkind :=
  match R with RMul _ => KMul | RAdd _ => KAdd | RVec _ => KVec | RVecPos _ => KVecPos | ROff _ _ => KOff end.
Definition relax_neutral (k : rkind) : relax :=
  match k with KMul => RMul 1 | KAdd => RAdd 0 | KVec => RVec [] | KVecPos => RVecPos [] | KOff => ROff 0 [] end.

(* the order on parameters: same class, every parameter at least as large *)
Definition relax_le (R R' : relax) : Prop :=
  match R, R' with
  | RMul a, RMul a' => a <= a'
  | RAdd a, RAdd a' => a <= a'
  | RVec l, RVec l' => forall c, beta_at l c <= beta_at l' c
  | RVecPos l, RVecPos l' => forall c, beta_at l c <= beta_at l' c
  | ROff g l, ROff g' l' => g <= g' /\ forall c, beta_at l c <= beta_at l' c
  | _, _ => False
  end.

Section RelaxedConditions.
  Variables (I : inst) (A : profile) (W : list proj) (b : Q) (pay : payfun).
  (* [rc c] stands for the relaxed cost of project c *)
  Variable rc : proj -> Q.

  Definition S5r : Prop :=
    forall c, (c < nproj I)%nat -> ~ In c W ->
      Qsum (map (stable_claim I b pay) (supporters A c)) <= rc c.
  Definition S5r_tol (eps : Q) : Prop :=
    forall c, (c < nproj I)%nat -> ~ In c W ->
      Qsum (map (stable_claim I b pay) (supporters A c)) <= rc c + eps.

  (* a price system for W whose stability condition is measured against rc; rc = cost gives back
     [price_system] (by computation) *)
  Definition price_system_g (stable exh : bool) : Prop :=
    C0a I W /\ (exh = true -> C0b I W) /\ P0 I A pay /\ C1 I A pay /\ C2 I A b pay /\ C3 I A W pay
    /\ C4 I A W pay /\ (if stable then S5r else C5 I A W b pay).
  Definition price_system_g_tol (eps : Q) (stable exh : bool) : Prop :=
    C0a I W /\ (exh = true -> C0b I W) /\ P0_tol I A pay eps /\ C1 I A pay /\ C2_tol I A b pay eps
    /\ C3_tol I A W pay eps /\ C4_tol I A W pay eps
    /\ (if stable then S5r_tol eps else C5_tol I A W b pay eps).
End RelaxedConditions.

(* (b, pay) is a price system for W under the relaxation R (class and parameters) *)
Definition relaxed_price_system (I : inst) (A : profile) (W : list proj) (b : Q) (pay : payfun)
           (R : relax) (exh : bool) : Prop :=
  price_system_g I A W b pay (relaxed_cost I R) true exh.
