(* Model/Priceability.v -- executable mirror of pabutools/analysis/priceability.py (after the repairs
   "big-M from the largest cost" and "negative payments are rejected") and of pabutools/utils.round_cmp,
   plus the two certificate checkers used by the correspondence run.  DEFINITIONS ONLY.

   (i)   rnd / round_cmp / validate_ps   = round(.., CHECK_ROUND_PRECISION) / round_cmp / validate_price_system
   (ii)  assign / ps_constraints         = the MIP rows built by priceable() as a decidable predicate
   (iii) check_ps_eps / check_witness    = exact (eps = 0) or eps-tolerant check of a price system
   (iv)  check_farkas, ps_rows           = Farkas certificate checker and the linear system
                                           "there is a price system for W"
   Every function has a general form [..._g] with a parameter [rel : option relax] = the `relaxation=`
   argument of the library (None, or a relaxation class of priceability_relaxation.py together with the
   value(s) of its beta variable(s)); the plain names are the instances rel = None. *)
From PB Require Export Spec.PriceSystem.
From PB Require Import Generated.Anchors.
From Coq Require Import Qround.
Open Scope Q_scope.

(* ------------------------------------------------------------------------------------------------ *)
(* (i) Python's round(x, ndigits) on exact rationals (gmpy2.mpq / Fraction / int): round half to even *)

Definition rscale : Z := (10 ^ CHECK_ROUND_PRECISION)%Z.     (* 100 *)

(* nearest integer, ties to the even one *)
Definition round_half_even (t : Q) : Z :=
  let f := Qfloor t in
  match Qcompare (2 * (t - inject_Z f)) 1 with
  | Lt => f
  | Gt => (f + 1)%Z
  | Eq => if Z.even f then f else (f + 1)%Z
  end.

Definition rnd (x : Q) : Q :=
  Qred (inject_Z (round_half_even (x * inject_Z rscale)) / inject_Z rscale).

(* utils.round_cmp(a, b, CHECK_ROUND_PRECISION): round(a, p) - round(b, p), or -- after the repair that
   stops float noise at a x.xx5 boundary from turning into 0.01 -- round(a - b, p); which of the two the
   source has now is re-read on every run (Generated/Anchors.v) *)
Definition round_cmp (a b : Q) : Q :=
  if Z.eqb ANCHOR_ROUND_CMP_MODE 1 then rnd (a - b) else rnd a - rnd b.

(* payments as a table: one row per voter, one entry per project rank *)
Definition pay_of (P : list (list Q)) : payfun := fun i c => nth c (nth i P []) 0.

Definition not_selected (I : inst) (W : list proj) : list proj :=
  filter (fun c => negb (memb c W)) (all_projects I).

(* ---- relaxations (priceability_relaxation.py); the constants are re-read from the source on every run *)
(* Relaxation.__init__: self.INF = instance.budget_limit * 10 *)
Definition RELAX_INF_FACTOR : Q := inject_Z ANCHOR_RELAX_INF_FACTOR.
Definition relax_INF (I : inst) : Q := budget I * RELAX_INF_FACTOR.
(* MinAddOffset.BUDGET_FRACTION = 0.025 *)
Definition RELAX_FRACTION : Q := ANCHOR_RELAX_FRACTION_NUM # ANCHOR_RELAX_FRACTION_DEN.
(* MinAddVector.add_beta: beta[c] <= (1 - x_c) * self.INF and (x_c - 1) * self.INF <= beta[c] *)
Definition RELAX_VEC_CAP_FACTOR : Q := inject_Z ANCHOR_RELAX_VEC_CAP_FACTOR.
Definition relax_cap (I : inst) : Q := budget I * RELAX_VEC_CAP_FACTOR.

(* the right-hand side of the stability condition: c.cost, or relaxation.get_relaxed_cost(c) *)
Definition rcost (I : inst) (rel : option relax) (c : proj) : Q :=
  match rel with
  | None => cost I c
  | Some R => relaxed_cost I R c
  end.

(* validate_price_system(instance, profile, W, b, pf, stable, exhaustive, relaxation):
   [return not errors], one conjunct per error list, in source order.  The relaxation only enters the
   stability condition S5 (line "cost = c.cost if relaxation is None else relaxation.get_relaxed_cost(c)"). *)
Definition validate_ps_g (I : inst) (A : profile) (W : list proj) (b : Q) (P : list (list Q))
           (stable exh : bool) (rel : option relax) : bool :=
  let pay := pay_of P in
  let C := all_projects I in
  let N := voters A in
  let NW := not_selected I W in
  let total := tcost I W in
  let spent_ i := Qsum (map (pay i) C) in
  let leftover_ i := b - spent_ i in
  let max_payment i := maxpay I pay i in
  let paid c := Qsum (map (fun i => pay i c) N) in
  (* C0a *) Qleb total (budget I)
  (* C0b *) && (negb exh || forallb (fun c => negb (Qleb (total + cost I c) (budget I))) NW)
  (* C1  *) && forallb (fun i => forallb (fun c =>
                 negb (negb (appr A i c) && negb (Qeqb (pay i c) 0))
                 && negb (Qltb (round_cmp (pay i c) 0) 0)) C) N
  (* C2  *) && forallb (fun i => negb (Qltb 0 (round_cmp (spent_ i) b))) N
  (* C3  *) && forallb (fun c => Qeqb (round_cmp (paid c) (cost I c)) 0) W
  (* C4  *) && forallb (fun c => Qeqb (round_cmp (paid c) 0) 0) NW
  && (if negb stable
      then (* C5 *) forallb (fun c =>
             negb (Qltb 0 (round_cmp (Qsum (map leftover_ (supporters A c))) (cost I c)))) NW
      else (* S5 *) forallb (fun c =>
             negb (Qltb 0 (round_cmp
                     (Qsum (map (fun i => Qmax (max_payment i) (leftover_ i)) (supporters A c)))
                     (rcost I rel c)))) NW).

Definition validate_ps (I : inst) (A : profile) (W : list proj) (b : Q) (P : list (list Q))
           (stable exh : bool) : bool := validate_ps_g I A W b P stable exh None.

(* ------------------------------------------------------------------------------------------------ *)
(* (ii) the MIP built by priceable(instance, profile, budget_allocation, stable=, exhaustive=, relaxation=)
        (voter_budget / payment_functions left at None) *)

Record assign := mkAsg {
  a_b : Q;                (* voter_budget *)
  a_p : list (list Q);    (* p_vars[idx][c] *)
  a_x : list Q;           (* x_vars[c], BINARY *)
  a_aux : list Q          (* r_vars[idx] (plain) or m_vars[idx] (stable) *)
}.
Definition xv (a : assign) (c : proj) : Q := nth c (a_x a) 0.
Definition pv (a : assign) : payfun := pay_of (a_p a).
Definition auxv (a : assign) (i : nat) : Q := nth i (a_aux a) 0.

(* INF = max([instance.budget_limit] + [c.cost for c in C]) * 10 *)
Definition BIGM_FACTOR : Q := 10.
Definition bigM (I : inst) : Q := fold_left Qmax (costs I) (budget I) * BIGM_FACTOR.

(* a BINARY variable takes the value 0 or 1 *)
Definition binary (I : inst) (a : assign) : Prop :=
  forall c, (c < nproj I)%nat -> xv a c == 0 \/ xv a c == 1.
Definition binaryb (I : inst) (a : assign) : bool :=
  forallb (fun c => Qeqb (xv a c) 0 || Qeqb (xv a c) 1) (all_projects I).
(* allocation read off the solution: [c for c in C if x_vars[c].x >= 0.99] *)
Definition alloc_of (I : inst) (a : assign) : list proj :=
  filter (fun c => Qleb (99 # 100) (xv a c)) (all_projects I).

(* relaxation.add_beta(mip_model): the beta variable(s) -- here their values are carried by [R] -- with
   their bounds and the rows that only involve them and x *)
Definition relax_rows (I : inst) (R : relax) (x : proj -> Q) : bool :=
  let C := all_projects I in
  match R with
  | RMul g => Qleb 0 g                                         (* add_var(name="beta"): lb = 0 *)
  | RAdd g => Qleb (- relax_INF I) g                           (* lb = -INF *)
  | RVec l => forallb (fun c => Qleb (- relax_INF I) (beta_at l c)
                                && Qleb (beta_at l c) ((1 - x c) * relax_cap I)
                                && Qleb ((x c - 1) * relax_cap I) (beta_at l c)) C
  | RVecPos l => forallb (fun c => Qleb 0 (beta_at l c)) C
  | ROff g l => Qleb (- relax_INF I) g
                && forallb (fun c => Qleb 0 (beta_at l c)) C
                && Qleb (Qsum (map (beta_at l) C)) (RELAX_FRACTION * budget I)
  end.
(* the big-M of the stability rows: INF of priceable(), or relaxation.INF *)
Definition s5_inf (I : inst) (rel : option relax) : Q :=
  match rel with None => bigM I | Some _ => relax_INF I end.

Definition ps_constraints_g (I : inst) (A : profile) (alloc : option (list proj)) (stable exh : bool)
           (rel : option relax) (a : assign) : bool :=
  let C := all_projects I in
  let N := voters A in
  let INF := bigM I in
  let b := a_b a in
  let p := pv a in
  let x := xv a in
  let cost_total := Qsum (map (fun c => x c * cost I c) C) in
  let spent_ i := Qsum (map (p i) C) in
  let payments_total c := Qsum (map (fun i => p i c) N) in
  (* variable bounds: add_var() has lb = 0 *)
  Qleb 0 b && forallb (fun i => forallb (fun c => Qleb 0 (p i c)) C) N
  && forallb (fun i => Qleb 0 (auxv a i)) N
  (* hard-coded allocation *)
  && match alloc with
     | None => true
     | Some W => forallb (fun c => if memb c W then Qeqb (x c) 1 else Qeqb (x c) 0) C
     end
  (* C0a *) && Qleb cost_total (budget I)
  && (if exh
      then (* C0b *) forallb (fun c => Qleb (budget I + 1) (cost_total + cost I c + x c * INF)) C
      else match alloc with
           | None => (* no empty allocation *) Qleb (budget I) (b * Qnat (length A))
           | Some _ => true
           end)
  (* C1 *) && forallb (fun i => forallb (fun c => appr A i c || Qeqb (p i c) 0) C) N
  (* C2 *) && forallb (fun i => Qleb (spent_ i) b) N
  (* C3 *) && forallb (fun c => Qleb (payments_total c) (cost I c)
                                && Qleb (cost I c + (x c - 1) * INF) (payments_total c)) C
  (* C4 *) && forallb (fun i => forallb (fun c => Qleb 0 (p i c) && Qleb (p i c) (x c * INF)) C) N
  && (if negb stable
      then forallb (fun i => Qeqb (auxv a i) (b - spent_ i)) N
           (* C5 *) && forallb (fun c =>
                  Qleb (Qsum (map (auxv a) (supporters A c))) (cost I c + x c * INF)) C
      else forallb (fun i => forallb (fun c => Qleb (p i c) (auxv a i)) C
                             && Qleb (b - spent_ i) (auxv a i)) N
           (* S5: relaxation.add_stability_constraint when a relaxation is given *)
           && forallb (fun c =>
                  Qleb (Qsum (map (auxv a) (supporters A c))) (rcost I rel c + x c * s5_inf I rel)) C)
  (* relaxation.add_beta *)
  && match rel with None => true | Some R => relax_rows I R x end.

Definition ps_constraints (I : inst) (A : profile) (alloc : option (list proj)) (stable exh : bool)
           (a : assign) : bool := ps_constraints_g I A alloc stable exh None a.

(* the assignment a price system (b, pay) for W induces: x = indicator of W, r = leftovers (plain) or
   m = max(largest payment, leftover) (stable) *)
Definition asg_of (I : inst) (A : profile) (W : list proj) (b : Q) (pay : payfun) (stable : bool) : assign :=
  mkAsg b (map (fun i => map (pay i) (all_projects I)) (voters A))
        (map (fun c => if memb c W then 1 else 0) (all_projects I))
        (map (fun i => if stable then stable_claim I b pay i else leftover I b pay i) (voters A)).

(* ------------------------------------------------------------------------------------------------ *)
(* (iii) checking a price system: exactly (eps = 0) or up to eps on the rounded comparisons *)

Fixpoint nodup_natb (l : list nat) : bool :=
  match l with
  | [] => true
  | x :: r => negb (memb x r) && nodup_natb r
  end.
Definition wf_allocb (I : inst) (W : list proj) : bool :=
  nodup_natb W && forallb (fun c => Nat.ltb c (nproj I)) W.

Definition check_ps_eps_g (eps : Q) (I : inst) (A : profile) (W : list proj) (b : Q) (P : list (list Q))
           (stable exh : bool) (rel : option relax) : bool :=
  let pay := pay_of P in
  let C := all_projects I in
  let N := voters A in
  let NW := not_selected I W in
  (* C0a *) Qleb (tcost I W) (budget I)
  (* C0b *) && (negb exh || forallb (fun c => Qltb (budget I) (tcost I W + cost I c)) NW)
  (* P0  *) && forallb (fun i => forallb (fun c => Qleb (- eps) (pay i c)) C) N
  (* C1  *) && forallb (fun i => forallb (fun c => appr A i c || Qeqb (pay i c) 0) C) N
  (* C2  *) && forallb (fun i => Qleb (spent I pay i) (b + eps)) N
  (* C3  *) && forallb (fun c => Qleb (paid_for A pay c) (cost I c + eps)
                                && Qleb (cost I c) (paid_for A pay c + eps)) W
  (* C4  *) && forallb (fun c => Qleb (paid_for A pay c) eps && Qleb (- eps) (paid_for A pay c)) NW
  && (if stable
      then forallb (fun c => Qleb (Qsum (map (stable_claim I b pay) (supporters A c))) (rcost I rel c + eps)) NW
      else forallb (fun c => Qleb (Qsum (map (leftover I b pay) (supporters A c))) (cost I c + eps)) NW).

Definition check_ps_eps (eps : Q) (I : inst) (A : profile) (W : list proj) (b : Q) (P : list (list Q))
           (stable exh : bool) : bool := check_ps_eps_g eps I A W b P stable exh None.

Definition check_witness_g (I : inst) (A : profile) (W : list proj) (b : Q) (P : list (list Q))
           (stable exh : bool) (rel : option relax) : bool :=
  wf_allocb I W && check_ps_eps_g 0 I A W b P stable exh rel.
Definition check_witness (I : inst) (A : profile) (W : list proj) (b : Q) (P : list (list Q))
           (stable exh : bool) : bool := check_witness_g I A W b P stable exh None.

(* ------------------------------------------------------------------------------------------------ *)
(* (iv) Farkas certificates.  A linear form is a list of (coefficient, variable); a row (e, r) reads
   "e . x <= r".  Multipliers y >= 0 with  sum_j y_j e_j = 0 (coefficientwise) and sum_j y_j r_j < 0
   refute the system. *)
Section Lin.
  Variable V : Type.
  Variable veqb : V -> V -> bool.

  Definition lin := list (Q * V).
  Definition lrow := (lin * Q)%type.
  Definition den (x : V -> Q) (e : lin) : Q := Qsum (map (fun t => fst t * x (snd t)) e).
  Definition lscale (y : Q) (e : lin) : lin := map (fun t => (y * fst t, snd t)) e.
  Definition coef (e : lin) (v : V) : Q :=
    Qsum (map (fun t => if veqb v (snd t) then fst t else 0) e).
  Definition sat (x : V -> Q) (rows : list lrow) : Prop :=
    forall r, In r rows -> den x (fst r) <= snd r.

  Fixpoint ycomb (ys : list Q) (rows : list lrow) : lin :=
    match ys, rows with
    | y :: ys', r :: rs => lscale y (fst r) ++ ycomb ys' rs
    | _, _ => []
    end.
  Fixpoint yrhs (ys : list Q) (rows : list lrow) : Q :=
    match ys, rows with
    | y :: ys', r :: rs => y * snd r + yrhs ys' rs
    | _, _ => 0
    end.

  Definition memv (v : V) (l : list V) : bool := existsb (veqb v) l.
  Fixpoint nodupv (l : list V) : bool :=
    match l with
    | [] => true
    | v :: r => negb (memv v r) && nodupv r
    end.

  Definition check_farkas (vars : list V) (rows : list lrow) (ys : list Q) : bool :=
    let e := ycomb ys rows in
    nodupv vars
    && forallb (fun t => memv (snd t) vars) e
    && forallb (Qleb 0) ys
    && forallb (fun v => Qeqb (coef e v) 0) vars
    && Qltb (yrhs ys rows) 0.
End Lin.

Arguments den {V} x e.
Arguments lscale {V} y e.
Arguments coef {V} veqb e v.
Arguments sat {V} x rows.
Arguments ycomb {V} ys rows.
Arguments yrhs {V} ys rows.
Arguments memv {V} veqb v l.
Arguments nodupv {V} veqb l.
Arguments check_farkas {V} veqb vars rows ys.

(* variables of the system "there is a price system for W" *)
(* VB voter budget, VP i c payment, VM i stability claim m_i; VG / VC c: the global / per-project beta of a relaxation *)
Inductive pvar := VB | VP (i : nat) (c : proj) | VM (i : nat) | VG | VC (c : proj).
Definition pvar_eqb (u v : pvar) : bool :=
  match u, v with
  | VB, VB => true
  | VP i c, VP j d => Nat.eqb i j && Nat.eqb c d
  | VM i, VM j => Nat.eqb i j
  | VG, VG => true
  | VC c, VC d => Nat.eqb c d
  | _, _ => false
  end.

Definition ps_vars_g (I : inst) (A : profile) (stable : bool) (k : option rkind) : list pvar :=
  VB :: flat_map (fun i => map (VP i) (all_projects I)) (voters A)
     ++ (if stable then map VM (voters A) else [])
     ++ match k with None => [] | Some _ => VG :: map VC (all_projects I) end.
Definition ps_vars (I : inst) (A : profile) (stable : bool) : list pvar := ps_vars_g I A stable None.

Definition l_spent (I : inst) (i : nat) : lin pvar := map (fun c => (1, VP i c)) (all_projects I).
Definition l_paid (A : profile) (c : proj) : lin pvar := map (fun i => (1, VP i c)) (voters A).
Definition l_left (I : inst) (i : nat) : lin pvar := (1, VB) :: lscale (-1) (l_spent I i).

(* the stability row of project c: sum of the claims of its supporters <= relaxed cost (+ INF if selected),
   with the beta terms moved to the left-hand side *)
Definition s5_terms (I : inst) (k : option rkind) (c : proj) : lin pvar :=
  match k with
  | None => []
  | Some KMul => [(- cost I c, VG)]
  | Some KAdd => [(-1, VG)]
  | Some KVec => [(-1, VC c)]
  | Some KVecPos => [(-1, VC c)]
  | Some KOff => [(-1, VG); (-1, VC c)]
  end.
Definition s5_const (I : inst) (k : option rkind) (c : proj) : Q :=
  match k with Some KMul => 0 | _ => cost I c end.
Definition s5_row (I : inst) (A : profile) (k : option rkind) (sel : bool) (c : proj) : lrow pvar :=
  (map (fun i => (1, VM i)) (supporters A c) ++ s5_terms I k c,
   s5_const I k c + (if sel then relax_INF I else 0)).

(* the rows that the MIP of a relaxation imposes beyond the relaxed price system itself, for the
   allocation W: stability rows of the SELECTED projects (big-M slack relax_INF), bounds of the beta
   variables, MinAddVector's forcing rows / cap, MinAddOffset's bound on the sum *)
Definition range_rows (I : inst) (A : profile) (W : list proj) (k : rkind) : list (lrow pvar) :=
  let C := all_projects I in
  map (s5_row I A (Some k) true) W
  ++ match k with
     | KMul => [([(-1, VG)], 0)]
     | KAdd => [([(-1, VG)], relax_INF I)]
     | KVec => flat_map (fun c => [([(-1, VC c)], relax_INF I);
                                   ([(1, VC c)], if memb c W then 0 else relax_cap I);
                                   ([(-1, VC c)], if memb c W then 0 else relax_cap I)]) C
     | KVecPos => map (fun c => ([(-1, VC c)], 0)) C
     | KOff => [([(-1, VG)], relax_INF I)] ++ map (fun c => ([(-1, VC c)], 0)) C
               ++ [(map (fun c => (1, VC c)) C, RELAX_FRACTION * budget I)]
     end.

(* "objective <= t" *)
Definition objective_row (I : inst) (k : rkind) (t : Q) : lrow pvar :=
  match k with
  | KMul | KAdd | KOff => ([(1, VG)], t)
  | KVec | KVecPos => (map (fun c => (1, VC c)) (all_projects I), t)
  end.

(* rows, in this order (the harness builds the same list):
   0 <= b;  P0 (i, c);  C1 (i, c unapproved);  C2 (i);  C3 (c in W: <= and >=);  C4 (c not in W);
   plain: C5 (c not in W)
   stable: p_ic <= m_i (i, c);  b - spent_i <= m_i (i);  0 <= m_i (i);  S5 (c not in W; relaxed under k)
   [lb]: budget <= n * b   (the "no empty allocation" row of the searched, non-exhaustive call)
   [k = Some kind, rng]: range_rows *)
Definition ps_rows_g (I : inst) (A : profile) (W : list proj) (stable lb : bool)
           (k : option rkind) (rng : bool) : list (lrow pvar) :=
  let C := all_projects I in
  let N := voters A in
  let NW := not_selected I W in
  [([(-1, VB)], 0)]
  ++ flat_map (fun i => map (fun c => ([(-1, VP i c)], 0)) C) N
  ++ flat_map (fun i => map (fun c => ([(1, VP i c)], 0)) (filter (fun c => negb (appr A i c)) C)) N
  ++ map (fun i => ((-1, VB) :: l_spent I i, 0)) N
  ++ flat_map (fun c => [(l_paid A c, cost I c); (lscale (-1) (l_paid A c), - cost I c)]) W
  ++ map (fun c => (l_paid A c, 0)) NW
  ++ (if stable
      then flat_map (fun i => map (fun c => ([(1, VP i c); (-1, VM i)], 0)) C) N
           ++ map (fun i => ((-1, VM i) :: l_left I i, 0)) N
           ++ map (fun i => ([(-1, VM i)], 0)) N
           ++ map (s5_row I A k false) NW
      else map (fun c => (flat_map (l_left I) (supporters A c), cost I c)) NW)
  ++ (if lb then [([(- Qnat (length A), VB)], - budget I)] else [])
  ++ match k with
     | Some kd => if rng then range_rows I A W kd else []
     | None => []
     end.
Definition ps_rows (I : inst) (A : profile) (W : list proj) (stable lb : bool) : list (lrow pvar) :=
  ps_rows_g I A W stable lb None false.

(* the valuation a price system (and the beta values g, bc of a relaxation) induces *)
Definition ps_env_g (I : inst) (b : Q) (pay : payfun) (g : Q) (bc : proj -> Q) (v : pvar) : Q :=
  match v with
  | VB => b
  | VP i c => pay i c
  | VM i => stable_claim I b pay i
  | VG => g
  | VC c => bc c
  end.
Definition ps_env (I : inst) (b : Q) (pay : payfun) : pvar -> Q := ps_env_g I b pay 0 (fun _ => 0).
(* beta values of a relaxation as a valuation of VG / VC *)
Definition relax_g (R : relax) : Q :=
  match R with RMul g | RAdd g | ROff g _ => g | _ => 0 end.
Definition relax_bc (R : relax) (c : proj) : Q :=
  match R with RVec l | RVecPos l | ROff _ l => beta_at l c | _ => 0 end.
Definition ps_env_rel (I : inst) (b : Q) (pay : payfun) (R : relax) : pvar -> Q :=
  ps_env_g I b pay (relax_g R) (relax_bc R).

(* what range_rows say about a relaxed price system (b, pay, R): the extra restrictions of the MIP *)
Definition relax_range (I : inst) (A : profile) (W : list proj) (b : Q) (pay : payfun) (R : relax) : Prop :=
  (forall c, In c W ->
     Qsum (map (stable_claim I b pay) (supporters A c)) <= relaxed_cost I R c + relax_INF I)
  /\ match R with
     | RMul g => 0 <= g
     | RAdd g => - relax_INF I <= g
     | RVec l => forall c, (c < nproj I)%nat ->
                   - relax_INF I <= beta_at l c
                   /\ (if memb c W then beta_at l c == 0
                       else - relax_cap I <= beta_at l c /\ beta_at l c <= relax_cap I)
     | RVecPos l => forall c, (c < nproj I)%nat -> 0 <= beta_at l c
     | ROff g l => - relax_INF I <= g /\ (forall c, (c < nproj I)%nat -> 0 <= beta_at l c)
                   /\ Qsum (map (beta_at l) (all_projects I)) <= RELAX_FRACTION * budget I
     end.

(* "W has no price system", certified: W is not a feasible (exhaustive) allocation, or the multipliers
   ys refute the linear system *)
Definition is_exhaustiveb (I : inst) (W : list proj) : bool :=
  forallb (fun c => Qltb (budget I) (tcost I W + cost I c)) (not_selected I W).
Definition check_no_ps (I : inst) (A : profile) (W : list proj) (stable exh lb : bool) (ys : list Q) : bool :=
  negb (Qleb (tcost I W) (budget I))
  || (exh && negb (is_exhaustiveb I W))
  || (Nat.ltb 0 (length A) && check_farkas pvar_eqb (ps_vars I A stable) (ps_rows I A W stable lb) ys).

(* relaxations.  (1) "W has no relaxed price system of class k at all" (whatever the betas): only the
   rows of the relaxed price system itself are used (rng = false).
   (2) "no solution of the relaxed MIP selecting W has objective <= t": rows incl. range_rows, plus the
   objective row. *)
Definition check_no_relaxed_ps (I : inst) (A : profile) (W : list proj) (exh lb : bool) (k : rkind)
           (ys : list Q) : bool :=
  negb (Qleb (tcost I W) (budget I))
  || (exh && negb (is_exhaustiveb I W))
  || (Nat.ltb 0 (length A)
      && check_farkas pvar_eqb (ps_vars_g I A true (Some k)) (ps_rows_g I A W true lb (Some k) false) ys).
Definition check_objective_lower (I : inst) (A : profile) (W : list proj) (exh lb : bool) (k : rkind)
           (t : Q) (ys : list Q) : bool :=
  negb (Qleb (tcost I W) (budget I))
  || (exh && negb (is_exhaustiveb I W))
  || (Nat.ltb 0 (length A)
      && check_farkas pvar_eqb (ps_vars_g I A true (Some k))
           (ps_rows_g I A W true lb (Some k) true ++ [objective_row I k t]) ys).
