(* Model/MesRule.v -- executable Gallina mirror of pabutools/rules/mes/mes_rule.py
   (method_of_equal_shares -> method_of_equal_shares_scheme -> mes_inner_algo), REPAIRED tree:
   R3 binary shortcut falls back per project when supporters' utilities differ, R4 irresolute
   copies, R6 tied projects name-sorted before the tie-breaking sort.   DEFINITIONS ONLY.

   ------------------------------------------------------------------------------------------
   INTERFACE (what other properties may rely on; C01 C06 C07 C08 C09 C13 C14 reuse it)
   ------------------------------------------------------------------------------------------
   Inputs (record [mes_in]):
     mi_costs : list Q            cost by project rank (rank = position in name order)
     mi_budget: Q                 instance.budget_limit
     mi_voters: list vcls         one entry per MESVoter, in the order of `enumerate(sat_profile)`:
                                  [vu] = sat.sat_project(p) by rank (an INPUT: read from the library's
                                  satisfaction objects), [vmul] = sat_profile.multiplicity(sat)
     mi_tb    : proj -> Q         key of the tie-breaking rule (TieBreakingRule.func)
     mi_enum  : list proj         iteration order of the Python set of projects (theorems: irrelevant)
     mi_bin   : bool              binary_sat as passed to the scheme (None is resolved by the caller:
                                  true iff the profile is an approval profile)
     mi_init  : list proj         initial_budget_allocation
   Entry points:
     mes_resolute  : mes_in -> option mes_out               plain rule, resoluteness=True
     mes_irresolute: mes_in -> option (list (list proj))     plain rule, resoluteness=False
                                  (allocations sorted by rank, first occurrences, as the code returns)
     mes_iter_resolute   : nat -> mes_in -> Q -> option mes_out            voter_budget_increment
     mes_iter_irresolute : nat -> mes_in -> Q -> option (list (list proj))   (first arg = fuel of the
                                  budget-increase loop; None = fuel exhausted)
   Output (record [mes_out]):
     o_alloc : list proj          init ++ supported zero-cost projects (enum order) ++ purchases in order
     o_b0    : Q                  money per voter copy at the start of the reported run
     o_trace : list round         one [round] per purchase: selected project, rho, budgets of every
                                  MESVoter before / after (what analytics=True records)
     o_final : list Q             budgets after the last purchase
     o_left  : list mproj         projects still in the pool when the run stops ([] -- they are all
                                  removed as unaffordable by the last scan)
   Building blocks exported for proofs: [sup], [sweep], [mproj], [sup_of], [sorted_sup], [eval_rho],
   [avail], [scan], [round_scan], [pay], [pick_order], [mk_projects], [run_res], [run_irr].
   Quantities that are stored are [Qred]-normalised.  Python's float('inf') is [PInf].
   ------------------------------------------------------------------------------------------ *)
From PB Require Export Base.Election.
Open Scope Q_scope.

(* ---------- the sweep over supporters (mes_rule.py: the inner `for i in supporter_indices`) ---------- *)

(* one supporter as the sweep sees it: money per copy, utility used by the sweep, multiplicity *)
Record sup := mkSup { sb : Q; su : Q; sm : Q }.

(* current_contribution = contrib, denominator = denom; returns the affordability factor found *)
Fixpoint sweep (cost contrib denom : Q) (l : list sup) : option Q :=
  match l with
  | [] => None
  | s :: r =>
      let a := (cost - contrib) / denom in
      if Qleb (a * su s) (sb s) then Some a
      else sweep cost (contrib + sm s * sb s) (denom - sm s * su s) r
  end.

(* ---------- voters and projects of a run ---------- *)

Definition dummy_voter : vcls := mkV [] 0.
Definition vbud (buds : list Q) (i : nat) : Q := nth i buds 0.
Definition vutil (P : list vcls) (i : nat) (p : proj) : Q := util (nth i P dummy_voter) p.
Definition vmulQ (P : list vcls) (i : nat) : Q := Qnat (vmul (nth i P dummy_voter)).

(* MESProject: name/cost, supporter_indices (current order), total_sat, unique_sat_supporter,
   affordability (cached, possibly stale) *)
Record mproj := mkMP {
  mp_id : proj; mp_cost : Q; mp_sup : list nat; mp_tsat : Q; mp_usat : option Q; mp_aff : Q }.

Definition set_aff (mp : mproj) (a : Q) (s : list nat) : mproj :=
  mkMP (mp_id mp) (mp_cost mp) s (mp_tsat mp) (mp_usat mp) a.
Definition set_sup (mp : mproj) (s : list nat) : mproj :=
  mkMP (mp_id mp) (mp_cost mp) s (mp_tsat mp) (mp_usat mp) (mp_aff mp).

(* voters with positive satisfaction, in voter order *)
Definition supporters (P : list vcls) (p : proj) : list nat :=
  filter (fun i => Qltb 0 (vutil P i p)) (seq 0 (length P)).

Definition total_sat (P : list vcls) (p : proj) (sups : list nat) : Q :=
  Qsum (map (fun i => vmulQ P i * vutil P i p) sups).

(* binary_sat: the first supporter's satisfaction, dropped (None) as soon as another supporter's
   differs (repair R3) *)
Definition unique_sat (P : list vcls) (p : proj) (sups : list nat) : option Q :=
  match sups with
  | [] => None
  | i0 :: r =>
      fold_left (fun acc i => match acc with
                              | Some u => if Qeqb u (vutil P i p) then Some u else None
                              | None => None
                              end) r (Some (vutil P i0 p))
  end.

(* MESProject.supporters_sat *)
Definition supporters_sat (P : list vcls) (mp : mproj) (i : nat) : Q :=
  match mp_usat mp with
  | Some u => u
  | None => vutil P i (mp_id mp)
  end.

(* the loop of method_of_equal_shares_scheme that builds the MESProjects;
   returns (positive-cost supported projects, supported zero-cost projects), both in enum order *)
Fixpoint mk_projects (P : list vcls) (costs : list Q) (bin : bool) (enum : list proj)
  : list mproj * list proj :=
  match enum with
  | [] => ([], [])
  | p :: r =>
      let '(ps, zs) := mk_projects P costs bin r in
      let sups := supporters P p in
      let ts := total_sat P p sups in
      if Qltb 0 ts then
        let c := nth p costs 0 in
        if Qltb 0 c then
          (mkMP p c sups (Qred ts) (if bin then unique_sat P p sups else None) (Qred (c / ts)) :: ps, zs)
        else (ps, p :: zs)
      else (ps, zs)
  end.

(* ---------- one call of mes_inner_algo: the scan ---------- *)

Definition sup_of (P : list vcls) (buds : list Q) (mp : mproj) (i : nat) : sup :=
  mkSup (vbud buds i) (supporters_sat P mp i) (vmulQ P i).

(* key of `supporter_indices.sort`: budget / own satisfaction (always the voter's own satisfaction,
   also on the binary path); the satisfaction of a supporter is positive, so the comparison of the
   two quotients is written cross-multiplied *)
Definition sup_leb (P : list vcls) (buds : list Q) (p : proj) (i j : nat) : bool :=
  Qleb (vbud buds i * vutil P j p) (vbud buds j * vutil P i p).

Definition sorted_sup (P : list vcls) (buds : list Q) (mp : mproj) : list nat :=
  isort (sup_leb P buds (mp_id mp)) (mp_sup mp).

(* available_budget *)
Definition avail (P : list vcls) (buds : list Q) (mp : mproj) : Q :=
  Qsum (map (fun i => vmulQ P i * vbud buds i) (mp_sup mp)).

(* affordability factor of a project at the current budgets (given the sorted supporters) *)
Definition eval_rho (P : list vcls) (buds : list Q) (mp : mproj) (s : list nat) : option Q :=
  sweep (mp_cost mp) 0 (mp_tsat mp) (map (sup_of P buds mp) s).

(* the `for project in sorted(projects, key=affordability)` loop.  [best]/[tied] are best_afford /
   tied_projects; the third component records what happened to every project that was reached:
   (id, None) = removed for lack of budget, (id, Some mp') = kept (affordability/supporter order
   possibly updated).  Projects after the `break` are not listed (untouched). *)
Fixpoint scan (P : list vcls) (buds : list Q) (l : list mproj) (best : Qx) (tied : list mproj)
  : Qx * list mproj * list (proj * option mproj) :=
  match l with
  | [] => (best, tied, [])
  | mp :: r =>
      if Qltb (avail P buds mp) (mp_cost mp) then
        let '(b, t, res) := scan P buds r best tied in (b, t, (mp_id mp, None) :: res)
      else if Qx_ltb best (Fin (mp_aff mp)) then (best, tied, [])
      else
        let s := sorted_sup P buds mp in
        match eval_rho P buds mp s with
        | Some a0 =>
            let a := Qred a0 in
            let mp' := set_aff mp a s in
            let '(b, t, res) :=
              if Qx_ltb (Fin a) best then scan P buds r (Fin a) [mp']
              else if Qx_eqb (Fin a) best then scan P buds r best (tied ++ [mp'])
              else scan P buds r best tied in
            (b, t, (mp_id mp, Some mp') :: res)
        | None =>
            let '(b, t, res) := scan P buds r best tied in
            (b, t, (mp_id mp, Some (set_sup mp s)) :: res)
        end
  end.

Fixpoint lookup (id : proj) (res : list (proj * option mproj)) : option (option mproj) :=
  match res with
  | [] => None
  | (k, v) :: r => if Nat.eqb k id then Some v else lookup id r
  end.

(* the effect of the scan on the (enum-ordered) set `projects` *)
Definition patch (projects : list mproj) (res : list (proj * option mproj)) : list mproj :=
  flat_map (fun mp => match lookup (mp_id mp) res with
                      | None => [mp]
                      | Some None => []
                      | Some (Some mp') => [mp']
                      end) projects.

Definition aff_leb (a b : mproj) : bool := Qleb (mp_aff a) (mp_aff b).

Definition round_scan (P : list vcls) (buds : list Q) (projects : list mproj)
  : Qx * list mproj * list mproj :=
  let '(best, tied, res) := scan P buds (isort aff_leb projects) PInf [] in
  (best, tied, patch projects res).

(* tie_breaking_rule.order(instance, profile, sorted(tied_projects)) when more than one is tied *)
Definition pick_order (tb : proj -> Q) (tied : list mproj) : list mproj :=
  match tied with
  | _ :: _ :: _ =>
      isort (fun a b => Qleb (tb (mp_id a)) (tb (mp_id b)))
            (isort (fun a b => Nat.leb (mp_id a) (mp_id b)) tied)
  | _ => tied
  end.

(* supporter.budget -= min(supporter.budget, best_afford * supporters_sat(supporter)) *)
Definition pay_one (b rho u : Q) : Q := Qred (b - Qmin b (rho * u)).

Fixpoint pay_from (P : list vcls) (mp : mproj) (rho : Q) (i : nat) (buds : list Q) : list Q :=
  match buds with
  | [] => []
  | b :: r =>
      (if memb i (mp_sup mp) then pay_one b rho (supporters_sat P mp i) else b)
      :: pay_from P mp rho (S i) r
  end.
Definition pay (P : list vcls) (mp : mproj) (rho : Q) (buds : list Q) : list Q :=
  pay_from P mp rho 0 buds.

Definition remove_proj (id : proj) (projects : list mproj) : list mproj :=
  filter (fun mp => negb (Nat.eqb (mp_id mp) id)) projects.

(* ---------- runs ---------- *)

Record round := mkRound { r_sel : proj; r_rho : Q; r_before : list Q; r_after : list Q }.

Record mes_out := mkOut {
  o_alloc : list proj; o_b0 : Q; o_trace : list round; o_final : list Q; o_left : list mproj }.

(* resolute recursion of mes_inner_algo; [acc] = current_alloc, [tr] = recorded rounds (reversed) *)
Fixpoint run_res (fuel : nat) (P : list vcls) (tb : proj -> Q) (buds : list Q)
  (projects : list mproj) (acc : list proj) (tr : list round)
  : option (list proj * list round * list Q * list mproj) :=
  match fuel with
  | O => None
  | S f =>
      let '(best, tied, projects') := round_scan P buds projects in
      match best, pick_order tb tied with
      | Fin rho, sel :: _ =>
          let buds' := pay P sel rho buds in
          run_res f P tb buds' (remove_proj (mp_id sel) projects') (acc ++ [mp_id sel])
                  (mkRound (mp_id sel) rho buds buds' :: tr)
      | _, _ => Some (acc, rev tr, buds, projects')
      end
  end.

Fixpoint natl_eqb (x y : list nat) : bool :=
  match x, y with
  | [], [] => true
  | a :: x', b :: y' => Nat.eqb a b && natl_eqb x' y'
  | _, _ => false
  end.

(* `if current_alloc not in all_allocs: all_allocs.append(current_alloc)` *)
Fixpoint dedup (l : list (list nat)) : list (list nat) :=
  match l with
  | [] => []
  | x :: r => x :: filter (fun y => negb (natl_eqb x y)) (dedup r)
  end.

Definition sort_alloc (W : list proj) : list proj := isort Nat.leb W.

(* irresolute recursion: one branch per tied project, in tie-breaking order; the leaves are the
   sorted allocations in the order they are reached (duplicates removed by the caller) *)
Fixpoint run_irr (fuel : nat) (P : list vcls) (tb : proj -> Q) (buds : list Q)
  (projects : list mproj) (acc : list proj) : option (list (list proj)) :=
  match fuel with
  | O => None
  | S f =>
      let '(best, tied, projects') := round_scan P buds projects in
      match best, pick_order tb tied with
      | Fin rho, sel0 :: rest =>
          fold_left
            (fun res sel =>
               match res with
               | None => None
               | Some L =>
                   match run_irr f P tb (pay P sel rho buds) (remove_proj (mp_id sel) projects')
                                 (acc ++ [mp_id sel]) with
                   | None => None
                   | Some L' => Some (L ++ L')
                   end
               end) (sel0 :: rest) (Some [])
      | _, _ => Some [sort_alloc acc]
      end
  end.

(* ---------- method_of_equal_shares_scheme ---------- *)

Record mes_in := mkIn {
  mi_costs : list Q; mi_budget : Q; mi_voters : list vcls; mi_tb : proj -> Q;
  mi_enum : list proj; mi_bin : bool; mi_init : list proj }.

Definition mi_inst (x : mes_in) : inst := mkInst (mi_costs x) (mi_budget x).

(* instance.difference(set(initial_budget_allocation)) in set-iteration order *)
Definition candidates (x : mes_in) : list proj :=
  filter (fun p => negb (memb p (mi_init x))) (mi_enum x).

Definition built (x : mes_in) : list mproj * list proj :=
  mk_projects (mi_voters x) (mi_costs x) (mi_bin x) (candidates x).

(* frac(instance.budget_limit - total_cost(initial allocation), profile.num_ballots()): the voters
   share what is left of the budget once the initial allocation is paid for *)
Definition share (x : mes_in) : Q :=
  Qred ((mi_budget x - tcost (mi_inst x) (mi_init x)) / Qnat (nvoters (mi_voters x))).

Definition start_alloc (x : mes_in) : list proj := mi_init x ++ snd (built x).

(* one run of the inner algorithm with every voter holding [b0] per copy *)
Definition run_once_res (x : mes_in) (b0 : Q) : option mes_out :=
  let ps := fst (built x) in
  let buds := repeat b0 (length (mi_voters x)) in
  match run_res (S (length ps)) (mi_voters x) (mi_tb x) buds ps (start_alloc x) [] with
  | Some (alloc, tr, fin, rest) => Some (mkOut alloc b0 tr fin rest)
  | None => None
  end.

Definition run_once_irr (x : mes_in) (b0 : Q) : option (list (list proj)) :=
  let ps := fst (built x) in
  let buds := repeat b0 (length (mi_voters x)) in
  match run_irr (S (length ps)) (mi_voters x) (mi_tb x) buds ps (start_alloc x) with
  | Some L => Some (dedup L)
  | None => None
  end.

Definition mes_resolute (x : mes_in) : option mes_out := run_once_res x (share x).
Definition mes_irresolute (x : mes_in) : option (list (list proj)) := run_once_irr x (share x).

(* Instance.is_feasible / is_exhaustive(outcome, available_projects=projects) as used by the
   budget-increase loop: `projects` = the supported positive-cost candidates *)
Definition alloc_feasible (x : mes_in) (W : list proj) : bool :=
  Qleb (tcost (mi_inst x) W) (mi_budget x).
Definition alloc_exhaustive (x : mes_in) (W : list proj) : bool :=
  let c := tcost (mi_inst x) W in
  forallb (fun mp => memb (mp_id mp) W || negb (Qleb (mp_cost mp + c) (mi_budget x))) (fst (built x)).

(* the `while True` loop of the scheme for voter_budget_increment = inc (resolute) *)
Fixpoint iter_res (fuel : nat) (x : mes_in) (inc b0 : Q) (prev : option mes_out) : option mes_out :=
  match fuel with
  | O => None
  | S f =>
      match run_once_res x b0 with
      | None => None
      | Some out =>
          if negb (alloc_feasible x (o_alloc out)) then prev
          else if alloc_exhaustive x (o_alloc out) then Some out
          else iter_res f x inc (Qred (b0 + inc)) (Some out)
      end
  end.
Definition mes_iter_resolute (fuel : nat) (x : mes_in) (inc : Q) : option mes_out :=
  iter_res fuel x inc (share x) None.

Fixpoint iter_irr (fuel : nat) (x : mes_in) (inc b0 : Q) (prev : option (list (list proj)))
  : option (list (list proj)) :=
  match fuel with
  | O => None
  | S f =>
      match run_once_irr x b0 with
      | None => None
      | Some outs =>
          if existsb (fun W => negb (alloc_feasible x W)) outs then prev
          else if existsb (alloc_exhaustive x) outs then Some outs
          else iter_irr f x inc (Qred (b0 + inc)) (Some outs)
      end
  end.
Definition mes_iter_irresolute (fuel : nat) (x : mes_in) (inc : Q) : option (list (list proj)) :=
  iter_irr fuel x inc (share x) None.
