(* Model/Ballots.v -- executable model of the four ballot classes of pabutools/election/ballot/*.py
   as far as properties C16/C17 are concerned (DEFINITIONS ONLY).

   A project is the rank of its name (Project.__eq__/__hash__/__lt__ go through the name).
   A *mutable* ballot is the history of the insertions/removals that built it, plus its name and meta:
     ApprovalBallot  (a Python set)   add p      = HSet p 0   discard p  = HDel p
     CardinalBallot  (a Python dict)  b[p] = s   = HSet p s   del b[p]   = HDel p
     CumulativeBallot                 same as cardinal
     OrdinalBallot   (dict keyed by project, value None)  append p = HSet p 0, del = HDel p
   A score is an exact rational ALWAYS GIVEN IN LOWEST TERMS (the harness serialises Fraction values), so
   Python's numeric [==] (1 == mpq(1,1) == Fraction(1)) is Leibniz equality here.
   The content of a dict is its item list in insertion order (CPython dict order: first insertion of a key
   fixes its place, later assignments keep it, deletion + re-insertion moves it to the end).
   The iteration order of a *set* is NOT determined by the history (it depends on the string hashes of the
   project names, i.e. on PYTHONHASHSEED, and on collisions): it is the explicit parameter
   [enum : mballot -> list nat], some permutation of the keys.

   name / meta are identifiers (nat) of the strings / dictionaries used by the harness. *)
From Coq Require Import List Arith Bool ZArith QArith.
From PB Require Import Base.Sorting.
Import ListNotations.

Inductive bkind := KApp | KCard | KCum | KOrd.

Definition bkind_eqb (a b : bkind) : bool :=
  match a, b with
  | KApp, KApp | KCard, KCard | KCum, KCum | KOrd, KOrd => true
  | _, _ => false
  end.

Definition score := Q.
Definition score_eqb (a b : score) : bool := Z.eqb (Qnum a) (Qnum b) && Pos.eqb (Qden a) (Qden b).
Definition item := (nat * score)%type.
Definition item_eqb (x y : item) : bool := Nat.eqb (fst x) (fst y) && score_eqb (snd x) (snd y).

Inductive hstep := HSet (p : nat) (s : score) | HDel (p : nat).

(* ---- Python dict, insertion ordered ------------------------------------------------------- *)
Definition dict := list item.

Fixpoint dget (k : nat) (d : dict) : option score :=
  match d with
  | [] => None
  | (k', v) :: r => if Nat.eqb k k' then Some v else dget k r
  end.

Fixpoint dset (k : nat) (v : score) (d : dict) : dict :=
  match d with
  | [] => [(k, v)]
  | (k', v') :: r => if Nat.eqb k k' then (k, v) :: r else (k', v') :: dset k v r
  end.

Fixpoint ddel (k : nat) (d : dict) : dict :=
  match d with
  | [] => []
  | (k', v') :: r => if Nat.eqb k k' then r else (k', v') :: ddel k r
  end.

Definition dstep (d : dict) (h : hstep) : dict :=
  match h with HSet p s => dset p s d | HDel p => ddel p d end.

Definition dict_of_hist (h : list hstep) : dict := fold_left dstep h [].
Definition keys (d : dict) : list nat := map fst d.

(* ---- mutable ballots ---------------------------------------------------------------------------- *)
Record mballot := mkB { b_hist : list hstep; b_name : nat; b_meta : nat }.
Definition content (b : mballot) : dict := dict_of_hist (b_hist b).

(* ---- frozen ballots ----------------------------------------------------------------------------- *)
(* FrozenApprovalBallot / FrozenOrdinalBallot are tuples (items carry score 0),
   FrozenCardinalBallot / FrozenCumulativeBallot are dicts. *)
Record fballot := mkF { f_kind : bkind; f_items : dict; f_name : nat; f_meta : nat }.

Definition zero_items (l : list nat) : dict := map (fun p => (p, 0%Q)) l.

(* the repaired tree: ApprovalBallot.frozen() = FrozenApprovalBallot(sorted(self), name, meta)
   (approvalballot.py frozen()); the three dict-based classes copy the dict (insertion order kept),
   the constructor takes name and meta from the ballot it is given. *)
Definition frozen (k : bkind) (enum : mballot -> list nat) (b : mballot) : fballot :=
  match k with
  | KApp => mkF KApp (zero_items (isort Nat.leb (enum b))) (b_name b) (b_meta b)
  | _ => mkF k (content b) (b_name b) (b_meta b)
  end.

(* before commit "ApprovalBallot.frozen() does not depend on the iteration order": tuple(self) *)
Definition frozen_old (k : bkind) (enum : mballot -> list nat) (b : mballot) : fballot :=
  match k with
  | KApp => mkF KApp (zero_items (enum b)) (b_name b) (b_meta b)
  | _ => mkF k (content b) (b_name b) (b_meta b)
  end.

(* FrozenApprovalBallot.__new__(approved): an UNORDERED collection (set / frozenset -- in particular an ApprovalBallot)
   is sorted by name, exactly as ApprovalBallot.frozen() does (repair 48c2140); a sequence (list, tuple, another frozen
   ballot) is taken in the order it is given.  Before the repair a set was frozen in its iteration order. *)
Definition frozen_app_new (unordered : bool) (approved : list nat) (name meta : nat) : fballot :=
  mkF KApp (zero_items (if unordered then isort Nat.leb approved else approved)) name meta.
(* FrozenApprovalBallot(ballot): name and meta are taken from the ballot *)
Definition frozen_app_of_ballot (enum : mballot -> list nat) (b : mballot) : fballot :=
  frozen_app_new true (enum b) (b_name b) (b_meta b).
Definition frozen_app_of_ballot_old (enum : mballot -> list nat) (b : mballot) : fballot :=
  frozen_app_new false (enum b) (b_name b) (b_meta b).

Definition is_tuple (k : bkind) : bool := match k with KApp | KOrd => true | _ => false end.

Fixpoint nlist_eqb (l1 l2 : list nat) : bool :=
  match l1, l2 with
  | [], [] => true
  | x :: r1, y :: r2 => Nat.eqb x y && nlist_eqb r1 r2
  | _, _ => false
  end.

(* CPython dict_equal: same length and every item of the left dict is found, with an equal value, on the right *)
Definition dict_eqb (d1 d2 : dict) : bool :=
  Nat.eqb (length d1) (length d2)
  && forallb (fun kv => match dget (fst kv) d2 with Some v' => score_eqb (snd kv) v' | None => false end) d1.

(* Python [==] between frozen ballots: tuple equality resp. dict equality (name/meta play no role);
   a tuple never equals a dict. *)
Definition feq (x y : fballot) : bool :=
  match is_tuple (f_kind x), is_tuple (f_kind y) with
  | true, true => nlist_eqb (keys (f_items x)) (keys (f_items y))
  | false, false => dict_eqb (f_items x) (f_items y)
  | _, _ => false
  end.

(* Hashes.  [thash] stands for CPython's tuple hash of the projects (ANY function of the key sequence),
   [ehash] for the hash of one (project, score) pair (ANY function of the pair; CPython guarantees equal
   numbers hash equally).  The repaired frozen cardinal/cumulative ballots hash [frozenset(self.items())]:
   an order-independent combination of the item hashes, modelled by their sum. *)
Definition fset_hash (ehash : item -> Z) (d : dict) : Z := fold_right Z.add 0%Z (map ehash d).

Definition fhash (thash : list nat -> Z) (ehash : item -> Z) (x : fballot) : Z :=
  if is_tuple (f_kind x) then thash (keys (f_items x)) else fset_hash ehash (f_items x).

(* before commit "frozen cardinal and cumulative ballots hash independently of insertion order":
   tuple.__hash__(tuple(self.keys())) *)
Definition fhash_old (thash : list nat -> Z) (x : fballot) : Z := thash (keys (f_items x)).

(* what a dict / Counter lookup compares: equal hash and == (stored key on the left) *)
Definition kmatch (hash : fballot -> Z) (stored probe : fballot) : bool :=
  Z.eqb (hash stored) (hash probe) && feq stored probe.

(* concrete hash functions used when the model is *executed* on case files (the theorems hold for all) *)
Definition thash0 (l : list nat) : Z := fold_left (fun a k => (a * 1000003 + Z.of_nat (S k))%Z) l 3430008%Z.
Definition ehash0 (kv : item) : Z :=
  (Z.of_nat (S (fst kv)) * 1000003 + Qnum (snd kv) * 8191 + Zpos (Qden (snd kv)))%Z.

(* ---- "the same ballot" ------------------------------------------------------------------------- *)
Definition nmemb (p : nat) (l : list nat) : bool := existsb (Nat.eqb p) l.
Definition nset_eqb (l1 l2 : list nat) : bool :=
  forallb (fun p => nmemb p l2) l1 && forallb (fun p => nmemb p l1) l2.

Definition same_content (k : bkind) (a b : mballot) : Prop :=
  match k with
  | KApp => forall p, In p (keys (content a)) <-> In p (keys (content b))   (* same approved set *)
  | KOrd => keys (content a) = keys (content b)                               (* same ranking *)
  | _ => forall p, dget p (content a) = dget p (content b)                    (* same scores *)
  end.

Definition same_contentb (k : bkind) (a b : mballot) : bool :=
  match k with
  | KApp => nset_eqb (keys (content a)) (keys (content b))
  | KOrd => nlist_eqb (keys (content a)) (keys (content b))
  | _ => forallb (fun p => match dget p (content a), dget p (content b) with
                           | Some x, Some y => score_eqb x y
                           | None, None => true
                           | _, _ => false
                           end) (keys (content a) ++ keys (content b))
  end.

(* the iteration order of a set is some permutation of its elements *)
Definition enum_ok (enum : mballot -> list nat) : Prop :=
  forall b, Permutation (enum b) (keys (content b)).
