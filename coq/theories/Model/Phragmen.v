(* Model/Phragmen.v -- executable mirror of pabutools/rules/phragmen.py (sequential_phragmen and
   its inner [aux]), AFTER repair R6 (tied projects are name-sorted before the stable tie-breaking
   sort).  Definitions only; the proofs live in Proofs/PhragmenP.v.

   INTERFACE (reused by C01, C06, C08, C09, C13)
   ---------------------------------------------
   voters    : [P : list aballot]   one entry per ballot AS ENUMERATED by the profile object
               (Profile: one entry per voter, [amul = 1]; MultiProfile: one entry per distinct
               ballot, [amul] = its multiplicity);  [aset] = approved project ranks.
   loads     : [list Q], one PER-COPY load per entry of [P] (python: PhragmenVoter.load; the
               [initial_loads] parameter, [zero_loads P] when it is None).
   tb        : [proj -> Q], the tie-breaking key (python: TieBreakingRule.func); shipped keys:
               [tb_lexico], [tb_app_score P], [tb_min_cost I], [tb_max_cost I].
   enum      : the projects of the instance in any order without repetition (python iterates a
               set; after R6 the order is irrelevant -- Proofs/PhragmenP.v).
   init      : the initial budget allocation (list of ranks).

     phragmen_res I P tb enum loads init : option (list proj)
         sequential_phragmen(..., resoluteness=True), as the name-sorted list that python returns
     phragmen_irr I P tb enum loads init : option (list (list proj))
         sequential_phragmen(..., resoluteness=False): name-sorted allocations, first occurrence
         kept, in the order python appends them
     [None] only when the internal fuel runs out (never: [phragmen_res_total]).

   Building blocks: [score], [wsum], [new_maxload], [argmin_loop], [phr_round] (one pass of the
   body of [aux]: RStop | RPick tied t), [apply_load], [phr_res]/[phr_irr] (the recursion),
   [phr_projects] (initial filtering); [expand_ballots]/[expand_loads] (a class of multiplicity k
   as k separate voters). *)
From PB Require Export Base.Election.
Open Scope Q_scope.

(* ---------- per-project aggregates ---------- *)

(* profile.approval_score(p): sum of the multiplicities of the ballots containing p *)
Definition score (P : list aballot) (p : proj) : Q :=
  Qsum (map (fun b => if approves b p then Qnat (amul b) else 0) P).

(* sum(voters[i].total_load() for i in supporters[p]) with total_load = multiplicity * load;
   written for any per-copy quantity [xs] (loads here, balances in the spec) *)
Definition wsum (P : list aballot) (xs : list Q) (p : proj) : Q :=
  Qsum (map (fun bx => if approves (fst bx) p then Qnat (amul (fst bx)) * snd bx else 0)
            (combine P xs)).

Definition zero_loads (P : list aballot) : list Q := map (fun _ => 0) P.

(* lines 118-126: float('inf') for an unsupported project, else frac(sum loads + cost, score) *)
Definition new_maxload (I : inst) (P : list aballot) (loads : list Q) (p : proj) : Qx :=
  if Qeqb (score P p) 0 then PInf
  else Fin (Qred ((wsum P loads p + cost I p) / score P p)).

(* lines 115-131: the running minimum and the list of projects attaining it, in iteration order *)
Fixpoint argmin_loop (f : proj -> Qx) (l : list proj) (best : option Qx) (arg : list proj)
  : option Qx * list proj :=
  match l with
  | [] => (best, arg)
  | p :: r =>
      let v := f p in
      match best with
      | None => argmin_loop f r (Some v) [p]
      | Some m =>
          if Qx_ltb v m then argmin_loop f r (Some v) [p]
          else if Qx_eqb m v then argmin_loop f r best (arg ++ [p])
          else argmin_loop f r best arg
      end
  end.

Definition overshoots (I : inst) (c : Q) (p : proj) : bool := Qltb (budget I) (c + cost I p).

Inductive round := RStop | RPick (tied : list proj) (t : Qx).

(* one evaluation of the else-branch of [aux] (projects non-empty): lines 113-143 *)
Definition phr_round (I : inst) (P : list aballot) (tb : proj -> Q)
           (loads : list Q) (projs : list proj) (c : Q) : round :=
  let '(m, arg) := argmin_loop (new_maxload I P loads) projs None [] in
  if existsb (overshoots I c) arg then RStop
  else RPick (tie_order tb (name_sort arg))
             (match m with Some t => t | None => PInf end).

(* for voter in voters: if selected in voter.ballot: voter.load = min_new_maxload.
   t = inf only arises for a project nobody approves, so no load is ever set to inf. *)
Definition set_loads (P : list aballot) (loads : list Q) (p : proj) (t : Q) : list Q :=
  map (fun bx => if approves (fst bx) p then t else snd bx) (combine P loads).
Definition apply_load (P : list aballot) (loads : list Q) (p : proj) (t : Qx) : list Q :=
  match t with Fin x => set_loads P loads p x | PInf => loads end.

Definition remove_proj (p : proj) (l : list proj) : list proj :=
  filter (fun q => negb (Nat.eqb q p)) l.

(* resolute recursion: returns [alloc] as built (python sorts it at the end) *)
Fixpoint phr_res (fuel : nat) (I : inst) (P : list aballot) (tb : proj -> Q)
         (projs : list proj) (loads : list Q) (alloc : list proj) (c : Q) : option (list proj) :=
  match projs with
  | [] => Some alloc
  | _ :: _ =>
      match phr_round I P tb loads projs c with
      | RStop => Some alloc
      | RPick tied t =>
          match fuel with
          | O => None
          | S f =>
              match tied with
              | [] => None
              | p :: _ => phr_res f I P tb (remove_proj p projs) (apply_load P loads p t)
                                  (alloc ++ [p]) (Qred (c + cost I p))
              end
          end
      end
  end.

Fixpoint opt_concat {A} (l : list (option (list A))) : option (list A) :=
  match l with
  | [] => Some []
  | x :: r => match x, opt_concat r with
              | Some a, Some b => Some (a ++ b)
              | _, _ => None
              end
  end.

(* irresolute recursion: every tied project is tried in tie-breaking order (depth first); the
   result lists the allocation of every leaf in the order python reaches it *)
Fixpoint phr_irr (fuel : nat) (I : inst) (P : list aballot) (tb : proj -> Q)
         (projs : list proj) (loads : list Q) (alloc : list proj) (c : Q)
  : option (list (list proj)) :=
  match projs with
  | [] => Some [alloc]
  | _ :: _ =>
      match phr_round I P tb loads projs c with
      | RStop => Some [alloc]
      | RPick tied t =>
          match fuel with
          | O => None
          | S f =>
              opt_concat (map (fun p => phr_irr f I P tb (remove_proj p projs)
                                                (apply_load P loads p t) (alloc ++ [p])
                                                (Qred (c + cost I p))) tied)
          end
      end
  end.

(* lines 203-207: p in instance, p not in the initial allocation, p.cost <= budget_limit *)
Definition phr_projects (I : inst) (enum init : list proj) : list proj :=
  filter (fun p => negb (memb p init) && Qleb (cost I p) (budget I)) enum.

(* "alloc.sort(); if alloc not in allocs: allocs.append(alloc)" *)
Fixpoint nl_eqb (a b : list nat) : bool :=
  match a, b with
  | [], [] => true
  | x :: r, y :: s => Nat.eqb x y && nl_eqb r s
  | _, _ => false
  end.
Definition memb_nl (W : list nat) (Ws : list (list nat)) : bool := existsb (nl_eqb W) Ws.
Fixpoint dedup_nl (seen l : list (list nat)) : list (list nat) :=
  match l with
  | [] => []
  | W :: r => if memb_nl W seen then dedup_nl seen r else W :: dedup_nl (W :: seen) r
  end.

Definition phragmen_res (I : inst) (P : list aballot) (tb : proj -> Q) (enum : list proj)
           (loads : list Q) (init : list proj) : option (list proj) :=
  let projs := phr_projects I enum init in
  option_map name_sort (phr_res (S (length projs)) I P tb projs loads init (tcost I init)).

Definition phragmen_irr (I : inst) (P : list aballot) (tb : proj -> Q) (enum : list proj)
           (loads : list Q) (init : list proj) : option (list (list proj)) :=
  let projs := phr_projects I enum init in
  option_map (fun ls => dedup_nl [] (map name_sort ls))
             (phr_irr (S (length projs)) I P tb projs loads init (tcost I init)).

(* ---------- one voter per copy ("multiplicities count as that many identical voters") ------- *)
Definition expand_ballots (P : list aballot) : list aballot :=
  flat_map (fun b => repeat (mkA (aset b) 1) (amul b)) P.
Definition expand_loads (P : list aballot) (xs : list Q) : list Q :=
  flat_map (fun bx => repeat (snd bx) (amul (fst bx))) (combine P xs).

(* ---------- the shipped tie-breaking keys (pabutools/tiebreaking.py) ---------- *)
Definition tb_lexico (p : proj) : Q := Qnat p.                       (* key = name = rank *)
Definition tb_app_score (P : list aballot) (p : proj) : Q := - score P p.
Definition tb_min_cost (I : inst) (p : proj) : Q := cost I p.
Definition tb_max_cost (I : inst) (p : proj) : Q := - cost I p.
