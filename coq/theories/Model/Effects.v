(* Model/Effects.v -- store-passing effect summaries of the public entry points (C20).
   Gallina values are immutable, so "leaves its inputs untouched" is modelled with an explicit store:
   a list of cells, the first ones owned by the caller (instance, profile, satisfaction profile,
   initial allocation, parameter dictionaries, ...).  Every entry point is summarised BY HAND as a
   program of a small effect language that records exactly its statements that allocate or write
   through a reference (defensive copies, writes into dictionaries / lists / attributes, memo-cache
   fills, calls of other entry points with arguments passed BY REFERENCE).  What is computed is
   irrelevant here and is not modelled.  DEFINITIONS ONLY (proofs: Proofs/EffectsP.v). *)
From Coq Require Export QArith List Arith Bool Lia.
Export ListNotations.
Open Scope Q_scope.

(* canonical structural snapshot of a Python object: interned tag (type / attribute / string) with
   children, or an exact number *)
Inductive tree := T (tag : nat) (kids : list tree) | Lq (q : Q).

(* a cell: the caller-visible structure of the object plus its memoisation cache
   (AdditiveSatisfaction.scores, MESVoter.budget_over_sat_map), which is NOT part of the caller's view *)
Record cell := mkCell { vis : tree; memo : list (nat * Q) }.
Definition store := list cell.

Definition caller_view (n : nat) (s : store) : list tree := firstn n (map vis s).

Inductive ref := Arg (i : nat) | Loc (i : nat).   (* i-th argument / i-th object allocated by this call *)

Inductive stmt :=
| SCopy (src : ref)                          (* fresh object initialised from src: dict(x), deepcopy(x),
                                                BudgetAllocation(x), copy(x), list(x) *)
| SNew (v : tree)                            (* fresh object (MESVoter list, sat profile, kwargs of **d) *)
| SSetKey (dst : ref) (key : nat) (v : tree) (* dst[key] = v  /  dst.attr = v  /  dst.attr += v *)
| SAppend (dst : ref) (v : tree)             (* dst.append(v) / dst.sort() / dst.remove(..) *)
| SMemo (dst : ref) (key : nat) (v : Q)      (* cache fill: dst.scores[key] = v *)
| SCall (callee : nat) (args : list ref).    (* another entry point, arguments passed by reference *)

(* writes on a snapshot tree *)
Definition tag_of (t : tree) : option nat := match t with T g _ => Some g | Lq _ => None end.
Definition has_tag (key : nat) (t : tree) : bool :=
  match tag_of t with Some g => Nat.eqb g key | None => false end.
Definition set_key (key : nat) (v : tree) (t : tree) : tree :=
  match t with
  | T g kids => T g (filter (fun k => negb (has_tag key k)) kids ++ [T key [v]])
  | Lq q => Lq q
  end.
Definition append_kid (v : tree) (t : tree) : tree :=
  match t with
  | T g kids => T g (kids ++ [v])
  | Lq q => Lq q
  end.

Fixpoint set_nth {A} (n : nat) (x : A) (l : list A) : list A :=
  match l, n with
  | [], _ => []
  | _ :: r, O => x :: r
  | y :: r, S k => y :: set_nth k x r
  end.

Definition dummy_cell : cell := mkCell (T 0 []) [].
Definition get (s : store) (l : nat) : cell := nth l s dummy_cell.
Definition upd (s : store) (l : nat) (f : cell -> cell) : store :=
  if Nat.ltb l (length s) then set_nth l (f (get s l)) s else s.

(* resolving a reference in a frame: absolute location, or None (then the statement is a no-op) *)
Definition resolve (args locals : list nat) (r : ref) : option nat :=
  match r with
  | Arg i => nth_error args i
  | Loc i => nth_error locals i
  end.
Definition resolve_all (args locals : list nat) (rs : list ref) : list nat :=
  flat_map (fun r => match resolve args locals r with Some l => [l] | None => [] end) rs.

(* execution: [fuel] bounds the depth of calls; a frame has its arguments and its own local objects *)
Fixpoint exec (fuel : nat) (progs : nat -> list stmt) (args : list nat)
  : list stmt -> list nat -> store -> store :=
  fix go (p : list stmt) (locals : list nat) (s : store) {struct p} : store :=
    match p with
    | [] => s
    | st :: rest =>
        match st with
        | SCopy src =>
            match resolve args locals src with
            | Some l => go rest (locals ++ [length s]) (s ++ [mkCell (vis (get s l)) []])
            | None => go rest locals s
            end
        | SNew v => go rest (locals ++ [length s]) (s ++ [mkCell v []])
        | SSetKey dst key v =>
            match resolve args locals dst with
            | Some l => go rest locals (upd s l (fun c => mkCell (set_key key v (vis c)) (memo c)))
            | None => go rest locals s
            end
        | SAppend dst v =>
            match resolve args locals dst with
            | Some l => go rest locals (upd s l (fun c => mkCell (append_kid v (vis c)) (memo c)))
            | None => go rest locals s
            end
        | SMemo dst key v =>
            match resolve args locals dst with
            | Some l => go rest locals (upd s l (fun c => mkCell (vis c) ((key, v) :: memo c)))
            | None => go rest locals s
            end
        | SCall f rs =>
            match fuel with
            | O => go rest locals s
            | S fuel' => go rest locals (exec fuel' progs (resolve_all args locals rs) (progs f) [] s)
            end
        end
    end.

(* a program writes only into objects it allocated itself (memo fills excepted) *)
Definition local_stmt (st : stmt) : bool :=
  match st with
  | SSetKey (Arg _) _ _ => false
  | SAppend (Arg _) _ => false
  | _ => true
  end.
Definition local_only (p : list stmt) : bool := forallb local_stmt p.

(* ------------------------------------------------------------------------------------------------
   The entry points.  Argument convention of every entry point (unused ones may be missing):
     Arg 0 instance   Arg 1 profile   Arg 2 sat_profile   Arg 3 initial_budget_allocation
     Arg 4 rule_params / mes_params (dict)   Arg 5 budget_allocation (analysis)   Arg 6 rule_params (list of dicts)
   Tags of written keys are arbitrary (what is written is not the subject). *)
Definition tx : tree := T 0 [].
Definition E_greedy := 0%nat.   Definition E_maxwelfare := 1%nat.  Definition E_mes := 2%nat.
Definition E_mes_iter := 3%nat. Definition E_phragmen := 4%nat.    Definition E_completion := 5%nat.
Definition E_increase := 6%nat. Definition E_popularity := 7%nat.  Definition E_swc := 8%nat.
Definition E_sat := 9%nat.      Definition E_readonly := 10%nat.   Definition E_eff_support := 11%nat.
Definition E_eff_supports := 12%nat. Definition E_project_loss := 13%nat.
Definition E_eff_supports_final_budget := 14%nat.
Definition n_entries := 15%nat.

(* greedy_utilitarian_welfare (greedywelfare_rule.py:279-310): budget_allocation = BudgetAllocation(init);
   sat_profile built when not given; the scheme appends to its own allocation; score caches fill *)
Definition p_greedy : list stmt :=
  [SCopy (Arg 3); SNew tx; SMemo (Arg 2) 0 0; SMemo (Loc 1) 0 0; SAppend (Loc 0) tx].
(* max_additive_utilitarian_welfare (maxwelfare.py:357-385) *)
Definition p_maxwelfare : list stmt :=
  [SCopy (Arg 3); SNew tx; SMemo (Arg 2) 0 0; SMemo (Loc 1) 0 0; SNew tx; SAppend (Loc 0) tx].
(* method_of_equal_shares (mes_rule.py:716-760, scheme 500-640): BudgetAllocation(init); sat profile; MESVoter
   and MESProject shadows; zero-cost supported projects appended to the COPY; a second copy carries the details;
   voters' budgets and project affordabilities are fields of the shadows *)
Definition p_mes : list stmt :=
  [SCopy (Arg 3); SNew tx; SMemo (Arg 2) 0 0; SMemo (Loc 1) 0 0; SNew tx; SNew tx; SAppend (Loc 0) tx;
   SCopy (Loc 0); SSetKey (Loc 2) 1 tx; SSetKey (Loc 3) 2 tx; SAppend (Loc 3) tx; SAppend (Loc 4) tx].
(* the iterated variant additionally resets the shadows between the tries (mes_rule.py:635-638) *)
Definition p_mes_iter : list stmt :=
  p_mes ++ [SSetKey (Loc 2) 1 tx; SSetKey (Loc 3) 2 tx; SCopy (Loc 0); SAppend (Loc 5) tx].
(* sequential_phragmen (phragmen.py:185-228): BudgetAllocation(init); PhragmenVoter shadows carry the loads *)
Definition p_phragmen : list stmt :=
  [SCopy (Arg 3); SNew tx; SNew tx; SSetKey (Loc 1) 1 tx; SAppend (Loc 0) tx; SAppend (Loc 2) tx].
(* completion_by_rule_combination (exhaustion.py:50-96): rule_params defaulted to a fresh list;
   BudgetAllocation(init); each rule is called with the caller's instance, profile and (through **params, which
   builds a fresh kwargs dictionary) the objects stored in the caller's dictionaries; its first argument is the
   wrapper's own allocation *)
Definition p_completion : list stmt :=
  [SCopy (Arg 3); SNew tx; SNew tx;
   SCall E_mes [Arg 0; Arg 1; Arg 2; Loc 0; Loc 1]; SAppend (Loc 2) tx;
   SCall E_greedy [Arg 0; Arg 1; Arg 2; Loc 0; Loc 1]; SAppend (Loc 2) tx].
(* exhaustion_by_budget_increase (exhaustion.py:141-176, after the repair): rule_params = dict(rule_params);
   current_instance = deepcopy(instance); BudgetAllocation(init); two keys written into the COPY of the
   dictionary; the copy of the instance gets the increased budget; the rule sees only the copies *)
Definition p_increase : list stmt :=
  [SCopy (Arg 4); SCopy (Arg 0); SCopy (Arg 3); SSetKey (Loc 0) 3 tx; SCopy (Loc 2); SSetKey (Loc 0) 4 tx;
   SCall E_mes [Loc 1; Arg 1; Arg 2; Loc 2; Loc 0]; SSetKey (Loc 1) 5 tx;
   SCall E_mes [Loc 1; Arg 1; Arg 2; Loc 2; Loc 0]; SSetKey (Loc 1) 5 tx;
   SCall E_phragmen [Loc 1; Arg 1; Arg 2; Loc 2; Loc 0]].
(* popularity_comparison / social_welfare_comparison (composition.py) *)
Definition p_popularity : list stmt :=
  [SNew tx; SCopy (Arg 3); SNew tx;
   SCall E_mes [Arg 0; Arg 1; Arg 2; Loc 1]; SAppend (Loc 2) tx;
   SCall E_greedy [Arg 0; Arg 1; Arg 2; Loc 1]; SAppend (Loc 2) tx;
   SNew tx; SMemo (Loc 3) 0 0; SNew tx; SSetKey (Loc 4) 1 tx].
Definition p_swc : list stmt :=
  [SNew tx; SCopy (Arg 3); SNew tx;
   SCall E_mes [Arg 0; Arg 1; Arg 2; Loc 1]; SAppend (Loc 2) tx;
   SCall E_greedy [Arg 0; Arg 1; Arg 2; Loc 1]; SAppend (Loc 2) tx;
   SNew tx; SMemo (Loc 3) 0 0; SNew tx; SAppend (Loc 4) tx].
(* profile.as_sat_profile(...), sat.sat(...), sat.sat_project(...), total_satisfaction(...) *)
Definition p_sat : list stmt := [SNew tx; SMemo (Loc 0) 0 0; SMemo (Arg 2) 0 0].
(* statistics, JR / cohesiveness checkers, priceable / validate_price_system: they build their own lists, sat
   profiles and MIP model and write nowhere else *)
Definition p_readonly : list stmt := [SNew tx; SMemo (Loc 0) 0 0; SNew tx; SAppend (Loc 1) tx; SSetKey (Loc 1) 1 tx].
(* calculate_effective_support (mesanalytics.py:215-228, after the repair): mes_params = dict(mes_params), three
   keys written into the copy, Equal Shares called with the caller's instance and profile *)
Definition p_eff_support : list stmt :=
  [SCopy (Arg 4); SSetKey (Loc 0) 6 tx; SSetKey (Loc 0) 7 tx; SSetKey (Loc 0) 4 tx;
   SCall E_mes [Arg 0; Arg 1; Arg 2; Arg 9; Loc 0]].
(* calculate_effective_supports without final_budget *)
Definition p_eff_supports : list stmt :=
  [SNew tx; SNew tx; SCall E_eff_support [Arg 0; Arg 1; Arg 2; Arg 3; Loc 0]; SSetKey (Loc 1) 1 tx;
   SCall E_eff_support [Arg 0; Arg 1; Arg 2; Arg 3; Loc 0]; SSetKey (Loc 1) 1 tx].
(* calculate_project_loss(allocation_details): two fresh containers *)
Definition p_project_loss : list stmt := [SNew tx; SAppend (Loc 0) tx; SNew tx; SAppend (Loc 1) tx].
(* calculate_effective_supports WITH final_budget: `instance.budget_limit = final_budget` -- the documented
   override, excluded from the property; kept to show that the language can express a write to the caller *)
Definition p_eff_supports_final_budget : list stmt := SSetKey (Arg 0) 5 tx :: p_eff_supports.

Definition progs (f : nat) : list stmt :=
  match f with
  | 0 => p_greedy | 1 => p_maxwelfare | 2 => p_mes | 3 => p_mes_iter | 4 => p_phragmen
  | 5 => p_completion | 6 => p_increase | 7 => p_popularity | 8 => p_swc | 9 => p_sat
  | 10 => p_readonly | 11 => p_eff_support | 12 => p_eff_supports | 13 => p_project_loss
  | _ => []
  end%nat.
(* the same table with the excluded override reachable (NOT local-only) *)
Definition progs_with_override (f : nat) : list stmt :=
  if Nat.eqb f E_eff_supports_final_budget then p_eff_supports_final_budget else progs f.

Definition call_depth := 4%nat.
(* an entry point called by the user with the caller's objects at store locations [args] *)
Definition entry (f : nat) (s : store) (args : list nat) : store :=
  exec call_depth progs args (progs f) [] s.

(* memoisation: AdditiveSatisfaction.get_project_sat *)
Fixpoint lookup (p : nat) (cache : list (nat * Q)) : option Q :=
  match cache with
  | [] => None
  | (k, v) :: r => if Nat.eqb k p then Some v else lookup p r
  end.
Definition get_project_sat (f : nat -> Q) (cache : list (nat * Q)) (p : nat) : Q * list (nat * Q) :=
  match lookup p cache with
  | Some v => (v, cache)
  | None => (f p, (p, f p) :: cache)
  end.
