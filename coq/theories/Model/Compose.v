(* Model/Compose.v -- the exhaustion wrappers of Model/Exhaustion.v applied to the CONCRETE rule models
   (Model/MesRule.v, Model/GreedyRule.v, Model/Phragmen.v).  DEFINITIONS ONLY (proofs:
   Proofs/ComposeP.v, ComposePRules.v, ComposePIncrease.v, ComposePCompletion.v, ComposePExtends.v, ComposePMesIter.v; statements: Props/C09rules.v).

   A base rule enters the wrappers in two shapes:
     budget -> outcome           exhaustion_by_budget_increase calls rule(current_instance, profile, ...) where
                                 current_instance is the instance with another budget limit, everything else fixed;
     allocation -> outcome       completion_by_rule_combination calls rule(instance, profile,
                                 initial_budget_allocation = the outcome so far, ...).
   Both are obtained from ONE function  X_rule_res (inputs of the model) (b : Q) (a : alloc) : alloc  per rule
   model X by fixing one of the two arguments.  The rule models return an [option] (None = internal fuel
   exhausted, which their totality theorems exclude): [or_else] removes it with a default that is never used. *)
From PB Require Export Model.Exhaustion.
From PB Require Model.MesRule Model.GreedyRule Model.Phragmen.
Open Scope Q_scope.

Definition or_else {A} (o : option A) (d : A) : A := match o with Some a => a | None => d end.

(* ---------- Equal Shares (plain rule: method_of_equal_shares without voter_budget_increment) ---------- *)
Definition mes_input (cs : list Q) (P : list vcls) (tb : proj -> Q) (enum : list proj) (bin : bool)
  (b : Q) (a : alloc) : MesRule.mes_in := MesRule.mkIn cs b P tb enum bin a.

Definition mes_rule_res cs P tb enum bin (b : Q) (a : alloc) : alloc :=
  or_else (option_map MesRule.o_alloc (MesRule.mes_resolute (mes_input cs P tb enum bin b a))) a.
Definition mes_rule_irr cs P tb enum bin (b : Q) (a : alloc) : list alloc :=
  or_else (MesRule.mes_irresolute (mes_input cs P tb enum bin b a)) [].

(* ---------- greedy welfare (both schemes, selected by [additive]) ---------- *)
Definition greedy_rule_res (cs : list Q) (sat : list proj -> Q) (sp tb : proj -> Q) (additive : bool)
  (b : Q) (a : alloc) : alloc :=
  or_else (GreedyRule.greedy_welfare_res (mkInst cs b) sat sp tb additive a) a.
Definition greedy_rule_irr (cs : list Q) (sat : list proj -> Q) (tb : proj -> Q) (additive : bool)
  (b : Q) (a : alloc) : list alloc :=
  or_else (GreedyRule.greedy_welfare_irr (mkInst cs b) sat tb additive a) [].

(* ---------- sequential Phragmen ---------- *)
Definition phr_rule_res (cs : list Q) (A : list aballot) (tb : proj -> Q) (enum : list proj) (loads : list Q)
  (b : Q) (a : alloc) : alloc :=
  or_else (Phragmen.phragmen_res (mkInst cs b) A tb enum loads a) a.
Definition phr_rule_irr (cs : list Q) (A : list aballot) (tb : proj -> Q) (enum : list proj) (loads : list Q)
  (b : Q) (a : alloc) : list alloc :=
  or_else (Phragmen.phragmen_irr (mkInst cs b) A tb enum loads a) [].

(* ---------- the statement "the loop returns at the least stopping try" (as spelled out in C09_increase_spec) ----------
   [out i] = outcome of try i, [n] = number of tries the bound allows, [k] = number of calls made, [W] = result:
   either some try j < n is the first whose outcome is bad (infeasible for the original instance) or exhaustive
   -- bad: W = the outcome before it (the initial allocation when j = 0); exhaustive: W = out j -- or no try
   stops and W is the last outcome tried. *)
Definition before {T} (out : nat -> T) (init : T) (j : nat) : T :=
  match j with O => init | S i => out i end.
Definition least_stop {T} (bad exh : T -> bool) (out : nat -> T) (init : T) (n k : nat) (W : T) : Prop :=
  (exists j, (j < n)%nat /\ k = S j /\
     (forall i, (i < j)%nat -> bad (out i) = false /\ exh (out i) = false) /\
     ((bad (out j) = true /\ W = before out init j) \/
      (bad (out j) = false /\ exh (out j) = true /\ W = out j)))
  \/ (k = n /\ (forall i, (i < n)%nat -> bad (out i) = false /\ exh (out i) = false) /\ W = before out init n).

(* ---------- exhaustion_by_budget_increase around a concrete rule ----------
   [rule : Q -> alloc -> alloc] is one of the X_rule_res above with its inputs applied; the wrapper calls it
   with the budget of the try and always the same initial allocation. *)
Definition increase_rule_res (cs : list Q) (B : Q) (rule : Q -> alloc -> alloc) (init : alloc)
  (stop : bool) (step bound : Q) (fuel : nat) : option (nat * alloc) :=
  increase_res (mkInst cs B) (fun b => rule b init) init stop step bound fuel.
Definition increase_rule_irr (cs : list Q) (B : Q) (rule : Q -> alloc -> list alloc) (init : alloc)
  (stop : bool) (step bound : Q) (fuel : nat) : option (nat * list alloc) :=
  increase_irr (mkInst cs B) (fun b => rule b init) init stop step bound fuel.

(* ---------- completion_by_rule_combination over concrete rules ----------
   every rule is called on the ORIGINAL instance (budget B) with the outcome so far as initial allocation *)
Definition completion_rules_res (cs : list Q) (B : Q) (rules : list (Q -> alloc -> alloc)) (init : alloc) : alloc :=
  complete_res (mkInst cs B) (map (fun r => r B) rules) init.
Definition completion_rules_irr (cs : list Q) (B : Q) (rules : list (Q -> alloc -> list alloc)) (init : alloc)
  : list alloc :=
  completion_irr (mkInst cs B) (map (fun r => r B) rules) init.

(* ---------- the iterated Equal Shares as an instance of the retry loop ----------
   base rule of the loop: ONE run of the inner algorithm with every voter holding b per copy.  The loop only
   ever passes canonical fractions (the start [share x] and [Qred (b + inc)]), on which [Qred] is the identity;
   applying it here makes the rule a function of the VALUE of b (the [R_proper] hypothesis of
   C09_mes_iterated_spec) without any extensionality proof about the inner algorithm. *)
Definition mes_run_alloc (x : MesRule.mes_in) (b : Q) : alloc :=
  or_else (option_map MesRule.o_alloc (MesRule.run_once_res x (Qred b))) (MesRule.start_alloc x).
Definition mes_run_allocs (x : MesRule.mes_in) (b : Q) : list alloc :=
  or_else (MesRule.run_once_irr x (Qred b)) [].
(* available_projects = projects: the supported positive-cost candidates *)
Definition mes_avail (x : MesRule.mes_in) : list proj := map MesRule.mp_id (fst (MesRule.built x)).
Definition mes_iter_wrapped (x : MesRule.mes_in) (inc : Q) (fuel : nat) : option (nat * alloc) :=
  mes_iter_res (MesRule.mi_inst x) (mes_run_alloc x) (mes_avail x) (MesRule.start_alloc x) (MesRule.share x) inc fuel.
Definition mes_iter_wrapped_irr (x : MesRule.mes_in) (inc : Q) (fuel : nat) : option (nat * list alloc) :=
  mes_iter_irr (MesRule.mi_inst x) (mes_run_allocs x) (mes_avail x) (MesRule.start_alloc x) (MesRule.share x) inc fuel.
