(* Model/Cohesive.v -- executable mirror of pabutools/analysis/cohesiveness.py and
   pabutools/analysis/justifiedrepresentation.py (list profiles; the source itself says that
   multiprofiles are not handled).  Definitions only.

   A voter is whatever the case file says ([V]); the ballot is read through
     approves b p   `p in ballot`            (approval)
     score b p      `ballot[p]`              (cardinal)
     ut b p         `sat_class(instance, profile, ballot).sat_project(p)`  -- read from the implementation
     pv p           `sat_class(instance, profile, ApprovalBallot(instance)).sat_project(p)`   (PJR, approval)
   [enum] is the iteration order of the instance (a Python set); `powerset` is Base/ListExt.powerset. *)
From PB Require Export Spec.JR.
Open Scope Q_scope.

(* up_to_func applied to the generator of per-project satisfactions; None -> surplus = 0 *)
Definition up_to (r : relax) (l : list Q) : Q :=
  match r with
  | Plain => 0
  | UpToAny => qmin_default 0 l      (* lambda x: min(x, default=0) *)
  | UpToOne => qmax_default 0 l      (* lambda x: max(x, default=0) *)
  end.

(* is_large_enough(group_size, num_voters, projects_cost, budget_limit) *)
Definition is_large_enough (gsize nvot : nat) (pcost B : Q) : bool :=
  Qleb (pcost * Qnat nvot) (Qnat gsize * B).

Section Model.
Variable I : inst.
Variable V : Type.
Variable P : list V.
Variable approves : V -> proj -> bool.
Variable score : V -> proj -> Q.
Variable ut : V -> proj -> Q.
Variable pv : proj -> Q.
Variable enum : list proj.

Definition nonempty {A} (l : list A) : bool := Nat.ltb 0 (length l).   (* len(x) > 0 *)

(* sat.sat(projects) for the measure of ballot b *)
Definition msat (b : V) (X : list proj) : Q := Qsum (map (ut b) X).

(* is_cohesive_approval(instance, profile, projects, ballots); multiplicity of a ballot of a list
   profile is 1, so the summed multiplicity is len(ballots) *)
Definition is_cohesive_approval (T : list proj) (S : list V) : bool :=
  if negb (is_large_enough (length S) (length P) (tcost I T) (budget I)) then false
  else if Nat.eqb (length S) 0 || Nat.eqb (length T) 0 then false
  else forallb (fun b => forallb (fun p => approves b p) T) S.

(* is_cohesive_cardinal(..., alpha): fails on the first ballot[p] < alpha[p] *)
Definition is_cohesive_cardinal (T : list proj) (S : list V) (alpha : proj -> Q) : bool :=
  if negb (is_large_enough (length S) (length P) (tcost I T) (budget I)) then false
  else if Nat.eqb (length S) 0 || Nat.eqb (length T) 0 then false
  else forallb (fun b => forallb (fun p => negb (Qltb (score b p) (alpha p))) T) S.

(* alpha_min = {p: min(b[p] for b in group) for p in project_set} *)
Definition alpha_min (S : list V) (p : proj) : Q := gmin (fun b => score b p) S.

(* cohesive_groups(instance, profile): powerset x powerset, non-empty members only *)
Definition groups_where (test : list V -> list proj -> bool) : list (list V * list proj) :=
  flat_map (fun S =>
    if nonempty S then
      flat_map (fun T => if nonempty T then (if test S T then [(S, T)] else []) else []) (powerset enum)
    else []) (powerset P).
(* the isinstance switch on the profile type, resolved statically *)
Definition cohesive_groups_app : list (list V * list proj) :=
  groups_where (fun S T => is_cohesive_approval T S).
Definition cohesive_groups_card : list (list V * list proj) :=
  groups_where (fun S T => is_cohesive_cardinal T S (alpha_min S)).

(* surplus = up_to_func(sat.sat_project(p) for p in project_set if p not in budget_allocation) *)
Definition surplus (r : relax) (uf : proj -> Q) (T W : list proj) : Q :=
  up_to r (map uf (outside W T)).

(* is_in_core: for every non-empty group and every project set (the empty one included) the group is
   large enough for, `all_better_alone` must end up False, i.e. some ballot has
   sat(W) + surplus >= sat(T) *)
Definition is_in_core (r : relax) (W : list proj) : bool :=
  forallb (fun S =>
    if nonempty S then
      forallb (fun T =>
        if is_large_enough (length S) (length P) (tcost I T) (budget I) then
          existsb (fun b => Qleb (msat b T) (msat b W + surplus r (ut b) T W)) S
        else true) (powerset enum)
    else true) (powerset P).

(* is_strong_EJR_approval: all_agents_sat = no ballot with sat(W) < sat(T) *)
Definition is_strong_EJR_approval (W : list proj) : bool :=
  forallb (fun '(G, T) => forallb (fun b => negb (Qltb (msat b W) (msat b T))) G)
          cohesive_groups_app.

(* is_EJR_approval with up_to_func (None / min / max) *)
Definition is_EJR_approval (r : relax) (W : list proj) : bool :=
  forallb (fun '(G, T) => existsb (fun b => Qleb (msat b T) (msat b W + surplus r (ut b) T W)) G)
          cohesive_groups_app.

(* is_PJR_approval: threshold = sat(T) and group_sat = sat({p in W approved by some member}) + surplus
   for the measure of the ballot approving everything; fails when group_sat < threshold *)
Definition is_PJR_approval (r : relax) (W : list proj) : bool :=
  forallb (fun '(G, T) =>
    let threshold := Qsum (map pv T) in
    let group_approved := filter (fun p => existsb (fun b => approves b p) G) W in
    negb (Qltb (Qsum (map pv group_approved) + surplus r pv T W) threshold))
          cohesive_groups_app.

(* threshold = sum(min(b[p] for b in group) for p in project_set) *)
Definition card_threshold (S : list V) (T : list proj) : Q := Qsum (map (alpha_min S) T).

Definition is_strong_EJR_cardinal (W : list proj) : bool :=
  forallb (fun '(G, T) => forallb (fun b => negb (Qltb (msat b W) (card_threshold G T))) G)
          cohesive_groups_card.

Definition is_EJR_cardinal (r : relax) (W : list proj) : bool :=
  forallb (fun '(G, T) =>
    existsb (fun b => Qleb (card_threshold G T) (msat b W + surplus r (ut b) T W)) G)
          cohesive_groups_card.

(* is_PJR_cardinal: group_sat = sum(max(b[p] for b in group) for p in W) *)
Definition group_max (S : list V) (p : proj) : Q := gmax (fun b => score b p) S.
Definition is_PJR_cardinal (r : relax) (W : list proj) : bool :=
  forallb (fun '(G, T) =>
    negb (Qltb (Qsum (map (group_max G) W) + surplus r (group_max G) T W) (card_threshold G T)))
          cohesive_groups_card.

End Model.
