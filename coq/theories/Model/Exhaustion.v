(* Model/Exhaustion.v -- executable mirror of pabutools/rules/exhaustion.py
   (completion_by_rule_combination, exhaustion_by_budget_increase) and of the iterated variant of
   method_of_equal_shares_scheme (pabutools/rules/mes/mes_rule.py, the `while True` loop with
   voter_budget_increment).  Both wrappers are parametric in the rule(s) they wrap.
   DEFINITIONS ONLY (proofs: Proofs/ExhaustionP.v). *)
From Coq Require Export Qround.
From PB Require Export Base.Election Model.InstanceM.
Open Scope Q_scope.

Definition alloc := list proj.

Fixpoint alloc_eqb (a b : alloc) : bool :=
  match a, b with
  | [], [] => true
  | x :: r, y :: s => Nat.eqb x y && alloc_eqb r s
  | _, _ => false
  end.
Definition alloc_mem (a : alloc) (l : list alloc) : bool := existsb (alloc_eqb a) l.

(* ------------------------------------------------------------------------------------------------
   The retry loop shared by exhaustion_by_budget_increase (exhaustion.py:162-176) and the iterated
   Equal Shares (mes_rule.py:598-638):

       while cont(b):                      # b = current_instance.budget_limit / initial_budget_per_voter
           outcome = R(b)
           if bad(outcome):  return previous_outcome      # tested against the ORIGINAL instance
           if exh(outcome):  return outcome               # tested against the ORIGINAL instance
           b += step ; previous_outcome = outcome
       return previous_outcome

   [T] is an allocation (resolute) or a list of allocations (irresolute).  The loop has no structural
   argument: explicit fuel, None when it runs out.  The result also carries the number of calls of
   the base rule that were made (an observable: the harness counts them). *)
Section Retry.
  Variable T : Type.
  Variable R : Q -> T.
  Variable bad : T -> bool.
  Variable exh : T -> bool.
  Variable step : Q.
  Variable cont : Q -> bool.

  Fixpoint retry (fuel : nat) (k : nat) (b : Q) (prev : T) : option (nat * T) :=
    match fuel with
    | 0%nat => None
    | S f =>
        if cont b then
          let out := R b in
          if bad out then Some (S k, prev)
          else if exh out then Some (S k, out)
          else retry f (S k) (Qred (b + step)) out
        else Some (k, prev)
    end.

  (* the property statement, NOT as a loop: over the outcomes [o_0; ...; o_(n-1)] of the tries that the
     bound allows, take the least k with o_k infeasible-or-exhaustive; infeasible -> o_(k-1) (the
     initial allocation when k = 0), exhaustive -> o_k; no such k -> the last outcome tried. *)
  Fixpoint first_stop (k : nat) (outs : list T) : option nat :=
    match outs with
    | [] => None
    | o :: r => if bad o || exh o then Some k else first_stop (S k) r
    end.
  Definition prev_out (init : T) (outs : list T) (k : nat) : T :=
    match k with
    | 0%nat => init
    | S j => nth j outs init
    end.
  Definition retry_ref (init : T) (outs : list T) : nat * T :=
    match first_stop 0 outs with
    | Some k => if bad (nth k outs init) then (S k, prev_out init outs k) else (S k, nth k outs init)
    | None => (length outs, prev_out init outs (length outs))
    end.
End Retry.
Arguments retry {T} R bad exh step cont fuel k b prev.
Arguments first_stop {T} bad exh k outs.
Arguments prev_out {T} init outs k.
Arguments retry_ref {T} bad exh init outs.

(* budget of the k-th try *)
Definition Qofnat (k : nat) : Q := inject_Z (Z.of_nat k).
Definition try_budget (b0 step : Q) (k : nat) : Q := b0 + Qofnat k * step.

(* number of tries allowed by `while budget <= bound` for step > 0 *)
Definition ntries (b0 step bound : Q) : nat :=
  if Qltb bound b0 then O else S (Z.to_nat (Qfloor ((bound - b0) / step))).

Section Wrappers.
  Variable I : inst.                       (* the ORIGINAL instance: every test below is against it *)

  Definition infeasible1 (W : alloc) : bool := negb (is_feasible I W).
  Definition exh1 (stop : bool) (avail : list proj) (W : alloc) : bool :=
    stop && is_exhaustive I W avail.
  (* irresolute mode: any(not feasible) / exhaustive_stop and any(exhaustive) *)
  Definition infeasible_any (Ws : list alloc) : bool := existsb infeasible1 Ws.
  Definition exh_any (stop : bool) (avail : list proj) (Ws : list alloc) : bool :=
    stop && existsb (fun W => is_exhaustive I W avail) Ws.

  (* defaults of exhaustion_by_budget_increase *)
  Definition default_step : Q := budget I * (1 # 100).
  Definition default_bound (nballots : nat) : Q := budget I * (Qofnat nballots + 1).

  (* exhaustion_by_budget_increase, resolute *)
  Definition increase_res (R : Q -> alloc) (init : alloc) (stop : bool) (step bound : Q) (fuel : nat)
    : option (nat * alloc) :=
    retry R infeasible1 (exh1 stop (all_projects I)) step (fun b => Qleb b bound) fuel 0 (budget I) init.

  (* exhaustion_by_budget_increase, irresolute: previous_outcome starts as [init] *)
  Definition increase_irr (R : Q -> list alloc) (init : alloc) (stop : bool) (step bound : Q)
    (fuel : nat) : option (nat * list alloc) :=
    retry R infeasible_any (exh_any stop (all_projects I)) step (fun b => Qleb b bound) fuel 0
      (budget I) [init].

  (* iterated Equal Shares: `while True`; b = budget per voter, starting at
     (budget - cost of the initial allocation)/num_ballots;
     avail = the MESProjects (supported, positive cost, not in the initial allocation);
     prev0 = the initial allocation plus the supported zero-cost projects *)
  Definition mes_iter_res (R : Q -> alloc) (avail : list proj) (prev0 : alloc) (b0 inc : Q) (fuel : nat)
    : option (nat * alloc) :=
    retry R infeasible1 (exh1 true avail) inc (fun _ => true) fuel 0 b0 prev0.
  (* irresolute: previous_outcome starts as the allocation itself (not a list), mes_rule.py:596 *)
  Definition mes_iter_irr (R : Q -> list alloc) (avail : list proj) (prev0 : alloc) (b0 inc : Q)
    (fuel : nat) : option (nat * list alloc) :=
    retry R infeasible_any (exh_any true avail) inc (fun _ => true) fuel 0 b0 [prev0].

  (* ----------------------------------------------------------------------------------------------
     completion_by_rule_combination (exhaustion.py:64-96, after the repair that moved the
     all_resolute test behind the loop over the partial outcomes) *)
  Definition exh_all (W : alloc) : bool := is_exhaustive I W (all_projects I).

  (* resolute: each rule starts from the previous outcome; stop at the first exhaustive one *)
  Fixpoint complete_res (rules : list (alloc -> alloc)) (cur : alloc) : alloc :=
    match rules with
    | [] => cur
    | r :: rest => let out := r cur in if exh_all out then out else complete_res rest out
    end.

  (* irresolute: (res, new_budget_allocations, all_resolute) *)
  Definition cstate := (list alloc * list alloc * bool)%type.
  Definition scan_alloc (st : cstate) (a : alloc) : cstate :=
    let '(res, new, allr) := st in
    if exh_all a then ((if alloc_mem a res then res else res ++ [a]), new, allr)
    else (res, new ++ [a], false).
  Definition scan_rule (r : alloc -> list alloc) (bas : list alloc) (res : list alloc) : cstate :=
    fold_left (fun st ba => fold_left scan_alloc (r ba) st) bas (res, [], true).
  Fixpoint complete_irr (rules : list (alloc -> list alloc)) (bas res : list alloc) : list alloc :=
    match rules with
    | [] => res ++ bas
    | r :: rest =>
        let '(res', new, allr) := scan_rule r bas res in
        if allr then res' else complete_irr rest new res'
    end.
  Definition completion_irr (rules : list (alloc -> list alloc)) (init : alloc) : list alloc :=
    complete_irr rules [init] [].
End Wrappers.

(* ------------------------------------------------------------------------------------------------
   Rules given by a table (what the harness observed when it called the implementation's own base
   rule): budget -> outcome and initial allocation -> outcome. *)
Definition tab_rule {T} (tab : list (Q * T)) (d : T) (b : Q) : T :=
  match find (fun e => Qeqb (fst e) b) tab with
  | Some e => snd e
  | None => d
  end.
Definition tab_rule_a {T} (tab : list (alloc * T)) (d : T) (a : alloc) : T :=
  match find (fun e => alloc_eqb (fst e) a) tab with
  | Some e => snd e
  | None => d
  end.
