(* Model/Containers.v -- executable model of the election containers of pabutools as Python containers with
   election attributes (DEFINITIONS ONLY): Instance (set), the four ballot classes (set / dict), their frozen
   versions (tuple / dict), the four list profiles, the four multiprofiles (Counter), SatisfactionProfile (list),
   SatisfactionMultiProfile (Counter), BudgetAllocation (list).

   An object is (class tag, attribute ids, payload).  Attribute values are identifiers (0 = the class default);
   the attribute lists per class are those of harness/vharness/props/c17_exec.py (ATTRS).  The payload is only
   modelled for profiles: (element id, count) pairs, the class tag of each element being given by the
   environment [tags] -- this is what ballot validation looks at.

   WHICH inherited method hands back an object of the class is READ FROM THE SOURCE: the tables
   [wrapped_<Class>] of Generated/Anchors.v are the arguments of the [_wrap_methods([...])] calls; a method of the
   builtin base type that is not re-wrapped returns a bare builtin ([RPlain]).  Methods the classes define
   themselves (Profile.__add__/__mul__/__iadd__, OrdinalBallot.__add__/__reversed__, remove_satisfied of the two
   satisfaction profile classes) are listed in [explicit].
   copy.copy / copy.deepcopy / pickle go through __reduce_ex__ (class-specific __reduce__ or the default
   object protocol restoring __dict__) and the constructor-from-object copies every attribute of its argument:
   modelled as attribute-preserving (assumption, checked by the correspondence run only). *)
From Coq Require Import List Arith Bool String ZArith.
From PB Require Import Generated.Anchors.
Import ListNotations.
Local Open Scope string_scope.
Local Open Scope list_scope.
Local Open Scope nat_scope.

(* ---- classes ----------------------------------------------------------------------------------------- *)
(* 0 Plain | 1 Instance | 2..5 App/Card/Cum/Ord Ballot | 6..9 Frozen App/Card/Cum/Ord Ballot
   | 10..13 App/Card/Cum/Ord Profile | 14..17 ... MultiProfile | 18 SatisfactionProfile
   | 19 SatisfactionMultiProfile | 20 BudgetAllocation *)
Definition family (c : nat) : bool := (1 <=? c) && (c <=? 20).

Inductive base := BSet | BDict | BTuple | BFDict | BList | BCounter | BNone.
Definition base_of (c : nat) : base :=
  match c with
  | 1 | 2 => BSet
  | 3 | 4 | 5 => BDict
  | 6 | 9 => BTuple
  | 7 | 8 => BFDict
  | 10 | 11 | 12 | 13 | 18 | 20 => BList
  | 14 | 15 | 16 | 17 | 19 => BCounter
  | _ => BNone
  end.
Definition is_list_profile (c : nat) : bool := (10 <=? c) && (c <=? 13).
Definition is_multi_profile (c : nat) : bool := (14 <=? c) && (c <=? 17).

Definition wrap_table (c : nat) : list string :=
  match c with
  | 1 => wrapped_Instance
  | 2 => wrapped_ApprovalBallot | 3 => wrapped_CardinalBallot | 4 => wrapped_CumulativeBallot
  | 5 => wrapped_OrdinalBallot
  | 10 => wrapped_ApprovalProfile | 11 => wrapped_CardinalProfile | 12 => wrapped_CumulativeProfile
  | 13 => wrapped_OrdinalProfile
  | 14 => wrapped_ApprovalMultiProfile | 15 => wrapped_CardinalMultiProfile
  | 16 => wrapped_CumulativeMultiProfile | 17 => wrapped_OrdinalMultiProfile
  | 18 => wrapped_SatisfactionProfile | 19 => wrapped_SatisfactionMultiProfile
  | 20 => wrapped_BudgetAllocation
  | _ => []
  end.

Definition smemb (s : string) (l : list string) : bool := existsb (String.eqb s) l.

(* methods written out in the class body that return an object of the class themselves *)
Definition explicit (c : nat) (name : string) : bool :=
  match c with
  | 5 => smemb name ["__add__"; "__reversed__"]
  | 18 | 19 => smemb name ["remove_satisfied"]
  | _ => false
  end.

(* a cumulative ballot's wrapper sits on top of the cardinal ballot's: the chain ends in the class *)
Definition rewrapped (c : nat) (name : string) : bool := smemb name (wrap_table c) || explicit c name.

(* does the builtin base type implement the method at all (otherwise AttributeError / TypeError)?  and if so,
   does it return a NEW container of the base type ([true]) or something else (iterator: [false])? *)
Definition derives (b : base) (name : string) : option bool :=
  match b with
  | BSet => if smemb name ["copy"; "__or__"; "__and__"; "__sub__"; "__xor__"; "__ror__"; "__rand__"; "__rsub__";
                           "__rxor__"; "union"; "intersection"; "difference"; "symmetric_difference"]
            then Some true else None
  | BDict => if smemb name ["copy"; "__or__"; "__ror__"] then Some true
             else if smemb name ["__reversed__"] then Some false else None
  | BList => if smemb name ["copy"; "__add__"; "__mul__"; "__rmul__"; "__getitem__"] then Some true
             else if smemb name ["__reversed__"] then Some false else None
  | BCounter => if smemb name ["copy"; "__add__"; "__sub__"; "__or__"; "__and__"; "__ror__"] then Some true
                else if smemb name ["__reversed__"] then Some false else None
  | BTuple => if smemb name ["__add__"; "__mul__"; "__rmul__"; "__getitem__"] then Some true else None
  | BFDict => if smemb name ["copy"; "__or__"; "__ror__"] then Some true else None
  | BNone => None
  end.

(* ---- objects ------------------------------------------------------------------------------------------- *)
Definition payload := list (nat * Z).            (* element id, count (1 in lists; a Counter can hold counts <= 0) *)
Record obj := mkObj { o_cls : nat; o_attrs : list nat; o_payload : payload }.

Inductive res :=
| RRaise (cur : obj)          (* the call raised; [cur] = the object afterwards (partial effects of loops) *)
| RNew (o : obj)              (* a new object of the family *)
| RSame (cur : obj)           (* returned the object itself (in-place operator) *)
| RNone (cur : obj)           (* returned None (mutating method) *)
| RPlain.                     (* a bare builtin container / iterator *)

Inductive op :=
| OCopy | OCCopy | ODeepcopy | OPickle | OCtor
| OBin (name : string) (plain : bool)      (* cur.name(other) ; other = second object or its bare builtin copy *)
| ORefl (name : string)                     (* plain_other <op> cur, resolved to cur.__rop__(plain_other) *)
| OIBin (name : string) (plain : bool)     (* cur <op>= other *)
| OUpd (name : string) (plain : bool)      (* set.update & co: return None *)
| OMul (n : nat) | ORmul (n : nat) | OImul (n : nat)
| OSlice (a b : nat) | OReversed | OReverse
| OAppend (e : nat) | OInsert (i e : nat) | OExtend (es : list nat) | OIaddEls (es : list nat)
| OSetitem (i e : nat) | OSetslice (a b : nat) (es : list nat)
| OMpSetitem (e : nat) (c : Z) | OSetdefault (e : nat) (c : Z) | OUpdateIter (es : list nat)
| OUpdateMap (ecs : list (nat * Z)) | OAsMulti
| OCtorVal (b : bool)        (* type(cur)(cur, ballot_validation=b): the one construction path that changes a flag *)
| OInstMut (k : nat)         (* the linked Instance is emptied / refilled in place; the object is not touched *)
| OAsSat (k : nat)           (* 0: cur.as_sat_profile(Cost_Sat)   1: SatisfactionProfile(profile=cur, sat_class=Cost_Sat) resp.
                                SatisfactionMultiProfile(multiprofile=cur, ...) for a multiprofile
                                2: SatisfactionMultiProfile(profile=cur, sat_class=Cost_Sat) *)
| OMutate (name : string)    (* an attribute-neutral mutating method of the builtin base type, NON-profile classes only
                                (profiles have their own, validating, mutators above) *)
| OClear                     (* .clear() *)
| OPop                       (* list profiles: .pop() *)
| ORemoveSat                 (* SatisfactionProfile / SatisfactionMultiProfile .remove_satisfied(bounds, projects) *)
| OXCtor (t : nat)           (* Target(cur) for ANOTHER class of the same family: a ballot class from a ballot of any kind,
                                mutable or frozen; a list profile from the multiprofile of the same kind and vice versa *)
| OFromPlain.                (* type(cur)(bare builtin copy of cur): nothing to inherit, every attribute is the default *)

(* ---- ballot validation ------------------------------------------------------------------------------- *)
Definition validation_on (a : list nat) : bool := Nat.eqb (nth 1 a 0) 0.
Definition btype (a : list nat) : nat := nth 2 a 0.

(* isinstance(element of class tag t, ballot_type) for profile class c; ballot_type id 0 = the default of the
   class, 1 = Ballot resp. FrozenBallot.  CumulativeBallot is a subclass of CardinalBallot. *)
Definition accepts (c bt t : nat) : bool :=
  if is_list_profile c then
    if Nat.eqb bt 0 then Nat.eqb t (c - 8) || (Nat.eqb c 11 && Nat.eqb t 4)
    else (2 <=? t) && (t <=? 5)
  else if is_multi_profile c then
    if Nat.eqb bt 0 then Nat.eqb t (c - 8) else (6 <=? t) && (t <=? 9)
  else true.
Definition hashable (t : nat) : bool := (6 <=? t) && (t <=? 9).
Definition is_ballot (c : nat) : bool := (2 <=? c) && (c <=? 9).
Definition dictlike (c : nat) : bool := match c with 3 | 4 | 7 | 8 => true | _ => false end.   (* built by dict(init) *)
Definition maplike (c : nat) : bool := match c with 3 | 4 | 5 | 7 | 8 => true | _ => false end. (* a mapping *)
(* ballot_type ids: 0 default of the class, 1 Ballot / FrozenBallot of its own side,
   2 the default of the profile class of the same kind on the OTHER side (list <-> multi), 3 the base class of the other side.
   A profile built from the profile of the other side inherits that side's ballot type. *)
Definition other_side_btype (bt : nat) : nat := match bt with 0 => 2 | 1 => 3 | 2 => 0 | 3 => 1 | n => n end.
Definition frozen_tag (t : nat) : nat := if (2 <=? t) && (t <=? 5) then t + 4 else t.

Fixpoint nl_eqb (l1 l2 : list nat) : bool :=
  match l1, l2 with
  | [], [] => true
  | x :: r1, y :: r2 => Nat.eqb x y && nl_eqb r1 r2
  | _, _ => false
  end.

Section Env.
  Variable tags : list nat.                 (* class tag of every element id of the case *)
  Definition tag (e : nat) : nat := nth e tags 0.

  Definition valid (c : nat) (a : list nat) (e : nat) : bool :=
    negb (validation_on a) || accepts c (btype a) (tag e).
  Definition all_valid (c : nat) (a : list nat) (p : payload) : bool := forallb (fun ec => valid c a (fst ec)) p.

  (* ---- Counter payloads: association lists sorted by element id -------------------------------------- *)
  Fixpoint cget (e : nat) (p : payload) : Z :=
    match p with [] => 0%Z | (e', c) :: r => if Nat.eqb e e' then c else cget e r end.
  Fixpoint cset (e : nat) (c : Z) (p : payload) : payload :=
    match p with
    | [] => [(e, c)]
    | (e', c') :: r => if Nat.eqb e e' then (e, c) :: r else if e <? e' then (e, c) :: (e', c') :: r
                       else (e', c') :: cset e c r
    end.
  Definition keep_positive (p : payload) : payload := filter (fun ec => (0 <? snd ec)%Z) p.
  Definition cnorm (p : payload) : payload := fold_left (fun acc ec => cset (fst ec) (snd ec) acc) p [].

  Definition c_add (p q : payload) : payload :=
    keep_positive (fold_left (fun acc ec => cset (fst ec) (cget (fst ec) acc + snd ec)%Z acc) q p).
  Definition c_sub (p q : payload) : payload :=
    keep_positive (map (fun ec => (fst ec, (snd ec - cget (fst ec) q)%Z)) p).
  Definition c_or (p q : payload) : payload :=
    keep_positive (fold_left (fun acc ec => cset (fst ec) (Z.max (cget (fst ec) acc) (snd ec)) acc) q p).
  Definition c_and (p q : payload) : payload :=
    keep_positive (map (fun ec => (fst ec, Z.min (snd ec) (cget (fst ec) q))) p).
  Definition c_ror (p q : payload) : payload :=           (* dict(q) updated by p *)
    fold_left (fun acc ec => cset (fst ec) (snd ec) acc) p (cnorm q).

  (* sequential insertion with validation: stops at the first refused element, keeping what was done *)
  Fixpoint mp_seq (c : nat) (a : list nat) (f : nat -> Z -> payload -> payload) (ecs : payload) (p : payload)
    : bool * payload :=
    match ecs with
    | [] => (true, p)
    | (e, n) :: r => if hashable (tag e) && valid c a e then mp_seq c a f r (f e n p) else (false, p)
    end.

  (* ---- list payloads ---------------------------------------------------------------------------------- *)
  Definition ones (es : list nat) : payload := map (fun e => (e, 1%Z)) es.
  Fixpoint rep (n : nat) (p : payload) : payload := match n with 0 => [] | S k => p ++ rep k p end.
  Definition slice (a b : nat) (p : payload) : payload := firstn (b - a) (skipn a p).
  Fixpoint set_nth (i : nat) (x : nat * Z) (p : payload) : payload :=
    match p, i with
    | [], _ => []
    | _ :: r, 0 => x :: r
    | y :: r, S k => y :: set_nth k x r
    end.
  Definition insert_at (i : nat) (x : nat * Z) (p : payload) : payload := firstn i p ++ x :: skipn i p.

  Definition opname (o : op) : string :=
    match o with
    | OCopy => "copy" | OCCopy => "copy.copy" | ODeepcopy => "copy.deepcopy" | OPickle => "pickle" | OCtor => "ctor"
    | OBin n _ => n | ORefl n => n | OIBin n _ => n | OUpd n _ => n
    | OMul _ => "__mul__" | ORmul _ => "__rmul__" | OImul _ => "__imul__"
    | OSlice _ _ => "__getitem__" | OReversed => "__reversed__" | OReverse => "reverse"
    | OAppend _ => "append" | OInsert _ _ => "insert" | OExtend _ => "extend" | OIaddEls _ => "__iadd__"
    | OSetitem _ _ => "__setitem__" | OSetslice _ _ _ => "__setitem__"
    | OMpSetitem _ _ => "__setitem__" | OSetdefault _ _ => "setdefault" | OUpdateIter _ => "update"
    | OUpdateMap _ => "update" | OAsMulti => "as_multiprofile"
    | OCtorVal _ => "ctor(ballot_validation=...)" | OInstMut _ => "instance.clear/update"
    | OAsSat _ => "as_sat_profile" | OMutate n => n | OClear => "clear" | OPop => "pop"
    | ORemoveSat => "remove_satisfied" | OXCtor _ => "ctor(other class)" | OFromPlain => "ctor(builtin)"
    end.

  (* payload of the new container a deriving method computes (profiles only; [] elsewhere) *)
  Definition derive_payload (c : nat) (o : op) (p q : payload) : payload :=
    if is_list_profile c then
      match o with
      | OBin _ _ => p ++ q
      | OMul n | ORmul n => rep n p
      | OSlice a b => slice a b p
      | _ => p
      end
    else if is_multi_profile c then
      match o with
      | OBin n _ => if String.eqb n "__add__" then c_add p q else if String.eqb n "__sub__" then c_sub p q
                    else if String.eqb n "__or__" then c_or p q else if String.eqb n "__and__" then c_and p q else p
      | ORefl _ => c_ror p q
      | _ => p
      end
    else [].

  (* a deriving method: the builtin result is re-wrapped into the class (constructor: validates) or stays bare *)
  Definition derive (cur other : obj) (o : op) : res :=
    let c := o_cls cur in
    match derives (base_of c) (opname o) with
    | None => RRaise cur
    | Some false => if explicit c (opname o) then RNew (mkObj c (o_attrs cur) []) else RPlain
    | Some true =>
        if rewrapped c (opname o) then
          let p := derive_payload c o (o_payload cur) (o_payload other) in
          if all_valid c (o_attrs cur) p then RNew (mkObj c (o_attrs cur) p) else RRaise cur
        else RPlain
    end.

  Definition with_payload (cur : obj) (p : payload) : obj := mkObj (o_cls cur) (o_attrs cur) p.

  Definition inplace_names (b : base) : list string :=
    match b with
    | BSet => ["__ior__"; "__iand__"; "__isub__"; "__ixor__"]
    | BDict => ["__ior__"]
    | BList => ["__iadd__"]
    | BCounter => ["__iadd__"; "__isub__"; "__ior__"; "__iand__"]
    | _ => []
    end.

  (* mutating methods of the builtin base types that do not look at the election attributes *)
  Definition mutator_names (c : nat) : list string :=
    match base_of c with
    | BSet => ["add"; "discard"; "update"]
    | BDict => ["__setitem__"; "setdefault"; "update"; "pop"] ++ (if Nat.eqb c 5 then ["append"] else [])
    | BList => ["append"; "extend"; "insert"]
    | BCounter => ["append"; "update"; "__setitem__"]
    | _ => []
    end.

  Definition step (cur other : obj) (o : op) : res :=
    let c := o_cls cur in
    let a := o_attrs cur in
    let p := o_payload cur in
    let q := o_payload other in
    match o with
    | OCCopy | ODeepcopy | OPickle | OCtor => RNew cur
    | OCopy | OBin _ _ | ORefl _ | OMul _ | ORmul _ | OSlice _ _ | OReversed =>
        (* OrdinalBallot.__add__ is written out in the class; dict has no __add__ *)
        if String.eqb (opname o) "__add__" && Nat.eqb c 5 then RNew (mkObj c a []) else derive cur other o
    | OIBin n _ =>
        if negb (smemb n (inplace_names (base_of c))) then RRaise cur
        else if is_list_profile c then
          (* Profile.__iadd__ = extend(list(other)): validates everything first *)
          if all_valid c a q then RSame (with_payload cur (p ++ q)) else RRaise cur
        else if is_multi_profile c then
          if String.eqb n "__iadd__" then
              let '(ok, p') := mp_seq c a (fun e k acc => cset e (cget e acc + k)%Z acc) q p in
              if ok then RSame (with_payload cur (keep_positive p')) else RRaise (with_payload cur p')
          else if String.eqb n "__isub__" then
              let '(ok, p') := mp_seq c a (fun e k acc => cset e (cget e acc - k)%Z acc) q p in
              if ok then RSame (with_payload cur (keep_positive p')) else RRaise (with_payload cur p')
          else if String.eqb n "__ior__" then
              let '(ok, p') := mp_seq c a (fun e k acc => if (cget e acc <? k)%Z then cset e k acc else acc)
                                      (filter (fun ec => (cget (fst ec) p <? snd ec)%Z) q) p in
              if ok then RSame (with_payload cur (keep_positive p')) else RRaise (with_payload cur p')
          else RSame (with_payload cur (c_and p q))
        else RSame cur
    | OUpd n _ => if smemb n ["update"; "intersection_update"; "difference_update"; "symmetric_difference_update"]
                     && match base_of c with BSet => true | _ => false end
                  then RNone cur else RRaise cur
    | OImul n => match base_of c with
                 | BList => RSame (with_payload cur (if is_list_profile c then rep n p else []))
                 | _ => RRaise cur
                 end
    | OReverse => match base_of c with
                  | BList => RNone (with_payload cur (rev p))
                  | _ => RRaise cur
                  end
    | OAppend e =>
        if is_list_profile c then if valid c a e then RNone (with_payload cur (p ++ [(e, 1%Z)])) else RRaise cur
        else if is_multi_profile c then
          if hashable (tag e) && valid c a e then RNone (with_payload cur (cset e (cget e p + 1)%Z p)) else RRaise cur
        else RRaise cur
    | OInsert i e =>
        if is_list_profile c && valid c a e then RNone (with_payload cur (insert_at i (e, 1%Z) p)) else RRaise cur
    | OExtend es =>
        if is_list_profile c then
          if all_valid c a (ones es) then RNone (with_payload cur (p ++ ones es)) else RRaise cur
        else if is_multi_profile c then
          let '(ok, p') := mp_seq c a (fun e k acc => cset e (cget e acc + k)%Z acc) (ones es) p in
          if ok then RNone (with_payload cur p') else RRaise (with_payload cur p')
        else RRaise cur
    | OIaddEls es =>
        if is_list_profile c && all_valid c a (ones es) then RSame (with_payload cur (p ++ ones es)) else RRaise cur
    | OSetitem i e =>
        if is_list_profile c && valid c a e && (i <? List.length p) then RNone (with_payload cur (set_nth i (e, 1%Z) p))
        else RRaise cur
    | OSetslice x y es =>
        (* validate_ballot is applied to the LIST being assigned: always refused when validation is on *)
        if is_list_profile c && negb (validation_on a)
        then RNone (with_payload cur (firstn x p ++ ones es ++ skipn (Nat.max x y) p)) else RRaise cur
    | OMpSetitem e k =>
        if is_multi_profile c && hashable (tag e) && valid c a e then RNone (with_payload cur (cset e k p))
        else RRaise cur
    | OSetdefault e k =>
        if is_multi_profile c && hashable (tag e) && valid c a e
        then RNone (with_payload cur (if existsb (fun ec => Nat.eqb (fst ec) e) p then p else cset e k p)) else RRaise cur
    | OUpdateIter es =>
        if is_multi_profile c then
          let '(ok, p') := mp_seq c a (fun e k acc => cset e (cget e acc + k)%Z acc) (ones es) p in
          if ok then RNone (with_payload cur p') else RRaise (with_payload cur p')
        else RRaise cur
    | OUpdateMap ecs =>
        if is_multi_profile c && forallb (fun ec => hashable (tag (fst ec)) && valid c a (fst ec)) ecs
        then RNone (with_payload cur (fold_left (fun acc ec => cset (fst ec) (cget (fst ec) acc + snd ec)%Z acc) ecs p))
        else RRaise cur
    | OAsMulti =>
        if is_list_profile c then
          let a' := firstn 2 a ++ 0 :: skipn 3 a in
          if forallb (fun ec => let t := frozen_tag (tag (fst ec)) in
                                hashable t && (negb (validation_on a) || accepts (c + 4) 0 t)) p
          then RNew (mkObj (c + 4) a' []) else RRaise cur
        else RRaise cur
    | OCtorVal b =>
        (* every ballot is validated against the NEW flag, whatever the flag of the source was *)
        if is_list_profile c || is_multi_profile c then
          let a' := firstn 1 a ++ (if b then 0 else 1) :: skipn 2 a in
          if all_valid c a' p then RNew (mkObj c a' p) else RRaise cur
        else RRaise cur
    | OInstMut _ => RNone cur
    | OAsSat k =>
        (* the satisfaction profile is linked to the instance of the profile; sat_class id 1 = Cost_Sat *)
        if is_list_profile c || is_multi_profile c then
          let a' := [nth 0 a 0; 1] in
          match k with
          | 0 | 1 => RNew (mkObj (if is_list_profile c then 18 else 19) a' [])
          | _ => (* extend_from_profile freezes every ballot: only mutable ballots can be frozen *)
                 if forallb (fun ec => (2 <=? tag (fst ec)) && (tag (fst ec) <=? 5)) p
                 then RNew (mkObj 19 a' []) else RRaise cur
          end
        else RRaise cur
    | OMutate n =>
        if is_list_profile c || is_multi_profile c then RRaise cur      (* not applicable, never generated *)
        else if smemb n (mutator_names c) then RNone cur else RRaise cur
    | OClear =>
        match base_of c with
        | BTuple | BNone => RRaise cur
        | _ => RNone (with_payload cur [])
        end
    | OPop =>
        if is_list_profile c then
          match rev p with
          | [] => RRaise cur
          | _ :: r => RNone (with_payload cur (rev r))
          end
        else RRaise cur                                                   (* not applicable, never generated *)
    | ORemoveSat =>
        if Nat.eqb c 18 || Nat.eqb c 19 then RNew (mkObj c a []) else RRaise cur
    | OXCtor t =>
        if is_ballot c && is_ballot t then
          (* every ballot constructor takes name and meta from ANY ballot it is given;
             dict(iterable of projects) is a TypeError (non-empty approval / frozen tuple sources: not generated) *)
          if dictlike t && negb (maplike c) then RRaise cur else RNew (mkObj t a [])
        else if (is_list_profile c && Nat.eqb t (c + 4)) then
          (* XMultiProfile(list profile): Counter of mutable ballots -- unhashable unless there is none *)
          match p with
          | [] => RNew (mkObj t (firstn 2 a ++ other_side_btype (btype a) :: skipn 3 a) [])
          | _ => RRaise cur
          end
        else if (is_multi_profile c && Nat.eqb (t + 4) c) then
          RNew (mkObj t (firstn 2 a ++ other_side_btype (btype a) :: skipn 3 a) [])
        else RRaise cur   (* other pairs -- cross-kind profiles, SatisfactionProfile(sat multiprofile) -- are outside the
                             modelled API and never generated *)
    | OFromPlain =>
        if is_list_profile c || is_multi_profile c then
          let a0 := map (fun _ => 0) a in
          if all_valid c a0 p && forallb (fun ec => negb (is_multi_profile c) || hashable (tag (fst ec))) p
          then RNew (mkObj c a0 p) else RRaise cur
        else RNew (mkObj c (map (fun _ => 0) a) [])
    end.

  (* the driver of the correspondence run: a new object of the object's own class WITH THE SAME ATTRIBUTES
     becomes the current object *)
  Definition next (cur : obj) (r : res) : obj :=
    match r with
    | RNew o => if Nat.eqb (o_cls o) (o_cls cur) && nl_eqb (o_attrs o) (o_attrs cur) then o else cur
    | RSame o | RNone o | RRaise o => o
    | RPlain => cur
    end.

  Fixpoint run_ops (cur other : obj) (ops : list op) : list res :=
    match ops with
    | [] => []
    | o :: r => let x := step cur other o in x :: run_ops (next cur x) other r
    end.
End Env.

(* what the API promises to hand back as an object of the class itself *)
Definition reduce_names : list string := ["copy.copy"; "copy.deepcopy"; "pickle"; "ctor"].
Definition promised_names (c : nat) : list string :=
  reduce_names ++
  match base_of c with
  | BSet => ["copy"; "__or__"; "__and__"; "__sub__"; "__xor__"; "__ror__"; "__rand__"; "__rsub__";
             "__rxor__"; "union"; "intersection"; "difference"; "symmetric_difference"]
  | BDict => ["copy"; "__or__"; "__ror__"] ++ (if Nat.eqb c 5 then ["__add__"; "__reversed__"] else [])
  | BList => ["copy"; "__add__"; "__mul__"; "__rmul__"; "__getitem__"]
  | BCounter => ["copy"; "__add__"; "__sub__"; "__or__"; "__and__"; "__ror__"]
  | _ => []
  end
  ++ (if Nat.eqb c 18 || Nat.eqb c 19 then ["remove_satisfied"] else []).
Definition promised (c : nat) (name : string) : bool := smemb name (promised_names c).
