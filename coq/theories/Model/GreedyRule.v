(* Model/GreedyRule.v -- executable mirror of pabutools/rules/greedywelfare/greedywelfare_rule.py.
   DEFINITIONS ONLY (proofs: Proofs/GreedyP.v, Proofs/GreedyAddP.v; spec: Spec/GreedySpec.v).

   INTERFACE (everything a caller -- C03, and later C01/C06/C08/C13 -- needs)

     inputs   I    : inst                  costs by project rank + budget limit
              sat  : list proj -> Q        sat_profile.total_satisfaction(list of projects); the general scheme
                                           only calls it on  alloc  and  alloc ++ [p]
              sp   : proj -> Q             sat_profile.total_satisfaction_project(p)  (fast path only)
              tb   : proj -> Q             numeric key of the tie-breaking rule (rank for lexicographic, cost,
                                           -cost, -approval score); TieBreakingRule.order = stable sort on it
              init : list proj             initial budget allocation
     outputs  greedy_gen_res  I sat tb init  : option (list proj)          greedy_utilitarian_scheme, resolute
              greedy_gen_irr  I sat tb init  : option (list (list proj))   ... irresolute (sorted, de-duplicated)
              greedy_add_res  I sp tb init   : list proj                   greedy_utilitarian_scheme_additive, resolute
              greedy_welfare_res additive .. : option (list proj)          dispatch of greedy_utilitarian_welfare
              greedy_welfare_irr ..          : option (list (list proj))   (the additive scheme delegates irresolute
                                                                            calls to the general scheme)
     [None] only when the internal fuel runs out / a tie list is empty -- Proofs/GreedyP.v shows it never happens.
     Lists are returned in the order the code appends (init first); compare as sets unless order is the point.

   What is mirrored
     general scheme: the candidates [feasible] are name-sorted ONCE (sorted(feasible_projects)) and only filtered
       afterwards (selected project removed, projects that no longer fit dropped), so the argmax list reaches
       tie_breaking.order in name order; marginal density  (sat(alloc+[p]) - sat(alloc)) / cost  is recomputed every
       round; cost <= 0 counts as +inf; ties = all maximisers; resolute takes the first of the tie order, irresolute
       branches on every tied project, leaves are sorted and de-duplicated in DFS order.
     fast path: projects = name-sorted instance minus init, reordered ONCE by tie_breaking.order, then sorted ONCE by
       (-density, index) where density = sp/cost if sp > 0 and cost > 0, +inf if sp > 0 and cost <= 0, and 0 if
       sp <= 0 (whatever the cost); one pass, taking whatever still fits. *)
From PB Require Export Base.Election Base.Argmax.
Open Scope Q_scope.

Section Greedy.
Variable I : inst.
Variable sat : list proj -> Q.
Variable sp : proj -> Q.
Variable tb : proj -> Q.

(* ---------- general scheme ---------- *)

(* total_marginal_score of [p] on top of [alloc] *)
Definition mdens (alloc : list proj) (p : proj) : Qx :=
  if Qltb 0 (cost I p) then Fin ((sat (alloc ++ [p]) - sat alloc) / cost I p) else PInf.

(* the feasible list handed to the recursive call after selecting [s]: new_cost = total_cost(alloc + [s]) *)
Definition next_feasible (feas alloc : list proj) (s : proj) : list proj :=
  let c := tcost I (alloc ++ [s]) in
  filter (fun p => negb (Nat.eqb p s) && Qleb (c + cost I p) (budget I)) feas.

(* tied_projects = tie.order(inst, prof, argmax_marginal_score) *)
Definition tied_projects (feas alloc : list proj) : list proj :=
  tie_order tb (argmax_all Qx_leb (mdens alloc) feas).

Fixpoint opt_concat {X} (l : list (option (list X))) : option (list X) :=
  match l with
  | [] => Some []
  | None :: _ => None
  | Some a :: r => match opt_concat r with Some b => Some (a ++ b) | None => None end
  end.

(* aux: the allocations appended to [allocs] at the leaves, in DFS order (before sort / de-duplication) *)
Fixpoint gen_leaves (resolute : bool) (fuel : nat) (feas alloc : list proj) : option (list (list proj)) :=
  match feas with
  | [] => Some [alloc]
  | _ :: _ =>
      match fuel with
      | O => None
      | S fuel' =>
          let tied := tied_projects feas alloc in
          let tied := if resolute then firstn 1 tied else tied in
          opt_concat (map (fun s => gen_leaves resolute fuel' (next_feasible feas alloc s) (alloc ++ [s])) tied)
      end
  end.

(* the initial candidate list: sorted([p for p in instance if p not in init and initial_cost + p.cost <= B]) *)
Definition initial_feasible (init : list proj) : list proj :=
  filter (fun p => negb (memb p init) && Qleb (tcost I init + cost I p) (budget I)) (all_projects I).

Fixpoint nl_eqb (a b : list proj) : bool :=
  match a, b with
  | [], [] => true
  | x :: r, y :: t => Nat.eqb x y && nl_eqb r t
  | _, _ => false
  end.

(* `alloc.sort(); if alloc not in allocs: allocs.append(alloc)` over the leaves in order *)
Fixpoint dedup_sorted (seen : list (list proj)) (leaves : list (list proj)) : list (list proj) :=
  match leaves with
  | [] => seen
  | a :: r => let a' := name_sort a in
              if existsb (nl_eqb a') seen
              then dedup_sorted seen r else dedup_sorted (seen ++ [a']) r
  end.

Definition greedy_gen_res (init : list proj) : option (list proj) :=
  let feas := initial_feasible init in
  match gen_leaves true (length feas) feas init with
  | Some (W :: _) => Some W       (* all_budget_allocations[0] *)
  | _ => None
  end.

Definition greedy_gen_irr (init : list proj) : option (list (list proj)) :=
  let feas := initial_feasible init in
  match gen_leaves false (length feas) feas init with
  | Some ls => Some (dedup_sorted [] ls)
  | None => None
  end.

(* ---------- additive fast path ---------- *)

Definition sdens (p : proj) : Qx :=
  if Qltb 0 (sp p) then (if Qltb 0 (cost I p) then Fin (sp p / cost I p) else PInf) else Fin 0.

(* sorted(projects, key = (-density, index in projects)) = stable sort by decreasing density *)
Definition dens_order (l : list proj) : list proj :=
  isort (fun p q => Qx_leb (sdens q) (sdens p)) l.

Definition add_candidates (init : list proj) : list proj :=
  dens_order (tie_order tb (filter (fun p => negb (memb p init)) (all_projects I))).

(* the single pass; returns the projects appended, in order *)
Fixpoint add_pass (l : list proj) (remaining : Q) : list proj :=
  match l with
  | [] => []
  | p :: r => if Qleb (cost I p) remaining then p :: add_pass r (remaining - cost I p)
              else add_pass r remaining
  end.

Definition greedy_add_res (init : list proj) : list proj :=
  init ++ add_pass (add_candidates init) (budget I - tcost I init).

(* ---------- greedy_utilitarian_welfare ---------- *)

Definition greedy_welfare_res (additive : bool) (init : list proj) : option (list proj) :=
  if additive then Some (greedy_add_res init) else greedy_gen_res init.

Definition greedy_welfare_irr (additive : bool) (init : list proj) : option (list (list proj)) :=
  greedy_gen_irr init.

End Greedy.
