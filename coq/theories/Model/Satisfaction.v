(* Model/Satisfaction.v -- executable mirror of pabutools/election/satisfaction/
   {additivesatisfaction,functionalsatisfaction,positionalsatisfaction}.py (repaired tree).
   Definitions only.  Per measure: the per-project function ([..._p], what [sat_project] returns) and the
   set function ([sat]).  The two MIP normalisers (max_budget_allocation_cost, the knapsack inside
   Additive_Cardinal_Relative_Sat.preprocessing) are "the solver's 0/1 vector re-evaluated exactly"
   ([mip_value]); the per-project functions take the normaliser as a parameter so that the case-file
   oracle can instantiate it with the brute-force optimum. *)
From PB Require Export Model.InstanceM.
Open Scope Q_scope.

(* ---------- ballots as the measures see them ----------
   A ballot is the sequence of projects it contains, in iteration order, each with a score:
     approval ballot      set/tuple of projects            (score unused, 0)
     cardinal/cumulative  dict project -> score            (a key with score 0 IS in the ballot)
     ordinal ballot       projects in preference order     (score unused, 0)                        *)
Definition ballot := list (proj * Q).
Definition bmem (b : ballot) : list proj := map fst b.
(* `project in ballot` *)
Definition inb (b : ballot) (p : proj) : bool := memb p (bmem b).
(* `ballot.get(project, 0)` / `ballot[project]` *)
Fixpoint bget (b : ballot) (p : proj) : Q :=
  match b with
  | [] => 0
  | (q, s) :: r => if Nat.eqb p q then s else bget r p
  end.
(* `ballot.position(project)` = index of the project (for a project of the ballot) *)
Fixpoint bpos (b : ballot) (p : proj) : nat :=
  match b with
  | [] => O
  | (q, _) :: r => if Nat.eqb p q then O else S (bpos r p)
  end.
(* `int(project in ballot)` *)
Definition ind (c : bool) : Q := if c then 1 else 0.

(* a profile: ballots with multiplicities (a list Profile has multiplicity 1 everywhere) *)
Definition profile := list (ballot * nat).

(* AdditiveSatisfaction.sat: sum(get_project_sat(p) for p in proj); PositionalSatisfaction.sat with
   aggregation_func = sum.  A list sum: a project listed twice counts twice. *)
Definition sat_add (f : proj -> Q) (W : list proj) : Q := Qsum (map f W).

(* costs of the projects of the ballot, in its iteration order *)
Definition bcosts (I : inst) (b : ballot) : list Q := map (cost I) (bmem b).

(* ---------- additive measures: per-project functions ---------- *)

(* cardinality_sat_func *)
Definition cardinality_p (b : ballot) (p : proj) : Q := ind (inb b p).

(* cost_sat_func *)
Definition cost_p (I : inst) (b : ballot) (p : proj) : Q := ind (inb b p) * cost I p.

(* Relative_Cardinality_Sat.preprocessing + relative_cardinality_sat_func *)
Definition rel_card_norm (I : inst) (b : ballot) : nat := max_card (bcosts I b) (budget I).
Definition rel_card_p (I : inst) (b : ballot) (p : proj) : Q :=
  let n := rel_card_norm I b in
  if Nat.eqb n 0 then 0 else ind (inb b p) / Qnat n.

(* `if normaliser == 0: return 0 ; return frac(x, normaliser)` *)
Definition rel_by (N x : Q) : Q := if Qeqb N 0 then 0 else x / N.

(* relative_cost_sat_func, normaliser N = max_budget_allocation_cost(ballot, budget_limit) *)
Definition rel_cost_p (N : Q) (I : inst) (b : ballot) (p : proj) : Q := rel_by N (cost_p I b p).

(* the answer of the MIP solver, re-evaluated exactly (repaired code):
   total_cost(p for p in p_vars if p_vars[p].x >= 0.99) *)
Fixpoint select {A} (x : list bool) (l : list A) : list A :=
  match x, l with
  | true :: xr, a :: lr => a :: select xr lr
  | false :: xr, _ :: lr => select xr lr
  | _, _ => []
  end.
Definition mip_value (x : list bool) (vals : list Q) : Q := Qsum (select x vals).

(* Relative_Cost_Approx_Normaliser_Sat.preprocessing: min(total_cost(ballot), budget_limit) *)
Definition approx_norm (I : inst) (b : ballot) : Q :=
  let t := Qsum (bcosts I b) in if Qleb t (budget I) then t else budget I.
Definition rel_cost_approx_p (I : inst) (b : ballot) (p : proj) : Q :=
  rel_by (approx_norm I b) (cost_p I b p).

(* effort_sat_func (repaired): denominator = sum(profile.multiplicity(b) for b in profile if project in b) *)
Definition supporters (P : profile) (p : proj) : nat :=
  fold_right (fun bm n => if inb (fst bm) p then (snd bm + n)%nat else n) O P.
Definition effort_p (I : inst) (P : profile) (b : ballot) (p : proj) : Q :=
  let d := supporters P p in
  if Nat.eqb d 0 then 0 else ind (inb b p) * (cost I p / Qnat d).

(* additive_card_sat_func *)
Definition add_card_p (b : ballot) (p : proj) : Q := bget b p.

(* additive_card_relative_sat_func, normaliser N = best total score of a feasible subset of the instance *)
Definition add_card_rel_p (N : Q) (b : ballot) (p : proj) : Q := rel_by N (bget b p).
(* rows of the knapsack built in Additive_Cardinal_Relative_Sat.preprocessing: (cost, score) per project *)
Definition score_items (I : inst) (b : ballot) : list (Q * Q) :=
  map (fun p => (cost I p, bget b p)) (all_projects I).

(* borda_sat_func *)
Definition borda_p (b : ballot) (p : proj) : Q :=
  if inb b p then Qnat (length b - bpos b p - 1) else 0.

(* ---------- functional measures ---------- *)

(* cc_sat_func_app: int(any(p in ballot for p in projects)) *)
Definition cc_app (b : ballot) (W : list proj) : Q := ind (existsb (inb b) W).

(* cc_sat_func_card: running maximum starting at 0 *)
Definition cc_card (b : ballot) (W : list proj) : Q :=
  fold_left (fun res p => if inb b p && Qltb res (bget b p) then bget b p else res) W 0.

(* ---------- brute-force reference for the score knapsack ---------- *)
Definition wfits (B : Q) (s : list (Q * Q)) : bool := Qleb (Qsum (map fst s)) B.
Definition max_score_bf (items : list (Q * Q)) (B : Q) : Q :=
  Qmax_list (map (fun s => Qsum (map snd s)) (filter (wfits B) (powerset items))).

(* ---------- the shipped measures as one family ---------- *)
Inductive measure :=
| Cardinality | Cost | Effort | RelCardinality | RelCostApprox | AddCardinal | Borda
| CCApp | CCCard | RelCost | AddCardinalRel.

(* what a measure object holds: instance, profile, ballot, and (for the two MIP-normalised measures)
   the 0/1 vector the solver returned at construction: over the ballot's projects for RelCost, over
   the instance's projects for AddCardinalRel *)
Record env := mkEnv { eI : inst; eP : profile; eb : ballot; ex : list bool }.

Definition rel_cost_norm (E : env) : Q := mip_value (ex E) (bcosts (eI E) (eb E)).
Definition add_card_rel_norm (E : env) : Q := mip_value (ex E) (map snd (score_items (eI E) (eb E))).

Definition additive (m : measure) : bool :=
  match m with CCApp | CCCard => false | _ => true end.

(* sat_project *)
Definition sat_project (m : measure) (E : env) (p : proj) : Q :=
  match m with
  | Cardinality => cardinality_p (eb E) p
  | Cost => cost_p (eI E) (eb E) p
  | Effort => effort_p (eI E) (eP E) (eb E) p
  | RelCardinality => rel_card_p (eI E) (eb E) p
  | RelCostApprox => rel_cost_approx_p (eI E) (eb E) p
  | AddCardinal => add_card_p (eb E) p
  | Borda => borda_p (eb E) p
  | CCApp => cc_app (eb E) [p]
  | CCCard => cc_card (eb E) [p]
  | RelCost => rel_cost_p (rel_cost_norm E) (eI E) (eb E) p
  | AddCardinalRel => add_card_rel_p (add_card_rel_norm E) (eb E) p
  end.

(* sat *)
Definition sat (m : measure) (E : env) (W : list proj) : Q :=
  match m with
  | CCApp => cc_app (eb E) W
  | CCCard => cc_card (eb E) W
  | _ => sat_add (sat_project m E) W
  end.
