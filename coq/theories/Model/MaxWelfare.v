(* Model/MaxWelfare.v -- executable mirror of pabutools/rules/maxwelfare.py (REPAIRED tree: empty item
   list guard, exact efficiency [frac(profit)/weight], no [math.floor] on the bounds, projects of negative
   total satisfaction are not handed to the knapsack).
   Definitions only (proofs: Proofs/KnapsackP.v, Proofs/MaxWelfareP.v, Proofs/IlpCutP.v).

   INTERFACE (reused by C01, C13, C19)
   ----------------------------------
     welfare score W                    : Q       total satisfaction of allocation W = sum of the per-project totals
     maxwelfare_pd I score enum init    : option (list proj)
         max_additive_utilitarian_welfare(..., inner_algo=PRIMAL_DUAL, initial_budget_allocation=init)
         I      instance (costs by rank, budget)
         score  total satisfaction of each project by rank  (sat_profile.total_satisfaction_project)
         enum   iteration order of the instance object (a Python set) -- any permutation of the projects
         init   the initial budget allocation (a list)
         result in the ORDER of the returned BudgetAllocation: init ++ zero-cost picks ++ knapsack picks;
         [None] only if the internal fuel ran out (never: [maxwelfare_pd_total])
     pd_branch items cap                : option (list kitem)          primal_dual_branch(items, capacity)
     Section IlpScheme: ilp_scheme solve ... (the ILP scheme as a function of an abstract solver oracle)

   Representation choices (all documented where they occur):
     * Python's index [a] ranges over -1 .. n-1; the model carries [a1 = a + 1 : nat].
       [a_star] likewise is stored as [a_star + 1]; [b_star]'s initial -1 is stored as 0 (the only use of
       b_star is the test [i < b_star] in the reconstruction loop, false for every i >= 0 in both cases).
     * the mutable lists lower_bound/a_star/b_star/x are threaded as a state record [pdst].
     * running sums are kept reduced with [Qred] (value-preserving; keeps vm_compute fast). *)
From Coq Require Export Qround.
From PB Require Export Base.Election.
Open Scope Q_scope.

(* total satisfaction of an allocation for an additive measure: sum over its projects (list sum) *)
Definition welfare (score : list Q) (W : list proj) : Q := Qsum (map (fun p => nth p score 0) W).

(* ---------------------------------------------------------------------------------------------- *)
(* KnapsackItem                                                                                    *)
(* ---------------------------------------------------------------------------------------------- *)
Record kitem := mkItem { kproj : proj; kw : Q; kp : Q }.

(* KnapsackItem.efficiency: frac(self.profit) / self.weight if self.weight != 0 else 0 *)
Definition eff (it : kitem) : Q := if Qeqb (kw it) 0 then 0 else kp it / kw it.

(* items.sort(key=lambda x: x.efficiency, reverse=True): stable, descending -- equal keys keep their
   original relative order (CPython: reverse=True preserves stability).  [isort] inserts x before the
   first y with [leb x y]; with leb x y := eff y <= eff x, x stays in front of the later-in-input
   elements of equal efficiency. *)
Definition eff_geb (x y : kitem) : bool := Qleb (eff y) (eff x).
Definition sort_items (items : list kitem) : list kitem := isort eff_geb items.

(* ---------------------------------------------------------------------------------------------- *)
(* the split item (for-loop at the top of primal_dual_branch)                                      *)
(* ---------------------------------------------------------------------------------------------- *)
(* state of the loop: tmp_capacity, split_weight, split_profit, split_idx; [i] = enumerate index,
   [n] = len(items).  Python starts split_idx at -1; the loop body runs at least once because of the
   empty-list guard, so the start value is never observed (the model starts it at 0). *)
Fixpoint split_loop (rest : list kitem) (i n : nat) (tmp sw sp : Q) (sidx : nat) : nat * Q * Q :=
  match rest with
  | [] => (sidx, sw, sp)
  | it :: r =>
      let tmp' := Qred (tmp - kw it) in                       (* tmp_capacity -= item.weight *)
      let sidx' := if Nat.eqb i (n - 1) && Qleb 0 tmp'        (* split_idx = i; if last and fits: += 1 *)
                   then S i else i in
      if Qltb tmp' 0 then (sidx', sw, sp)                     (* if tmp_capacity < 0: break *)
      else split_loop r (S i) n tmp' (Qred (sw + kw it)) (Qred (sp + kp it)) sidx'
  end.

(* ---------------------------------------------------------------------------------------------- *)
(* primal_dual_branch_impl                                                                         *)
(* ---------------------------------------------------------------------------------------------- *)
Record pdst := mkSt { lb : Q; astar1 : nat; bstar : nat; xs : list bool }.

Fixpoint set_nth (l : list bool) (i : nat) (v : bool) : list bool :=
  match l, i with
  | [], _ => []
  | _ :: r, O => v :: r
  | y :: r, S j => y :: set_nth r j v
  end.
Definition setx (st : pdst) (i : nat) (v : bool) : pdst :=
  mkSt (lb st) (astar1 st) (bstar st) (set_nth (xs st) i v).

Definition dummy_item := mkItem 0%nat 0 0.
Definition item_at (items : list kitem) (i : nat) : kitem := nth i items dummy_item.

(* returns (improved, state); [None] = out of fuel.  a1 = a + 1. *)
Fixpoint pd_impl (fuel : nat) (items : list kitem) (cap : Q) (a1 b : nat) (P W : Q) (st : pdst)
  : option (bool * pdst) :=
  match fuel with
  | O => None
  | S f =>
    if Qleb W cap then                                                  (* if weight_sum <= capacity *)
      let '(improved, st) :=
        if Qltb (lb st) P                                               (*   if profit_sum > lower_bound[0] *)
        then (true, mkSt P a1 b (xs st)) else (false, st) in
      if Nat.leb (length items) b then Some (improved, st)              (*   if b > len(items) - 1 *)
      else
        let ub := (cap - W) * eff (item_at items b) in                  (*   upper_bound *)
        if Qleb (P + ub) (lb st) then Some (improved, st)
        else
          let pb := kp (item_at items b) in
          let wb := kw (item_at items b) in
          match pd_impl f items cap a1 (S b) (Qred (P + pb)) (Qred (W + wb)) st with
          | None => None
          | Some (i1, st1) =>
            let '(improved, st1) := if i1 then (true, setx st1 b true) else (improved, st1) in
            match pd_impl f items cap a1 (S b) P W st1 with
            | None => None
            | Some (i2, st2) =>
              if i2 then Some (true, setx st2 b false) else Some (improved, st2)
            end
          end
    else
      match a1 with
      | O => Some (false, st)                                           (*   if a < 0: return False *)
      | S a =>                                                          (*   a = Python's a; a - 1 = a1 := a *)
        let ub := (cap - W) * eff (item_at items a) in
        if Qleb (P + ub) (lb st) then Some (false, st)
        else
          let pa := kp (item_at items a) in
          let wa := kw (item_at items a) in
          match pd_impl f items cap a b (Qred (P - pa)) (Qred (W - wa)) st with
          | None => None
          | Some (i1, st1) =>
            let '(improved, st1) := if i1 then (true, setx st1 a false) else (false, st1) in
            match pd_impl f items cap a b P W st1 with
            | None => None
            | Some (i2, st2) =>
              if i2 then Some (true, setx st2 a true) else Some (improved, st2)
            end
          end
      end
  end.

(* the reconstruction loop:  for i in range(n): if i < b_star: (if i < a_star + 1: sol[i] = 1);
   if sol[i] == 1: result.append(items[i]) *)
Fixpoint decode_from (items : list kitem) (i : nat) (a1s bs : nat) (x : list bool) : list kitem :=
  match items with
  | [] => []
  | it :: r =>
      let rest := decode_from r (S i) a1s bs x in
      if Nat.ltb i bs && (Nat.ltb i a1s || nth i x false) then it :: rest else rest
  end.
Definition decode (items : list kitem) (st : pdst) : list kitem :=
  decode_from items 0 (astar1 st) (bstar st) (xs st).

Definition pd_fuel (items : list kitem) : nat := S (length items).

Definition pd_branch (items0 : list kitem) (cap : Q) : option (list kitem) :=
  match items0 with
  | [] => Some []                                                       (* if not items: return [] *)
  | _ =>
    let items := sort_items items0 in
    let n := length items in
    let '(sidx, sw, sp) := split_loop items 0 n cap 0 0 0 in
    let st0 := mkSt 0 0 0 (repeat false n) in       (* lower_bound 0, a_star -1, b_star -1, x = 0s *)
    match pd_impl (pd_fuel items) items cap sidx sidx sp sw st0 with    (* a = split_idx - 1, b = split_idx *)
    | None => None
    | Some (_, st) => Some (decode items st)
    end
  end.

(* ---------------------------------------------------------------------------------------------- *)
(* max_additive_utilitarian_welfare_primal_dual_scheme                                             *)
(* ---------------------------------------------------------------------------------------------- *)
Definition score_of (score : list Q) (p : proj) : Q := nth p score 0.

(* for p in instance: if p not in budget_allocation: ... ; returns (budget_allocation, items) *)
Fixpoint pd_collect (I : inst) (score : list Q) (enum : list proj) (alloc : list proj)
                    (items : list kitem) : list proj * list kitem :=
  match enum with
  | [] => (alloc, items)
  | p :: r =>
      if memb p alloc then pd_collect I score r alloc items
      else
        let profit := score_of score p in
        if Qeqb (cost I p) 0 then
          if Qltb 0 profit then pd_collect I score r (alloc ++ [p]) items
          else pd_collect I score r alloc items
        else if Qleb 0 profit                                   (* elif profit >= 0: (commit 5fe03f1) *)
             then pd_collect I score r alloc (items ++ [mkItem p (cost I p) profit])
             else pd_collect I score r alloc items              (* negative total satisfaction: skipped *)
  end.

Definition maxwelfare_pd (I : inst) (score : list Q) (enum init : list proj) : option (list proj) :=
  let '(alloc, items) := pd_collect I score enum init [] in
  let cap := Qred (budget I - tcost I alloc) in
  match pd_branch items cap with
  | None => None
  | Some res => Some (alloc ++ map kproj res)
  end.

(* ---------------------------------------------------------------------------------------------- *)
(* max_additive_utilitarian_welfare_ilp_scheme as a function of an abstract solver                 *)
(* ---------------------------------------------------------------------------------------------- *)
(* A row is a linear constraint  sum_i coef_i * x_i  (<=|>=|==)  rhs  over the 0/1 variables p_vars
   (one per project outside the initial allocation, in iteration order). *)
Inductive sense := SLe | SGe | SEq.
Record lrow := mkRow { rcoef : list Q; rsense : sense; rrhs : Q }.

Fixpoint dot (coef : list Q) (x : list bool) : Q :=
  match coef, x with
  | c :: cr, v :: xr => (if v then c else 0) + dot cr xr
  | _, _ => 0
  end.
Definition row_ok (x : list bool) (r : lrow) : bool :=
  match rsense r with
  | SLe => Qleb (dot (rcoef r) x) (rrhs r)
  | SGe => Qleb (rrhs r) (dot (rcoef r) x)
  | SEq => Qeqb (dot (rcoef r) x) (rrhs r)
  end.
Definition rows_ok (rows : list lrow) (x : list bool) : bool := forallb (row_ok x) rows.

Definition count_true (x : list bool) : nat := length (filter (fun v => v) x).
(* the two integer cuts built from previous_partial_alloc (given as the 0/1 vector [prev]):
     xsum(1 - x_p for p in prev) + xsum(x_p for p not in prev) >= 1
        <=>   sum (if prev_p then -1 else 1) * x_p  >=  1 - |prev|
     xsum(x_p for p in prev) - xsum(x_p for p not in prev) <= len(prev) - 1 *)
Definition cut_ge (prev : list bool) : lrow :=
  mkRow (map (fun v : bool => if v then -(1) else 1) prev) SGe (1 - Qnat (count_true prev)).
Definition cut_le (prev : list bool) : lrow :=
  mkRow (map (fun v : bool => if v then 1 else -(1)) prev) SLe (Qnat (count_true prev) - 1).

Fixpoint bvec_eqb (x y : list bool) : bool :=
  match x, y with
  | [], [] => true
  | a :: r, b :: s => Bool.eqb a b && bvec_eqb r s
  | _, _ => false
  end.
Definition bvec_mem (x : list bool) (l : list (list bool)) : bool := existsb (bvec_eqb x) l.

(* [p for p in p_vars if p_vars[p].x >= 0.99] *)
Fixpoint select {A} (vars : list A) (x : list bool) : list A :=
  match vars, x with
  | p :: r, v :: xr => if v then p :: select r xr else select r xr
  | _, _ => []
  end.

Section IlpScheme.
  (* the solver: objective coefficients (maximised), rows  ->  Some 0/1 vector (status OPTIMAL) or None *)
  Variable solve : list Q -> list lrow -> option (list bool).

  (* the while-True loop; rows accumulate (newest last), [prev] = previous_partial_alloc,
     [acc] = all_partial_allocs.  [None] = out of fuel. *)
  Fixpoint cut_loop (fuel : nat) (obj : list Q) (rows : list lrow) (prev : list bool)
                    (acc : list (list bool)) : option (list (list bool)) :=
    match fuel with
    | O => None
    | S f =>
        let rows' := rows ++ [cut_ge prev; cut_le prev] in
        match solve obj rows' with
        | None => Some acc                                            (* status != OPTIMAL: break *)
        | Some x =>
            let acc' := if bvec_mem x acc then acc else acc ++ [x] in (* if ... not in all_partial_allocs *)
            cut_loop f obj rows' x acc'
        end
    end.

  Definition ilp_vars (enum init : list proj) : list proj := filter (fun p => negb (memb p init)) enum.

  (* returns the list of budget allocations (singleton when resolute); [None] = first optimize() did
     not return a solution (Python would fail on objective_value None) or out of fuel *)
  Definition ilp_scheme (fuel : nat) (I : inst) (score : list Q) (enum init : list proj)
                        (resolute : bool) : option (list (list proj)) :=
    let vars := ilp_vars enum init in
    let obj := map (score_of score) vars in
    let budget_row := mkRow (map (cost I) vars) SLe (budget I - tcost I init) in
    match solve obj [budget_row] with
    | None => None
    | Some x0 =>
        let opt_value := dot obj x0 in                                (* mip_model.objective_value *)
        if resolute then Some [select vars x0 ++ init]
        else
          match cut_loop fuel obj [budget_row; mkRow obj SEq opt_value] x0 [x0] with
          | None => None
          | Some acc => Some (map (fun x => select vars x ++ init) acc)
          end
    end.
End IlpScheme.

(* ---------------------------------------------------------------------------------------------- *)
(* the pre-repair bound (kept for [pd_floor_refuted]): math.floor of the bound                     *)
(* ---------------------------------------------------------------------------------------------- *)
Definition Qfloor_Q (q : Q) : Q := inject_Z (Qfloor q).

Fixpoint pd_impl_floor (fuel : nat) (items : list kitem) (cap : Q) (a1 b : nat) (P W : Q) (st : pdst)
  : option (bool * pdst) :=
  match fuel with
  | O => None
  | S f =>
    if Qleb W cap then
      let '(improved, st) :=
        if Qltb (lb st) P then (true, mkSt P a1 b (xs st)) else (false, st) in
      if Nat.leb (length items) b then Some (improved, st)
      else
        let ub := Qfloor_Q ((cap - W) * eff (item_at items b)) in
        if Qleb (P + ub) (lb st) then Some (improved, st)
        else
          let pb := kp (item_at items b) in
          let wb := kw (item_at items b) in
          match pd_impl_floor f items cap a1 (S b) (Qred (P + pb)) (Qred (W + wb)) st with
          | None => None
          | Some (i1, st1) =>
            let '(improved, st1) := if i1 then (true, setx st1 b true) else (improved, st1) in
            match pd_impl_floor f items cap a1 (S b) P W st1 with
            | None => None
            | Some (i2, st2) =>
              if i2 then Some (true, setx st2 b false) else Some (improved, st2)
            end
          end
    else
      match a1 with
      | O => Some (false, st)
      | S a =>
        let ub := Qfloor_Q ((cap - W) * eff (item_at items a)) in
        if Qleb (P + ub) (lb st) then Some (false, st)
        else
          let pa := kp (item_at items a) in
          let wa := kw (item_at items a) in
          match pd_impl_floor f items cap a b (Qred (P - pa)) (Qred (W - wa)) st with
          | None => None
          | Some (i1, st1) =>
            let '(improved, st1) := if i1 then (true, setx st1 a false) else (false, st1) in
            match pd_impl_floor f items cap a b P W st1 with
            | None => None
            | Some (i2, st2) =>
              if i2 then Some (true, setx st2 a true) else Some (improved, st2)
            end
          end
      end
  end.

Definition pd_branch_floor (items0 : list kitem) (cap : Q) : option (list kitem) :=
  match items0 with
  | [] => Some []
  | _ =>
    let items := sort_items items0 in
    let n := length items in
    let '(sidx, sw, sp) := split_loop items 0 n cap 0 0 0 in
    let st0 := mkSt 0 0 0 (repeat false n) in
    match pd_impl_floor (pd_fuel items) items cap sidx sidx sp sw st0 with
    | None => None
    | Some (_, st) => Some (decode items st)
    end
  end.
