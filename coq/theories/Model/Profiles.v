(* Model/Profiles.v -- executable model of MultiProfile (pabutools/election/profile/profile.py), a
   collections.Counter keyed by frozen ballots (DEFINITIONS ONLY).

   A Counter is a dict: an insertion-ordered list of (stored key, count).  A lookup with a probe key
   finds the stored key whose hash equals the probe's hash and which [==] the probe ([kmatch]);
   a missing key counts 0 (Counter.__missing__).
     MultiProfile.append(ballot):  if ballot in self: self[ballot] += 1  else: self[ballot] = 1
     MultiProfile.extend(iterable): for ballot in iterable: self.append(ballot.frozen())   (force_freeze)
     XMultiProfile(profile=prof) / prof.as_multiprofile(): an empty multiprofile, then extend(prof)
     XMultiProfile(init=[frozen ballots]): Counter.__init__ counts the elements one by one = append each
     multiplicity(ballot) = self[ballot];  num_ballots() = sum(self.values());  len = number of entries. *)
From Coq Require Import List Arith Bool.
Import ListNotations.

Section Counter.
  Variable K : Type.                       (* frozen ballots *)
  Variable kmatch : K -> K -> bool.        (* stored key, probe: hash equal and == *)

  Definition counter := list (K * nat).

  Fixpoint mp_get (k : K) (m : counter) : nat :=
    match m with
    | [] => 0
    | (k', c) :: r => if kmatch k' k then c else mp_get k r
    end.

  Fixpoint mp_append (k : K) (m : counter) : counter :=
    match m with
    | [] => [(k, 1)]
    | (k', c) :: r => if kmatch k' k then (k', S c) :: r else (k', c) :: mp_append k r
    end.

  Definition mp_len (m : counter) : nat := length m.
  Definition mp_num (m : counter) : nat := fold_right (fun e n => snd e + n) 0 m.

  Section Ops.
    Variable B : Type.                     (* mutable ballots *)
    Variable frozen : B -> K.

    Definition mp_extend (bs : list B) (m : counter) : counter :=
      fold_left (fun m b => mp_append (frozen b) m) bs m.

    (* one step of an insertion history *)
    Inductive mpop := OpAppend (b : B) | OpExtend (bs : list B).

    Definition op_ballots (o : mpop) : list B := match o with OpAppend b => [b] | OpExtend bs => bs end.
    Definition op_step (m : counter) (o : mpop) : counter :=
      match o with
      | OpAppend b => mp_append (frozen b) m          (* mp.append(b.frozen()) *)
      | OpExtend bs => mp_extend bs m                 (* mp.extend(bs); conversion of a profile *)
      end.

    Definition run (ops : list mpop) : counter := fold_left op_step ops [].
    Definition history (ops : list mpop) : list B := flat_map op_ballots ops.
  End Ops.
End Counter.

Arguments mp_get {K}. Arguments mp_append {K}. Arguments mp_len {K}. Arguments mp_num {K}.
Arguments mp_extend {K} kmatch {B}. Arguments OpAppend {B}. Arguments OpExtend {B}.
Arguments op_ballots {B}. Arguments op_step {K} kmatch {B}. Arguments run {K} kmatch {B}.
Arguments history {B}.

(* number of b' in l with f b' *)
Definition countb {A} (f : A -> bool) (l : list A) : nat := length (filter f l).

(* first occurrences up to an equivalence test: the ballots that open a new entry *)
Fixpoint dedupb {A} (eqb : A -> A -> bool) (seen l : list A) : list A :=
  match l with
  | [] => []
  | x :: r => if existsb (fun s => eqb s x) seen then dedupb eqb seen r else x :: dedupb eqb (seen ++ [x]) r
  end.
