(* Model/PabulibM.v -- executable Gallina mirror of pabutools/election/pabulib.py (parser and writer)
   at two levels.  DEFINITIONS ONLY (proofs are in Proofs/PabulibP.v).

   Character level: [split_lines] (str.splitlines on the byte range), the state machine of CPython's
   csv.reader for the dialect the library uses (delimiter ';', quotechar ''', doublequote, non-strict,
   no escapechar, lines handed over WITHOUT their terminators) and csv.writer (QUOTE_MINIMAL,
   lineterminator '\n').
   Row level: [parse_rows] = the section/header state machine of parse_pabulib_from_string followed by
   the legal-limit normalisation; [write_rows] = election_as_pabulib_string up to the (unmodelled)
   natsort of the project and vote rows.

   Text is [str := list ascii] (bytes; the harness encodes Python str as UTF-8).  Number text is abstract
   at row level: Section variables show_num/read_num/show_nat/read_nat, instantiated at the end of the file
   for execution (decimal / 'n/d' text). *)
From Coq Require Export List Bool Arith QArith Ascii String.
From Coq Require Import DecimalString DecimalNat DecimalN DecimalZ ZArith.
Export ListNotations.
Open Scope list_scope.

Definition str := list ascii.
Notation "$ s" := (list_ascii_of_string s) (at level 0, s at level 0, only parsing).

Definition ch (n : nat) : ascii := ascii_of_nat n.
Definition c_lf : ascii := ch 10.
Definition c_cr : ascii := ch 13.
Definition c_semi : ascii := ";"%char.
Definition c_quote : ascii := """"%char.
Definition c_comma : ascii := ","%char.
Definition c_dot : ascii := "."%char.

Fixpoint str_eqb (a b : str) : bool :=
  match a, b with
  | [], [] => true
  | x :: r, y :: s => Ascii.eqb x y && str_eqb r s
  | _, _ => false
  end.

Fixpoint mem_str (x : str) (l : list str) : bool :=
  match l with [] => false | y :: r => str_eqb x y || mem_str x r end.

(* ------------------------------------------------------------------------------------------- *)
(* Python string helpers (ASCII range)                                                           *)
(* ------------------------------------------------------------------------------------------- *)
(* str.isspace on code points < 128: \t \n \v \f \r, FS GS RS US, space *)
Definition is_space (c : ascii) : bool :=
  let n := nat_of_ascii c in
  (Nat.leb 9 n && Nat.leb n 13) || (Nat.leb 28 n && Nat.leb n 32).

Fixpoint lstrip (s : str) : str :=
  match s with
  | [] => []
  | c :: r => if is_space c then lstrip r else s
  end.
Definition strip (s : str) : str := rev (lstrip (rev (lstrip s))).

Definition lower_ascii (c : ascii) : ascii :=
  let n := nat_of_ascii c in
  if Nat.leb 65 n && Nat.leb n 90 then ascii_of_nat (n + 32) else c.
Definition lower (s : str) : str := map lower_ascii s.

(* s.split(c): '' -> [''], 'a,' -> ['a'; ''] *)
Fixpoint split_on (c : ascii) (s : str) : list str :=
  match s with
  | [] => [[]]
  | x :: r =>
      if Ascii.eqb x c then [] :: split_on c r
      else match split_on c r with
           | [] => [[x]]
           | l :: ls => (x :: l) :: ls
           end
  end.

(* c.join(l) *)
Fixpoint join_with (c : ascii) (l : list str) : str :=
  match l with
  | [] => []
  | [x] => x
  | x :: r => x ++ c :: join_with c r
  end.

(* s.replace(',', '.') *)
Definition replace_comma (s : str) : str :=
  map (fun x => if Ascii.eqb x c_comma then c_dot else x) s.

(* cell.strip().lower() != 'none' *)
Definition is_none_cell (s : str) : bool := str_eqb (lower (strip s)) $"none".

(* ------------------------------------------------------------------------------------------- *)
(* Character level                                                                               *)
(* ------------------------------------------------------------------------------------------- *)
(* line boundaries of str.splitlines below U+0080: \n \v \f \r FS GS RS (and \r\n as one) *)
Definition is_linebreak (c : ascii) : bool :=
  let n := nat_of_ascii c in
  (Nat.leb 10 n && Nat.leb n 13) || (Nat.leb 28 n && Nat.leb n 30).

Fixpoint split_lines (s : str) : list str :=
  match s with
  | [] => []
  | c :: r =>
      if is_linebreak c then
        (if Ascii.eqb c c_cr then
           match r with
           | d :: r' => if Ascii.eqb d c_lf then [] :: split_lines r' else [] :: split_lines r
           | [] => [] :: split_lines r
           end
         else [] :: split_lines r)
      else match split_lines r with
           | [] => [[c]]
           | l :: ls => (c :: l) :: ls
           end
  end.

(* _csv.c reader states that are reachable for this dialect when lines carry no \r / \n *)
Inductive cstate := CStartRecord | CStartField | CInField | CInQuoted | CQuoteInQuoted.

Record cst := mkCst { c_state : cstate; c_field : str; c_fields : list str }.
Definition cst_init : cst := mkCst CStartRecord [] [].

Definition save_field (s : cst) (next : cstate) : cst :=
  mkCst next [] (c_fields s ++ [c_field s]).
Definition add_char (s : cst) (c : ascii) (next : cstate) : cst :=
  mkCst next (c_field s ++ [c]) (c_fields s).

(* parse_process_char for an ordinary character *)
Definition csv_step (s : cst) (c : ascii) : cst :=
  match c_state s with
  | CStartRecord | CStartField =>
      if Ascii.eqb c c_quote then mkCst CInQuoted (c_field s) (c_fields s)
      else if Ascii.eqb c c_semi then save_field s CStartField
      else add_char s c CInField
  | CInField =>
      if Ascii.eqb c c_semi then save_field s CStartField else add_char s c CInField
  | CInQuoted =>
      if Ascii.eqb c c_quote then mkCst CQuoteInQuoted (c_field s) (c_fields s)
      else add_char s c CInQuoted
  | CQuoteInQuoted =>
      if Ascii.eqb c c_quote then add_char s c CInQuoted
      else if Ascii.eqb c c_semi then save_field s CStartField
      else add_char s c CInField
  end.

(* parse_process_char(EOL) *)
Definition csv_eol (s : cst) : cst :=
  match c_state s with
  | CStartRecord => s
  | CInQuoted => s
  | _ => save_field s CStartRecord
  end.

(* Reader_iternext: lines are consumed until the state is START_RECORD again; at the end of the input an
   open quoted field is saved and the record returned *)
Fixpoint csv_rows_from (s : cst) (lines : list str) : list (list str) :=
  match lines with
  | [] => match c_state s with
          | CInQuoted => [c_fields s ++ [c_field s]]
          | _ => []
          end
  | l :: ls =>
      let s' := csv_eol (fold_left csv_step l s) in
      match c_state s' with
      | CStartRecord => c_fields s' :: csv_rows_from cst_init ls
      | _ => csv_rows_from s' ls
      end
  end.

Definition csv_rows (lines : list str) : list (list str) := csv_rows_from cst_init lines.
Definition csv_split (s : str) : list (list str) := csv_rows (split_lines s).

(* csv.writer, QUOTE_MINIMAL: a cell is quoted when it contains the delimiter, the quote character or a
   character of the line terminator; a row consisting of one empty cell is written as '' *)
Definition csv_special (c : ascii) : bool :=
  Ascii.eqb c c_semi || Ascii.eqb c c_quote || Ascii.eqb c c_lf.

Fixpoint csv_escape (f : str) : str :=
  match f with
  | [] => []
  | c :: r => if Ascii.eqb c c_quote then c_quote :: c_quote :: csv_escape r else c :: csv_escape r
  end.

Definition csv_field (f : str) : str :=
  if existsb csv_special f then c_quote :: csv_escape f ++ [c_quote] else f.

Definition csv_row (r : list str) : str :=
  match r with
  | [[]] => [c_quote; c_quote]
  | _ => join_with c_semi (map csv_field r)
  end.

Definition csv_join (rows : list (list str)) : str :=
  flat_map (fun r => csv_row r ++ [c_lf]) rows.

(* ------------------------------------------------------------------------------------------- *)
(* Row level: data                                                                               *)
(* ------------------------------------------------------------------------------------------- *)
Definition dict := list (str * str).

Fixpoint lookup (k : str) (d : dict) : option str :=
  match d with
  | [] => None
  | (k', v) :: r => if str_eqb k k' then Some v else lookup k r
  end.
Definition has_key (k : str) (d : dict) : bool :=
  match lookup k d with Some _ => true | None => false end.
(* d[k] = v : replace in place, else append *)
Fixpoint dict_set (k v : str) (d : dict) : dict :=
  match d with
  | [] => [(k, v)]
  | (k', v') :: r => if str_eqb k k' then (k', v) :: r else (k', v') :: dict_set k v r
  end.
Fixpoint dict_pop (k : str) (d : dict) : dict :=
  match d with
  | [] => []
  | (k', v') :: r => if str_eqb k k' then r else (k', v') :: dict_pop k r
  end.
Definition keys (d : dict) : list str := map fst d.

Fixpoint dedup (l : list str) : list str :=
  match l with
  | [] => []
  | x :: r => if mem_str x r then dedup r else x :: dedup r
  end.
(* keep first occurrences *)
Fixpoint dedup_first (seen l : list str) : list str :=
  match l with
  | [] => []
  | x :: r => if mem_str x seen then dedup_first seen r else x :: dedup_first (x :: seen) r
  end.

Inductive vtype := Approval | Scoring | Cumulative | Ordinal.

Record project := mkProject {
  p_name : str;
  p_cost : Q;
  p_cats : list str;       (* Project.categories as a set; [] = none *)
  p_targets : list str;    (* Project.targets *)
  p_meta : dict            (* instance.project_meta[p] without the 'categories'/'targets' entries *)
}.

Record ballot := mkBallot {
  b_projects : list str;   (* approval: the set; ordinal: the order; cardinal: keys in insertion order *)
  b_points : list Q;       (* cardinal / cumulative: the score of each project of b_projects *)
  b_meta : dict;
  b_mult : nat             (* multiplicity in a multiprofile; 1 in a list profile *)
}.

Record election := mkElection {
  e_meta : dict;           (* instance.meta *)
  e_projects : list project;
  e_budget : Q;
  e_vtype : vtype;
  e_ballots : list ballot;
  e_min_len : option nat;
  e_max_len : option nat;
  e_min_cost : option Q;
  e_max_cost : option Q;
  e_min_total : option Q;
  e_max_total : option Q;
  e_min_score : option Q;
  e_max_score : option Q
}.

Definition find_project (n : str) (ps : list project) : option project :=
  find (fun p => str_eqb (p_name p) n) ps.

Definition vtype_of (s : str) : option vtype :=
  if str_eqb s $"approval" then Some Approval
  else if str_eqb s $"scoring" then Some Scoring
  else if str_eqb s $"cumulative" then Some Cumulative
  else if str_eqb s $"ordinal" then Some Ordinal
  else None.
Definition vtype_name (t : vtype) : str :=
  match t with
  | Approval => $"approval" | Scoring => $"scoring" | Cumulative => $"cumulative" | Ordinal => $"ordinal"
  end.
Definition is_cardinal (t : vtype) : bool :=
  match t with Scoring | Cumulative => true | _ => false end.

Definition K_project_id := $"project_id".
Definition K_cost := $"cost".
Definition K_name := $"name".
Definition K_category := $"category".
Definition K_categories := $"categories".
Definition K_target := $"target".
Definition K_targets := $"targets".
Definition K_voter_id := $"voter_id".
Definition K_vote := $"vote".
Definition K_points := $"points".
Definition K_none := $"None".

Definition obind {A B} (o : option A) (f : A -> option B) : option B :=
  match o with Some x => f x | None => None end.

Fixpoint omap {A B} (f : A -> option B) (l : list A) : option (list B) :=
  match l with
  | [] => Some []
  | x :: r => match f x with
              | Some y => match omap f r with Some ys => Some (y :: ys) | None => None end
              | None => None
              end
  end.

(* every name, key and value of an election (what the recorded finding c11_linebreak_in_string looks at) *)
Definition dict_strings (d : dict) : list str := flat_map (fun kv => [fst kv; snd kv]) d.
Definition election_strings (e : election) : list str :=
  dict_strings (e_meta e)
  ++ flat_map (fun p => p_name p :: p_cats p ++ p_targets p ++ dict_strings (p_meta p)) (e_projects e)
  ++ flat_map (fun b => dict_strings (b_meta b)) (e_ballots e).
Definition nolb (s : str) : bool := forallb (fun c => negb (is_linebreak c)) s.
(* no string of the election contains a line-break character *)
Definition no_linebreak_election (e : election) : bool := forallb nolb (election_strings e).

Section RowLevel.
Variable show_num : Q -> str.
Variable read_num : str -> option Q.
Variable show_nat : nat -> str.
Variable read_nat : str -> option nat.

(* ------------------------------------------------------------------------------------------- *)
(* Parser (parse_pabulib_from_string after csv.reader)                                           *)
(* ------------------------------------------------------------------------------------------- *)
Inductive section := SecNone | SecMeta | SecProjects | SecVotes.

Definition section_of (c0 : str) : option section :=
  let s := lower (strip c0) in
  if str_eqb s $"meta" then Some SecMeta
  else if str_eqb s $"projects" then Some SecProjects
  else if str_eqb s $"votes" then Some SecVotes
  else None.

(* len(row) == 0 or (len(row) == 1 and len(row[0].strip()) == 0) *)
Definition is_blank_row (row : list str) : bool :=
  match row with
  | [] => true
  | [c] => match strip c with [] => true | _ => false end
  | _ => false
  end.

Definition cats_of_cell (cell : str) : list str := dedup (map strip (split_on c_comma cell)).

(* the loop over the cells of a project row; header[i] is needed for every cell *)
Record prow := mkProw { pr_cats : list str; pr_targets : list str; pr_meta : dict }.

Fixpoint project_cells (header row : list str) (acc : prow) : option prow :=
  match row with
  | [] => Some acc
  | cell :: row' =>
      match header with
      | [] => None                                       (* IndexError: header[i] *)
      | h :: header' =>
          let key := strip h in
          let acc' :=
            if is_none_cell cell then acc
            else if str_eqb key K_category || str_eqb key K_categories
              then mkProw (cats_of_cell cell) (pr_targets acc) (pr_meta acc)
            else if str_eqb key K_target || str_eqb key K_targets
              then mkProw (pr_cats acc) (cats_of_cell cell) (pr_meta acc)
            else mkProw (pr_cats acc) (pr_targets acc) (dict_set key (strip cell) (pr_meta acc)) in
          project_cells header' row' acc'
      end
  end.

Definition parse_project_row (header row : list str) : option project :=
  match row with
  | [] => None
  | c0 :: _ =>
      obind (project_cells header row (mkProw [] [] [])) (fun pr =>
      obind (lookup K_cost (pr_meta pr)) (fun ctext =>        (* KeyError when absent *)
      obind (read_num (replace_comma ctext)) (fun c =>
      Some (mkProject (strip c0) c (pr_cats pr) (pr_targets pr) (pr_meta pr)))))
  end.

(* instance.add(p) keeps the first project of a name; instance.project_meta[p] = ... replaces its metadata *)
Fixpoint add_project (p : project) (ps : list project) : list project :=
  match ps with
  | [] => [p]
  | q :: r =>
      if str_eqb (p_name q) (p_name p)
      then mkProject (p_name q) (p_cost q) (p_cats q) (p_targets q) (p_meta p) :: r
      else q :: add_project p r
  end.

(* the loop over the cells of a vote row; header[i] is only touched for cells that are not 'none' *)
Fixpoint vote_cells (header row : list str) (acc : dict) : option dict :=
  match row with
  | [] => Some acc
  | cell :: row' =>
      if is_none_cell cell then vote_cells (tl header) row' acc
      else match header with
           | [] => None
           | h :: header' => vote_cells header' row' (dict_set (strip h) (strip cell) acc)
           end
  end.

(* ballot[project] = score for the i-th name; points[i] must exist *)
Fixpoint zip_points (names : list str) (pts : list str) : option (list (str * Q)) :=
  match names with
  | [] => Some []
  | n :: names' =>
      match pts with
      | [] => None
      | t :: pts' =>
          obind (read_num (strip t)) (fun q =>
          obind (zip_points names' pts') (fun r => Some ((n, q) :: r)))
      end
  end.

(* dict assignment semantics for a cardinal ballot: a repeated project keeps its position, takes the new score *)
Fixpoint card_set (n : str) (q : Q) (l : list (str * Q)) : list (str * Q) :=
  match l with
  | [] => [(n, q)]
  | (n', q') :: r => if str_eqb n n' then (n', q) :: r else (n', q') :: card_set n q r
  end.

(* _split_list_cell: an empty (blank) cell is the empty list *)
Definition split_list_cell (cell : str) : list str :=
  match strip cell with [] => [] | _ => split_on c_comma cell end.

Definition parse_vote_row (header : list str) (meta : dict) (ps : list project) (row : list str)
  : option ballot :=
  obind (vote_cells header row []) (fun bm =>
  obind (lookup $"vote_type" meta) (fun vts =>
  obind (vtype_of vts) (fun vt =>
  obind (lookup K_vote bm) (fun vote =>
  let names := split_list_cell vote in
  obind (omap (fun n => find_project n ps) names) (fun projs =>
  let names' := map p_name projs in
  if is_cardinal vt then
    obind (lookup K_points bm) (fun ptext =>
    obind (zip_points names' (split_list_cell ptext)) (fun pairs =>
    let d := fold_left (fun acc nq => card_set (fst nq) (snd nq) acc) pairs [] in
    Some (mkBallot (map fst d) (map snd d) (dict_pop K_points (dict_pop K_vote bm)) 1)))
  else
    Some (mkBallot (dedup_first [] names') [] (dict_pop K_vote bm) 1)))))).

Record pstate := mkPstate { ps_meta : dict; ps_projects : list project; ps_ballots : list ballot }.

Fixpoint parse_loop (sec : section) (header : list str) (st : pstate) (rows : list (list str))
  : option pstate :=
  match rows with
  | [] => Some st
  | row :: rest =>
      if is_blank_row row then parse_loop sec header st rest
      else match row with
      | [] => None
      | c0 :: _ =>
          match section_of c0 with
          | Some sec' =>
              match rest with
              | [] => None                                  (* next(reader) raises StopIteration *)
              | h :: rest' => parse_loop sec' h st rest'
              end
          | None =>
              match sec with
              | SecNone => parse_loop sec header st rest
              | SecMeta =>
                  match row with
                  | k :: v :: _ =>
                      parse_loop sec header
                        (mkPstate (dict_set (strip k) (strip v) (ps_meta st)) (ps_projects st) (ps_ballots st))
                        rest
                  | _ => None                               (* IndexError: row[1] *)
                  end
              | SecProjects =>
                  match parse_project_row header row with
                  | Some p =>
                      parse_loop sec header
                        (mkPstate (ps_meta st) (add_project p (ps_projects st)) (ps_ballots st)) rest
                  | None => None
                  end
              | SecVotes =>
                  match parse_vote_row header (ps_meta st) (ps_projects st) row with
                  | Some b =>
                      parse_loop sec header
                        (mkPstate (ps_meta st) (ps_projects st) (ps_ballots st ++ [b])) rest
                  | None => None
                  end
              end
          end
      end
  end.

(* The loop as it is EXECUTED (and extracted): identical to [parse_loop] above except that a new ballot is put in
   front of the list, which is reversed once at the end ([parse_rows]); linear instead of quadratic in the number
   of votes.  Proofs/PabulibP.v (parse_loop_acc_spec, parse_rows_spec) shows that the result is unchanged; the
   theorems are stated about [parse_rows] and proved through [parse_loop]. *)
Fixpoint parse_loop_acc (sec : section) (header : list str) (st : pstate) (rows : list (list str))
  : option pstate :=
  match rows with
  | [] => Some st
  | row :: rest =>
      if is_blank_row row then parse_loop_acc sec header st rest
      else match row with
      | [] => None
      | c0 :: _ =>
          match section_of c0 with
          | Some sec' =>
              match rest with
              | [] => None                                  (* next(reader) raises StopIteration *)
              | h :: rest' => parse_loop_acc sec' h st rest'
              end
          | None =>
              match sec with
              | SecNone => parse_loop_acc sec header st rest
              | SecMeta =>
                  match row with
                  | k :: v :: _ =>
                      parse_loop_acc sec header
                        (mkPstate (dict_set (strip k) (strip v) (ps_meta st)) (ps_projects st) (ps_ballots st))
                        rest
                  | _ => None                               (* IndexError: row[1] *)
                  end
              | SecProjects =>
                  match parse_project_row header row with
                  | Some p =>
                      parse_loop_acc sec header
                        (mkPstate (ps_meta st) (add_project p (ps_projects st)) (ps_ballots st)) rest
                  | None => None
                  end
              | SecVotes =>
                  match parse_vote_row header (ps_meta st) (ps_projects st) row with
                  | Some b =>
                      parse_loop_acc sec header
                        (mkPstate (ps_meta st) (ps_projects st) (b :: ps_ballots st)) rest
                  | None => None
                  end
              end
          end
      end
  end.

(* instance.meta.get(key) followed by int()/str_as_frac(); Some None = key absent; None = raises *)
Definition get_nat (k : str) (m : dict) : option (option nat) :=
  match lookup k m with
  | None => Some None
  | Some t => match read_nat t with Some n => Some (Some n) | None => None end
  end.
Definition get_num (k : str) (m : dict) : option (option Q) :=
  match lookup k m with
  | None => Some None
  | Some t => match read_num t with Some q => Some (Some q) | None => None end
  end.

Definition drop_if {A} (f : A -> bool) (o : option A) : option A :=
  match o with Some x => if f x then None else Some x | None => None end.
Definition Qzero_b (q : Q) : bool := Qeq_bool q 0.

Definition finish (st : pstate) : option election :=
  let m := ps_meta st in
  obind (lookup $"budget" m) (fun btext =>
  obind (read_num (replace_comma btext)) (fun budget =>
  obind (get_nat $"min_length" m) (fun min_len0 =>
  obind (get_nat $"max_length" m) (fun max_len0 =>
  obind (get_num $"min_sum_cost" m) (fun min_cost0 =>
  obind (get_num $"max_sum_cost" m) (fun max_cost0 =>
  obind (get_num $"min_sum_points" m) (fun min_total0 =>
  obind (get_num $"max_sum_points" m) (fun max_total =>
  obind (get_num $"min_points" m) (fun min_score0 =>
  obind (get_num $"max_points" m) (fun max_score0 =>
  obind (lookup $"vote_type" m) (fun vts =>
  obind (vtype_of vts) (fun vt =>
  let min_len := drop_if (Nat.eqb 1) min_len0 in
  let max_len := drop_if (fun n => Nat.leb (List.length (ps_projects st)) n) max_len0 in
  let min_cost := drop_if Qzero_b min_cost0 in
  let max_cost := drop_if (fun q => Qle_bool budget q) max_cost0 in
  let min_total := drop_if Qzero_b min_total0 in
  let min_score := drop_if Qzero_b min_score0 in
  let max_score :=
    drop_if (fun q => match max_total with Some t => Qeq_bool q t | None => false end) max_score0 in
  let mk a b c d e f :=
    mkElection m (ps_projects st) budget vt (ps_ballots st) min_len max_len a b c d e f in
  Some match vt with
       | Approval => mk min_cost max_cost None None None None
       | Scoring => mk None None None None min_score max_score
       | Cumulative => mk None None min_total max_total min_score max_score
       | Ordinal => mk None None None None None None
       end)))))))))))).

Definition rev_ballots (st : pstate) : pstate :=
  mkPstate (ps_meta st) (ps_projects st) (rev (ps_ballots st)).

Definition parse_rows (rows : list (list str)) : option election :=
  obind (parse_loop_acc SecNone [] (mkPstate [] [] []) rows) (fun st => finish (rev_ballots st)).

(* ------------------------------------------------------------------------------------------- *)
(* Writer (election_as_pabulib_string before csv.writer; natsort of the rows not modelled)        *)
(* ------------------------------------------------------------------------------------------- *)
(* The writer fills a fresh dictionary by assignments  meta[key] = value  under pairwise distinct constant keys
   (so each assignment appends), some of them conditional.  [slots] lists the keys in assignment order with
   the value assigned, None when the assignment does not happen; [compact] keeps the assignments that happen. *)
Definition mandatory_value (im : dict) (k : str) : str :=
  match lookup k im with Some v => v | None => $"Auto-filled " ++ k end.
(* `if profile.legal_x:` -- written when present and non-zero *)
Definition nat_slot (o : option nat) : option str :=
  match o with Some (S n) => Some (show_nat (S n)) | _ => None end.
Definition num_slot (o : option Q) : option str :=
  match o with Some q => if Qzero_b q then None else Some (show_num q) | None => None end.

Definition num_ballots (bs : list ballot) : nat := fold_right (fun b n => (b_mult b + n)%nat) 0%nat bs.

Definition type_slots (e : election) : list (str * option str) :=
  let im := e_meta e in
  match e_vtype e with
  | Approval =>
      [($"min_sum_cost", num_slot (e_min_cost e)); ($"max_sum_cost", num_slot (e_max_cost e))]
  | Cumulative =>
      [($"min_points", num_slot (e_min_score e)); ($"max_points", num_slot (e_max_score e));
       ($"min_sum_points", num_slot (e_min_total e)); ($"max_sum_points", num_slot (e_max_total e))]
  | Scoring =>
      [($"min_points", num_slot (e_min_score e)); ($"max_points", num_slot (e_max_score e));
       ($"default_score", lookup $"default_score" im)]
  | Ordinal => [($"scoring_fn", lookup $"scoring_fn" im)]
  end.

Definition slots (e : election) : list (str * option str) :=
  let im := e_meta e in
  [($"description", Some (mandatory_value im $"description"));
   ($"country", Some (mandatory_value im $"country"));
   ($"unit", Some (mandatory_value im $"unit"));
   ($"subunit", lookup $"subunit" im);
   ($"instance", Some (mandatory_value im $"instance"));
   ($"num_projects", Some (show_nat (List.length (e_projects e))));
   ($"num_votes", Some (show_nat (num_ballots (e_ballots e))));
   ($"budget", Some (show_num (e_budget e)));
   ($"vote_type", Some (vtype_name (e_vtype e)));
   ($"rule", Some (mandatory_value im $"rule"));
   ($"date_begin", lookup $"date_begin" im);
   ($"date_end", lookup $"date_end" im);
   ($"date_language", lookup $"date_language" im);
   ($"date_edition", lookup $"date_edition" im);
   ($"date_district", lookup $"date_district" im);
   ($"date_comment", lookup $"date_comment" im);
   ($"min_length", nat_slot (e_min_len e));
   ($"max_length", nat_slot (e_max_len e))]
  ++ type_slots e.

Definition compact (sl : list (str * option str)) : dict :=
  flat_map (fun ko => match snd ko with Some v => [(fst ko, v)] | None => [] end) sl.

(* for key, value in instance.meta.items(): if key not in meta: meta[key] = value *)
Fixpoint put_rest (im : dict) (m : dict) : dict :=
  match im with
  | [] => m
  | (k, v) :: r => put_rest r (if has_key k m then m else m ++ [(k, v)])
  end.

Definition write_meta (e : election) : dict := put_rest (e_meta e) (compact (slots e)).

(* the per-project dictionary of the writer *)
Definition project_dict (p : project) : dict :=
  let d := [(K_project_id, p_name p); (K_cost, show_num (p_cost p))] in
  let d := match lookup K_name (p_meta p) with Some v => d ++ [(K_name, v)] | None => d end in
  let d := match p_cats p with [] => d | cs => d ++ [(K_category, join_with c_comma cs)] end in
  let d := match p_targets p with [] => d | ts => d ++ [(K_target, join_with c_comma ts)] end in
  fold_left (fun d kv =>
    if has_key (fst kv) d || str_eqb (fst kv) K_categories || str_eqb (fst kv) K_targets then d
    else d ++ [kv]) (p_meta p) d.

(* column list: first appearance over the dictionaries, after the fixed leading columns *)
Definition add_keys (ks : list str) (d : dict) : list str :=
  fold_left (fun ks k => if mem_str k ks then ks else ks ++ [k]) (keys d) ks.

Definition row_of (ks : list str) (d : dict) : list str :=
  map (fun k => match lookup k d with Some v => v | None => K_none end) ks.

Definition vote_dict (vt : vtype) (index : nat) (b : ballot) : dict :=
  let bm := b_meta b in
  let d := [(K_voter_id, match lookup K_voter_id bm with Some v => v | None => show_nat index end)] in
  let opt k d := match lookup k bm with Some v => d ++ [(k, v)] | None => d end in
  let d := opt $"age" d in
  let d := opt $"sex" d in
  let d := opt $"voting_method" d in
  let d := d ++ [(K_vote, join_with c_comma (b_projects b))] in
  let d := if is_cardinal vt then d ++ [(K_points, join_with c_comma (map show_num (b_points b)))] else d in
  fold_left (fun d kv => if has_key (fst kv) d then d else d ++ [kv]) bm d.

Fixpoint vote_dicts (vt : vtype) (index : nat) (bs : list ballot) : list (dict * nat) :=
  match bs with
  | [] => []
  | b :: r => (vote_dict vt index b, b_mult b) :: vote_dicts vt (S index) r
  end.

Definition write_rows (e : election) : list (list str) :=
  let pds := map project_dict (e_projects e) in
  let pkeys := fold_left add_keys pds [K_project_id; K_cost] in
  let vds := vote_dicts (e_vtype e) 0 (e_ballots e) in
  let vkeys := fold_left add_keys (map fst vds) [K_voter_id] in
  [[$"META"]; [$"key"; $"value"]]
  ++ map (fun kv => [fst kv; snd kv]) (write_meta e)
  ++ [[$"PROJECTS"]; pkeys]
  ++ map (row_of pkeys) pds
  ++ [[$"VOTES"]; vkeys]
  ++ flat_map (fun dm => repeat (row_of vkeys (fst dm)) (snd dm)) vds.

(* ------------------------------------------------------------------------------------------- *)
(* The normal form reached by one write/parse round trip, and the elections it is claimed for     *)
(* ------------------------------------------------------------------------------------------- *)
(* the dictionary d restricted to (and ordered by) the column list ks *)
Definition row_dict (ks : list str) (d : dict) : dict :=
  flat_map (fun k => match lookup k d with Some v => [(k, v)] | None => [] end) ks.

Definition project_keys (e : election) : list str :=
  fold_left add_keys (map project_dict (e_projects e)) [K_project_id; K_cost].
Definition vote_keys (e : election) : list str :=
  fold_left add_keys (map fst (vote_dicts (e_vtype e) 0 (e_ballots e))) [K_voter_id].

Definition is_list_key (k : str) : bool :=
  str_eqb k K_category || str_eqb k K_categories || str_eqb k K_target || str_eqb k K_targets.

Definition canon_project (pkeys : list str) (p : project) : project :=
  mkProject (p_name p) (p_cost p) (p_cats p) (p_targets p)
    (filter (fun kv => negb (is_list_key (fst kv))) (row_dict pkeys (project_dict p))).

Definition canon_ballot (vt : vtype) (vkeys : list str) (index : nat) (b : ballot) : ballot :=
  mkBallot (b_projects b) (if is_cardinal vt then b_points b else [])
    (filter (fun kv => negb (str_eqb (fst kv) K_vote || (is_cardinal vt && str_eqb (fst kv) K_points)))
            (row_dict vkeys (vote_dict vt index b)))
    1.

Fixpoint canon_ballots (vt : vtype) (vkeys : list str) (index : nat) (bs : list ballot) : list ballot :=
  match bs with
  | [] => []
  | b :: r => repeat (canon_ballot vt vkeys index b) (b_mult b) ++ canon_ballots vt vkeys (S index) r
  end.

Definition nzq (o : option Q) : option Q := drop_if Qzero_b o.

Definition canon (e : election) : election :=
  let vt := e_vtype e in
  let n := List.length (e_projects e) in
  let min_len := match e_min_len e with Some (S (S k)) => Some (S (S k)) | _ => None end in
  let max_len := match e_max_len e with
                 | Some (S k) => if Nat.leb n (S k) then None else Some (S k)
                 | _ => None end in
  let max_total := nzq (e_max_total e) in
  let max_score_cum :=
    drop_if (fun q => match max_total with Some t => Qeq_bool q t | None => false end) (nzq (e_max_score e)) in
  let mk a b c d f g :=
    mkElection (write_meta e) (map (canon_project (project_keys e)) (e_projects e)) (e_budget e) vt
      (canon_ballots vt (vote_keys e) 0 (e_ballots e)) min_len max_len a b c d f g in
  match vt with
  | Approval => mk (nzq (e_min_cost e)) (drop_if (fun q => Qle_bool (e_budget e) q) (nzq (e_max_cost e)))
                   None None None None
  | Scoring => mk None None None None (nzq (e_min_score e)) (nzq (e_max_score e))
  | Cumulative => mk None None (nzq (e_min_total e)) max_total (nzq (e_min_score e)) max_score_cum
  | Ordinal => mk None None None None None None
  end.

(* ---- well-formed elections (decidable) ---- *)
Fixpoint nodup_strb (l : list str) : bool :=
  match l with [] => true | x :: r => negb (mem_str x r) && nodup_strb r end.

Definition stripped (s : str) : bool := str_eqb (strip s) s.
Definition no_comma (s : str) : bool := negb (existsb (Ascii.eqb c_comma) s).
Definition not_keyword (s : str) : bool := match section_of s with None => true | Some _ => false end.
(* a text that survives as a cell of a project or vote row *)
Definition cell_ok (s : str) : bool := stripped s && negb (is_none_cell s).
Definition Qcanon (q : Q) : bool :=
  match Qred q with Qmake n d => Z.eqb n (Qnum q) && Pos.eqb d (Qden q) end.
Definition oQcanon (o : option Q) : bool := match o with Some q => Qcanon q | None => true end.

Definition limit_keys : list str :=
  [$"min_length"; $"max_length"; $"min_sum_cost"; $"max_sum_cost";
   $"min_points"; $"max_points"; $"min_sum_points"; $"max_sum_points"].

(* a limit entry of the instance metadata that the writer does not overwrite must read back as "no limit" *)
Definition stale_ok (e : election) (k t : str) : bool :=
  let vt := e_vtype e in
  let isA := match vt with Approval => true | _ => false end in
  let isC := match vt with Cumulative => true | _ => false end in
  let rn (f : Q -> bool) := match read_num t with Some q => f q | None => false end in
  if str_eqb k $"min_length" then match read_nat t with Some 1%nat => true | _ => false end
  else if str_eqb k $"max_length"
    then match read_nat t with Some n => Nat.leb (List.length (e_projects e)) n | None => false end
  else if str_eqb k $"min_sum_cost" then rn (fun q => negb isA || Qzero_b q)
  else if str_eqb k $"max_sum_cost" then rn (fun q => negb isA || Qle_bool (e_budget e) q)
  else if str_eqb k $"min_points" then rn (fun q => negb (is_cardinal vt) || Qzero_b q)
  else if str_eqb k $"min_sum_points" then rn (fun q => negb isC || Qzero_b q)
  else if str_eqb k $"max_points"
    then rn (fun q => negb (is_cardinal vt)
                      || (isC && match nzq (e_max_total e) with Some mt => Qeq_bool q mt | None => false end))
  else if str_eqb k $"max_sum_points" then rn (fun q => negb (is_cardinal vt))
  else true.

Definition wf_meta (e : election) : bool :=
  let m := e_meta e in
  nodup_strb (keys m)
  && forallb (fun kv => stripped (fst kv) && not_keyword (fst kv) && stripped (snd kv)) m
  && forallb (fun k => match lookup k m with
                       | None => true
                       | Some t => has_key k (compact (slots e)) || stale_ok e k t
                       end) limit_keys.

Definition wf_list_items (l : list str) : bool :=
  nodup_strb l && forallb (fun c => stripped c && no_comma c) l
  && negb (is_none_cell (join_with c_comma l)).

Definition wf_project (p : project) : bool :=
  cell_ok (p_name p) && not_keyword (p_name p) && no_comma (p_name p)
  && match p_name p with [] => false | _ => true end
  && Qcanon (p_cost p)
  && wf_list_items (p_cats p) && wf_list_items (p_targets p)
  && nodup_strb (keys (p_meta p))
  && forallb (fun kv => stripped (fst kv) && negb (is_list_key (fst kv)) && cell_ok (snd kv)) (p_meta p).

Definition wf_ballot (vt : vtype) (names : list str) (b : ballot) : bool :=
  nodup_strb (b_projects b)
  && forallb (fun n => mem_str n names) (b_projects b)
  && (if is_cardinal vt then Nat.eqb (List.length (b_points b)) (List.length (b_projects b))
      else match b_points b with [] => true | _ => false end)
  && forallb Qcanon (b_points b)
  && nodup_strb (keys (b_meta b))
  && forallb (fun kv => stripped (fst kv) && negb (str_eqb (fst kv) K_vote)
                        && negb (str_eqb (fst kv) K_points) && cell_ok (snd kv)) (b_meta b)
  && match lookup K_voter_id (b_meta b) with Some v => not_keyword v | None => true end
  && Nat.leb 1 (b_mult b).

Definition wf_electionb (e : election) : bool :=
  let names := map p_name (e_projects e) in
  wf_meta e
  && nodup_strb names && forallb wf_project (e_projects e)
  && Qcanon (e_budget e)
  && forallb (wf_ballot (e_vtype e) names) (e_ballots e)
  && oQcanon (e_min_cost e) && oQcanon (e_max_cost e) && oQcanon (e_min_total e)
  && oQcanon (e_max_total e) && oQcanon (e_min_score e) && oQcanon (e_max_score e).

Definition wf_election (e : election) : Prop := wf_electionb e = true.

End RowLevel.

(* ------------------------------------------------------------------------------------------- *)
(* Number text used for execution: str(int), str(mpq) = 'n' | 'n/d'; reading also accepts decimals *)
(* ------------------------------------------------------------------------------------------- *)
Definition show_nat_dec (n : nat) : str :=
  list_ascii_of_string (NilZero.string_of_uint (Nat.to_uint n)).
Definition read_nat_dec (s : str) : option nat :=
  option_map Nat.of_uint (NilZero.uint_of_string (string_of_list_ascii (strip s))).

Definition show_Z_dec (z : Z) : str := list_ascii_of_string (NilZero.string_of_int (Z.to_int z)).
Definition read_N_dec (s : str) : option N :=
  option_map N.of_uint (NilZero.uint_of_string (string_of_list_ascii s)).

Definition show_q_dec (q : Q) : str :=
  match Qden q with
  | xH => show_Z_dec (Qnum q)
  | d => show_Z_dec (Qnum q) ++ "/"%char :: show_Z_dec (Zpos d)
  end.

Definition pow10 (n : nat) : positive := Pos.pow 10 (Pos.of_nat n).

(* digits | digits.digits | .digits | digits. | digits/digits, optional leading '-', surrounding blanks *)
Definition read_q_dec (s0 : str) : option Q :=
  let s := strip s0 in
  let neg := match s with c :: _ => Ascii.eqb c "-"%char | [] => false end in
  let body := if neg then tl s else s in
  let sgn (q : Q) := if neg then Qopp q else q in
  match split_on "/"%char body with
  | [a; b] =>
      match read_N_dec (strip a), read_N_dec (strip b) with
      | Some n, Some (Npos d) => Some (Qred (sgn (Z.of_N n # d)))
      | _, _ => None
      end
  | [a] =>
      match split_on c_dot a with
      | [i] => option_map (fun n => sgn (Z.of_N n # 1)) (read_N_dec i)
      | [i; f] =>
          match i, f with
          | [], [] => None
          | _, _ =>
              match (match i with [] => Some 0%N | _ => read_N_dec i end),
                    (match f with [] => Some 0%N | _ => read_N_dec f end) with
              | Some ni, Some nf =>
                  let den := match f with [] => 1%positive | _ => pow10 (List.length f) end in
                  Some (Qred (sgn ((Z.of_N ni * Zpos den + Z.of_N nf) # den)))
              | _, _ => None
              end
          end
      | _ => None
      end
  | _ => None
  end.

Definition parse_rows_x := parse_rows read_q_dec read_nat_dec.
Definition write_rows_x := write_rows show_q_dec show_nat_dec.
Definition canon_x := canon show_q_dec show_nat_dec.
Definition wf_election_x := wf_electionb show_q_dec read_q_dec show_nat_dec read_nat_dec.
Definition parse_file_x (s : str) : option election := parse_rows_x (csv_split s).
Definition write_file_x (e : election) : str := csv_join (write_rows_x e).
