(* Model/Analysis.v -- executable mirror of the statistics part of pabutools.analysis
   (profileproperties.py, instanceproperties.py, votersatisfaction.py, category.py) and of
   pabutools/utils.py (mean_generator, gini_coefficient).  DEFINITIONS ONLY.

   A profile object is modelled by the list of (ballot, multiplicity) pairs it iterates over
   ([Profile]: every voter with multiplicity 1; [MultiProfile]: one entry per distinct ballot).
   A ballot is a list of (project rank, score): approval ballots carry score 1, ordinal ballots the
   position; only cardinal/cumulative statistics read the score.  Iteration over the instance (a Python
   set) is taken in rank order: every statistic below is a sum/mean/median over the projects and
   does not depend on that order (Proofs/StatsP.v: the mean is sum/count, the median goes through a sort). *)
From PB Require Export Base.Election.
From Coq Require Export Qround Qabs.
Open Scope Q_scope.

(* ------------------------------------------------------------------------------------------ *)
(* pabutools/utils.py                                                                           *)
(* ------------------------------------------------------------------------------------------ *)

(* mean_generator, inner loop:  for i in range(multiplicity): n += 1; mean += frac(value - mean, n) *)
Fixpoint mean_rep (k : nat) (v : Q) (n : nat) (mean : Q) : nat * Q :=
  match k with
  | O => (n, mean)
  | S k' => mean_rep k' v (S n) (Qred (mean + (v - mean) / Qnat (S n)))
  end.

(* outer loop over the (value, multiplicity) stream *)
Fixpoint mean_loop (l : list (Q * nat)) (n : nat) (mean : Q) : Q :=
  match l with
  | [] => mean
  | (v, k) :: r => mean_loop r (fst (mean_rep k v n mean)) (snd (mean_rep k v n mean))
  end.

Definition mean_generator (l : list (Q * nat)) : Q := mean_loop l 0%nat 0.
(* a stream of plain numbers: multiplicity 1 each *)
Definition mean_plain (l : list Q) : Q := mean_generator (map (fun v => (v, 1%nat)) l).

(* gini_coefficient: total_cum_sum += v * (num_values - i) over the sorted values *)
Fixpoint cum_sum (n : nat) (l : list Q) : Q :=
  match l with
  | [] => 0
  | v :: r => v * Qnat n + cum_sum (pred n) r
  end.

(* None = ValueError (a negative value); 0 for the empty / all-zero vector *)
Definition gini_coefficient (vals : list Q) : option Q :=
  if existsb (fun v => Qltb v 0) vals then None
  else if forallb (fun v => negb (Qltb 0 v)) vals then Some 0
  else let n := length vals in
       Some (Qred ((Qnat n + 1 - 2 * cum_sum n (isort Qleb vals) / Qsum vals) / Qnat n)).

(* np.median on a 1-d array: middle element of the sorted array, or the mean of the two middle ones *)
Definition median (l : list Q) : Q :=
  let s := isort Qleb l in
  let n := length l in
  if Nat.even n then (nth (n / 2 - 1) s 0 + nth (n / 2) s 0) / 2 else nth (n / 2) s 0.

(* ------------------------------------------------------------------------------------------ *)
(* ballots and profiles                                                                         *)
(* ------------------------------------------------------------------------------------------ *)

Definition bal := list (proj * Q).
Definition prof := list (bal * nat).

Definition blen (b : bal) : Q := Qnat (length b).                              (* len(ballot) *)
Definition bprojs (b : bal) : list proj := map fst b.
Definition bcost (I : inst) (b : bal) : Q := tcost I (bprojs b).                (* total_cost(ballot) *)
Definition bhas (b : bal) (p : proj) : bool := memb p (bprojs b).               (* project in ballot *)
Definition bscore (b : bal) (p : proj) : Q :=                                   (* ballot[project] *)
  match find (fun e => Nat.eqb p (fst e)) b with Some e => snd e | None => 0 end.

Definition num_ballots (P : prof) : nat := fold_right (fun c n => (snd c + n)%nat) O P.

(* the array filled by "for ballot in profile: for j in range(multiplicity): arr[index] = f(ballot)" *)
Definition expandQ (l : list (Q * nat)) : list Q := flat_map (fun c => repeat (fst c) (snd c)) l.
Definition pstream (f : bal -> Q) (P : prof) : list (Q * nat) := map (fun c => (f (fst c), snd c)) P.

(* ------------------------------------------------------------------------------------------ *)
(* instanceproperties.py                                                                        *)
(* ------------------------------------------------------------------------------------------ *)

Definition sum_project_cost (I : inst) : Q := Qsum (costs I).
(* raises ValueError unless budget_limit > 0 *)
Definition funding_scarcity (I : inst) : option Q :=
  if Qltb 0 (budget I) then Some (Qsum (costs I) / budget I) else None.
(* ZeroDivisionError on an empty instance *)
Definition avg_project_cost (I : inst) : option Q :=
  match costs I with [] => None | _ => Some (Qsum (costs I) / Qnat (nproj I)) end.
Definition median_project_cost (I : inst) : Q := median (costs I).
(* np.std (population): the model returns the exact variance, the square of the returned float *)
Definition var_project_cost (I : inst) : Q :=
  let n := Qnat (nproj I) in
  let mu := Qsum (costs I) / n in
  Qsum (map (fun c => (c - mu) * (c - mu)) (costs I)) / n.

(* ------------------------------------------------------------------------------------------ *)
(* profileproperties.py                                                                         *)
(* ------------------------------------------------------------------------------------------ *)

Definition avg_ballot_length (P : prof) : Q := mean_generator (pstream blen P).
Definition median_ballot_length (P : prof) : Q :=
  if Nat.eqb (num_ballots P) 0 then 0 else median (expandQ (pstream blen P)).
Definition avg_ballot_cost (I : inst) (P : prof) : Q := mean_generator (pstream (bcost I) P).
Definition median_ballot_cost (I : inst) (P : prof) : Q :=
  if Nat.eqb (num_ballots P) 0 then 0 else median (expandQ (pstream (bcost I) P)).

(* AbstractApprovalProfile.approval_score: += multiplicity for every ballot containing the project *)
Definition approval_score (P : prof) (p : proj) : Q :=
  Qsum (map (fun c => if bhas (fst c) p then Qnat (snd c) else 0) P).
(* AbstractCardinalProfile.total_score: += ballot[project] * multiplicity *)
Definition total_score (P : prof) (p : proj) : Q :=
  Qsum (map (fun c => if bhas (fst c) p then bscore (fst c) p * Qnat (snd c) else 0) P).

Definition avg_approval_score (I : inst) (P : prof) : Q :=
  mean_plain (map (approval_score P) (all_projects I)).
Definition median_approval_score (I : inst) (P : prof) : Q :=
  if Nat.eqb (nproj I) 0 then 0 else median (map (approval_score P) (all_projects I)).
Definition avg_total_score (I : inst) (P : prof) : Q :=
  mean_plain (map (total_score P) (all_projects I)).
Definition median_total_score (I : inst) (P : prof) : Q :=
  if Nat.eqb (nproj I) 0 then 0 else median (map (total_score P) (all_projects I)).

(* votes_count_by_project: "+= 1" per ballot OBJECT the profile iterates over -- the multiplicity is
   not read (recorded finding: on a MultiProfile a ballot cast by several voters counts once). *)
Definition votes_count (P : prof) (p : proj) : Q :=
  Qsum (map (fun c => if bhas (fst c) p then 1 else 0) P).
(* voter_flow_matrix[a][b]: ballots containing both (a <> b); [a][a]: ballots that are exactly {a}.
   Same remark about multiplicities. *)
Definition voter_flow (P : prof) (a b : proj) : Q :=
  Qsum (map (fun c =>
    if Nat.eqb a b then (if Nat.eqb (length (fst c)) 1 && bhas (fst c) a then 1 else 0)
    else (if bhas (fst c) a && bhas (fst c) b then 1 else 0)) P).

(* ------------------------------------------------------------------------------------------ *)
(* votersatisfaction.py -- on the stream (satisfaction of the ballot, multiplicity)             *)
(* ------------------------------------------------------------------------------------------ *)

Definition sats := list (Q * nat).
Definition sat_total (S : sats) : nat := fold_right (fun c n => (snd c + n)%nat) O S.

Definition avg_satisfaction (S : sats) : Q := mean_generator S.
(* after the repair: num_pos_sat += multiplicity; frac(num_pos_sat, num_ballots) (ZeroDivisionError on
   an empty profile -> None) *)
Definition percent_positive_satisfaction (S : sats) : option Q :=
  if Nat.eqb (sat_total S) 0 then None
  else Some (Qsum (map (fun c => if Qltb 0 (fst c) then Qnat (snd c) else 0) S) / Qnat (sat_total S)).
Definition gini_of_satisfaction (S : sats) (invert : bool) : option Q :=
  match gini_coefficient (expandQ S) with
  | None => None
  | Some g => Some (if invert then 1 - g else g)
  end.

(* index of the bin: last bin when satisfaction >= max_satisfaction, else
   math.ceil(satisfaction * (num_bins - 1) / max_satisfaction) *)
Definition hist_bin (k : nat) (mx s : Q) : nat :=
  if Qleb mx s then pred k else Z.to_nat (Qceiling (s * Qnat (pred k) / mx)).

Fixpoint bump (j : nat) (w : Q) (h : list Q) : list Q :=
  match h with
  | [] => []
  | x :: r => match j with O => (x + w) :: r | S j' => x :: bump j' w r end
  end.
Definition hist_counts (k : nat) (mx : Q) (S : sats) : list Q :=
  fold_left (fun h c => bump (hist_bin k mx (fst c)) (Qnat (snd c)) h) S (repeat 0 k).
(* hist_data[i] /= profile.num_ballots() *)
Definition satisfaction_histogram (k : nat) (mx : Q) (S : sats) : list Q :=
  map (fun x => x / Qnat (sat_total S)) (hist_counts k mx S).

(* ------------------------------------------------------------------------------------------ *)
(* category.py -- exact mean-square difference; the function returns exp(- that) as a float      *)
(* ------------------------------------------------------------------------------------------ *)

(* [pcats]: the categories (numbers < ncat) of each project, by rank *)
Definition in_cat (pcats : list (list nat)) (c : nat) (p : proj) : bool := memb c (nth p pcats []).
Definition cat_cost (I : inst) (pcats : list (list nat)) (c : nat) (W : list proj) : Q :=
  Qsum (map (fun p => if in_cat pcats c p then cost I p else 0) W).

Inductive catres := CatRaise | CatZero | CatMsd (msd : Q).

Definition category_msd (I : inst) (pcats : list (list nat)) (ncat : nat) (P : prof) (W : list proj)
  : catres :=
  if Nat.eqb ncat 0 then CatRaise
  else match W with
  | [] => CatZero
  | _ =>
    if Qeqb (tcost I W) 0 then CatRaise                                     (* float division by zero *)
    else if existsb (fun c => Qeqb (bcost I (fst c)) 0) P then CatRaise     (* ValueError *)
    else
      let nb := Qnat (num_ballots P) in
      let a c := cat_cost I pcats c W / tcost I W in
      let v c := Qsum (map (fun cl => cat_cost I pcats c (bprojs (fst cl)) / bcost I (fst cl) * Qnat (snd cl)) P) / nb in
      CatMsd (Qred (Qsum (map (fun c => (a c - v c) * (a c - v c)) (seq 0 ncat)) / Qnat ncat))
  end.
