(* Model/PyPrims.v -- the vocabulary of the REGENERATED definitions of Generated/PyFuncs.v.
   harness/vharness/pytrans.py translates a restricted pure fragment of Python (the satisfaction functions of
   pabutools/election/satisfaction/*.py and the tie-breaking keys of pabutools/tiebreaking.py) into Gallina on
   every run; every Python operation it accepts becomes one of the [py_...] constants below, applied to the
   abstract data of the hand-written models (Base/Election.v, Model/Satisfaction.v, Model/Phragmen.v).
   Definitions only.  What each constant ASSUMES about Python is written next to it; the list is repeated in
   DESIGN.md (translator section).  Proofs/PyGenSatP.v and Proofs/PyGenTieP.v connect the generated
   definitions to the models, Props/C10gen.v and Props/TieGen.v re-export the statements. *)
From Coq Require Import String.
From PB Require Export Model.Satisfaction.
From PB Require Model.Phragmen.
From PB Require Model.Analysis.
From PB Require Spec.PriceSystem Model.Priceability.
From Coq Require Import Qround.
Open Scope Q_scope.

(* ---------- the abstract data the generated functions range over ---------- *)
(* (aliases: Python parameter names such as [ballot], [profile] would shadow the model's type names) *)
Definition py_inst := inst.                  (* Instance: costs by project rank + budget limit *)
Definition py_proj := proj.                  (* Project = rank of its name in name order *)
Definition py_ballot := ballot.              (* any ballot, as Model/Satisfaction.v sees it: (project, score) in iteration order *)
Definition py_profile := profile.            (* Profile / MultiProfile: ballots with multiplicities *)
Definition py_pballot := (ballot * nat)%type.   (* what iterating a profile yields: a ballot together with its multiplicity *)
Definition py_aprofile := list aballot.      (* approval profile as the rule models see it (Base/Election.v) *)
Definition py_dict := string -> option Q.     (* dict with literal string keys and numeric values (precomputed_values) *)
(* what the MIP solver answers when asked for a knapsack on (weights, budget): its 0/1 vector *)
Definition py_oracle := list Q -> Q -> list bool.

(* a satisfaction measure object is its [sat] function; a satisfaction class builds one from (instance, profile,
   ballot as the profile iterates it); a satisfaction profile holds the measure objects with multiplicities *)
Definition py_satobj := list py_proj -> Q.
Definition py_satclass := py_inst -> py_profile -> py_pballot -> py_satobj.
Definition py_satentry := (py_satobj * nat)%type.
Definition py_satprofile := list py_satentry.

(* validate_price_system: payment_functions is a list (one entry per voter, in profile order) of dictionaries
   project -> amount: a table indexed by voter position and project rank (missing entries = 0, as Model/Priceability.v
   [pay_of]); a relaxation object is the model's [relax] (class together with its beta values) *)
Definition py_payments := list (list Q).
Definition py_relax := PriceSystem.relax.

(* the proportionality checkers work on LIST profiles (every ballot once; the source says that multiprofiles are
   not handled there): the profile is the list of its ballots, a satisfaction class takes (instance, profile, ballot) *)
Definition py_satclass_l := py_inst -> list py_ballot -> py_ballot -> py_satobj.

(* a function the translator could not translate: its generated definition has this type, so that exactly
   the theorems that mention it stop type-checking *)
Inductive py_untranslated := Untranslated (reason : string).

(* ---------- numbers: Python int / Fraction / gmpy2.mpq are exact rationals ---------- *)
Definition py_int_of_bool (c : bool) : Q := if c then 1 else 0.          (* int(True) = 1, int(False) = 0 *)
Definition py_truth (x : Q) : bool := negb (Qeqb x 0).                   (* truth value of a number *)
Definition py_eq (a b : Q) : bool := Qeqb a b.
Definition py_ne (a b : Q) : bool := negb (Qeqb a b).
Definition py_lt (a b : Q) : bool := Qltb a b.
Definition py_le (a b : Q) : bool := Qleb a b.
Definition py_gt (a b : Q) : bool := Qltb b a.
Definition py_ge (a b : Q) : bool := Qleb b a.
Definition frac (a b : Q) : Q := a / b.                                  (* pabutools.fractions.frac(a, b), b <> 0 *)
(* min(a, b) / max(a, b): the first argument unless the second is strictly better *)
Definition py_min2 (a b : Q) : Q := if Qltb b a then b else a.
Definition py_max2 (a b : Q) : Q := if Qltb a b then b else a.

(* ---------- sequences (generator expressions and list comprehensions are [map]/[filter]) ---------- *)
Definition py_sum (l : list Q) : Q := Qsum l.                            (* sum(...) from 0 *)
Definition py_any (l : list bool) : bool := existsb (fun c => c) l.
Definition py_all (l : list bool) : bool := forallb (fun c => c) l.
Definition py_len {A} (l : list A) : Q := Qnat (length l).
Definition py_is_empty {A} (l : list A) : bool := match l with [] => true | _ => false end.
(* max(xs, default=d) / min(xs, default=d) *)
Definition py_max_list (l : list Q) (d : Q) : Q :=
  match l with [] => d | x :: r => fold_left py_max2 r x end.
Definition py_min_list (l : list Q) (d : Q) : Q :=
  match l with [] => d | x :: r => fold_left py_min2 r x end.
(* xs[k] for a literal k: IndexError = None *)
Definition py_index {A} (l : list A) (k : nat) : option A := nth_error l k.
(* sorted(xs, key=f): STABLE; keys are numbers (a project name is its rank, [py_name]) *)
Definition py_sorted_by_key {A} (key : A -> Q) (l : list A) : list A :=
  isort (fun x y => Qleb (key x) (key y)) l.
(* sorted(projects): projects compare by name *)
Definition py_sorted_projects (l : list py_proj) : list py_proj := name_sort l.
Definition py_in_list (l : list py_proj) (p : py_proj) : bool := memb p l.
Definition py_proj_eq (p q : py_proj) : bool := Nat.eqb p q.

(* sorted(values) on numbers *)
Definition py_sorted_nums (l : list Q) : list Q := isort Qleb l.
(* Python ints used as counts: range(n), combinations(s, r), enumerate *)
Definition py_nat (x : Q) : nat := Z.to_nat (Qfloor x).
Definition py_range (n : Q) : list Q := map Qnat (seq 0 (py_nat n)).              (* range(n) *)
Definition py_enumerate {A} (l : list A) : list (Q * A) := combine (map Qnat (seq 0 (length l))) l.
(* xs * n: the list repeated n times *)
Definition py_repeat {A} (l : list A) (n : Q) : list A := concat (repeat l (py_nat n)).
(* itertools.combinations(s, r) in itertools order (Base/ListExt.v), chain.from_iterable *)
Definition py_combinations {A} (l : list A) (r : Q) : list (list A) := combs l (py_nat r).
Definition py_chain {A} (l : list (list A)) : list A := concat l.
(* np.median of exact numbers: hand model [Analysis.median]; float(...) of it: the exact value that is then
   rounded to a double (the theorems speak about the exact value, the correspondence about the double) *)
Definition py_np_median (l : list Q) : Q := Analysis.median l.
Definition py_float (x : Q) : Q := x.

(* xs[i] for a computed position i (a Python int): IndexError is not tracked, a missing entry is 0 *)
Definition py_list_get (l : list Q) (i : Q) : Q := nth (py_nat i) l 0.
Definition py_pay_row (P : py_payments) (i : Q) : list Q := nth (py_nat i) P [].       (* payment_functions[idx] *)
Definition py_row_get (row : list Q) (c : py_proj) : Q := nth c row 0.                 (* payment_functions[idx][c] *)
(* round(x, ndigits) on exact rationals: round half to even (Model/Priceability.v [round_half_even]) *)
Definition py_round (x p : Q) : Q :=
  let sc := (10 ^ Qfloor p)%Z in
  Qred (inject_Z (Priceability.round_half_even (x * inject_Z sc)) / inject_Z sc).
(* relaxation.get_relaxed_cost(c) *)
Definition py_relaxed_cost (I : py_inst) (R : py_relax) (c : py_proj) : Q := PriceSystem.relaxed_cost I R c.

(* ---------- projects and instances ---------- *)
(* project.cost: the projects handed to the functions are the instance's own objects *)
Definition py_cost (I : py_inst) (p : py_proj) : Q := cost I p.
(* project.name, used only as a sort key: names are compared as strings, projects are numbered in name order *)
Definition py_name (p : py_proj) : Q := Qnat p.
Definition py_budget_limit (I : py_inst) : Q := budget I.
Definition py_instance_iter (I : py_inst) : list py_proj := all_projects I.
Definition py_in_instance (I : py_inst) (p : py_proj) : bool := Nat.ltb p (nproj I).
Definition py_len_instance (I : py_inst) : Q := Qnat (nproj I).
(* pabutools.election.instance.total_cost(projects) = sum(p.cost for p in projects) *)
Definition py_total_cost (I : py_inst) (l : list py_proj) : Q := tcost I l.
(* max_budget_allocation_cardinality(projects, budget_limit): hand model [max_card] (Model/InstanceM.v) *)
Definition py_max_budget_allocation_cardinality (I : py_inst) (l : list py_proj) (B : Q) : Q :=
  Qnat (max_card (map (cost I) l) B).
(* max_budget_allocation_cost(projects, budget_limit): the solver's answer on (costs of the projects, B),
   re-evaluated exactly (repaired code) *)
Definition py_max_budget_allocation_cost (orc : py_oracle) (I : py_inst) (l : list py_proj) (B : Q) : Q :=
  mip_value (orc (map (cost I) l) B) (map (cost I) l).

(* ---------- ballots ---------- *)
Definition py_ballot_iter (b : py_ballot) : list py_proj := bmem b.       (* for p in ballot *)
Definition py_in_ballot (b : py_ballot) (p : py_proj) : bool := inb b p.  (* p in ballot *)
Definition py_len_ballot (b : py_ballot) : Q := Qnat (length b).
Definition py_ballot_get (b : py_ballot) (p : py_proj) (d : Q) : Q :=     (* ballot.get(p, d) *)
  if inb b p then bget b p else d.
Definition py_ballot_getitem (b : py_ballot) (p : py_proj) : Q := bget b p.   (* ballot[p], p in ballot *)
Definition py_ballot_position (b : py_ballot) (p : py_proj) : Q := Qnat (bpos b p).   (* ballot.position(p), p in ballot *)

(* ApprovalBallot(instance): the ballot approving every project *)
Definition py_full_ballot (I : py_inst) : py_ballot := map (fun p => (p, 1)) (all_projects I).

(* ---------- profiles ---------- *)
Definition py_profile_iter (P : py_profile) : list py_pballot := P.       (* for b in profile *)
Definition py_in_pballot (bm : py_pballot) (p : py_proj) : bool := inb (fst bm) p.
Definition py_pballot_iter (bm : py_pballot) : list py_proj := bmem (fst bm).
(* profile.multiplicity(b) for a b obtained by iterating over that profile *)
Definition py_multiplicity (P : py_profile) (bm : py_pballot) : Q := Qnat (snd bm).
Definition py_len_profile (P : py_profile) : Q := Qnat (length P).
(* profile.approval_score(p) (approval profiles, tie-breaking): hand model [Phragmen.score] *)
Definition py_approval_score (P : py_aprofile) (p : py_proj) : Q := Phragmen.score P p.

Definition py_len_pballot (bm : py_pballot) : Q := Qnat (length (fst bm)).
Definition py_num_ballots (P : py_profile) : Q := Qnat (Analysis.num_ballots P).          (* profile.num_ballots() *)
(* approval_score / total_score of Abstract{Approval,Cardinal}Profile: hand models of Model/Analysis.v *)
Definition py_profile_approval_score (P : py_profile) (p : py_proj) : Q := Analysis.approval_score P p.
Definition py_profile_total_score (P : py_profile) (p : py_proj) : Q := Analysis.total_score P p.
(* profile.as_sat_profile(sat_class): one measure object per ballot the profile iterates over, with its
   multiplicity; the instance is the one the profile belongs to *)
Definition py_as_sat_profile (I : py_inst) (P : py_profile) (sc : py_satclass) : py_satprofile :=
  map (fun bm => (sc I P bm, snd bm)) P.
Definition py_satprofile_iter (S : py_satprofile) : list py_satentry := S.
Definition py_satprofile_multiplicity (S : py_satprofile) (e : py_satentry) : Q := Qnat (snd e).

(* ---------- dictionaries with literal string keys and numeric values ---------- *)
(* d[k] with k absent raises KeyError in Python; here it is 0 (every translated read is of a key the
   preprocessing of the same class writes; the class-level theorems compose the two) *)
Definition py_dict_of (l : list (string * Q)) : py_dict :=
  fun k => fold_right (fun kv r => if String.eqb k (fst kv) then Some (snd kv) else r) None l.
Definition py_dict_get (d : py_dict) (k : string) : Q := match d k with Some v => v | None => 0 end.
Definition py_dict_get_default (d : py_dict) (k : string) (x : Q) : Q :=
  match d k with Some v => v | None => x end.

(* ---------- class wiring (which function a shipped measure hands to which base class, under which guard) ---------- *)
Inductive py_guard := GuardAny | GuardIsinstance (cls : string).
Record py_wire := mkWire { w_guard : py_guard; w_base : string; w_args : list string }.

(* the wiring the models assume (Model/Satisfaction.v [sat]/[sat_project] dispatch on the measure exactly like this;
   the four numpy-float measures are outside the statement of C10, their wiring is recorded all the same);
   classes in name order, the branches of a class in the order of their guards *)
Open Scope string_scope.
Definition shipped_wiring : list (string * list py_wire) :=
  let any f := [mkWire GuardAny "AdditiveSatisfaction" [f]] in
  let app b f := [mkWire (GuardIsinstance "AbstractApprovalBallot") b [f]] in
  let card f := [mkWire (GuardIsinstance "AbstractCardinalBallot") "AdditiveSatisfaction" [f]] in
  [ ("Additive_Borda_Sat", [mkWire (GuardIsinstance "AbstractOrdinalBallot") "PositionalSatisfaction" ["borda_sat_func"; "sum"]]);
    ("Additive_Cardinal_Relative_Sat", card "additive_card_relative_sat_func");
    ("Additive_Cardinal_Sat", card "additive_card_sat_func");
    ("Additive_Cost_Log_Sat", app "AdditiveSatisfaction" "additive_cost_log_sat_func");
    ("Additive_Cost_Sqrt_Sat", app "AdditiveSatisfaction" "add_cost_sqrt_sat_func");
    ("CC_Sat", [mkWire (GuardIsinstance "AbstractApprovalBallot") "FunctionalSatisfaction" ["cc_sat_func_app"];
                mkWire (GuardIsinstance "AbstractCardinalBallot") "FunctionalSatisfaction" ["cc_sat_func_card"]]);
    ("Cardinality_Sat", any "cardinality_sat_func");
    ("Cost_Log_Sat", app "FunctionalSatisfaction" "cost_log_sat_func");
    ("Cost_Sat", any "cost_sat_func");
    ("Cost_Sqrt_Sat", app "FunctionalSatisfaction" "cost_sqrt_sat_func");
    ("Effort_Sat", any "effort_sat_func");
    ("Relative_Cardinality_Sat", any "relative_cardinality_sat_func");
    ("Relative_Cost_Approx_Normaliser_Sat", any "relative_cost_approx_normaliser_sat_func");
    ("Relative_Cost_Sat", any "relative_cost_sat_func") ].

Close Scope string_scope.

(* ---------- tie-breaking: the order a key induces (TieBreakingRule.order / untie) ---------- *)
Definition tb_order_of_key (key : py_proj -> Q) (l : list py_proj) : list py_proj := tie_order key l.
Definition tb_untie_of_key (key : py_proj -> Q) (l : list py_proj) : option py_proj := untie key l.
