(* Model/InstanceM.v -- executable mirror of pabutools/election/instance.py (predicates) and
   pabutools/utils.py (powerset).  Definitions only. *)
From PB Require Export Base.Election.
Open Scope Q_scope.

(* Instance.is_feasible: total_cost(projects) <= budget_limit  -- any collection, duplicates count *)
Definition is_feasible (I : inst) (W : list proj) : bool := Qleb (tcost I W) (budget I).

(* Instance.is_exhaustive(projects, available_projects) *)
Definition is_exhaustive (I : inst) (W : list proj) (avail : list proj) : bool :=
  forallb (fun p => memb p W || negb (Qleb (cost I p + tcost I W) (budget I))) avail.

(* Instance.budget_allocations: feasible members of powerset(self); [enum] is the iteration order
   of the instance (a Python set) *)
Definition budget_allocations (I : inst) (enum : list proj) : list (list proj) :=
  filter (is_feasible I) (powerset enum).

(* min(p.cost for p in self) on a non-empty instance *)
Fixpoint Qmin_list (d : Q) (l : list Q) : Q :=
  match l with
  | [] => d
  | x :: r => Qmin_list (if Qleb d x then d else x) r
  end.

(* Instance.is_trivial (after the repair: strict comparison with the cheapest project):
   (total_cost(self) <= budget) or (budget < min(costs)); Python's `or` short-circuits, and
   min() of an empty instance raises ValueError -> None *)
Definition is_trivial (I : inst) : option bool :=
  if Qleb (Qsum (costs I)) (budget I) then Some true
  else match costs I with
       | [] => None
       | c :: r => Some (Qltb (budget I) (Qmin_list c r))
       end.

(* max_budget_allocation_cardinality(projects, budget_limit) on the costs of [projects] *)
Fixpoint count_fit (sorted : list Q) (acc b : Q) : nat :=
  match sorted with
  | [] => O
  | c :: r => if Qleb (c + acc) b then S (count_fit r (c + acc) b) else O
  end.
Definition max_card (cs : list Q) (b : Q) : nat := count_fit (isort Qleb cs) 0 b.

(* brute-force reference optima over all subsequences *)
Definition fits (b : Q) (s : list Q) : bool := Qleb (Qsum s) b.
Definition max_card_bf (cs : list Q) (b : Q) : nat :=
  fold_right Nat.max O (map (@length Q) (filter (fits b) (powerset cs))).
Definition Qmax_list (l : list Q) : Q := fold_right (fun x m => if Qleb m x then x else m) 0 l.
Definition max_cost_bf (cs : list Q) (b : Q) : Q :=
  Qmax_list (map Qsum (filter (fits b) (powerset cs))).
