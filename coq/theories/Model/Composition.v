(* Model/Composition.v -- executable mirror of pabutools/rules/composition.py (DEFINITIONS ONLY).

   Both comparisons first run every rule and keep the DISTINCT outcomes in order of first occurrence
   (`if res not in results: results.append(res)` -- list equality, i.e. same projects in the same order).
   An [outcome] carries the returned allocation together with the satisfaction every voter of the satisfaction
   profile derives from it (one entry per element of the satisfaction profile: per voter for a Profile, per distinct
   ballot for a MultiProfile); [mults] are the multiplicities of those elements.

     swc mults outs         social_welfare_comparison: scan for the largest total satisfaction, ties appended
     popularity mults outs  popularity_comparison: every voter supports (with its multiplicity) each outcome that
                            attains its maximum (scan with ties); outcomes whose support equals max(support)

   Both return sub-lists of [outs] (the allocations are never modified).  An empty rule sequence (Python: None,
   resp. ValueError from max([])) is outside the property; here it yields []. *)
From PB Require Export Base.Election Base.Argmax.
Open Scope Q_scope.

Record outcome := mkOut { o_alloc : list proj; o_vsat : list Q }.

Fixpoint alloc_eqb (a b : list proj) : bool :=
  match a, b with
  | [], [] => true
  | x :: r, y :: t => Nat.eqb x y && alloc_eqb r t
  | _, _ => false
  end.

Definition same_alloc (o o' : outcome) : bool := alloc_eqb (o_alloc o) (o_alloc o').

(* results = []; for each rule: if res not in results: results.append(res) *)
Fixpoint dedup_acc (seen : list outcome) (outs : list outcome) : list outcome :=
  match outs with
  | [] => seen
  | o :: r => if existsb (same_alloc o) seen then dedup_acc seen r else dedup_acc (seen ++ [o]) r
  end.
Definition results (outs : list outcome) : list outcome := dedup_acc [] outs.

(* satisfaction of voter j with outcome o *)
Definition vs (j : nat) (o : outcome) : Q := nth j (o_vsat o) 0.

(* GroupSatisfactionMeasure.total_satisfaction: sum(sat.sat(projects) * multiplicity(sat)) *)
Fixpoint total_of (vsat : list Q) (mults : list nat) : Q :=
  match vsat, mults with
  | s :: r, m :: t => s * Qnat m + total_of r t
  | _, _ => 0
  end.
Definition total (mults : list nat) (o : outcome) : Q := total_of (o_vsat o) mults.

Definition swc (mults : list nat) (outs : list outcome) : list outcome :=
  argmax_all Qleb (total mults) (results outs).

(* the outcomes voter j supports: argmax with ties of its satisfaction over the distinct results *)
Definition tops (res : list outcome) (j : nat) : list outcome := argmax_all Qleb (vs j) res.

Fixpoint support_from (res : list outcome) (o : outcome) (j : nat) (mults : list nat) : nat :=
  match mults with
  | [] => O
  | m :: t => ((if existsb (same_alloc o) (tops res j) then m else O) + support_from res o (S j) t)%nat
  end.
Definition support (res : list outcome) (mults : list nat) (o : outcome) : nat := support_from res o 0 mults.

Definition popularity (mults : list nat) (outs : list outcome) : list outcome :=
  let res := results outs in
  let mx := fold_right Nat.max O (map (support res mults) res) in
  filter (fun o => Nat.eqb (support res mults o) mx) res.
