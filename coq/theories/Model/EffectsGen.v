(* Model/EffectsGen.v -- the checker for effect summaries that are REGENERATED FROM THE PYTHON SOURCE
   (Generated/EffectSummaries.v, written by harness/vharness/anchors_effects.py on every run).
   A summary is a program of the effect language of Model/Effects.v together with its arity and a mask of
   "work" parameters (objects the function is SPECIFIED to write into: the running allocation of an inner
   scheme, the solution vector of the knapsack search, ...; empty for every public rule / analysis).
   [writes_only_fresh] is the executable test "every keyed write / append goes to an object allocated by
   the call itself or to a work parameter, transitively through by-reference calls"; its soundness (the
   frame property of exec) is Proofs/EffectsGenP.v.  DEFINITIONS ONLY. *)
From PB Require Import Model.Effects.

Record program := mkProgram {
  p_arity : nat;            (* number of parameters (one store reference each) *)
  p_work : list bool;       (* p_work[i] = true: parameter i is a work object the function may write *)
  p_body : list stmt
}.

(* a reference resolves in a frame with [na] arguments and [nl] local objects *)
Definition resolvable (na nl : nat) (r : ref) : bool :=
  match r with Arg i => Nat.ltb i na | Loc i => Nat.ltb i nl end.

(* may the frame write through r?  its own objects: yes; parameter i: only when flagged fresh *)
Definition ref_fresh (af : list bool) (r : ref) : bool :=
  match r with Arg i => nth i af false | Loc _ => true end.

(* [wof fuel progs na af p nl]: program p, run in a frame with na arguments (af[i] = "argument i is an
   object the CALLER of this frame allows to be written") and nl local objects, writes only through fresh
   references, and so does every callee under the freshness of the references it is handed.
   Running out of fuel, or meeting a reference that does not resolve, answers false (fail closed). *)
Fixpoint wof (fuel : nat) (progs : nat -> list stmt) (na : nat) (af : list bool)
  : list stmt -> nat -> bool :=
  fix go (p : list stmt) (nl : nat) {struct p} : bool :=
    match p with
    | [] => true
    | st :: rest =>
        match st with
        | SCopy src => resolvable na nl src && go rest (S nl)
        | SNew _ => go rest (S nl)
        | SSetKey dst _ _ => resolvable na nl dst && ref_fresh af dst && go rest nl
        | SAppend dst _ => resolvable na nl dst && ref_fresh af dst && go rest nl
        | SMemo dst _ _ => resolvable na nl dst && go rest nl
        | SCall f rs =>
            match fuel with
            | O => false
            | S fuel' =>
                forallb (resolvable na nl) rs
                && wof fuel' progs (length rs) (map (ref_fresh af) rs) (progs f) 0
                && go rest nl
            end
        end
    end.

Definition check_depth := 12%nat.

Definition writes_only_fresh (progs : nat -> list stmt) (p : program) : bool :=
  Nat.eqb (length (p_work p)) (p_arity p)
  && wof check_depth progs (p_arity p) (p_work p) (p_body p) 0.

(* the public entry points: no work parameter at all *)
Definition no_work (p : program) : bool := forallb negb (p_work p).

(* the hypothesis on a call: the work parameters are not among the first n cells (the caller's view) *)
Definition work_outside (n : nat) (af : list bool) (args : list nat) : Prop :=
  forall i l, nth_error args i = Some l -> nth i af false = true -> (n <= l)%nat.

(* running a summary as a call from the user: the caller's objects at store locations [args] *)
Definition run_summary (fuel : nat) (progs : nat -> list stmt) (p : program) (s : store) (args : list nat) : store :=
  exec fuel progs args (p_body p) [] s.
