(* Model/PyCtrlPrims.v -- the vocabulary of the REGENERATED definitions of Generated/PyCtrl.v.
   harness/vharness/pytrans_ctrl.py translates the IMPERATIVE wrappers of pabutools/rules/exhaustion.py and
   pabutools/rules/composition.py into Gallina by STATE PASSING on every run: every local variable that a loop
   changes is a component of the loop's state, `xs.append(v)` is `xs ++ [v]`, `for` is [py_for] (a fold with
   early exit), `while` is the fuelled [py_while], `return`/`raise` inside loops are [Exit], and the whole function
   evaluates to a [py_res]: the value returned, the exception raised, or [OutOfFuel].
   Definitions only.  What each constant ASSUMES about Python is written next to it (repeated in DESIGN.md,
   section "C09gen / C19gen").  Proofs/PyCtrlLib.v, Proofs/PyCtrlP.v connect the generated definitions to the hand
   models Model/Exhaustion.v and Model/Composition.v; Props/C09gen.v and Props/C19gen.v re-export the statements. *)
From Coq Require Import String.
From PB Require Export Model.PyPrims Model.InstanceM.
Open Scope Q_scope.

(* ---------- results and control flow ---------- *)
Inductive py_res (T : Type) : Type :=
| Ok (v : T)                 (* the function returned v *)
| Raise (e : string)         (* the function raised an exception of class e *)
| OutOfFuel.                 (* a `while` loop did not finish within the fuel *)
Arguments Ok {T} v.
Arguments Raise {T} e.
Arguments OutOfFuel {T}.

(* what one execution of a loop body does: fall through / `continue` with the new state, `break`, or leave the
   function (`return`, `raise`) *)
Inductive py_flow (S R : Type) : Type :=
| Next (s : S)
| Break (s : S)
| Exit (r : R).
Arguments Next {S R} s.
Arguments Break {S R} s.
Arguments Exit {S R} r.

(* `for x in l: body` from state s: the state after the loop, or the result with which the function was left *)
Fixpoint py_for {A S R} (body : S -> A -> py_flow S R) (l : list A) (s : S) : S + R :=
  match l with
  | [] => inl s
  | x :: r =>
      match body s x with
      | Next s' => py_for body r s'
      | Break s' => inl s'
      | Exit v => inr v
      end
  end.

(* `while cond: body`: one unit of fuel per evaluation of the condition; None = fuel exhausted *)
Fixpoint py_while {S R} (fuel : nat) (cond : S -> bool) (body : S -> py_flow S R) (s : S) : option (S + R) :=
  match fuel with
  | O => None
  | Datatypes.S f =>
      if cond s then
        match body s with
        | Next s' => py_while f cond body s'
        | Break s' => Some (inl s')
        | Exit v => Some (inr v)
        end
      else Some (inl s)
  end.

(* the same loop written the way pytrans writes it: a fold_left whose state carries a stop flag and a pending result *)
Definition py_for_step {A S R} (body : S -> A -> py_flow S R) (st : bool * option R * S) (x : A) : bool * option R * S :=
  let '(stop, pend, s) := st in
  if stop then st else
  match pend with
  | Some _ => st
  | None => match body s x with
            | Next s' => (false, None, s')
            | Break s' => (true, None, s')
            | Exit v => (false, Some v, s)
            end
  end.

(* ---------- sequences ---------- *)
Definition py_range (n : nat) : list nat := seq 0 n.
Definition py_enumerate {A} (l : list A) : list (nat * A) := combine (seq 0 (length l)) l.
Definition py_zip {A B} (a : list A) (b : list B) : list (A * B) := combine a b.     (* stops at the shorter one *)
(* xs[k]: IndexError = None *)
Definition py_getitem {A} (l : list A) (k : nat) : option A := nth_error l k.
(* xs[k] = v for a valid k *)
Fixpoint py_setitem {A} (l : list A) (k : nat) (v : A) : list A :=
  match l, k with
  | [], _ => []
  | _ :: r, O => v :: r
  | x :: r, Datatypes.S j => x :: py_setitem r j v
  end.
(* a comprehension whose element expression can raise: None as soon as one element does *)
Fixpoint py_all_some {A} (l : list (option A)) : option (list A) :=
  match l with
  | [] => Some []
  | None :: _ => None
  | Some x :: r => match py_all_some r with Some t => Some (x :: t) | None => None end
  end.
(* max(xs): ValueError (None) on an empty sequence; the first maximum otherwise *)
Definition py_max_opt (l : list Q) : option Q :=
  match l with [] => None | x :: r => Some (fold_left py_max2 r x) end.
Definition py_min_opt (l : list Q) : option Q :=
  match l with [] => None | x :: r => Some (fold_left py_min2 r x) end.
Definition py_is_none {A} (o : option A) : bool := match o with None => true | Some _ => false end.
Definition py_nat_eq (a b : nat) : bool := Nat.eqb a b.
Definition py_nat_lt (a b : nat) : bool := Nat.ltb a b.
Definition py_nat_le (a b : nat) : bool := Nat.leb a b.
Definition py_bool_eq (a b : bool) : bool := Bool.eqb a b.

(* ---------- allocations ---------- *)
(* a BudgetAllocation is a list of projects; `==` and `in` on allocations are LIST equality (same projects in the
   same order): BudgetAllocation subclasses list and does not override __eq__ *)
Definition py_alloc := list proj.
Fixpoint py_alloc_eqb (a b : py_alloc) : bool :=
  match a, b with
  | [], [] => true
  | x :: r, y :: t => Nat.eqb x y && py_alloc_eqb r t
  | _, _ => false
  end.
Definition py_alloc_in (a : py_alloc) (l : list py_alloc) : bool := existsb (py_alloc_eqb a) l.   (* a in l *)

(* ---------- instances ---------- *)
(* deepcopy(instance) followed by `copy.budget_limit = b`: the same projects and costs, another budget limit *)
Definition py_with_budget (I : inst) (b : Q) : inst := mkInst (costs I) b.
(* instance.is_feasible(projects) / instance.is_exhaustive(projects): Model/InstanceM.v; without the keyword
   available_projects the candidates are the projects of the instance itself *)
Definition py_is_feasible (I : inst) (W : py_alloc) : bool := is_feasible I W.
Definition py_is_exhaustive (I : inst) (W : py_alloc) : bool := is_exhaustive I W (all_projects I).
Definition py_is_exhaustive_avail (I : inst) (W : py_alloc) (avail : list proj) : bool := is_exhaustive I W avail.

(* ---------- keyword-argument dictionaries handed on to the wrapped rules ---------- *)
(* [X] = everything in the dictionary besides the key "resoluteness" (opaque) *)
Record py_kwargs (X : Type) := mkKw { kw_resoluteness : option bool; kw_rest : option X }.
Arguments mkKw {X} kw_resoluteness kw_rest.
Arguments kw_resoluteness {X} p.
Arguments kw_rest {X} p.
Definition py_no_kwargs {X} : py_kwargs X := mkKw None None.                          (* {} *)
Definition py_kw_has_res {X} (k : py_kwargs X) : bool := negb (py_is_none (kw_resoluteness k)).   (* "resoluteness" in d *)
(* d["resoluteness"] where the key is known to be present (evaluated under `"resoluteness" in d and ...`) *)
Definition py_kw_res_present {X} (k : py_kwargs X) : bool :=
  match kw_resoluteness k with Some b => b | None => false end.
Definition py_kw_res_get {X} (k : py_kwargs X) (d : bool) : bool :=                   (* d.get("resoluteness", default) *)
  match kw_resoluteness k with Some b => b | None => d end.
(* d["resoluteness"] = b  /  a call  rule(..., resoluteness=b, **d) *)
Definition py_kw_set_res {X} (k : py_kwargs X) (b : bool) : py_kwargs X := mkKw (Some b) (kw_rest k).

(* a wrapped rule: what it returns for (the keyword dictionary it is called with, the budget limit of the instance it
   is handed -- an instance with the projects of the caller's instance --, the initial allocation).  Resolute rules
   return one allocation, irresolute ones a list. *)
Definition py_rule (X T : Type) := py_kwargs X -> Q -> py_alloc -> T.

(* ---------- profiles as the wrappers see them ---------- *)
(* a satisfaction profile: per element its satisfaction function on allocations and its multiplicity *)
Definition py_satprofile := list ((py_alloc -> Q) * nat).
Record py_cprofile (SC : Type) := mkCProfile {
  cp_num_ballots : nat;                               (* profile.num_ballots() *)
  cp_as_sat : SC -> py_satprofile                     (* profile.as_sat_profile(sat_class) *)
}.
Arguments cp_num_ballots {SC} p.
Arguments cp_as_sat {SC} p c.
(* sat.sat(projects) for an element sat of the satisfaction profile *)
Definition py_sat_sat (s : (py_alloc -> Q) * nat) (W : py_alloc) : Q := fst s W.
(* sat_profile.multiplicity(sat) for a sat obtained by iterating over that profile *)
Definition py_sat_multiplicity (s : (py_alloc -> Q) * nat) : Q := Qnat (snd s).
(* GroupSatisfactionMeasure.total_satisfaction(projects) = sum(sat.sat(projects) * multiplicity(sat)) *)
Definition py_total_satisfaction (sp : py_satprofile) (W : py_alloc) : Q :=
  Qsum (map (fun s => fst s W * Qnat (snd s)) sp).

(* ---------- aliasing table ---------- *)
(* for every local variable of a translated function: what the object it is bound to is, and whether that object is
   mutated in place (.append/.extend/+=/[k]=/attribute assignment) anywhere in the function *)
Inductive py_origin :=
| Scalar                       (* number, boolean, None, string: immutable *)
| Fresh                        (* an object created by the function itself: [], BudgetAllocation(..), copy(..), deepcopy(..), dict(..) *)
| AliasOf (param : string)     (* the caller's object itself *)
| ElemOf (param : string)      (* an element of a container of the caller (reached by iteration, subscript or a shallow copy) *)
| RuleResult.                  (* returned by a wrapped rule *)
Record py_alias := mkAlias { al_var : string; al_origin : py_origin; al_mutated : bool }.
Definition py_is_param_origin (o : py_origin) : bool :=
  match o with AliasOf _ | ElemOf _ => true | _ => false end.
(* no object of the caller is mutated through a local name *)
Definition py_inputs_untouched (t : list py_alias) : bool :=
  forallb (fun a => negb (py_is_param_origin (al_origin a) && al_mutated a)) t.

(* ---------- lists of projects: remove, index, sorting by decreasing key ---------- *)
(* xs.remove(x): the first element equal to x is removed; ValueError = None when there is none *)
Fixpoint py_remove (l : list proj) (x : proj) : option (list proj) :=
  match l with
  | [] => None
  | y :: r => if Nat.eqb y x then Some r
              else match py_remove r x with Some t => Some (y :: t) | None => None end
  end.
(* xs.index(x) for an x in xs: the first position *)
Fixpoint py_index_of (l : list proj) (x : proj) : nat :=
  match l with
  | [] => O
  | y :: r => if Nat.eqb y x then O else S (py_index_of r x)
  end.
(* {x: i for i, x in enumerate(xs)}[x] for an x in xs: the LAST position (later entries overwrite earlier ones) *)
Fixpoint py_last_index_of (l : list proj) (x : proj) : nat :=
  match l with
  | [] => O
  | y :: r => if memb x r then S (py_last_index_of r x) else O
  end.
(* sorted(xs, key=lambda p: -k(p)) with keys in Q + {inf}: -a <= -b iff b <= a; Python's sort is stable *)
Definition py_sorted_neg {A} (k : A -> Qx) (l : list A) : list A :=
  isort (fun x y => Qx_leb (k y) (k x)) l.
(* sorted(xs, key=lambda p: (-k(p), ix(p))): tuples compare lexicographically,
   (a, i) <= (b, j) iff a < b or (a == b and i <= j) *)
Definition py_sorted_neg_then {A} (k : A -> Qx) (ix : A -> nat) (l : list A) : list A :=
  isort (fun x y => Qx_ltb (k y) (k x) || (Qx_eqb (k x) (k y) && Nat.leb (ix x) (ix y))) l.

(* a value of Q + {inf} stored where only exact numbers can live (a voter's load): the translation cannot represent a
   float infinity there and reports it as an exception of its own, "FloatInfinity"; the theorems show it cannot occur *)
Definition py_finite (x : Qx) : option Q := match x with Fin q => Some q | PInf => None end.
