(* Oracle/C04.v -- case-file runner for C04: the welfare maximiser's answers vs. the exact brute-force
   maximum over all subsets (and the set of all optima), and vs. the model (Model/MaxWelfare.v) for the
   primal/dual algorithm.  Definitions only; [bf_max]/[bf_optima] are proved to be the true maximum /
   the set of all optima in Proofs/WelfareBFP.v (C04_bf_* in Props/C04.v). *)
From PB Require Export Model.MaxWelfare Model.InstanceM Oracle.Common.
Open Scope Q_scope.

(* ---------- brute force over all subsets extending the initial allocation ---------- *)
Definition rest_projects (I : inst) (init : list proj) : list proj :=
  filter (fun p => negb (memb p init)) (all_projects I).
Definition candidates (I : inst) (init : list proj) : list (list proj) :=
  map (fun S => init ++ S) (powerset (rest_projects I init)).
Definition feas_candidates (I : inst) (init : list proj) : list (list proj) :=
  filter (is_feasible I) (candidates I init).

Fixpoint Qmax_opt (l : list Q) : option Q :=
  match l with
  | [] => None
  | x :: r => match Qmax_opt r with
              | None => Some x
              | Some m => Some (if Qleb m x then x else m)
              end
  end.

(* maximum welfare over feasible allocations extending [init]; None iff [init] itself is infeasible *)
Definition bf_max (I : inst) (score : list Q) (init : list proj) : option Q :=
  Qmax_opt (map (welfare score) (feas_candidates I init)).
(* every welfare-maximal feasible allocation extending [init], once (as init ++ ascending ranks) *)
Definition bf_optima (I : inst) (score : list Q) (init : list proj) : list (list proj) :=
  match bf_max I score init with
  | None => []
  | Some m => filter (fun W => Qeqb (welfare score W) m) (feas_candidates I init)
  end.

(* ---------- cases ---------- *)
Record case := mkCase {
  c_costs : list Q;             (* cost by rank *)
  c_budget : Q;
  c_score : list Q;             (* sat_profile.total_satisfaction_project by rank (exact) *)
  c_enum : list nat;            (* iteration order of the instance object *)
  c_init : list nat;            (* initial budget allocation *)
  c_algo : nat;                 (* 0 = PRIMAL_DUAL, 1 = ILP resolute, 2 = ILP irresolute *)
  c_out : list (list nat)       (* the returned allocation(s); resolute: a singleton list *)
}.

Definition I_of (c : case) : inst := mkInst (c_costs c) (c_budget c).

(* failure codes:
   1 an answer contains a duplicate or an unknown project      2 an answer is over budget
   3 an answer does not contain the initial allocation         4 an answer's welfare is below the maximum
   5 irresolute: the returned list is not the set of all optima, each once
   6 PRIMAL_DUAL: the selected set differs from the model's    7 resolute call returned no / several answers *)
Definition wellformed (I : inst) (W : list nat) : bool :=
  nodupb W && forallb (fun p => Nat.ltb p (nproj I)) W.

Definition check (c : case) : list nat :=
  let I := I_of c in
  let out := c_out c in
  let mx := bf_max I (c_score c) (c_init c) in
  flag (forallb (wellformed I) out) 1
  ++ flag (forallb (is_feasible I) out) 2
  ++ flag (forallb (fun W => forallb (fun p => memb p W) (c_init c)) out) 3
  ++ flag (match mx with
           | None => false
           | Some m => forallb (fun W => Qleb m (welfare (c_score c) W)) out
           end) 4
  ++ (if Nat.eqb (c_algo c) 2
      then flag (setset_eqb out (bf_optima I (c_score c) (c_init c)) && nodupb_list (map canon out)) 5
      else flag (Nat.eqb (length out) 1) 7)
  ++ (if Nat.eqb (c_algo c) 0
      then flag (match maxwelfare_pd I (c_score c) (c_enum c) (c_init c), out with
                 | Some res, [W] => set_eqb res W
                 | _, _ => false
                 end) 6
      else []).

Definition run (cs : list case) : list (nat * nat) := run_cases check 0 cs.
