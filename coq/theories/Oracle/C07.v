(* Oracle/C07.v -- case-file runner for C07 (the recorded Equal Shares run is an exact, valid price
   system): the invariants of the property statement evaluated on the IMPLEMENTATION's recorded
   trace (details.iterations), and the trace compared exactly with the model's (Model/MesRule.v). *)
From PB Require Export Model.MesRule Oracle.Common.
Open Scope Q_scope.

(* one MESIteration: selected_project, voters_budget, voters_budget_after_selection *)
Definition iter := (option nat * list Q * option (list Q))%type.

Record case := mkCase {
  c_costs : list Q;
  c_budget : Q;
  c_voters : list (list Q * nat);   (* per MESVoter: sat_project by rank, multiplicity in the profile *)
  c_tb : list Q;
  c_enum : list nat;
  c_bin : bool;
  c_inc : option Q;                 (* voter_budget_increment (None = plain rule) *)
  c_init : list nat;                (* initial_budget_allocation (feasible) *)
  c_mult : list nat;                (* details.voter_multiplicity *)
  c_iters : list iter;              (* details.iterations of the returned allocation *)
  c_final_budget : Q;               (* details.get_final_budget() *)
  c_out : list nat;                 (* outcome with analytics=True *)
  c_out_plain : list nat;           (* outcome with analytics=False *)
  c_valid : option bool;            (* validate_price_system on the reconstructed payments; None = not applicable *)
  c_loss : option (list (nat * Q * Q))  (* calculate_project_loss: project, supporters_budget,
                                           total_budget_lost; None = it raised *)
}.

Definition ITER_FUEL : nat := 400.

Definition voters_of (c : case) : list vcls := map (fun um => mkV (fst um) (snd um)) (c_voters c).
Definition min_of (c : case) : mes_in :=
  mkIn (c_costs c) (c_budget c) (voters_of c) (key_of_list (c_tb c)) (c_enum c) (c_bin c) (c_init c).

Fixpoint qlist_eqb (a b : list Q) : bool :=
  match a, b with
  | [], [] => true
  | x :: r, y :: s => Qeqb x y && qlist_eqb r s
  | _, _ => false
  end.

Definition nvot (c : case) : nat := length (c_voters c).
Definition mulQ (c : case) (i : nat) : Q := Qnat (nth i (c_mult c) O).
Definition ut (c : case) (i : nat) (p : nat) : Q := vutil (voters_of c) i p.
Definition is_sup (c : case) (p i : nat) : bool := Qltb 0 (ut c i p).
Definition idx (c : case) : list nat := seq 0 (nvot c).
Definition wsum (c : case) (f : nat -> Q) (l : list nat) : Q := Qsum (map (fun i => mulQ c i * f i) l).
Definition bq (b : list Q) (i : nat) : Q := nth i b 0.
Definition costq (c : case) (p : nat) : Q := nth p (c_costs c) 0.

(* money to distribute: the budget limit minus the cost of the initial allocation *)
Definition to_share (c : case) : Q := c_budget c - Qsum (map (fun p => nth p (c_costs c) 0) (c_init c)).

(* 1: equal start summing (with multiplicities) to the budget limit (less the initial allocation) /
   the reported inflated budget *)
Definition chk_start (c : case) : bool :=
  match c_iters c with
  | [] => false
  | (_, b, _) :: _ =>
      Nat.eqb (length b) (nvot c)
      && forallb (fun x => Qeqb x (bq b 0)) b
      && let tot := wsum c (bq b) (idx c) in
         Qeqb tot (c_final_budget c)
         && match c_inc c with None => Qeqb tot (to_share c) | Some _ => Qleb (to_share c) tot end
  end.

(* per purchase round *)
Definition round_ok (c : case) (f : nat -> list Q -> list Q -> bool) (it : iter) : bool :=
  match it with
  | (Some p, b, Some a) => f p b a
  | _ => true
  end.
Definition chk_only_supporters (c : case) : bool :=
  forallb (round_ok c (fun p b a =>
    forallb (fun i => is_sup c p i || Qeqb (bq a i) (bq b i)) (idx c))) (c_iters c).
Definition chk_no_overpay (c : case) : bool :=
  forallb (round_ok c (fun p b a =>
    forallb (fun i => Qleb 0 (bq a i) && Qleb (bq a i) (bq b i)) (idx c))) (c_iters c).
Definition chk_common_rho (c : case) : bool :=
  forallb (round_ok c (fun p b a =>
    let Sp := filter (is_sup c p) (idx c) in
    let payd i := bq b i - bq a i in
    match filter (fun i => Qltb (payd i) (bq b i)) Sp with
    | [] => true                        (* every supporter pays everything: any large rho *)
    | j :: _ => let rho := payd j / ut c j p in
                forallb (fun i => Qeqb (payd i) (Qmin (bq b i) (rho * ut c i p))) Sp
    end)) (c_iters c).
Definition chk_conservation (c : case) : bool :=
  forallb (round_ok c (fun p b a =>
    Qeqb (wsum c (fun i => bq b i - bq a i) (idx c)) (costq c p))) (c_iters c).

(* 6: shape of the record: every iteration but the last one is a purchase, the last one is the
   terminal record (nothing selected), lists have one entry per voter, and the money at the start of
   an iteration is the money left by the previous one *)
Fixpoint chk_chain (c : case) (prev : option (list Q)) (l : list iter) : bool :=
  match l with
  | [] => false
  | (sel, b, a) :: r =>
      Nat.eqb (length b) (nvot c)
      && match prev with None => true | Some pb => qlist_eqb pb b end
      && match r, sel, a with
         | [], None, None => true
         | _ :: _, Some p, Some a' => Nat.ltb p (length (c_costs c)) && Nat.eqb (length a') (nvot c)
                                      && chk_chain c (Some a') r
         | _, _, _ => false
         end
  end.

Definition selected (c : case) : list nat :=
  flat_map (fun it => match it with (Some p, _, _) => [p] | _ => [] end) (c_iters c).
Definition final_buds (c : case) : list Q :=
  match last (c_iters c) (None, [], None) with (_, b, _) => b end.
Definition supported (c : case) (p : nat) : bool := existsb (is_sup c p) (idx c).

(* 7: after the last round no remaining supported project can be paid by its supporters *)
Definition chk_final (c : case) : bool :=
  forallb (fun p => negb (supported c p) || memb p (c_out c)
                    || Qltb (wsum c (bq (final_buds c)) (filter (is_sup c p) (idx c))) (costq c p))
          (seq 0 (length (c_costs c))).

(* 10: the outcome is the supported zero-cost projects plus the recorded purchases *)
Definition chk_outcome (c : case) : bool :=
  let zeros := filter (fun p => supported c p && Qleb (costq c p) 0 && negb (memb p (c_init c)))
                      (seq 0 (length (c_costs c))) in
  set_eqb (c_out c) (c_init c ++ zeros ++ selected c) && nodupb (c_out c).

(* ---- model side ---- *)
Definition model_run (c : case) : option mes_out :=
  match c_inc c with
  | None => mes_resolute (min_of c)
  | Some inc => mes_iter_resolute ITER_FUEL (min_of c) inc
  end.

Fixpoint trace_eqb (tr : list round) (fin : list Q) (l : list iter) : bool :=
  match tr, l with
  | [], [(None, b, None)] => qlist_eqb fin b
  | r :: tr', (Some p, b, Some a) :: l' =>
      Nat.eqb (r_sel r) p && qlist_eqb (r_before r) b && qlist_eqb (r_after r) a && trace_eqb tr' fin l'
  | _, _ => false
  end.

(* calculate_project_loss against the model's trace: a bought project is reported with its
   supporters' money before its round and what they had spent before; every other listed project
   once, with money + spendings = initial money of its supporters *)
Definition loss_ok (c : case) (o : mes_out) (L : list (nat * Q * Q)) : bool :=
  let sups p := filter (is_sup c p) (idx c) in
  let b0 := o_b0 o in
  forallb (fun r =>
             match filter (fun e => Nat.eqb (fst (fst e)) (r_sel r)) L with
             | [(_, sbud, lost)] =>
                 Qeqb sbud (wsum c (bq (r_before r)) (sups (r_sel r)))
                 && Qeqb lost (wsum c (fun i => b0 - bq (r_before r) i) (sups (r_sel r)))
             | _ => false
             end) (o_trace o)
  && forallb (fun e => match e with (p, sbud, lost) =>
                memb p (map r_sel (o_trace o))
                || (Nat.eqb (length (filter (fun e' => Nat.eqb (fst (fst e')) p) L)) 1
                    && Qeqb (sbud + lost) (wsum c (fun _ => b0) (sups p)))
              end) L.

(* failure codes -- oracle (the property fails on the implementation's record):
   1 start   2 a non-supporter paid   3 somebody paid more than they held / negative money
   4 payments are not min(own money, rho*u) for one rho   5 payments do not add up to the cost
   6 malformed record / rounds do not chain   7 a remaining supported project is affordable at the end
   8 analytics changed the outcome   9 validate_price_system rejects the payments
   10 outcome is not initial allocation + zero-cost supported projects + recorded purchases
   11 recorded multiplicities differ from the profile's   12 calculate_project_loss raised
   -- model (correspondence): 20 recorded trace differs from the model's trace
   21 model out of fuel   22 calculate_project_loss totals differ   23 outcome set differs from the model's *)
Definition check (c : case) : list nat :=
  flag (chk_start c) 1
  ++ flag (chk_only_supporters c) 2
  ++ flag (chk_no_overpay c) 3
  ++ flag (chk_common_rho c) 4
  ++ flag (chk_conservation c) 5
  ++ flag (chk_chain c None (c_iters c)) 6
  ++ flag (chk_final c) 7
  ++ flag (set_eqb (c_out c) (c_out_plain c)) 8
  ++ flag (match c_valid c with Some false => false | _ => true end) 9
  ++ flag (chk_outcome c) 10
  ++ flag (natlist_eqb (c_mult c) (map snd (c_voters c))) 11
  ++ flag (match c_loss c with None => false | Some _ => true end) 12
  ++ match model_run c with
     | None => [21%nat]
     | Some o =>
         flag (trace_eqb (o_trace o) (o_final o) (c_iters c)) 20
         ++ flag (match c_loss c with Some L => loss_ok c o L | None => true end) 22
         ++ flag (set_eqb (c_out c) (o_alloc o)) 23
     end.

Definition run (cs : list case) : list (nat * nat) := run_cases check 0 cs.
