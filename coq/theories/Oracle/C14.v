(* Oracle/C14.v -- case-file runner for C14.
   (1) [bf_*]: brute-force boolean evaluation of the definitions of Spec/JR.v over ALL groups and ALL
       project sets (own enumerator [subseqs], the "up to" clauses evaluated by forallb/existsb over the
       projects of T outside W instead of a min/max surplus).  Proofs/JRP.v proves each [bf_X = true <->
       Spec X] (for the cardinal notions the quantifier over alpha is replaced by its extremal instance,
       the group's minimum score, which the proof justifies).
   (2) [check]: the implementation's answers vs [bf_*] (kind "oracle"), vs Model/Cohesive.v (kind
       "model"), the implication lattice on the implementation's own answers, the Equal Shares link.
   Definitions only (proofs about them live in Proofs/JRP.v). *)
From PB Require Export Model.Cohesive Oracle.Common.
Open Scope Q_scope.

Fixpoint subseqs {A} (l : list A) : list (list A) :=
  match l with
  | [] => [[]]
  | x :: t => let r := subseqs t in map (cons x) r ++ r
  end.

Definition upto_b (r : relax) (uf : proj -> Q) (T W : list proj) (sW thr : Q) : bool :=
  match r with
  | Plain => Qleb thr sW
  | UpToAny => forallb (fun p => memb p W || Qleb thr (sW + uf p)) T
  | UpToOne => Qleb thr sW || existsb (fun p => negb (memb p W) && Qleb thr (sW + uf p)) T
  end.

Section BF.
Variable I : inst.
Variable V : Type.
Variable P : list V.
Variable approves : V -> proj -> bool.
Variable score : V -> proj -> Q.
Variable ut : V -> proj -> Q.
Variable pv : proj -> Q.

Definition nonemptyb {A} (l : list A) : bool := match l with [] => false | _ => true end.
Definition all_groups : list (list V) := filter nonemptyb (subseqs P).
Definition all_psets : list (list proj) := subseqs (all_projects I).
Definition forall_pairs (f : list V -> list proj -> bool) : bool :=
  forallb (fun G => forallb (f G) all_psets) all_groups.

Definition large_b (G : list V) (T : list proj) : bool :=
  Qleb (tcost I T * Qnat (length P)) (Qnat (length G) * budget I).

Definition bf_core (r : relax) (W : list proj) : bool :=
  forall_pairs (fun G T =>
    negb (large_b G T)
    || existsb (fun i => upto_b r (ut i) T W (sat V ut i W) (sat V ut i T)) G).

Definition coh_app_b (G : list V) (T : list proj) : bool :=
  nonemptyb T && large_b G T && forallb (fun i => forallb (approves i) T) G.

Definition bf_strong_EJR_app (W : list proj) : bool :=
  forall_pairs (fun G T =>
    negb (coh_app_b G T) || forallb (fun i => Qleb (sat V ut i T) (sat V ut i W)) G).

Definition bf_EJR_app (r : relax) (W : list proj) : bool :=
  forall_pairs (fun G T =>
    negb (coh_app_b G T)
    || existsb (fun i => upto_b r (ut i) T W (sat V ut i W) (sat V ut i T)) G).

Definition bf_PJR_app (r : relax) (W : list proj) : bool :=
  forall_pairs (fun G T =>
    negb (coh_app_b G T)
    || upto_b r pv T W (val pv (filter (approved_by V approves G) W)) (val pv T)).

(* cardinal: the largest alpha for which G is (alpha,T)-cohesive is the pointwise minimum score *)
Definition amin (G : list V) (p : proj) : Q := gmin (fun i => score i p) G.
Definition coh_card_b (G : list V) (T : list proj) : bool := nonemptyb T && large_b G T.

Definition bf_strong_EJR_card (W : list proj) : bool :=
  forall_pairs (fun G T =>
    negb (coh_card_b G T) || forallb (fun i => Qleb (asum (amin G) T) (sat V ut i W)) G).

Definition bf_EJR_card (r : relax) (W : list proj) : bool :=
  forall_pairs (fun G T =>
    negb (coh_card_b G T)
    || existsb (fun i => upto_b r (ut i) T W (sat V ut i W) (asum (amin G) T)) G).

Definition bf_PJR_card (r : relax) (W : list proj) : bool :=
  forall_pairs (fun G T =>
    negb (coh_card_b G T)
    || upto_b r (gscore V score G) T W (Qsum (map (gscore V score G) W)) (asum (amin G) T)).

End BF.

(* ------------------------------------------------------------------------------------------ *)
(* case files *)

Record mcase := mkM {
  m_kind : nat;                  (* 0 Cost_Sat, 1 Cardinality_Sat, 2 Additive_Cardinal_Sat *)
  m_ut : list (list Q);          (* per voter: sat_project(p) by rank, read from the implementation *)
  m_pv : list Q;                 (* approval: sat_project(p) of the ballot approving everything *)
  m_answers : list (list nat * list bool);
      (* candidate allocation W, the implementation's answers in the order
         core, core-any, core-one, strong-EJR, EJR, EJR-any, EJR-one, PJR, PJR-any, PJR-one *)
  m_mes : option (list nat * bool)
      (* the implementation's Equal Shares outcome under this measure and the implementation's answer
         of EJR-any (Cost_Sat) / EJR-one (Cardinality_Sat) on it *)
}.

Record case := mkCase {
  c_costs : list Q;
  c_budget : Q;
  c_enum : list nat;             (* iteration order of the instance object *)
  c_cardinal : bool;
  c_app : list (list nat);       (* approval ballots, one per voter *)
  c_score : list (list Q);       (* cardinal ballots: score by rank, one list per voter *)
  c_meas : list mcase
}.

Definition I_of (c : case) : inst := mkInst (c_costs c) (c_budget c).
Definition nvot (c : case) : nat := if c_cardinal c then length (c_score c) else length (c_app c).
Definition voters (c : case) : list nat := seq 0 (nvot c).
Definition app_of (c : case) (i : nat) (p : proj) : bool := memb p (nth i (c_app c) []).
Definition score_of (c : case) (i : nat) (p : proj) : Q := nth p (nth i (c_score c) []) 0.
Definition ut_of (m : mcase) (i : nat) (p : proj) : Q := nth p (nth i (m_ut m) []) 0.
Definition pv_of (m : mcase) (p : proj) : Q := nth p (m_pv m) 0.

Definition relaxes : list relax := [Plain; UpToAny; UpToOne].

Definition model_answers (c : case) (m : mcase) (W : list nat) : list bool :=
  let I := I_of c in let P := voters c in
  let ut := ut_of m in let e := c_enum c in
  map (fun r => is_in_core I nat P ut e r W) relaxes
  ++ (if c_cardinal c then
        is_strong_EJR_cardinal I nat P (score_of c) ut e W
        :: map (fun r => is_EJR_cardinal I nat P (score_of c) ut e r W) relaxes
        ++ map (fun r => is_PJR_cardinal I nat P (score_of c) e r W) relaxes
      else
        is_strong_EJR_approval I nat P (app_of c) ut e W
        :: map (fun r => is_EJR_approval I nat P (app_of c) ut e r W) relaxes
        ++ map (fun r => is_PJR_approval I nat P (app_of c) (pv_of m) e r W) relaxes).

Definition oracle_answers (c : case) (m : mcase) (W : list nat) : list bool :=
  let I := I_of c in let P := voters c in let ut := ut_of m in
  map (fun r => bf_core I nat P ut r W) relaxes
  ++ (if c_cardinal c then
        bf_strong_EJR_card I nat P (score_of c) ut W
        :: map (fun r => bf_EJR_card I nat P (score_of c) ut r W) relaxes
        ++ map (fun r => bf_PJR_card I nat P (score_of c) r W) relaxes
      else
        bf_strong_EJR_app I nat P (app_of c) ut W
        :: map (fun r => bf_EJR_app I nat P (app_of c) ut r W) relaxes
        ++ map (fun r => bf_PJR_app I nat P (app_of c) (pv_of m) r W) relaxes).

Fixpoint diff_codes (base : nat) (xs ys : list bool) : list nat :=
  match xs, ys with
  | [], [] => []
  | x :: xs', y :: ys' => (if Bool.eqb x y then [] else [base]) ++ diff_codes (S base) xs' ys'
  | _, _ => [(base + 100)%nat]
  end.

Definition impb (a b : bool) : bool := negb a || b.
Definition nthb (l : list bool) (k : nat) : bool := nth k l true.

(* the implication lattice on the implementation's own answers *)
Definition lattice_codes (a : list bool) : list nat :=
  flag (impb (nthb a 0) (nthb a 4) && impb (nthb a 1) (nthb a 5) && impb (nthb a 2) (nthb a 6)) 50
  ++ flag (impb (nthb a 4) (nthb a 7) && impb (nthb a 5) (nthb a 8) && impb (nthb a 6) (nthb a 9)) 51
  ++ flag (impb (nthb a 3) (nthb a 4)) 52
  ++ flag (impb (nthb a 4) (nthb a 5) && impb (nthb a 7) (nthb a 8) && impb (nthb a 0) (nthb a 1)) 53
  ++ flag (impb (nthb a 5) (nthb a 6) && impb (nthb a 8) (nthb a 9) && impb (nthb a 1) (nthb a 2)) 54.

(* hypotheses of the theorems, checked on the case: well-formed input, non-negative utilities, and the
   utilities read from the implementation are those of the named measure *)
Definition all_nonneg (l : list Q) : bool := forallb (fun x => Qleb 0 x) l.
Definition hyp_ok (c : case) (m : mcase) : bool :=
  let I := I_of c in let n := nproj I in
  set_eqb (c_enum c) (all_projects I) && nodupb (c_enum c)
  && forallb all_nonneg (m_ut m) && forallb all_nonneg (c_score c) && all_nonneg (m_pv m)
  && Nat.eqb (length (m_ut m)) (nvot c)
  && forallb (fun l => Nat.eqb (length l) n) (m_ut m)
  && (if c_cardinal c then
        Nat.eqb (m_kind m) 2
        && forallb (fun l => Nat.eqb (length l) n) (c_score c)
        && forallb (fun i => forallb (fun p => Qeqb (ut_of m i p) (score_of c i p)) (all_projects I)) (voters c)
      else
        Nat.eqb (length (m_pv m)) n
        && forallb (fun b => nodupb b && forallb (fun p => Nat.ltb p n) b) (c_app c)
        && forallb (fun p => Qeqb (pv_of m p) (match m_kind m with O => cost I p | _ => 1 end)) (all_projects I)
        && forallb (fun i => forallb (fun p =>
             Qeqb (ut_of m i p) (if app_of c i p then pv_of m p else 0)) (all_projects I)) (voters c)).

Definition alloc_ok (c : case) (W : list nat) : bool :=
  let I := I_of c in
  nodupb W && forallb (fun p => Nat.ltb p (nproj I)) W && Qleb (tcost I W) (budget I).

Fixpoint dedup (l : list nat) : list nat :=
  match l with
  | [] => []
  | x :: r => if memb x r then dedup r else x :: dedup r
  end.

(* failure codes:
   10+k  checker k differs from the brute-force definition            (oracle)   k = 0..9 as in m_answers
   30+k  checker k differs from the model                             (model)
   50..54 implication lattice broken on the implementation's answers  (oracle)
   60    the implementation's checker rejects the Equal Shares outcome (oracle)
   61    the Equal Shares outcome fails the brute-force definition     (oracle)
   70    hypotheses (well-formedness / utilities of the named measure) (model)
   71    a candidate allocation is not a feasible duplicate-free set   (model) *)
Definition check_meas (c : case) (m : mcase) : list nat :=
  flag (hyp_ok c m) 70
  ++ flat_map (fun '(W, a) =>
       flag (alloc_ok c W) 71
       ++ diff_codes 10 a (oracle_answers c m W)
       ++ diff_codes 30 a (model_answers c m W)
       ++ lattice_codes a) (m_answers m)
  ++ match m_mes m with
     | None => []
     | Some (W, a) =>
         flag a 60
         ++ flag (alloc_ok c W) 71
         ++ flag (match m_kind m with
                  | O => bf_EJR_app (I_of c) nat (voters c) (app_of c) (ut_of m) UpToAny W
                  | _ => bf_EJR_app (I_of c) nat (voters c) (app_of c) (ut_of m) UpToOne W
                  end) 61
     end.

Definition check (c : case) : list nat := dedup (flat_map (check_meas c) (c_meas c)).

Definition run (cs : list case) : list (nat * nat) := run_cases check 0 cs.
