(* Oracle/C17.v -- case-file runner for C17: what real container operations handed back (class, election
   attributes, ballots inside) vs. the property and vs. Model/Containers.v. *)
From Coq Require Import List Arith Bool String ZArith.
From PB Require Export Model.Containers.
From PB Require Export Oracle.Common.
Import ListNotations.
Local Open Scope nat_scope.

Record step_obs := mkStep {
  s_kind : nat;          (* 0 raised | 1 new family object | 2 the object itself | 3 None | 4 bare builtin / iterator *)
  s_res : obj;           (* the new object (kind 1) *)
  s_cur : obj;           (* the current object after the operation *)
  s_alias : bool         (* aliasing probe: rebinding an attribute of the new object (or of its source) changed the other
                            one, or growing one payload grew the other *)
}.

Record case := mkCase {
  c_tags : list nat;         (* class tag of every element id *)
  c_req : list nat;          (* attribute ids the constructor of the start object was GIVEN *)
  c_start : obj;             (* the start object as observed *)
  c_other : obj;             (* the second operand as observed *)
  c_ops : list op;
  c_steps : list step_obs
}.

Definition pl_eqb (p q : payload) : bool :=
  list_eqb (fun x y => Nat.eqb (fst x) (fst y) && Z.eqb (snd x) (snd y)) p q.
Definition obj_eqb (multi : bool) (x y : obj) : bool :=
  Nat.eqb (o_cls x) (o_cls y) && nl_eqb (o_attrs x) (o_attrs y)
  && if multi then pl_eqb (cnorm (o_payload x)) (cnorm (o_payload y)) else pl_eqb (o_payload x) (o_payload y).

Definition kind_of (r : res) : nat :=
  match r with RRaise _ => 0 | RNew _ => 1 | RSame _ => 2 | RNone _ => 3 | RPlain => 4 end.

Definition etag (tags : list nat) (e : nat) : nat := if 900 <=? e then e - 900 else nth e tags 0.

(* a profile with validation on holds only ballots its ballot_type admits *)
Definition profile_ok (tags : list nat) (o : obj) : bool :=
  if (is_list_profile (o_cls o) || is_multi_profile (o_cls o)) && validation_on (o_attrs o)
  then forallb (fun ec => accepts (o_cls o) (btype (o_attrs o)) (etag tags (fst ec))) (o_payload o)
  else true.

Definition always_derivable (n : string) : bool := smemb n ["copy"; "copy.copy"; "copy.deepcopy"; "pickle"; "ctor"]%string.

(* failure codes
   oracle: 1 the constructor lost an attribute it was given   2 a derived object the API promises lost its class
           3 a derived object lost / changed an election attribute   4 the object itself changed class / attributes
           5 a profile with validation enabled contains a wrong-typed ballot
           6 copy / deepcopy / pickle / construction from the object raised
           7 a derived object shares its attribute dictionary / payload with its source (aliasing probe)
   model:  10 kind of outcome   11 the new object   12 the current object after the operation *)
Fixpoint check_steps (tags : list nat) (cur other : obj) (ops : list op) (steps : list step_obs) : list nat :=
  match ops, steps with
  | o :: ops', s :: steps' =>
      let r := step tags cur other o in
      let multi := is_multi_profile (o_cls cur) in
      let prom := promised (o_cls cur) (opname o) in
      flag (negb (prom && (Nat.eqb (s_kind s) 4
                           || (Nat.eqb (s_kind s) 1 && negb (Nat.eqb (o_cls (s_res s)) (o_cls cur)))))) 2
      ++ flag (negb (Nat.eqb (s_kind s) 1 && Nat.eqb (o_cls (s_res s)) (o_cls cur)
                     && negb (nl_eqb (o_attrs (s_res s))
                                     (match o with
                                      | OCtorVal b => firstn 1 (o_attrs cur) ++ (if b then 0 else 1) :: skipn 2 (o_attrs cur)
                                      | OFromPlain => map (fun _ => 0) (o_attrs cur)
                                      | _ => o_attrs cur
                                      end)))) 3
      (* construction of another class of the family from the object: a ballot of any kind keeps name and meta;
         a profile built from the profile of the other side keeps everything but the (inherited) ballot type *)
      ++ flag (negb (match o with OXCtor _ => Nat.eqb (s_kind s) 1 | _ => false end
                     && negb (match o with
                              | OXCtor t =>
                                  Nat.eqb (o_cls (s_res s)) t
                                  && if is_ballot t then nl_eqb (o_attrs (s_res s)) (o_attrs cur)
                                     else nl_eqb (firstn 2 (o_attrs (s_res s)) ++ skipn 3 (o_attrs (s_res s)))
                                                 (firstn 2 (o_attrs cur) ++ skipn 3 (o_attrs cur))
                              | _ => true
                              end))) 3
      ++ flag (negb (match o with OAsMulti => Nat.eqb (s_kind s) 1 | _ => false end
                     && negb (nl_eqb (firstn 2 (o_attrs (s_res s)) ++ skipn 3 (o_attrs (s_res s)))
                                     (firstn 2 (o_attrs cur) ++ skipn 3 (o_attrs cur))))) 3
      ++ flag (negb (match o with OAsSat _ => Nat.eqb (s_kind s) 1 | _ => false end
                     && negb (Nat.eqb (nth 0 (o_attrs (s_res s)) 999) (nth 0 (o_attrs cur) 0)
                              && (Nat.eqb (o_cls (s_res s)) 18 || Nat.eqb (o_cls (s_res s)) 19)))) 3
      ++ flag (Nat.eqb (o_cls (s_cur s)) (o_cls cur) && nl_eqb (o_attrs (s_cur s)) (o_attrs cur)) 4
      ++ flag (profile_ok tags (s_cur s) && (negb (Nat.eqb (s_kind s) 1) || profile_ok tags (s_res s))) 5
      ++ flag (negb (always_derivable (opname o) && prom && Nat.eqb (s_kind s) 0)) 6
      ++ flag (negb (s_alias s)) 7
      ++ flag (Nat.eqb (kind_of r) (s_kind s)) 10
      ++ flag (match r with RNew x => negb (Nat.eqb (s_kind s) 1) || obj_eqb (is_multi_profile (o_cls x)) x (s_res s)
                          | _ => true end) 11
      ++ flag (obj_eqb multi (next cur r) (s_cur s)) 12
      ++ check_steps tags (s_cur s) other ops' steps'
  | [], [] => []
  | _, _ => [10]
  end.

Definition check (c : case) : list nat :=
  flag (nl_eqb (o_attrs (c_start c)) (c_req c) && family (o_cls (c_start c))) 1
  ++ flag (profile_ok (c_tags c) (c_start c)) 5
  ++ check_steps (c_tags c) (c_start c) (c_other c) (c_ops c) (c_steps c).

Definition run (cs : list case) : list (nat * nat) := run_cases check 0 cs.
