(* Oracle/C05.v -- case-file runner for C05: the allocation(s) returned by sequential_phragmen
   vs. the executable continuous-money process (Spec/PhragmenMoney.v, run on the profile expanded
   to one voter per copy when that is small) and vs. the Gallina mirror of the code (Model/Phragmen.v). *)
From PB Require Export Model.Phragmen Spec.PhragmenMoney Oracle.Common.
Open Scope Q_scope.

Record case := mkCase {
  c_costs : list Q;                    (* cost by rank *)
  c_budget : Q;
  c_ballots : list (list nat * nat);   (* approved ranks, multiplicity -- as enumerated by the profile *)
  c_loads : list Q;                    (* initial_loads (zeros when the parameter is None) *)
  c_init : list nat;                   (* initial budget allocation *)
  c_tb : nat;                          (* 0 lexico, 1 app_score, 2 min_cost, 3 max_cost, 4 custom key *)
  c_key : list Q;                      (* key by rank for c_tb = 4 *)
  c_resolute : bool;
  c_out : list (list nat)              (* returned allocation(s); resolute: a singleton *)
}.

Definition I_of (c : case) : inst := mkInst (c_costs c) (c_budget c).
Definition P_of (c : case) : list aballot := map (fun '(s, k) => mkA s k) (c_ballots c).
Definition tb_of (c : case) : proj -> Q :=
  match c_tb c with
  | 0%nat => tb_lexico
  | 1%nat => tb_app_score (P_of c)
  | 2%nat => tb_min_cost (I_of c)
  | 3%nat => tb_max_cost (I_of c)
  | _ => key_of_list (c_key c)
  end.

(* one voter per copy: the reading "multiplicities count as that many identical voters" *)
Definition expandA := expand_ballots.
Definition expandL := expand_loads.

Definition model_out (c : case) : option (list (list nat)) :=
  let I := I_of c in
  if c_resolute c
  then option_map (fun W => [W]) (phragmen_res I (P_of c) (tb_of c) (all_projects I) (c_loads c) (c_init c))
  else phragmen_irr I (P_of c) (tb_of c) (all_projects I) (c_loads c) (c_init c).

(* The money process is run on the profile expanded to one voter per copy when there are at most 64
   copies.  City-sized multiprofiles (the near-tie stream: classes of 10^4..10^5 voters) are run in class
   form -- the spec itself weighs a class of multiplicity k with k in [nsupp]/[holdings]; that the two
   forms agree is C05_phragmen_refines_money + C05_phragmen_mult. *)
Definition copies (P : list aballot) : nat := fold_right (fun b n => (amul b + n)%nat) O P.
Definition money_out (c : case) : option (list (list nat)) :=
  let I := I_of c in
  let P := P_of c in
  let small := Nat.leb (copies P) 64 in
  let P1 := if small then expandA P else P in
  let L1 := if small then expandL P (c_loads c) else c_loads c in
  if c_resolute c
  then option_map (fun W => [W]) (money_process_res I P1 (tb_of c) (all_projects I) L1 (c_init c))
  else money_process_irr I P1 (tb_of c) (all_projects I) L1 (c_init c).

Definition sets_agree (a : option (list (list nat))) (b : list (list nat)) : bool :=
  match a with Some x => setset_eqb x b | None => false end.

Definition alloc_ok (c : case) (W : list nat) : bool :=
  let I := I_of c in
  nodupb W && forallb (fun p => Nat.ltb p (nproj I)) W && Qleb (tcost I W) (budget I)
  && forallb (fun p => memb p W) (c_init c).

(* failure codes:
   1 returned set(s) differ from the money process   2 returned set(s) differ from the model
   3 a returned allocation is not a feasible duplicate-free superset of the initial allocation
   4 model and money process disagree with each other (excluded by phragmen_refines_money +
     phragmen_mult: would mean the case violates their hypotheses) *)
Definition check (c : case) : list nat :=
  flag (sets_agree (money_out c) (c_out c)) 1
  ++ flag (sets_agree (model_out c) (c_out c)) 2
  ++ flag (forallb (alloc_ok c) (c_out c) && negb (Nat.eqb (length (c_out c)) 0)) 3
  ++ flag (match model_out c, money_out c with
           | Some a, Some b => setset_eqb a b
           | _, _ => false
           end) 4.

Definition run (cs : list case) : list (nat * nat) := run_cases check 0 cs.
