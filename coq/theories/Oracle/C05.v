(* Oracle/C05.v -- case-file runner for C05: the allocation(s) returned by sequential_phragmen
   vs. the executable continuous-money process (Spec/PhragmenMoney.v, run on the profile expanded
   to one voter per copy when that is small) and vs. the Gallina mirror of the code (Model/Phragmen.v). *)
From PB Require Export Model.Phragmen Spec.PhragmenMoney Oracle.Common.
Open Scope Q_scope.

Record case := mkCase {
  c_costs : list Q;                    (* cost by rank *)
  c_budget : Q;
  c_ballots : list (list nat * nat);   (* approved ranks, multiplicity -- as enumerated by the profile *)
  c_loads : list Q;                    (* initial_loads (zeros when the parameter is None) *)
  c_init : list nat;                   (* initial budget allocation *)
  c_tb : nat;                          (* 0 lexico, 1 app_score, 2 min_cost, 3 max_cost, 4 custom key *)
  c_key : list Q;                      (* key by rank for c_tb = 4 *)
  c_resolute : bool;
  c_out : list (list nat);             (* returned allocation(s); resolute: a singleton; [] when it raised *)
  c_refuse : bool;                     (* tie_breaking = refuse_tie_breaking (then c_tb = 0 and is unused) *)
  c_raised : bool                      (* the call raised TieBreakingException *)
}.

Definition I_of (c : case) : inst := mkInst (c_costs c) (c_budget c).
Definition P_of (c : case) : list aballot := map (fun '(s, k) => mkA s k) (c_ballots c).
Definition tb_of (c : case) : proj -> Q :=
  match c_tb c with
  | 0%nat => tb_lexico
  | 1%nat => tb_app_score (P_of c)
  | 2%nat => tb_min_cost (I_of c)
  | 3%nat => tb_max_cost (I_of c)
  | _ => key_of_list (c_key c)
  end.

(* one voter per copy: the reading "multiplicities count as that many identical voters" *)
Definition expandA := expand_ballots.
Definition expandL := expand_loads.

Definition model_out (c : case) : option (list (list nat)) :=
  let I := I_of c in
  if c_resolute c
  then option_map (fun W => [W]) (phragmen_res I (P_of c) (tb_of c) (all_projects I) (c_loads c) (c_init c))
  else phragmen_irr I (P_of c) (tb_of c) (all_projects I) (c_loads c) (c_init c).

(* The money process is run on the profile expanded to one voter per copy when there are at most 64
   copies.  City-sized multiprofiles (the near-tie stream: classes of 10^4..10^5 voters) are run in class
   form -- the spec itself weighs a class of multiplicity k with k in [nsupp]/[holdings]; that the two
   forms agree is C05_phragmen_refines_money + C05_phragmen_mult. *)
Definition copies (P : list aballot) : nat := fold_right (fun b n => (amul b + n)%nat) O P.
Definition money_out (c : case) : option (list (list nat)) :=
  let I := I_of c in
  let P := P_of c in
  let small := Nat.leb (copies P) 64 in
  let P1 := if small then expandA P else P in
  let L1 := if small then expandL P (c_loads c) else c_loads c in
  if c_resolute c
  then option_map (fun W => [W]) (money_process_res I P1 (tb_of c) (all_projects I) L1 (c_init c))
  else money_process_irr I P1 (tb_of c) (all_projects I) L1 (c_init c).

Definition sets_agree (a : option (list (list nat))) (b : list (list nat)) : bool :=
  match a with Some x => setset_eqb x b | None => false end.

Definition alloc_ok (c : case) (W : list nat) : bool :=
  let I := I_of c in
  nodupb W && forallb (fun p => Nat.ltb p (nproj I)) W && Qleb (tcost I W) (budget I)
  && forallb (fun p => memb p W) (c_init c).

(* ---------- refuse_tie_breaking ----------
   The rule raises when it is asked to break a tie.  Statement: the call raises iff at some round
   of the process TWO OR MORE projects are due at the same moment and one of them is about to be
   bought (no due project overshoots -- a round that stops consults no tie-breaking), in the
   supported phase or in the unsupported tail (all remaining unsupported projects are due together),
   resolute or irresolute alike (up to its first tie the process is deterministic, and the first tie
   raises); otherwise the outcome is the one of the process, in which tie-breaking never mattered. *)
Fixpoint money_tie (fuel : nat) (I : inst) (P : list aballot) (st : mstate)
         (rem alloc : list proj) : option bool :=
  match money_round I P st rem alloc with
  | MDone | MStop => Some false
  | MBuy due t =>
      match due with
      | [] => None
      | [p] => match fuel with
               | O => None
               | S f => money_tie f I P (after P st p t) (drop p rem) (alloc ++ [p])
               end
      | _ :: _ :: _ => Some true
      end
  end.

(* the same question asked of the mirror of the code: a pass that buys with >= 2 tied projects *)
Fixpoint model_tie_run (fuel : nat) (I : inst) (P : list aballot)
         (projs : list proj) (loads : list Q) (alloc : list proj) (c : Q) : option bool :=
  match projs with
  | [] => Some false
  | _ :: _ =>
      match phr_round I P tb_lexico loads projs c with
      | RStop => Some false
      | RPick tied t =>
          match tied with
          | [] => None
          | [p] => match fuel with
                   | O => None
                   | S f => model_tie_run f I P (remove_proj p projs) (apply_load P loads p t)
                                          (alloc ++ [p]) (Qred (c + cost I p))
                   end
          | _ :: _ :: _ => Some true
          end
      end
  end.

Definition spec_tie (c : case) : option bool :=
  let I := I_of c in
  let P := P_of c in
  let small := Nat.leb (copies P) 64 in
  let P1 := if small then expandA P else P in
  let L1 := if small then expandL P (c_loads c) else c_loads c in
  let rem := money_projects I (all_projects I) (c_init c) in
  money_tie (S (length rem)) I P1 (money_start L1) rem (c_init c).

Definition model_tie (c : case) : option bool :=
  let I := I_of c in
  let projs := phr_projects I (all_projects I) (c_init c) in
  model_tie_run (S (length projs)) I (P_of c) projs (c_loads c) (c_init c) (tcost I (c_init c)).

(* failure codes:
   1 returned set(s) differ from the money process   2 returned set(s) differ from the model
   3 a returned allocation is not a feasible duplicate-free superset of the initial allocation
   4 model and money process disagree with each other (excluded by phragmen_refines_money +
     phragmen_mult: would mean the case violates their hypotheses)
   5 refuse_tie_breaking: raised although no tie had to be broken, or returned although one had
   6 refuse_tie_breaking: raise/return differs from the mirror of the code
   7 TieBreakingException under a rule other than refuse_tie_breaking *)
Definition check_sets (c : case) : list nat :=
  flag (sets_agree (money_out c) (c_out c)) 1
  ++ flag (sets_agree (model_out c) (c_out c)) 2
  ++ flag (forallb (alloc_ok c) (c_out c) && negb (Nat.eqb (length (c_out c)) 0)) 3
  ++ flag (match model_out c, money_out c with
           | Some a, Some b => setset_eqb a b
           | _, _ => false
           end) 4.

Definition check (c : case) : list nat :=
  if c_refuse c then
    match spec_tie c, model_tie c with
    | Some st, Some mt =>
        flag (Bool.eqb st (c_raised c)) 5 ++ flag (Bool.eqb mt (c_raised c)) 6
        ++ flag (Bool.eqb st mt) 4
        ++ (if c_raised c || st || mt then [] else check_sets c)
    | _, _ => [4%nat]
    end
  else if c_raised c then [7%nat] else check_sets c.

Definition run (cs : list case) : list (nat * nat) := run_cases check 0 cs.
