(* Oracle/C20.v -- case-file runner for C20: pre/post snapshots of the shared arguments of a sequence
   of calls (canonical trees computed by the harness), the caller view predicted by the effects model,
   and the answers obtained from re-used vs. fresh objects. *)
From PB Require Export Model.Effects Oracle.Common.
Open Scope Q_scope.

Record case := mkCase {
  c_entries : list nat;        (* entry point (Model/Effects.v) of every call of the sequence *)
  c_pre : list tree;           (* the shared objects before the sequence:
                                  instance, profile, sat_profile, initial allocation, parameter dictionary,
                                  allocation, list of parameter dictionaries *)
  c_posts : list (list tree);  (* the same objects after every call *)
  c_shared : list tree;        (* answer of every call on the re-used objects *)
  c_fresh : list tree          (* answer of the same call on fresh copies *)
}.

Fixpoint tree_eqb (a b : tree) : bool :=
  match a, b with
  | Lq p, Lq q => Qeq_bool p q
  | T g ks, T h ls =>
      Nat.eqb g h &&
      (fix go (xs ys : list tree) : bool :=
         match xs, ys with
         | [], [] => true
         | x :: xr, y :: yr => tree_eqb x y && go xr yr
         | _, _ => false
         end) ks ls
  | _, _ => false
  end.
Definition trees_eqb := list_eqb tree_eqb.

Definition store_of (ts : list tree) : store := map (fun t => mkCell t []) ts.

(* the model's caller view after every call of the sequence *)
Fixpoint model_views (n : nat) (es : list nat) (s : store) : list (list tree) :=
  match es with
  | [] => []
  | e :: r => let s' := entry e s (seq 0 n) in caller_view n s' :: model_views n r s'
  end.

(* failure codes: 1 an argument changed   2 re-use gives a different answer   3 differs from the effects model *)
Definition check (c : case) : list nat :=
  let n := length (c_pre c) in
  flag (forallb (trees_eqb (c_pre c)) (c_posts c)) 1
  ++ flag (trees_eqb (c_shared c) (c_fresh c)) 2
  ++ flag (list_eqb trees_eqb (model_views n (c_entries c) (store_of (c_pre c))) (c_posts c)) 3.

Definition run (cs : list case) : list (nat * nat) := run_cases check 0 cs.
