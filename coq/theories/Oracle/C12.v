(* Oracle/C12.v -- case-file runner for C12 (priceability analysis).
   One case = one approval election with
     - a list of validator queries (allocation, mode, price system, implementation's verdict), and
     - at most one priceable(...) call: the implementation's answer, the harness's certificate for the
       exact decision (a witness price system or Farkas multipliers; ONLY check_witness / check_farkas are
       trusted), and the witness the implementation returned (exact binary values of the floats). *)
From PB Require Export Model.Priceability Oracle.Common.
Open Scope Q_scope.

Record vquery := mkVQ {
  v_W : list nat; v_stable : bool; v_exh : bool;
  v_b : Q; v_P : list (list Q);
  v_impl : bool                      (* validate_price_system(...) *)
}.

Inductive cert :=
| CWitness (W : list nat) (b : Q) (P : list (list Q))     (* a price system for W *)
| CFarkas (ys : list (list Q)).                            (* multipliers: one list for the given allocation,
                                                              or one per subset in [powerset all_projects] order *)

Record pquery := mkPQ {
  q_stable : bool; q_exh : bool;
  q_alloc : option (list nat);       (* budget_allocation= ; None = searched *)
  q_mes : bool;                      (* the given allocation is an Equal Shares outcome *)
  q_ok : bool;                       (* PriceableResult.validate() is True *)
  q_cert : cert;
  (* returned allocation, voter_budget, payment_functions, the implementation's own validator on them, and
     "boundary noise": some pair (lhs, rhs) compared by the validator lies within 1e-9 of each other while
     round(lhs, 2) <> round(rhs, 2) (computed by the harness from the returned floats) -- then the library's
     verdict is unspecified (the property leaves verdicts within the tolerance open) *)
  q_wit : option (list nat * Q * list (list Q) * bool * bool * bool);   (* ..., valid, noise, edge: a compared
     pair within 1e-9 of each other AND of a rounding boundary (then float sums and exact sums may round apart) *)
  (* assignments (x = indicator of a set, voter budget, payments; r / m as in asg_of) and whether they satisfy
     every row and bound of the mip model that priceable() built (evaluated exactly by the harness) *)
  q_rows : list (list nat * Q * list (list Q) * bool)
}.

(* a call priceable(..., stable=True, relaxation=R(instance, profile)) *)
Inductive rcert :=
| RWitness (W : list nat) (b : Q) (P : list (list Q)) (R : relax)   (* a relaxed price system for W *)
| RFarkas (ys : list (list Q)).                                     (* no relaxed price system whatever beta *)

Record rquery := mkRQ {
  r_kind : rkind; r_exh : bool;
  r_alloc : option (list nat);
  r_ok : bool;                       (* PriceableResult.validate() is True *)
  r_exist : rcert;                   (* is there a relaxed price system at all *)
  (* the optimum of the model's MIP: allocation, voter budget, payments, parameters (objective v), the
     threshold t = v - delta and the certificates "no solution selecting W has objective <= t" (one for the
     given allocation, else one per subset); None: the harness found the model's rows infeasible *)
  r_opt : option (list nat * Q * list (list Q) * relax * Q * list (list Q));
  (* returned allocation, voter_budget, payments, parameters read off relaxation_beta, the reported objective,
     and validate_price_system(..., relaxation=the same object) on them *)
  r_wit : option (list nat * Q * list (list Q) * relax * Q * bool * bool * bool);   (* ..., valid, noise, edge *)
  (* validator queries with a relaxation whose parameters were set exactly *)
  r_vals : list (list nat * bool * Q * list (list Q) * relax * bool);
  (* assignments and whether they satisfy every row and bound of the captured mip model *)
  r_rows : list (list nat * Q * list (list Q) * relax * bool)
}.

Record case := mkCase {
  c_costs : list Q; c_budget : Q; c_ballots : list (list nat);
  c_vals : list vquery;
  c_query : option pquery;
  c_rquery : option rquery
}.

Definition I_of (c : case) : inst := mkInst (c_costs c) (c_budget c).

(* tolerance of the validator's documented rounding (0.01) and the margin of the property (0.1) *)
Definition TOL : Q := 1 # 100.
(* what a returned price system may miss a condition by: float noise of the solver *)
Definition WIT_EPS : Q := 1 # 1000000.
Definition MARGIN : Q := 99 # 1000.

(* failure codes
   1  validator rejects an exact price system (check_witness accepts it)
   2  validator accepts a pair that breaks a condition by >= 0.1 (or an exact condition)
   3  validator differs from Model.validate_ps
   4  priceable fails although a checked witness price system exists
   5  priceable succeeds although checked Farkas certificates refute every candidate
   6  priceable returns an allocation other than the given one / an infeasible one
   7  the harness's certificate is rejected by the verified checker (machinery fault)
   8  the returned witness does not pass the implementation's own validator (and no compared pair sits on a
      rounding boundary within 1e-9)
   9  the returned witness breaks a condition of the definition by more than 1e-6 (check_ps_eps)
   10 priceable (plain, non-exhaustive) fails on an Equal Shares outcome
   11 the rows of the mip model built by priceable() differ from Model.ps_constraints on an assignment
   relaxations (stable=True, relaxation=R):
   12 the relaxed call fails although a checked relaxed price system exists
   13 the relaxed call succeeds although checked certificates refute every candidate allocation
   14 the reported objective (beta) is not the minimum: it differs from the certified minimum by more than 1e-6
   15 the relaxed call succeeds although the harness found the model's rows infeasible (uncertified)
   16 the returned parameters are outside the documented range of the relaxation class
   (1, 2, 3, 6, 7, 8, 9, 11 are reused for the relaxed validator / witness / certificates / rows) *)

Definition OBJ_TOL : Q := 1 # 1000000.
Definition OBJ_DELTA : Q := 1 # 10000000.

Definition check_v (I : inst) (A : profile) (v : vquery) : list nat :=
  let exact := check_witness I A (v_W v) (v_b v) (v_P v) (v_stable v) (v_exh v) in
  let near := check_ps_eps MARGIN I A (v_W v) (v_b v) (v_P v) (v_stable v) (v_exh v) in
  let model := validate_ps I A (v_W v) (v_b v) (v_P v) (v_stable v) (v_exh v) in
  flag (negb (exact && negb (v_impl v))) 1
  ++ flag (negb (wf_allocb I (v_W v) && negb near && v_impl v)) 2
  ++ flag (Bool.eqb model (v_impl v)) 3.

(* what the certificate establishes: Some true = priceable, Some false = not priceable, None = rejected *)
Definition decide (I : inst) (A : profile) (qy : pquery) : option bool :=
  let n := Qnat (length A) in
  match q_cert qy, q_alloc qy with
  | CWitness W b P, Some W0 =>
      if check_witness I A W b P (q_stable qy) (q_exh qy) && set_eqb W W0 && wf_allocb I W0
      then Some true else None
  | CWitness W b P, None =>
      if check_witness I A W b P (q_stable qy) (q_exh qy)
         && (q_exh qy || Qleb (budget I) (b * n))
      then Some true else None
  | CFarkas [ys], Some W0 =>
      if negb (wf_allocb I W0) || check_no_ps I A W0 (q_stable qy) (q_exh qy) false ys
      then Some false else None
  | CFarkas yss, None =>
      let subs := powerset (all_projects I) in
      if Nat.eqb (length yss) (length subs)
         && forallb (fun '(W, ys) => check_no_ps I A W (q_stable qy) (q_exh qy) (negb (q_exh qy)) ys)
                    (combine subs yss)
      then Some false else None
  | _, _ => None
  end.

Definition check_q (I : inst) (A : profile) (qy : pquery) : list nat :=
  match decide I A qy with
  | None => [7%nat]
  | Some true => flag (q_ok qy) 4
  | Some false => flag (negb (q_ok qy)) 5
  end
  ++ flag (negb (q_mes qy && negb (q_stable qy) && negb (q_exh qy) && negb (q_ok qy))) 10
  ++ match q_wit qy with
     | None => []
     | Some (W, b, P, valid, noise, edge) =>
         flag (wf_allocb I W && Qleb (tcost I W) (budget I)
               && match q_alloc qy with Some W0 => set_eqb W W0 | None => true end) 6
         ++ flag (valid || noise) 8
         ++ flag (check_ps_eps WIT_EPS I A W b P (q_stable qy) (q_exh qy)) 9
         ++ flag (edge || Bool.eqb (validate_ps I A W b P (q_stable qy) (q_exh qy)) valid) 3
     end
  ++ flag (forallb (fun '(Wx, b, P, r) =>
             Bool.eqb (ps_constraints I A (q_alloc qy) (q_stable qy) (q_exh qy)
                         (asg_of I A Wx b (pay_of P) (q_stable qy))) r) (q_rows qy)) 11.

(* ---------- relaxations ---------- *)
Definition rkind_eqb (a b : rkind) : bool :=
  match a, b with
  | KMul, KMul | KAdd, KAdd | KVec, KVec | KVecPos, KVecPos | KOff, KOff => true
  | _, _ => false
  end.

(* the documented ranges: MinMul beta in [0, inf); MinAddVectorPositive beta[c] in [0, inf);
   MinAddOffset beta[c] >= 0 with sum <= BUDGET_FRACTION * budget; the others unrestricted *)
Definition doc_range (eps : Q) (I : inst) (R : relax) : bool :=
  let C := all_projects I in
  match R with
  | RMul g => Qleb (- eps) g
  | RAdd _ => true
  | RVec _ => true
  | RVecPos l => forallb (fun c => Qleb (- eps) (beta_at l c)) C
  | ROff _ l => forallb (fun c => Qleb (- eps) (beta_at l c)) C
                && Qleb (Qsum (map (beta_at l) C)) (RELAX_FRACTION * budget I + eps)
  end.

Definition canonicalb (I : inst) (W : list nat) : bool :=
  natlist_eqb W (filter (fun c => memb c W) (all_projects I)).

Definition check_rv (I : inst) (A : profile) (v : list nat * bool * Q * list (list Q) * relax * bool) : list nat :=
  let '(W, exh, b, P, R, impl) := v in
  let exact := check_witness_g I A W b P true exh (Some R) in
  let near := check_ps_eps_g MARGIN I A W b P true exh (Some R) in
  let model := validate_ps_g I A W b P true exh (Some R) in
  flag (negb (exact && negb impl)) 1
  ++ flag (negb (wf_allocb I W && negb near && impl)) 2
  ++ flag (Bool.eqb model impl) 3.

Definition decide_r (I : inst) (A : profile) (qy : rquery) : option bool :=
  let n := Qnat (length A) in
  match r_exist qy, r_alloc qy with
  | RWitness W b P R, Some W0 =>
      if check_witness_g I A W b P true (r_exh qy) (Some R) && rkind_eqb (kind_of R) (r_kind qy)
         && doc_range 0 I R && set_eqb W W0 && wf_allocb I W0
      then Some true else None
  | RWitness W b P R, None =>
      if check_witness_g I A W b P true (r_exh qy) (Some R) && rkind_eqb (kind_of R) (r_kind qy)
         && doc_range 0 I R && (r_exh qy || Qleb (budget I) (b * n))
      then Some true else None
  | RFarkas [ys], Some W0 =>
      if negb (wf_allocb I W0) || check_no_relaxed_ps I A W0 (r_exh qy) false (r_kind qy) ys
      then Some false else None
  | RFarkas yss, None =>
      let subs := powerset (all_projects I) in
      if Nat.eqb (length yss) (length subs)
         && forallb (fun '(W, ys) => check_no_relaxed_ps I A W (r_exh qy) (negb (r_exh qy)) (r_kind qy) ys)
                    (combine subs yss)
      then Some false else None
  | _, _ => None
  end.

(* the certified minimum of the objective over the solutions of the model's MIP: Some v, or None when a
   certificate is rejected *)
Definition certified_min (I : inst) (A : profile) (qy : rquery) : option (option Q) :=
  match r_opt qy with
  | None => Some None
  | Some (W, b, P, R, t, yss) =>
      let v := relax_objective I R in
      let a := asg_of I A W b (pay_of P) true in
      let wit := ps_constraints_g I A (r_alloc qy) true (r_exh qy) (Some R) a && wf_allocb I W
                 && rkind_eqb (kind_of R) (r_kind qy) && Qltb t v && Qleb (v - OBJ_DELTA) t in
      let low := match r_alloc qy, yss with
                 | Some W0, [ys] => canonicalb I W0
                                    && check_objective_lower I A W0 (r_exh qy) false (r_kind qy) t ys
                 | None, _ => let subs := powerset (all_projects I) in
                              Nat.eqb (length yss) (length subs)
                              && forallb (fun '(W1, ys) =>
                                   check_objective_lower I A W1 (r_exh qy) (negb (r_exh qy)) (r_kind qy) t ys)
                                   (combine subs yss)
                 | _, _ => false
                 end in
      if wit && low then Some (Some v) else None
  end.

Definition check_r (I : inst) (A : profile) (qy : rquery) : list nat :=
  match decide_r I A qy with
  | None => [7%nat]
  | Some true => flag (r_ok qy) 12
  | Some false => flag (negb (r_ok qy)) 13
  end
  ++ match certified_min I A qy with
     | None => [7%nat]
     | Some None => flag (negb (r_ok qy)) 15
     | Some (Some v) =>
         match r_wit qy with
         | None => []           (* a failure here is reported by code 12 *)
         | Some (_, _, _, _, obj, _, _, _) => flag (Qleb obj (v + OBJ_TOL) && Qleb (v - OBJ_TOL) obj) 14
         end
     end
  ++ match r_wit qy with
     | None => []
     | Some (W, b, P, R, obj, valid, noise, edge) =>
         flag (wf_allocb I W && Qleb (tcost I W) (budget I)
               && match r_alloc qy with Some W0 => set_eqb W W0 | None => true end) 6
         ++ flag (valid || noise) 8
         ++ flag (check_ps_eps_g WIT_EPS I A W b P true (r_exh qy) (Some R)) 9
         ++ flag (edge || Bool.eqb (validate_ps_g I A W b P true (r_exh qy) (Some R)) valid) 3
         ++ flag (rkind_eqb (kind_of R) (r_kind qy) && doc_range OBJ_TOL I R) 16
     end
  ++ flat_map (check_rv I A) (r_vals qy)
  ++ flag (forallb (fun '(Wx, b, P, R, r) =>
             Bool.eqb (ps_constraints_g I A (r_alloc qy) true (r_exh qy) (Some R)
                         (asg_of I A Wx b (pay_of P) true)) r) (r_rows qy)) 11.

Definition check (c : case) : list nat :=
  let I := I_of c in
  let A := c_ballots c in
  flat_map (check_v I A) (c_vals c)
  ++ match c_query c with None => [] | Some qy => check_q I A qy end
  ++ match c_rquery c with None => [] | Some qy => check_r I A qy end.

Definition run (cs : list case) : list (nat * nat) := run_cases check 0 cs.
