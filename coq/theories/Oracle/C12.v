(* Oracle/C12.v -- case-file runner for C12 (priceability analysis).
   One case = one approval election with
     - a list of validator queries (allocation, mode, price system, implementation's verdict), and
     - at most one priceable(...) call: the implementation's answer, the harness's certificate for the
       exact decision (a witness price system or Farkas multipliers; ONLY check_witness / check_farkas are
       trusted), and the witness the implementation returned (exact binary values of the floats). *)
From PB Require Export Model.Priceability Oracle.Common.
Open Scope Q_scope.

Record vquery := mkVQ {
  v_W : list nat; v_stable : bool; v_exh : bool;
  v_b : Q; v_P : list (list Q);
  v_impl : bool                      (* validate_price_system(...) *)
}.

Inductive cert :=
| CWitness (W : list nat) (b : Q) (P : list (list Q))     (* a price system for W *)
| CFarkas (ys : list (list Q)).                            (* multipliers: one list for the given allocation,
                                                              or one per subset in [powerset all_projects] order *)

Record pquery := mkPQ {
  q_stable : bool; q_exh : bool;
  q_alloc : option (list nat);       (* budget_allocation= ; None = searched *)
  q_mes : bool;                      (* the given allocation is an Equal Shares outcome *)
  q_ok : bool;                       (* PriceableResult.validate() is True *)
  q_cert : cert;
  (* returned allocation, voter_budget, payment_functions, the implementation's own validator on them *)
  q_wit : option (list nat * Q * list (list Q) * bool);
  (* assignments (x = indicator of a set, voter budget, payments; r / m as in asg_of) and whether they satisfy
     every row and bound of the mip model that priceable() built (evaluated exactly by the harness) *)
  q_rows : list (list nat * Q * list (list Q) * bool)
}.

Record case := mkCase {
  c_costs : list Q; c_budget : Q; c_ballots : list (list nat);
  c_vals : list vquery;
  c_query : option pquery
}.

Definition I_of (c : case) : inst := mkInst (c_costs c) (c_budget c).

(* tolerance of the validator's documented rounding (0.01) and the margin of the property (0.1) *)
Definition TOL : Q := 1 # 100.
Definition MARGIN : Q := 99 # 1000.

(* failure codes
   1  validator rejects an exact price system (check_witness accepts it)
   2  validator accepts a pair that breaks a condition by >= 0.1 (or an exact condition)
   3  validator differs from Model.validate_ps
   4  priceable fails although a checked witness price system exists
   5  priceable succeeds although checked Farkas certificates refute every candidate
   6  priceable returns an allocation other than the given one / an infeasible one
   7  the harness's certificate is rejected by the verified checker (machinery fault)
   8  the returned witness does not pass the implementation's own validator
   9  the returned witness is not a price system within the validator's tolerance (check_ps_eps)
   10 priceable (plain, non-exhaustive) fails on an Equal Shares outcome
   11 the rows of the mip model built by priceable() differ from Model.ps_constraints on an assignment *)

Definition check_v (I : inst) (A : profile) (v : vquery) : list nat :=
  let exact := check_witness I A (v_W v) (v_b v) (v_P v) (v_stable v) (v_exh v) in
  let near := check_ps_eps MARGIN I A (v_W v) (v_b v) (v_P v) (v_stable v) (v_exh v) in
  let model := validate_ps I A (v_W v) (v_b v) (v_P v) (v_stable v) (v_exh v) in
  flag (negb (exact && negb (v_impl v))) 1
  ++ flag (negb (wf_allocb I (v_W v) && negb near && v_impl v)) 2
  ++ flag (Bool.eqb model (v_impl v)) 3.

(* what the certificate establishes: Some true = priceable, Some false = not priceable, None = rejected *)
Definition decide (I : inst) (A : profile) (qy : pquery) : option bool :=
  let n := Qnat (length A) in
  match q_cert qy, q_alloc qy with
  | CWitness W b P, Some W0 =>
      if check_witness I A W b P (q_stable qy) (q_exh qy) && set_eqb W W0 && wf_allocb I W0
      then Some true else None
  | CWitness W b P, None =>
      if check_witness I A W b P (q_stable qy) (q_exh qy)
         && (q_exh qy || Qleb (budget I) (b * n))
      then Some true else None
  | CFarkas [ys], Some W0 =>
      if negb (wf_allocb I W0) || check_no_ps I A W0 (q_stable qy) (q_exh qy) false ys
      then Some false else None
  | CFarkas yss, None =>
      let subs := powerset (all_projects I) in
      if Nat.eqb (length yss) (length subs)
         && forallb (fun '(W, ys) => check_no_ps I A W (q_stable qy) (q_exh qy) (negb (q_exh qy)) ys)
                    (combine subs yss)
      then Some false else None
  | _, _ => None
  end.

Definition check_q (I : inst) (A : profile) (qy : pquery) : list nat :=
  match decide I A qy with
  | None => [7%nat]
  | Some true => flag (q_ok qy) 4
  | Some false => flag (negb (q_ok qy)) 5
  end
  ++ flag (negb (q_mes qy && negb (q_stable qy) && negb (q_exh qy) && negb (q_ok qy))) 10
  ++ match q_wit qy with
     | None => []
     | Some (W, b, P, valid) =>
         flag (wf_allocb I W && Qleb (tcost I W) (budget I)
               && match q_alloc qy with Some W0 => set_eqb W W0 | None => true end) 6
         ++ flag valid 8
         ++ flag (check_ps_eps TOL I A W b P (q_stable qy) (q_exh qy)) 9
         ++ flag (Bool.eqb (validate_ps I A W b P (q_stable qy) (q_exh qy)) valid) 3
     end
  ++ flag (forallb (fun '(Wx, b, P, r) =>
             Bool.eqb (ps_constraints I A (q_alloc qy) (q_stable qy) (q_exh qy)
                         (asg_of I A Wx b (pay_of P) (q_stable qy))) r) (q_rows qy)) 11.

Definition check (c : case) : list nat :=
  let I := I_of c in
  let A := c_ballots c in
  flat_map (check_v I A) (c_vals c)
  ++ match c_query c with None => [] | Some qy => check_q I A qy end.

Definition run (cs : list case) : list (nat * nat) := run_cases check 0 cs.
