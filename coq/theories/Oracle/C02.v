(* Oracle/C02.v -- case-file runner for C02 (Equal Shares selects what its definition prescribes):
   the implementation's returned set(s) vs. the executable textbook spec (Spec/MesSpec.v) and vs.
   the model of the code (Model/MesRule.v). *)
From PB Require Export Model.MesRule Spec.MesSpec Oracle.Common.
Open Scope Q_scope.

Record case := mkCase {
  c_costs : list Q;                 (* cost by rank *)
  c_budget : Q;
  c_voters : list (list Q * nat);   (* per MESVoter: sat_project by rank (read from the library), multiplicity *)
  c_tb : list Q;                    (* tie-breaking key by rank *)
  c_enum : list nat;                (* an iteration order for the set of projects *)
  c_bin : bool;                     (* binary_sat as resolved by method_of_equal_shares *)
  c_init : list nat;                (* initial_budget_allocation *)
  c_resolute : bool;
  c_inc : option Q;                 (* voter_budget_increment *)
  c_out : list (list nat);          (* implementation: the allocation (resolute: one) / all allocations *)
  c_refuse : bool;                  (* tie_breaking = refuse_tie_breaking (plain rule only) *)
  c_raised : bool                   (* the call raised TieBreakingException *)
}.

Definition ITER_FUEL : nat := 400.

Definition voters_of (c : case) : list vcls := map (fun um => mkV (fst um) (snd um)) (c_voters c).
Definition min_of (c : case) : mes_in :=
  mkIn (c_costs c) (c_budget c) (voters_of c) (key_of_list (c_tb c)) (c_enum c) (c_bin c) (c_init c).
Definition sin_of (c : case) : spec_in :=
  mkSpecIn (c_costs c) (c_budget c) (voters_of c) (key_of_list (c_tb c)) (c_init c).

Definition one {A} (o : option A) : option (list A) :=
  match o with Some a => Some [a] | None => None end.

Definition model_out (c : case) : option (list (list nat)) :=
  match c_resolute c, c_inc c with
  | true, None => one (option_map o_alloc (mes_resolute (min_of c)))
  | true, Some inc => one (option_map o_alloc (mes_iter_resolute ITER_FUEL (min_of c) inc))
  | false, None => mes_irresolute (min_of c)
  | false, Some inc => mes_iter_irresolute ITER_FUEL (min_of c) inc
  end.

Definition spec_out (c : case) : option (list (list nat)) :=
  match c_resolute c, c_inc c with
  | true, None => one (mes_spec (sin_of c))
  | true, Some inc => one (mes_spec_iter ITER_FUEL (sin_of c) inc)
  | false, None => mes_spec_all (sin_of c)
  | false, Some inc => mes_spec_iter_all ITER_FUEL (sin_of c) inc
  end.

(* refuse_tie_breaking raises as soon as the rule is consulted, i.e. in the first round with two or more
   tied candidates.  Without a tie the run is a single path; every tie makes the irresolute exploration
   branch, so "some round has >= 2 tied candidates" <=> the number of explored paths differs from 1
   (paths are counted before duplicates are removed). *)
Definition spec_tie (c : case) : option bool :=
  let x := sin_of c in
  match spec_exec_all (si_costs x) (si_voters x) (S (si_n x))
                      (repeat (si_share x) (length (si_voters x))) (si_pool x) with
  | Some L => Some (negb (Nat.eqb (length L) 1))
  | None => None
  end.
Definition model_tie (c : case) : option bool :=
  let x := min_of c in
  let ps := fst (built x) in
  match run_irr (S (length ps)) (mi_voters x) (mi_tb x) (repeat (share x) (length (mi_voters x))) ps
                (start_alloc x) with
  | Some L => Some (negb (Nat.eqb (length L) 1))
  | None => None
  end.

(* failure codes:
   1 (oracle) returned set(s) differ from the textbook spec
   2 (model)  returned set(s) differ from the model of the code
   3 (model)  model or spec ran out of fuel
   4 (oracle) an allocation lists a project twice or an unknown project
   5 (oracle) refuse_tie_breaking: TieBreakingException raised although no round of the textbook procedure
              has two tied candidates, or not raised although one has
   6 (model)  the same against the model of the code *)
Definition check_sets (c : case) : list nat :=
  flag (forallb (fun W => nodupb W && forallb (fun p => Nat.ltb p (length (c_costs c))) W) (c_out c)) 4
  ++ match spec_out c with
     | Some Sp => flag (setset_eqb (c_out c) Sp) 1
     | None => [3%nat]
     end
  ++ match model_out c with
     | Some M => flag (setset_eqb (c_out c) M) 2
     | None => [3%nat]
     end.

Definition check (c : case) : list nat :=
  if c_refuse c then
    match spec_tie c, model_tie c with
    | Some st, Some mt =>
        flag (Bool.eqb st (c_raised c)) 5 ++ flag (Bool.eqb mt (c_raised c)) 6
        ++ (if c_raised c || st || mt then [] else check_sets c)
    | _, _ => [3%nat]
    end
  else check_sets c.

Definition run (cs : list case) : list (nat * nat) := run_cases check 0 cs.
