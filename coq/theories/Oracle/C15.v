(* Oracle/C15.v -- case-file runner for C15: implementation answers of the instance predicates
   vs. the model (Model/InstanceM.v) and vs. brute force over subsets. *)
From PB Require Export Model.InstanceM Oracle.Common.
Open Scope Q_scope.

Record case := mkCase {
  c_costs : list Q;                          (* cost by rank *)
  c_budget : Q;
  c_enum : list nat;                         (* iteration order of the instance object *)
  c_feas : list (list nat * bool);           (* projects, is_feasible answer *)
  c_exh : list (list nat * list nat * bool); (* projects, available_projects, is_exhaustive answer *)
  c_balloc : option (list (list nat));       (* budget_allocations() as yielded; None = not asked *)
  c_trivial : option (option bool);          (* is_trivial(); Some None = raised; None = not asked *)
  c_maxcard : list (list nat * Q * nat);     (* projects, budget, max_budget_allocation_cardinality *)
  c_maxcost : list (list nat * Q * Q)        (* projects, budget, max_budget_allocation_cost *)
}.

Definition I_of (c : case) : inst := mkInst (c_costs c) (c_budget c).

(* failure codes:
   1 is_feasible   2 is_exhaustive   3 budget_allocations differs from the model's list (order)
   4 budget_allocations is not "every feasible subset exactly once"   5 is_trivial
   6 max cardinality vs model   7 max cardinality vs brute force   8 max cost vs brute force *)
Definition balloc_ok (c : case) (out : list (list nat)) : bool :=
  let I := I_of c in
  let ref := budget_allocations I (all_projects I) in
  let outc := map canon out in
  nodupb_list outc
  && forallb (fun W => nodupb W && forallb (fun p => Nat.ltb p (nproj I)) W && is_feasible I W) out
  && Nat.eqb (length out) (length ref).

Definition check (c : case) : list nat :=
  let I := I_of c in
  flag (forallb (fun '(W, r) => Bool.eqb (is_feasible I W) r) (c_feas c)) 1
  ++ flag (forallb (fun '(W, av, r) => Bool.eqb (is_exhaustive I W av) r) (c_exh c)) 2
  ++ match c_balloc c with
     | None => []
     | Some out =>
         flag (list_eqb natlist_eqb (budget_allocations I (c_enum c)) out) 3
         ++ flag (balloc_ok c out) 4
     end
  ++ match c_trivial c with
     | None => []
     | Some r => flag (opt_eqb Bool.eqb (is_trivial I) r) 5
     end
  ++ flag (forallb (fun '(W, b, r) => Nat.eqb (max_card (map (cost I) W) b) r) (c_maxcard c)) 6
  ++ flag (forallb (fun '(W, b, r) => Nat.eqb (max_card_bf (map (cost I) W) b) r) (c_maxcard c)) 7
  ++ flag (forallb (fun '(W, b, r) => Qeqb (max_cost_bf (map (cost I) W) b) r) (c_maxcost c)) 8.

Definition run (cs : list case) : list (nat * nat) := run_cases check 0 cs.
