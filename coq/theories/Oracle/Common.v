(* Oracle/Common.v -- helpers shared by the case-file runners. *)
From PB Require Export Base.Election.
Open Scope Q_scope.

(* canonical form of a set of projects: sorted ranks *)
Definition canon (W : list nat) : list nat := isort Nat.leb W.

Fixpoint list_eqb {A} (eqb : A -> A -> bool) (l1 l2 : list A) : bool :=
  match l1, l2 with
  | [], [] => true
  | x :: r1, y :: r2 => eqb x y && list_eqb eqb r1 r2
  | _, _ => false
  end.

Definition natlist_eqb := list_eqb Nat.eqb.
Definition set_eqb (W1 W2 : list nat) : bool := natlist_eqb (canon W1) (canon W2).

Fixpoint nodupb (l : list nat) : bool :=
  match l with
  | [] => true
  | x :: r => negb (memb x r) && nodupb r
  end.

Definition memb_list (W : list nat) (Ws : list (list nat)) : bool :=
  existsb (natlist_eqb W) Ws.
Fixpoint nodupb_list (l : list (list nat)) : bool :=
  match l with
  | [] => true
  | x :: r => negb (memb_list x r) && nodupb_list r
  end.
(* sets of sets, each inner list taken as a set *)
Definition setset_eqb (A B : list (list nat)) : bool :=
  let A' := map canon A in let B' := map canon B in
  forallb (fun x => memb_list x B') A' && forallb (fun x => memb_list x A') B'.

Definition opt_eqb {A} (eqb : A -> A -> bool) (a b : option A) : bool :=
  match a, b with
  | None, None => true
  | Some x, Some y => eqb x y
  | _, _ => false
  end.

(* collect (index, code) for failing cases *)
Fixpoint run_cases {C} (chk : C -> list nat) (i : nat) (cs : list C) : list (nat * nat) :=
  match cs with
  | [] => []
  | c :: r => map (fun code => (i, code)) (chk c) ++ run_cases chk (S i) r
  end.

Definition flag (b : bool) (code : nat) : list nat := if b then [] else [code].

Lemma nodupb_NoDup l : nodupb l = true <-> NoDup l.
Proof.
  induction l as [|x r IH]; simpl.
  - split; [constructor|reflexivity].
  - rewrite andb_true_iff, negb_true_iff, IH, memb_false_In. split.
    + intros [H1 H2]. constructor; assumption.
    + inversion 1; subst. split; assumption.
Qed.

Lemma list_eqb_nat_eq l1 l2 : natlist_eqb l1 l2 = true <-> l1 = l2.
Proof.
  unfold natlist_eqb. revert l2. induction l1 as [|x r IH]; intros [|y r2]; simpl;
    try (split; [discriminate|discriminate]); try (split; reflexivity).
  rewrite andb_true_iff, Nat.eqb_eq, IH. split; [intros [-> ->]; reflexivity|intros [= -> ->]; auto].
Qed.
