(* Oracle/C06.v -- case-file runner for C06: "profiles and multiprofiles are interchangeable".

   A case carries, for ONE generated election in which some ballot is cast by at least two voters, the canonicalised
   results of a number of library calls made twice by the harness: once on the list [Profile] and once on
   [profile.as_multiprofile()].  The property is decided here: an [entry] fails (with ITS OWN oracle code = the
   function family, see props/c06.py CODES) as soon as the two results differ:

     VQ true  l    exact rationals (numbers, booleans as 0/1, per-project / per-voter vectors): equal as rationals,
                   position by position
     VQ false l    float-valued results (given by their exact binary value): |a-b| <= 1e-9 * max(1,|a|,|b|)
     VS ls         sets of projects (one inner list) / sets of sets (irresolute outcomes, cohesive groups):
                   equal as sets of sets
     VX tag        the call raised an exception of class [tag]: equal iff both sides raised the same class

   The optional model part ties the theorems of Props/C06.v to the same run: [c_classes] are the (approved
   ranks, multiplicity) pairs the MultiProfile iterates over, [c_voters] the list profile's ballots; a [mcheck]
   names a Gallina model function (Model/Phragmen.v, Model/GreedyRule.v, Model/Analysis.v, Model/Satisfaction.v)
   that is evaluated on the classes AND on the voters and compared with what the library returned on either
   side (model codes 2xx). *)
From PB Require Export Oracle.Common.
From PB Require Import Model.Phragmen Model.GreedyRule Model.Analysis Model.Satisfaction.
Open Scope Q_scope.

Inductive val :=
| VQ (exact : bool) (l : list Q)
| VS (l : list (list nat))
| VX (tag : nat).

Definition E9 : Q := 1000000000 # 1.
Definition Qmax3 (a b c : Q) : Q := Qmax a (Qmax b c).
Definition closeq (a b : Q) : bool := Qleb (Qabs (a - b) * E9) (Qmax3 1 (Qabs a) (Qabs b)).

Definition val_eqb (a b : val) : bool :=
  match a, b with
  | VQ ea la, VQ eb lb => if ea && eb then list_eqb Qeqb la lb else list_eqb closeq la lb
  | VS la, VS lb => setset_eqb la lb
  | VX ta, VX tb => Nat.eqb ta tb
  | _, _ => false
  end.

Record entry := mkE { e_code : nat; e_prof : val; e_multi : val }.

(* ---------- model part (approval elections only) ---------- *)
Inductive mcheck :=
| MPhragmen (tbk : nat) (res : list nat)          (* sequential_phragmen, resolute; tbk: 0 lexico 1 app_score 2 min_cost 3 max_cost *)
| MGreedy (meas : nat) (res : list nat)           (* greedy_utilitarian_welfare, lexicographic; meas: 0 Cost_Sat 1 Cardinality_Sat 2 Effort_Sat *)
| MScore (l : list Q)                             (* approval_score by rank *)
| MAvgLen (x : Q)                                 (* avg_ballot_length *)
| MEffort (l : list Q).                           (* Effort_Sat.sat_project, voters x projects, row-major *)

Record case := mkCase {
  c_costs : list Q;
  c_budget : Q;
  c_voters : list (list nat);                 (* approval elections: the list profile, one ballot per voter ([] otherwise) *)
  c_classes : list (list nat * nat);          (* ... the multiprofile's (ballot, multiplicity) pairs *)
  c_mults : list nat;                         (* multiplicities of the multiprofile (all ballot types) *)
  c_entries : list entry;
  c_model : list mcheck
}.

Definition I_of (c : case) : inst := mkInst (c_costs c) (c_budget c).

Definition ab_classes (c : case) : list aballot := map (fun bm => mkA (fst bm) (snd bm)) (c_classes c).
Definition ab_voters (c : case) : list aballot := map (fun b => mkA b 1) (c_voters c).

Definition tb_of (I : inst) (P : list aballot) (k : nat) : proj -> Q :=
  match k with
  | 0%nat => tb_lexico
  | 1%nat => tb_app_score P
  | 2%nat => tb_min_cost I
  | _ => tb_max_cost I
  end.

(* ballots as Model/Satisfaction.v and Model/Analysis.v see them *)
Definition sballot (b : list nat) : ballot := map (fun p => (p, 0)) b.
Definition sprofile (P : list aballot) : profile := map (fun a => (sballot (aset a), amul a)) P.
Definition aprof (P : list aballot) : prof := map (fun a => (map (fun p => (p, 1)) (aset a), amul a)) P.

(* total satisfaction of a list of projects: sum over the ballots of multiplicity * sat *)
Definition total_sat_of (I : inst) (meas : nat) (P : list aballot) (W : list proj) : Q :=
  let SP := sprofile P in
  Qred (Qsum (map (fun a =>
    let b := sballot (aset a) in
    Qnat (amul a) * match meas with
                    | 0%nat => sat_add (cost_p I b) W
                    | 1%nat => sat_add (cardinality_p b) W
                    | _ => sat_add (effort_p I SP b) W
                    end) P)).

Definition greedy_model (I : inst) (meas : nat) (P : list aballot) : list nat :=
  greedy_add_res I (fun p => total_sat_of I meas P [p]) tb_lexico [].

Definition check_model (c : case) (m : mcheck) : list nat :=
  let I := I_of c in
  let PC := ab_classes c in let PV := ab_voters c in
  match m with
  | MPhragmen k res =>
      flag (opt_eqb set_eqb (phragmen_res I PC (tb_of I PC k) (all_projects I) (zero_loads PC) []) (Some res)) 214
      ++ flag (opt_eqb set_eqb (phragmen_res I PV (tb_of I PV k) (all_projects I) (zero_loads PV) []) (Some res)) 214
  | MGreedy meas res =>
      flag (set_eqb (greedy_model I meas PC) res) 210 ++ flag (set_eqb (greedy_model I meas PV) res) 210
  | MScore l =>
      flag (list_eqb Qeqb (map (approval_score (aprof PC)) (all_projects I)) l) 249
      ++ flag (list_eqb Qeqb (map (approval_score (aprof PV)) (all_projects I)) l) 249
  | MAvgLen x =>
      flag (Qeqb (avg_ballot_length (aprof PC)) x) 230 ++ flag (Qeqb (avg_ballot_length (aprof PV)) x) 230
  | MEffort l =>
      let eff P := flat_map (fun b => map (effort_p I (sprofile P) (sballot b)) (all_projects I)) (c_voters c) in
      flag (list_eqb Qeqb (eff PC) l) 220 ++ flag (list_eqb Qeqb (eff PV) l) 220
  end.

(* every code at most once per case *)
Definition dedup_codes (l : list nat) : list nat :=
  fold_right (fun x acc => if memb x acc then acc else x :: acc) [] l.

Definition check (c : case) : list nat := dedup_codes (
  flag (existsb (fun m => Nat.leb 2 m) (c_mults c)) 1
  ++ flat_map (fun e => flag (val_eqb (e_prof e) (e_multi e)) (e_code e)) (c_entries c)
  ++ flat_map (check_model c) (c_model c)).

Definition run (cs : list case) : list (nat * nat) := run_cases check 0 cs.
