(* Oracle/C16.v -- case-file runner for C16: observables of real MultiProfile objects (one record per
   PYTHONHASHSEED) vs. the property restated on the insertion history, and vs. Model/Profiles.v. *)
From Coq Require Import List Arith Bool ZArith QArith.
From PB Require Export Model.Ballots Model.Profiles Oracle.Common.
Import ListNotations.
Local Open Scope nat_scope.

Record obs := mkObs {
  o_iter : list dict;                 (* every mutable ballot: its items in iteration order (score 0 for sets/rankings) *)
  o_len : nat;                        (* len(mp) *)
  o_num : nat;                        (* mp.num_ballots() *)
  o_mult : list nat;                  (* mp.multiplicity(b_i.frozen()) for every ballot of the case *)
  o_entries : list (dict * nat);      (* list(mp.items()): key items in the key's own order, count *)
  o_eq : list (list bool);            (* b_i.frozen() == b_j.frozen() *)
  o_heq : list (list bool);           (* hash(b_i.frozen()) == hash(b_j.frozen()) *)
  o_frozen : list (dict * nat * nat)  (* b_i.frozen(): items in its order, name id, meta id *)
}.

Record case := mkCase {
  c_kind : bkind;
  c_ballots : list mballot;
  c_ops : list (mpop nat);            (* indices into c_ballots *)
  c_obs : list obs;
  c_direct : bool                     (* the case builds FrozenApprovalBallots directly: which sequences are == is then the
                                         implementation's business (code 14, correspondence); the property is checked through
                                         its own == (codes 5 and 11) *)
}.

Definition dummy : mballot := mkB [] 0 0.
Definition bal (c : case) (i : nat) : mballot := nth i (c_ballots c) dummy.
Definition ops_of (c : case) : list (mpop mballot) :=
  map (fun o => match o with OpAppend i => OpAppend (bal c i) | OpExtend l => OpExtend (map (bal c) l) end) (c_ops c).

Fixpoint dlist_eqb (d1 d2 : dict) : bool :=
  match d1, d2 with
  | [], [] => true
  | x :: r1, y :: r2 => item_eqb x y && dlist_eqb r1 r2
  | _, _ => false
  end.
Definition dset_eqb (d1 d2 : dict) : bool :=
  forallb (fun x => existsb (item_eqb x) d2) d1 && forallb (fun x => existsb (item_eqb x) d1) d2
  && Nat.eqb (length d1) (length d2).

Fixpoint blist_eqb (l1 l2 : list bool) : bool :=
  match l1, l2 with
  | [], [] => true
  | x :: r1, y :: r2 => Bool.eqb x y && blist_eqb r1 r2
  | _, _ => false
  end.

Definition hstep_eqb (a b : hstep) : bool :=
  match a, b with
  | HSet p s, HSet p' s' => Nat.eqb p p' && score_eqb s s'
  | HDel p, HDel p' => Nat.eqb p p'
  | _, _ => false
  end.
Definition mballot_eqb (a b : mballot) : bool :=
  list_eqb hstep_eqb (b_hist a) (b_hist b) && Nat.eqb (b_name a) (b_name b) && Nat.eqb (b_meta a) (b_meta b).

(* the iteration order of the sets, as observed (two sets built by the same history iterate alike) *)
Definition enum_of (c : case) (o : obs) (b : mballot) : list nat :=
  let fix find (bs : list mballot) (its : list dict) : list nat :=
    match bs, its with
    | b' :: bs', it :: its' =>
        if mballot_eqb b' b then keys it else find bs' its'
    | _, _ => keys (content b)
    end in find (c_ballots c) (o_iter o).

Definition entries_eqb (e1 e2 : list (dict * nat)) : bool :=
  list_eqb (fun x y => dlist_eqb (fst x) (fst y) && Nat.eqb (snd x) (snd y)) e1 e2.
Definition frozen_eqb (f1 f2 : list (dict * nat * nat)) : bool :=
  list_eqb (fun x y => dlist_eqb (fst (fst x)) (fst (fst y)) && Nat.eqb (snd (fst x)) (snd (fst y))
                       && Nat.eqb (snd x) (snd y)) f1 f2.

(* failure codes
   oracle: 1 num_ballots   2 len   3 multiplicity   4 == of frozen ballots vs same content
           5 equal frozen ballots with different hashes   6 frozen() lost content / name / meta
           7 observables differ between hash seeds
           11 multiplicity(f_i) differs from the number of inserted ballots that == f_i (the implementation's own ==)
   model:  8 content of a mutable ballot   9 Counter entries (keys, order, counts)   10 frozen items *)
Definition check_obs (c : case) (o : obs) : list nat :=
  let k := c_kind c in
  let bs := c_ballots c in
  let h := history (ops_of c) in
  let idx := seq 0 (length bs) in
  let scb := same_contentb k in
  let m := run (kmatch (fhash thash0 ehash0)) (frozen k (enum_of c o)) (ops_of c) in
  flag (Nat.eqb (o_num o) (length h)) 1
  ++ flag (Nat.eqb (o_len o) (length (dedupb scb [] h))) 2
  ++ flag (list_eqb Nat.eqb (o_mult o) (map (fun b => countb (scb b) h) bs)) 3
  ++ flag (list_eqb blist_eqb (o_eq o) (map (fun a => map (fun b => scb a b) bs) bs)) (if c_direct c then 14 else 4)
  ++ flag (list_eqb (fun r1 r2 => forallb (fun p => implb (fst p) (snd p)) (combine r1 r2)) (o_eq o) (o_heq o)
           && Nat.eqb (length (o_heq o)) (length bs)) 5
  ++ flag (Nat.eqb (length (o_frozen o)) (length bs) && Nat.eqb (length (o_iter o)) (length bs)
           && forallb (fun t => let '(b, it, (fi, fn, fm)) := t in
                         (match k with KApp => dset_eqb fi it | _ => dlist_eqb fi it end)
                         && Nat.eqb fn (b_name b) && Nat.eqb fm (b_meta b))
                      (combine (combine bs (o_iter o)) (o_frozen o))) 6
  (* counting by the implementation's OWN ==: multiplicity(f_i) = number of inserted ballots j with f_i == f_j *)
  ++ flag (list_eqb Nat.eqb (o_mult o)
             (map (fun row => countb (fun j => nth j row false) (history (c_ops c))) (o_eq o))
           || negb (Nat.eqb (length (o_eq o)) (length bs))) 11
  ++ flag (forallb (fun t => let '(b, it) := t in
                      match k with KApp => dset_eqb it (content b) | _ => dlist_eqb it (content b) end)
                   (combine bs (o_iter o))) 8
  ++ flag (entries_eqb (o_entries o) (map (fun e => (f_items (fst e), snd e)) m)) 9
  ++ flag (list_eqb dlist_eqb (map (fun t => fst (fst t)) (o_frozen o))
                    (map (fun b => f_items (frozen k (enum_of c o) b)) bs)) 10.

Definition same_obs (o1 o2 : obs) : bool :=
  Nat.eqb (o_len o1) (o_len o2) && Nat.eqb (o_num o1) (o_num o2) && list_eqb Nat.eqb (o_mult o1) (o_mult o2)
  && entries_eqb (o_entries o1) (o_entries o2) && list_eqb blist_eqb (o_eq o1) (o_eq o2)
  && frozen_eqb (o_frozen o1) (o_frozen o2).

Definition check (c : case) : list nat :=
  flat_map (check_obs c) (c_obs c)
  ++ match c_obs c with
     | [] => [7]
     | o :: r => flag (forallb (same_obs o) r) 7
     end.

Definition run (cs : list case) : list (nat * nat) := run_cases check 0 cs.
