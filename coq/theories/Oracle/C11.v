(* Oracle/C11.v -- case-file runner for C11 (Pabulib parse / write round trip).
   Kinds of case: 0 = a generated election e, the implementation's parse(write(e)), the parse of a second
   round trip and the text it wrote; 1 = a generated file, the election the generator intended and the
   implementation's parse; 2 = placeholder (corpus files are compared on the Python side). *)
From PB Require Export Model.PabulibM Oracle.Common.
Open Scope list_scope.
Open Scope nat_scope.

Definition bs (l : list nat) : str := map ascii_of_nat l.
(* newline-joined lines: how the harness ships multi-line text *)
Definition nlj (l : list str) : str := join_with c_lf l.

Record case := mkCase {
  c_kind : nat;
  c_elec : option election;    (* kind 0: e.  kind 1: the intended election, None for a malformed file *)
  c_file : str;                (* kind 0: the text written by the implementation.  kind 1: the file *)
  c_ordered : bool;            (* the order of the ballots is part of the comparison *)
  c_out1 : option election;    (* implementation: kind 0 parse(write(e)); kind 1 parse(file); None = raised *)
  c_out2 : option election     (* implementation: kind 0 parse(write(out1)) *)
}.

(* ---------------------------------------------------------------------------------------------- *)
(* equality of parsed elections: dictionaries and sets compared without order                        *)
(* ---------------------------------------------------------------------------------------------- *)
Fixpoint nodup_str (l : list str) : bool :=
  match l with [] => true | x :: r => negb (mem_str x r) && nodup_str r end.

Definition sub_dict (d1 d2 : dict) : bool :=
  forallb (fun kv => match lookup (fst kv) d2 with Some v => str_eqb v (snd kv) | None => false end) d1.
Definition dict_eqb (d1 d2 : dict) : bool :=
  nodup_str (keys d1) && nodup_str (keys d2) && sub_dict d1 d2 && sub_dict d2 d1.

Definition sub_set (a b : list str) : bool := forallb (fun x => mem_str x b) a.
Definition set_str_eqb (a b : list str) : bool := sub_set a b && sub_set b a.

Definition oQ_eqb (a b : option Q) : bool := opt_eqb Qeq_bool a b.
Definition onat_eqb (a b : option nat) : bool := opt_eqb Nat.eqb a b.

Definition vtype_eqb (a b : vtype) : bool :=
  match a, b with
  | Approval, Approval | Scoring, Scoring | Cumulative, Cumulative | Ordinal, Ordinal => true
  | _, _ => false
  end.

Fixpoint lookup_pts (n : str) (ns : list str) (qs : list Q) : option Q :=
  match ns, qs with
  | n' :: ns', q :: qs' => if str_eqb n n' then Some q else lookup_pts n ns' qs'
  | _, _ => None
  end.

(* the voted content of two ballots of type vt is the same *)
Definition content_eqb (vt : vtype) (a b : ballot) : bool :=
  match vt with
  | Approval => nodup_str (b_projects b) && set_str_eqb (b_projects a) (b_projects b)
  | Ordinal => list_eqb str_eqb (b_projects a) (b_projects b)
  | _ =>
      nodup_str (b_projects a) && nodup_str (b_projects b)
      && Nat.eqb (length (b_projects a)) (length (b_projects b))
      && Nat.eqb (length (b_projects a)) (length (b_points a))
      && Nat.eqb (length (b_projects b)) (length (b_points b))
      && forallb (fun n => oQ_eqb (lookup_pts n (b_projects a) (b_points a))
                                  (lookup_pts n (b_projects b) (b_points b))) (b_projects a)
  end.

Definition ballot_eqb (vt : vtype) (a b : ballot) : bool :=
  content_eqb vt a b && dict_eqb (b_meta a) (b_meta b) && Nat.eqb (b_mult a) (b_mult b).

Definition project_eqb (p q : project) : bool :=
  str_eqb (p_name p) (p_name q) && Qeq_bool (p_cost p) (p_cost q)
  && set_str_eqb (p_cats p) (p_cats q) && set_str_eqb (p_targets p) (p_targets q)
  && dict_eqb (p_meta p) (p_meta q).

(* lists compared as multisets under an equivalence *)
Definition count_eq {A} (eqb : A -> A -> bool) (x : A) (l : list A) : nat :=
  length (filter (eqb x) l).
Definition multiset_eqb {A} (eqb : A -> A -> bool) (l1 l2 : list A) : bool :=
  Nat.eqb (length l1) (length l2)
  && forallb (fun x => Nat.eqb (count_eq eqb x l1) (count_eq eqb x l2)) l1.

Definition ballots_eqb (ordered : bool) (eqb : ballot -> ballot -> bool) (l1 l2 : list ballot) : bool :=
  if ordered then list_eqb eqb l1 l2 else multiset_eqb eqb l1 l2.

Definition projects_eqb (eqb : project -> project -> bool) (l1 l2 : list project) : bool :=
  nodup_str (map p_name l1) && nodup_str (map p_name l2) && Nat.eqb (length l1) (length l2)
  && forallb (fun p => match find_project (p_name p) l2 with Some q => eqb p q | None => false end) l1.

Definition limits_eqb (a b : election) : bool :=
  onat_eqb (e_min_len a) (e_min_len b) && onat_eqb (e_max_len a) (e_max_len b)
  && oQ_eqb (e_min_cost a) (e_min_cost b) && oQ_eqb (e_max_cost a) (e_max_cost b)
  && oQ_eqb (e_min_total a) (e_min_total b) && oQ_eqb (e_max_total a) (e_max_total b)
  && oQ_eqb (e_min_score a) (e_min_score b) && oQ_eqb (e_max_score a) (e_max_score b).

Definition election_eqb (ordered : bool) (a b : election) : bool :=
  dict_eqb (e_meta a) (e_meta b)
  && projects_eqb project_eqb (e_projects a) (e_projects b)
  && Qeq_bool (e_budget a) (e_budget b)
  && vtype_eqb (e_vtype a) (e_vtype b)
  && ballots_eqb ordered (ballot_eqb (e_vtype a)) (e_ballots a) (e_ballots b)
  && limits_eqb a b.

Definition oelection_eqb (ordered : bool) (a b : option election) : bool :=
  opt_eqb (election_eqb ordered) a b.

(* ---------------------------------------------------------------------------------------------- *)
(* the property on a round trip: e' = parse(write(e)) is "the same election" as e                     *)
(* ---------------------------------------------------------------------------------------------- *)
(* d' carries everything of d, and nothing else except entries under the keys in [derived]
   (entries of d under those keys are recomputed by the writer) *)
Definition dict_same_modulo (derived : list str) (d d' : dict) : bool :=
  nodup_str (keys d')
  && forallb (fun kv => mem_str (fst kv) derived
                        || match lookup (fst kv) d' with Some v => str_eqb v (snd kv) | None => false end) d
  && forallb (fun kv => mem_str (fst kv) derived
                        || match lookup (fst kv) d with Some v => str_eqb v (snd kv) | None => false end) d'.

Definition derived_meta_keys : list str :=
  [$"description"; $"country"; $"unit"; $"instance"; $"rule";
   $"num_projects"; $"num_votes"; $"budget"; $"vote_type";
   $"min_length"; $"max_length"; $"min_sum_cost"; $"max_sum_cost";
   $"min_points"; $"max_points"; $"min_sum_points"; $"max_sum_points"].
(* description/country/unit/instance/rule are kept when present: checked separately *)
Definition mandatory_meta_keys : list str :=
  [$"description"; $"country"; $"unit"; $"instance"; $"rule"].

Definition project_same (p p' : project) : bool :=
  str_eqb (p_name p) (p_name p') && Qeq_bool (p_cost p) (p_cost p')
  && set_str_eqb (p_cats p) (p_cats p') && set_str_eqb (p_targets p) (p_targets p')
  && dict_same_modulo [K_project_id; K_cost] (p_meta p) (p_meta p').

(* voter metadata: everything is kept; a ballot without voter_id is given its index in the profile as voter_id
   (the Pabulib format requires the column); a ballot of multiplicity m becomes m equal ballots *)
Definition with_default_id (i : nat) (b : ballot) : ballot :=
  if has_key K_voter_id (b_meta b) then mkBallot (b_projects b) (b_points b) (b_meta b) 1
  else mkBallot (b_projects b) (b_points b) ((K_voter_id, show_nat_dec i) :: b_meta b) 1.

Fixpoint expand_from (i : nat) (bs : list ballot) : list ballot :=
  match bs with
  | [] => []
  | b :: r => repeat (with_default_id i b) (b_mult b) ++ expand_from (S i) r
  end.
Definition expand (bs : list ballot) : list ballot := expand_from 0 bs.

(* the limits that are the Pabulib defaults mean "no limit" *)
Definition nz (o : option Q) : option Q := drop_if Qzero_b o.
Definition limits_same (e e' : election) : bool :=
  let n := length (e_projects e) in
  onat_eqb (drop_if (fun k => Nat.leb k 1%nat) (e_min_len e)) (e_min_len e')
  && onat_eqb (drop_if (fun k => Nat.leb n k) (e_max_len e)) (e_max_len e')
  && match e_vtype e with
     | Approval =>
         oQ_eqb (nz (e_min_cost e)) (e_min_cost e')
         && oQ_eqb (drop_if (fun q => Qle_bool (e_budget e) q) (e_max_cost e)) (e_max_cost e')
         && oQ_eqb None (e_min_total e') && oQ_eqb None (e_max_total e')
         && oQ_eqb None (e_min_score e') && oQ_eqb None (e_max_score e')
     | Scoring =>
         oQ_eqb (nz (e_min_score e)) (e_min_score e') && oQ_eqb (e_max_score e) (e_max_score e')
         && oQ_eqb None (e_min_cost e') && oQ_eqb None (e_max_cost e')
         && oQ_eqb None (e_min_total e') && oQ_eqb None (e_max_total e')
     | Cumulative =>
         oQ_eqb (nz (e_min_score e)) (e_min_score e')
         && oQ_eqb (drop_if (fun q => match e_max_total e with Some t => Qeq_bool q t | None => false end)
                            (e_max_score e)) (e_max_score e')
         && oQ_eqb (nz (e_min_total e)) (e_min_total e') && oQ_eqb (e_max_total e) (e_max_total e')
         && oQ_eqb None (e_min_cost e') && oQ_eqb None (e_max_cost e')
     | Ordinal =>
         oQ_eqb None (e_min_cost e') && oQ_eqb None (e_max_cost e')
         && oQ_eqb None (e_min_total e') && oQ_eqb None (e_max_total e')
         && oQ_eqb None (e_min_score e') && oQ_eqb None (e_max_score e')
     end.

Definition same_election (ordered : bool) (e e' : election) : bool :=
  dict_same_modulo derived_meta_keys (e_meta e) (e_meta e')
  && sub_dict (filter (fun kv => mem_str (fst kv) mandatory_meta_keys) (e_meta e)) (e_meta e')
  && projects_eqb project_same (e_projects e) (e_projects e')
  && Qeq_bool (e_budget e) (e_budget e')
  && vtype_eqb (e_vtype e) (e_vtype e')
  && ballots_eqb ordered (ballot_eqb (e_vtype e)) (expand (e_ballots e)) (e_ballots e')
  && limits_same e e'.

(* ---------------------------------------------------------------------------------------------- *)
(* strict (Leibniz) equality, used to exercise the statement  parse_rows (write_rows e) = Some (canon e) *)
(* ---------------------------------------------------------------------------------------------- *)
Definition Qstrict_eqb (a b : Q) : bool := Z.eqb (Qnum a) (Qnum b) && Pos.eqb (Qden a) (Qden b).
Definition dict_strict_eqb (a b : dict) : bool :=
  list_eqb (fun x y => str_eqb (fst x) (fst y) && str_eqb (snd x) (snd y)) a b.
Definition project_strict_eqb (p q : project) : bool :=
  str_eqb (p_name p) (p_name q) && Qstrict_eqb (p_cost p) (p_cost q)
  && list_eqb str_eqb (p_cats p) (p_cats q) && list_eqb str_eqb (p_targets p) (p_targets q)
  && dict_strict_eqb (p_meta p) (p_meta q).
Definition ballot_strict_eqb (a b : ballot) : bool :=
  list_eqb str_eqb (b_projects a) (b_projects b) && list_eqb Qstrict_eqb (b_points a) (b_points b)
  && dict_strict_eqb (b_meta a) (b_meta b) && Nat.eqb (b_mult a) (b_mult b).
Definition election_strict_eqb (a b : election) : bool :=
  dict_strict_eqb (e_meta a) (e_meta b)
  && list_eqb project_strict_eqb (e_projects a) (e_projects b)
  && Qstrict_eqb (e_budget a) (e_budget b) && vtype_eqb (e_vtype a) (e_vtype b)
  && list_eqb ballot_strict_eqb (e_ballots a) (e_ballots b)
  && onat_eqb (e_min_len a) (e_min_len b) && onat_eqb (e_max_len a) (e_max_len b)
  && opt_eqb Qstrict_eqb (e_min_cost a) (e_min_cost b) && opt_eqb Qstrict_eqb (e_max_cost a) (e_max_cost b)
  && opt_eqb Qstrict_eqb (e_min_total a) (e_min_total b) && opt_eqb Qstrict_eqb (e_max_total a) (e_max_total b)
  && opt_eqb Qstrict_eqb (e_min_score a) (e_min_score b) && opt_eqb Qstrict_eqb (e_max_score a) (e_max_score b).

(* on a well-formed election the model's round trip is exactly [canon e], and [canon] is idempotent there *)
Definition canon_check (e : election) : list nat :=
  if wf_election_x e then
    flag (opt_eqb election_strict_eqb (parse_rows_x (write_rows_x e)) (Some (canon_x e))) 8
    ++ flag (wf_election_x (canon_x e) && election_eqb true (canon_x (canon_x e)) (canon_x e)) 9
  else [].

(* what the text format cannot carry; used only to decide which MODEL comparisons are meaningful *)
Definition all_strings (e : election) : list str :=
  flat_map (fun kv => [fst kv; snd kv]) (e_meta e)
  ++ flat_map (fun p => p_name p :: p_cats p ++ p_targets p ++ flat_map (fun kv => [fst kv; snd kv]) (p_meta p))
       (e_projects e)
  ++ flat_map (fun b => flat_map (fun kv => [fst kv; snd kv]) (b_meta b)) (e_ballots e).
Definition has_linebreak (e : election) : bool :=
  existsb (existsb is_linebreak) (all_strings e).
(* a first cell that the parser takes for a section header: then the order of the rows matters, and the
   natsort of the writer is not modelled *)
Definition has_keyword_cell (e : election) : bool :=
  existsb (fun s => negb (not_keyword s))
    (keys (e_meta e) ++ map p_name (e_projects e)
     ++ flat_map (fun b => match lookup K_voter_id (b_meta b) with Some v => [v] | None => [] end) (e_ballots e)).

(* failure codes:
   1 (oracle) parse(write(e)) is not the election e          2 (model) parse(write(e)) differs from the model's parse_file(write_file e)
   3 (oracle) a second round trip changes the election        4 (model) the model's parse of the written text differs
   5 (model) csv_join (csv_split text) is not the text the implementation wrote
   6 (oracle) parse(file) is not the election written in the file   7 (model) parse(file) differs from the model's
   8 (model) e well-formed but the model's round trip is not literally canon e   9 (model) canon e not well-formed / canon not idempotent *)
Definition check (c : case) : list nat :=
  match c_kind c with
  | 0%nat =>
      match c_elec c with
      | None => [2]
      | Some e =>
          flag (match c_out1 c with Some e' => same_election (c_ordered c) e e' | None => false end) 1
          ++ flag (has_keyword_cell e
                   || oelection_eqb (c_ordered c) (parse_file_x (write_file_x e)) (c_out1 c)) 2
          ++ flag (oelection_eqb true (c_out1 c) (c_out2 c)) 3
          ++ flag (oelection_eqb true (parse_file_x (c_file c)) (c_out1 c)) 4
          ++ flag (has_linebreak e || str_eqb (csv_join (csv_split (c_file c))) (c_file c)) 5
          ++ canon_check e
      end
  | 1%nat =>
      match c_elec c with
      | Some e => flag (oelection_eqb true (Some e) (c_out1 c)) 6
      | None => []
      end
      ++ flag (oelection_eqb true (parse_file_x (c_file c)) (c_out1 c)) 7
  | _ => []
  end.

Definition run (cs : list case) : list (nat * nat) := run_cases check 0 cs.
