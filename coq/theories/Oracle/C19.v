(* Oracle/C19.v -- case-file runner for C19 (rule comparison).  The model is fed the implementation's OWN rule
   outputs (recorded by wrapping the rule callables) and the satisfaction every element of the implementation's
   satisfaction profile derives from each of them. *)
From PB Require Export Model.Composition Oracle.Common.
Open Scope Q_scope.

Record case := mkCase {
  c_outs : list (list nat * list Q);  (* per rule, in sequence order: returned allocation, satisfaction per voter *)
  c_mults : list nat;                 (* multiplicity per element of the satisfaction profile *)
  c_swc : list (list nat);            (* social_welfare_comparison(...) *)
  c_pop : list (list nat);            (* popularity_comparison(...) *)
  c_alone : list (list nat)           (* per rule: its output when called ALONE with a fresh copy of the caller's
                                         initial allocation *)
}.

Definition outs_of (c : case) : list outcome := map (fun '(a, v) => mkOut a v) (c_outs c).

(* ---- direct boolean restatement of the property on sets (independent of the scans of the model) ---- *)
Definition tot (c : case) (o : outcome) : Q := Qsum (map (fun '(s, m) => s * Qnat m) (combine (o_vsat o) (c_mults c))).
Definition best_total (c : case) (o : outcome) : bool :=
  forallb (fun o' => Qleb (tot c o') (tot c o)) (outs_of c).
Definition voter_top (c : case) (j : nat) (o : outcome) : bool :=
  forallb (fun o' => Qleb (vs j o') (vs j o)) (outs_of c).
Definition supp (c : case) (o : outcome) : nat :=
  fold_right Nat.add O (map (fun '(j, m) => if voter_top c j o then m else O)
                            (combine (seq 0 (length (c_mults c))) (c_mults c))).
Definition best_supp (c : case) (o : outcome) : bool :=
  forallb (fun o' => Nat.leb (supp c o') (supp c o)) (outs_of c).

(* returned list = { rule outputs satisfying [good] } as sets of sets; every returned allocation is literally one of
   the rule outputs *)
Definition exact (c : case) (good : outcome -> bool) (ret : list (list nat)) : bool :=
  setset_eqb ret (map o_alloc (filter good (outs_of c))).
Definition genuine (c : case) (ret : list (list nat)) : bool :=
  forallb (fun W => existsb (set_eqb W) (c_alone c)) ret.
Definition unmodified (c : case) (ret : list (list nat)) : bool :=
  forallb (fun W => existsb (natlist_eqb W) (map o_alloc (outs_of c))) ret.

(* failure codes
   1 oracle  social_welfare_comparison is not "exactly the outcomes of maximal total satisfaction"
   2 oracle  popularity_comparison is not "exactly the outcomes supported by the largest number of voters"
   3 oracle  a returned allocation is not (literally) the output of one of the rules
   4 model   social_welfare_comparison differs from the model (as a set of sets)
   5 model   popularity_comparison differs from the model (as a set of sets)
   6 oracle  a returned allocation is not the outcome (as a set) of any of the rules called on its own with the
             caller's initial allocation *)
Definition check (c : case) : list nat :=
  let outs := outs_of c in
  flag (exact c (best_total c) (c_swc c)) 1
  ++ flag (exact c (best_supp c) (c_pop c)) 2
  ++ flag (unmodified c (c_swc c) && unmodified c (c_pop c)) 3
  ++ flag (setset_eqb (map o_alloc (swc (c_mults c) outs)) (c_swc c)) 4
  ++ flag (setset_eqb (map o_alloc (popularity (c_mults c) outs)) (c_pop c)) 5
  ++ flag (genuine c (c_swc c) && genuine c (c_pop c)) 6.

Definition run (cs : list case) : list (nat * nat) := run_cases check 0 cs.
