(* Oracle/C09.v -- case-file runner for C09 (exhaustion wrappers).
   The harness calls the implementation's OWN base rule at every budget B, B+s, ... (resp. on every
   reachable initial allocation) and passes these outcomes as tables; the wrapper models of
   Model/Exhaustion.v and the property statement (retry_ref, containment, feasibility) are then
   evaluated on these tables and compared with what the implementation's wrapper returned.
   All allocations arrive sorted by rank. *)
From PB Require Export Model.Exhaustion Oracle.Common.
Open Scope Q_scope.

Record case := mkCase {
  c_kind : nat;              (* 0 exhaustion_by_budget_increase, 1 iterated Equal Shares,
                                2 completion_by_rule_combination, 3 skipped (table over the cap) *)
  c_costs : list Q;
  c_budget : Q;
  c_init : list nat;         (* initial allocation *)
  c_resolute : bool;
  c_stop : bool;             (* exhaustive_stop *)
  c_step : option Q;         (* budget_step / voter_budget_increment; None = default (1% of budget) *)
  c_bound : option Q;        (* budget_bound; None = default budget * (num_ballots + 1) *)
  c_nballots : nat;          (* profile.num_ballots() *)
  c_supp : list nat;         (* kind 1: projects with at least one supporter (sat > 0) *)
  c_table : list (Q * list (list nat));
                             (* kinds 0/1: budget (kind 1: budget per voter) -> outcomes of the base
                                rule called by the harness (a singleton when resolute) *)
  c_rules : list (list (list nat * list (list nat)));
                             (* kind 2: for every rule of the sequence, initial allocation -> outcomes *)
  c_out : list (list nat);   (* what the wrapper returned (a singleton when resolute) *)
  c_calls : option (list Q); (* budgets with which the wrapper called the rule (kind 0) *)
  c_budget_after : Q         (* instance.budget_limit after the call *)
}.

Definition I_of (c : case) : inst := mkInst (c_costs c) (c_budget c).
Definition sentinel (c : case) : list nat := [nproj (I_of c)].
Definition has_sentinel (c : case) (Ws : list (list nat)) : bool :=
  existsb (fun W => memb (nproj (I_of c)) W) Ws.

Definition subsetb (a b : list nat) : bool := forallb (fun p => memb p b) a.
Definition wf_alloc (c : case) (W : list nat) : bool :=
  nodupb W && forallb (fun p => Nat.ltb p (nproj (I_of c))) W && is_feasible (I_of c) W.

Definition the_step (c : case) : Q :=
  match c_step c with Some s => s | None => default_step (I_of c) end.
Definition the_bound (c : case) : Q :=
  match c_bound c with Some b => b | None => default_bound (I_of c) (c_nballots c) end.

(* table rules *)
Definition Rirr (c : case) (b : Q) : list (list nat) := tab_rule (c_table c) [sentinel c] b.
Definition Rres (c : case) (b : Q) : list nat := hd (sentinel c) (Rirr c b).

(* iterated Equal Shares: the MESProjects and the allocation the loop starts from *)
Definition mes_avail (c : case) : list nat :=
  filter (fun p => negb (memb p (c_init c)) && Qltb 0 (cost (I_of c) p)) (c_supp c).
Definition mes_prev0 (c : case) : list nat :=
  c_init c ++ filter (fun p => negb (memb p (c_init c)) && negb (Qltb 0 (cost (I_of c) p))) (c_supp c).
(* budget per voter of the first try: what is left once the initial allocation is paid for, shared equally
   (method_of_equal_shares after the repair db43723) *)
Definition mes_b0 (c : case) : Q :=
  Qred ((c_budget c - tcost (I_of c) (c_init c)) / Qofnat (c_nballots c)).

Definition fuel_of (c : case) : nat := S (S (length (c_table c))).

(* the model's answer for kinds 0 and 1: (number of rule calls, outcomes) *)
Definition model_retry (c : case) : option (nat * list (list nat)) :=
  let I := I_of c in
  match c_kind c, c_resolute c with
  | 0%nat, true =>
      option_map (fun '(k, W) => (k, [W]))
        (increase_res I (Rres c) (c_init c) (c_stop c) (the_step c) (the_bound c) (fuel_of c))
  | 0%nat, false =>
      increase_irr I (Rirr c) (c_init c) (c_stop c) (the_step c) (the_bound c) (fuel_of c)
  | 1%nat, true =>
      option_map (fun '(k, W) => (k, [W]))
        (mes_iter_res I (Rres c) (mes_avail c) (mes_prev0 c) (mes_b0 c) (the_step c) (fuel_of c))
  | _, _ =>
      mes_iter_irr I (Rirr c) (mes_avail c) (mes_prev0 c) (mes_b0 c) (the_step c) (fuel_of c)
  end.

(* the property statement for kinds 0 and 1, evaluated on the table (first `n` tries) *)
Definition ref_retry (c : case) : nat * list (list nat) :=
  let I := I_of c in
  match c_kind c with
  | 0%nat =>
      let n := ntries (c_budget c) (the_step c) (the_bound c) in
      let outs := map (fun k => Rirr c (try_budget (c_budget c) (the_step c) k)) (seq 0 (Nat.min n (length (c_table c)))) in
      retry_ref (infeasible_any I) (exh_any I (c_stop c) (all_projects I)) [c_init c] outs
  | _ =>
      let outs := map (fun k => Rirr c (try_budget (mes_b0 c) (the_step c) k)) (seq 0 (length (c_table c))) in
      retry_ref (infeasible_any I) (exh_any I true (mes_avail c)) [mes_prev0 c] outs
  end.

(* completion: table rules *)
Definition crule_irr (c : case) (t : list (list nat * list (list nat))) (a : list nat)
  : list (list nat) := tab_rule_a t [sentinel c] (canon a).
Definition crule_res (c : case) (t : list (list nat * list (list nat))) (a : list nat)
  : list nat := hd (sentinel c) (crule_irr c t a).
Definition model_completion (c : case) : list (list nat) :=
  let I := I_of c in
  if c_resolute c then [complete_res I (map (crule_res c) (c_rules c)) (c_init c)]
  else completion_irr I (map (crule_irr c) (c_rules c)) (c_init c).

Definition first_outcomes (c : case) : list (list nat) :=
  match c_rules c with
  | [] => [c_init c]
  | t :: _ => if c_resolute c then [crule_res c t (c_init c)] else crule_irr c t (c_init c)
  end.
Definition last_outcomes (c : case) : list (list nat) :=
  match rev (c_rules c) with
  | [] => [c_init c]
  | t :: _ => flat_map snd t
  end.

(* failure codes
   1  a returned allocation is not feasible for the ORIGINAL instance (cost, duplicates, unknown project)
   2  retry wrappers: the result is neither a base-rule outcome at a tried budget nor the initial
      allocation; completion: a returned allocation does not contain an outcome of the first rule
   3  wrong stopping index: result differs from the property statement (least stopping try)
   4  irresolute completion dropped an outcome of the first rule
   5  completion: a returned allocation is not exhaustive although it is not an outcome of the last rule
   6  instance.budget_limit changed
   7  result differs from the Gallina wrapper model
   8  the wrapper did not call the rule with the budgets B, B+s, B+2s, ... (or a different number of times)
   9  harness table incomplete (sentinel reached)        10 model ran out of fuel
   11 completion returned an infeasible allocation AND a wrapped rule, started from a feasible allocation,
      returned an infeasible one (the base rule's fault, not the wrapper's) *)
Definition check_retry (c : case) : list nat :=
  let I := I_of c in
  let out := c_out c in
  let prev0 := match c_kind c with 0%nat => c_init c | _ => mes_prev0 c end in
  let candidates := [prev0] :: map snd (c_table c) in
  let '(rk, rout) := ref_retry c in
  flag (forallb (wf_alloc c) out) 1
  ++ flag (existsb (setset_eqb out) candidates) 2
  ++ flag (Qeqb (c_budget_after c) (c_budget c)) 6
  ++ match model_retry c with
     | None => [10%nat]
     | Some (k, mout) =>
         if has_sentinel c mout || has_sentinel c rout || Nat.ltb (length (c_table c)) k then [9%nat]
         else
           flag (setset_eqb out rout) 3
           ++ flag (setset_eqb out mout) 7
           ++ match c_calls c with
              | None => []
              | Some bs =>
                  flag (Nat.eqb (length bs) k
                        && forallb (fun '(j, b) => Qeqb b (try_budget (c_budget c) (the_step c) j))
                             (combine (seq 0 (length bs)) bs)
                        && Nat.eqb k rk) 8
              end
     end.

(* a wrapped rule broke its own contract: started from a feasible allocation it returned an infeasible one *)
Definition base_contract_broken (c : case) : bool :=
  existsb (fun t => existsb (fun '(key, outs) => wf_alloc c key && negb (forallb (wf_alloc c) outs)) t)
    (c_rules c).

Definition check_completion (c : case) : list nat :=
  let I := I_of c in
  let out := c_out c in
  let mout := model_completion c in
  let firsts := first_outcomes c in
  let lasts := map canon (last_outcomes c) in
  flag (forallb (wf_alloc c) out) (if base_contract_broken c then 11 else 1)
  ++ flag (forallb (fun W => subsetb (c_init c) W && existsb (fun a => subsetb a W) firsts) out) 2
  ++ flag (Qeqb (c_budget_after c) (c_budget c)) 6
  ++ if has_sentinel c mout || has_sentinel c firsts then [9%nat]
     else
       flag (c_resolute c || forallb (fun a => existsb (fun W => subsetb a W) out) firsts) 4
       ++ flag (forallb (fun W => exh_all I W || memb_list (canon W) lasts) out) 5
       ++ flag (setset_eqb out mout) 7.

Definition check (c : case) : list nat :=
  match c_kind c with
  | 0%nat | 1%nat => check_retry c
  | 2%nat => check_completion c
  | _ => []
  end.

Definition run (cs : list case) : list (nat * nat) := run_cases check 0 cs.
