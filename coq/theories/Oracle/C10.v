(* Oracle/C10.v -- case-file runner for C10: sat_project / sat values returned by the implementation
   vs. the model (Model/Satisfaction.v) and vs. the documented formulas (Spec/SatSpec.v). *)
From PB Require Export Model.Satisfaction Spec.SatSpec Oracle.Common.
Open Scope Q_scope.

(* measure ids (shared with harness/vharness/props/c10.py):
   1 Cardinality_Sat  2 Cost_Sat  3 Effort_Sat  4 Relative_Cardinality_Sat
   5 Relative_Cost_Approx_Normaliser_Sat  6 Additive_Cardinal_Sat  7 Additive_Borda_Sat
   8 CC_Sat (approval)  9 CC_Sat (cardinal)  10 Relative_Cost_Sat  11 Additive_Cardinal_Relative_Sat
   12 Cost_Sqrt_Sat  13 Cost_Log_Sat  14 Additive_Cost_Sqrt_Sat  15 Additive_Cost_Log_Sat
   (12..15 are outside the statement: only "a function of the set"; 14/15 additionally additive) *)

Record obs := mkObs {
  o_mid : nat;            (* measure id *)
  o_bal : ballot;         (* the ballot the measure object was built for *)
  o_pv : list Q;          (* sat_project(p) for p = 0 .. m-1 *)
  o_pv2 : list Q;         (* the same queries, asked again after the set queries *)
  o_sv : list Q;          (* sat(W) for the query sets of the case, in order *)
  o_sv2 : list Q          (* sat(W') for W' a re-ordering of W (other container type), asked afterwards *)
}.

Record case := mkCase {
  c_costs : list Q;
  c_budget : Q;
  c_prof : profile;               (* the ballots of the profile with multiplicities *)
  c_sets : list (list nat);       (* query sets (no repetitions inside a set) *)
  c_obs : list obs
}.

Definition I_of (c : case) : inst := mkInst (c_costs c) (c_budget c).

(* model: per-project function; None for measures that are not modelled (12..15) *)
Definition model_p (c : case) (mid : nat) (b : ballot) : option (proj -> Q) :=
  let I := I_of c in
  match mid with
  | 1 => Some (cardinality_p b)
  | 2 => Some (cost_p I b)
  | 3 => Some (effort_p I (c_prof c) b)
  | 4 => Some (rel_card_p I b)
  | 5 => Some (rel_cost_approx_p I b)
  | 6 => Some (add_card_p b)
  | 7 => Some (borda_p b)
  | 8 => Some (fun p => cc_app b [p])
  | 9 => Some (fun p => cc_card b [p])
  | 10 => Some (rel_cost_p (max_cost_bf (bcosts I b) (budget I)) I b)
  | 11 => Some (add_card_rel_p (max_score_bf (score_items I b) (budget I)) b)
  | _ => None
  end%nat.

Definition model_s (c : case) (mid : nat) (b : ballot) : option (list proj -> Q) :=
  match mid with
  | 8 => Some (cc_app b)
  | 9 => Some (cc_card b)
  | _ => match model_p c mid b with Some f => Some (sat_add f) | None => None end
  end%nat.

(* documented formula on sets *)
Definition spec_s (c : case) (mid : nat) (b : ballot) : option (list proj -> Q) :=
  let I := I_of c in
  match mid with
  | 1 => Some (card_spec b)
  | 2 => Some (cost_spec I b)
  | 3 => Some (effort_spec I (c_prof c) b)
  | 4 => Some (rel_card_spec I b)
  | 5 => Some (rel_cost_approx_spec I b)
  | 6 => Some (add_card_spec b)
  | 7 => Some (borda_spec b)
  | 8 => Some (cc_app_spec b)
  | 9 => Some (cc_card_spec b)
  | 10 => Some (rel_cost_spec I b)
  | 11 => Some (add_card_rel_spec I b)
  | _ => None
  end%nat.

Definition is_additive (mid : nat) : bool :=
  match mid with 8 | 9 | 12 | 13 => false | _ => true end%nat.

Definition Qlist_eqb (l1 l2 : list Q) : bool := list_eqb Qeqb l1 l2.

(* failure codes:  k*100 + measure id, with k =
   1 sat_project differs from the model          2 sat(W) differs from the model            (model)
   3 sat_project differs from the documented formula on {p}
   4 sat(W) differs from the documented formula
   5 sat(W) is not the sum of the implementation's own sat_project values (additive measures)
   6 sat(empty set) is not 0
   7 a repeated / re-ordered query returned a different value                             (oracle)
   8 malformed observation (wrong number of values)                                        (model) *)
Definition code (k mid : nat) : nat := (k * 100 + mid)%nat.

Definition check_obs (c : case) (o : obs) : list nat :=
  let mid := o_mid o in
  let b := o_bal o in
  let m := length (c_costs c) in
  let ps := seq 0 m in
  let sets := c_sets c in
  flag (Nat.eqb (length (o_pv o)) m && Nat.eqb (length (o_pv2 o)) m
        && Nat.eqb (length (o_sv o)) (length sets) && Nat.eqb (length (o_sv2 o)) (length sets)) (code 8 mid)
  ++ match model_p c mid b with
     | Some f => flag (Qlist_eqb (map f ps) (o_pv o)) (code 1 mid)
     | None => []
     end
  ++ match model_s c mid b with
     | Some F => flag (Qlist_eqb (map F sets) (o_sv o)) (code 2 mid)
     | None => []
     end
  ++ match spec_s c mid b with
     | Some F => flag (Qlist_eqb (map (fun p => F [p]) ps) (o_pv o)) (code 3 mid)
                 ++ flag (Qlist_eqb (map F sets) (o_sv o)) (code 4 mid)
     | None => []
     end
  ++ (if is_additive mid
      then flag (Qlist_eqb (map (fun W => Qsum (map (fun p => nth p (o_pv o) 0) W)) sets) (o_sv o)) (code 5 mid)
      else [])
  ++ flag (forallb (fun '(W, v) => match W with [] => Qeqb v 0 | _ => true end) (combine sets (o_sv o)))
          (code 6 mid)
  ++ flag (Qlist_eqb (o_pv o) (o_pv2 o) && Qlist_eqb (o_sv o) (o_sv2 o)) (code 7 mid).

Definition check (c : case) : list nat := flat_map (check_obs c) (c_obs c).

Definition run (cs : list case) : list (nat * nat) := run_cases check 0 cs.
