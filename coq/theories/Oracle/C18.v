(* Oracle/C18.v -- case-file runner for C18: the values returned by the statistics functions of
   pabutools.analysis vs. the textbook definitions (Spec/Stats.v, on the list of voters: oracle
   codes 1xx) and vs. the executable mirror of the code (Model/Analysis.v, on the ballots the
   profile object iterates over with their multiplicities: model codes 2xx). *)
From PB Require Export Spec.Stats Oracle.Common.
Open Scope Q_scope.

(* ---------- comparison of floats (given by their exact binary value) with exact rationals ---------- *)
Definition E9 : Q := 1000000000 # 1.
(* |a - b| <= 1e-9 |b| *)
Definition close (a b : Q) : bool := Qleb (Qabs (a - b) * E9) (Qabs b).
(* the float is the square root of v: x >= 0, x^2 within 1e-9 of v; for v = 0 the float may carry the rounding
   residue of the mean: x <= 1e-9 * scale *)
Definition close_sqrt (x v scale : Q) : bool :=
  Qleb 0 x && (if Qeqb v 0 then Qleb (x * E9) scale else close (x * x) v).

(* rational enclosure of exp(-t) for 0 <= t <= 1: partial sums of the alternating series
   (terms decrease in absolute value, so consecutive partial sums bracket the limit) *)
Fixpoint exp_neg_terms (t : Q) (i : nat) (term acc : Q) (fuel : nat) : Q * Q :=
  (* term = (-t)^i / i!, acc = S_i = sum of terms 0..i; returns (S_fuel', S_fuel'+1) consecutive sums *)
  match fuel with
  | O => (acc, Qred (acc + Qred (term * (- t) / Qnat (S i))))
  | S f => let term' := Qred (term * (- t) / Qnat (S i)) in
           exp_neg_terms t (S i) term' (Qred (acc + term')) f
  end.
(* (lower, upper): after an odd number of further terms the last sum is a lower bound *)
Definition exp_neg_bounds (t : Q) : Q * Q :=
  let '(a, b) := exp_neg_terms t 0 1 1 24 in   (* a = S_24 (upper), b = S_25 (lower) *)
  (b, a).
Definition close_exp_neg (x t : Q) : bool :=
  Qleb 0 t && Qleb t 1 &&
  let '(lo, hi) := exp_neg_bounds t in
  Qleb (lo * (E9 - 1)) (x * E9) && Qleb (x * E9) (hi * (E9 + 1)).

(* ---------- cases ---------- *)
Record satq := mkSatq {
  sq_alloc : list nat;           (* the budget allocation (outcome) the satisfaction refers to *)
  sq_meas : nat;                 (* 0 values given; 1 Cardinality_Sat; 2 Cost_Sat; 3 CC_Sat (recomputed here) *)
  sq_exact : bool;               (* exact-valued measure (false: float-valued, 1e-9 comparison) *)
  sq_voters : list Q;            (* satisfaction of every voter, aligned with c_ballots *)
  sq_classes : list Q;           (* satisfaction of every ballot of the profile object, aligned with c_classes *)
  sq_avg : option Q;             (* avg_satisfaction *)
  sq_neh : option Q;             (* percent_non_empty_handed (asked with measure 3 only) *)
  sq_pos : option Q;             (* percent_positive_satisfaction *)
  sq_gini : option (option Q);      (* gini_coefficient_of_satisfaction; Some None = ValueError *)
  sq_gini_inv : option (option Q);  (* ... invert=True *)
  sq_hist : list (nat * Q * list Q)   (* num_bins, max_satisfaction, returned list *)
}.

Record case := mkCase {
  c_costs : list Q;
  c_budget : Q;
  c_ballots : list bal;                (* the voters, one ballot each (what the generator made) *)
  c_classes : list (bal * nat);        (* what the profile object iterates over, with multiplicities *)
  c_alloc : list nat;                  (* allocation of the category_proportionality call *)
  c_exact : list (nat * Q);            (* function id, returned exact value *)
  c_float : list (nat * Q);            (* function id, returned float (exact binary value) *)
  c_vec : list (nat * list Q);         (* function id, returned values by project rank (matrix: row-major) *)
  c_satq : list satq;
  c_pcats : list (list nat);
  c_ncat : nat;
  c_catprop : option Q;                (* category_proportionality *)
  c_meanq : list (list (Q * nat) * Q); (* direct calls of utils.mean_generator *)
  c_giniq : list (list Q * option Q)   (* direct calls of utils.gini_coefficient; None = ValueError *)
}.

Definition I_of (c : case) : inst := mkInst (c_costs c) (c_budget c).

(* function ids
   1 sum_project_cost  2 funding_scarcity  3 avg_project_cost  4 median_project_cost  5 std_dev_project_cost
   6 avg_ballot_length  7 median_ballot_length  8 avg_ballot_cost  9 median_ballot_cost
   10 avg_approval_score  11 median_approval_score  12 avg_total_score  13 median_total_score
   14 approval_score per project  15 total_score per project  16 votes_count_by_project  17 voter_flow_matrix
   20 avg_satisfaction  21 percent_non_empty_handed  22 percent_positive_satisfaction
   23 gini_coefficient_of_satisfaction  24 ... inverted  25 satisfaction_histogram  26 satisfaction vectors
   27 category_proportionality  30 mean_generator  31 gini_coefficient  40 classes vs voters
   failure code = 100 + id (differs from the definition) / 200 + id (differs from the model) *)

Definition med0 (l : list Q) : Q := match l with [] => 0 | _ => median_os l end.

(* ----- definitions on the voters ----- *)
Definition spec_exact (c : case) (id : nat) : option Q :=
  let I := I_of c in let V := c_ballots c in
  match id with
  | 1%nat => Some (Qsum (costs I))
  | 2%nat => if Qltb 0 (budget I) then Some (Qsum (costs I) / budget I) else None
  | 3%nat => match costs I with [] => None | _ => Some (mean (costs I)) end
  | 6%nat => Some (mean (map blen V))
  | 8%nat => Some (mean (map (bcost I) V))
  | 10%nat => Some (mean (map (n_containing V) (all_projects I)))
  | 12%nat => Some (mean (map (score_sum V) (all_projects I)))
  | _ => None
  end.

Definition model_exact (c : case) (id : nat) : option Q :=
  let I := I_of c in let P := c_classes c in
  match id with
  | 1%nat => Some (sum_project_cost I)
  | 2%nat => funding_scarcity I
  | 3%nat => avg_project_cost I
  | 6%nat => Some (avg_ballot_length P)
  | 8%nat => Some (avg_ballot_cost I P)
  | 10%nat => Some (avg_approval_score I P)
  | 12%nat => Some (avg_total_score I P)
  | _ => None
  end.

(* float-valued functions: the exact value the float must be close to *)
Definition spec_float (c : case) (id : nat) : option Q :=
  let I := I_of c in let V := c_ballots c in
  match id with
  | 4%nat => match costs I with [] => None | _ => Some (median_os (costs I)) end
  | 7%nat => Some (med0 (map blen V))
  | 9%nat => Some (med0 (map (bcost I) V))
  | 11%nat => Some (med0 (map (n_containing V) (all_projects I)))
  | 13%nat => Some (med0 (map (score_sum V) (all_projects I)))
  | _ => None
  end.

Definition model_float (c : case) (id : nat) : option Q :=
  let I := I_of c in let P := c_classes c in
  match id with
  | 4%nat => match costs I with [] => None | _ => Some (median_project_cost I) end
  | 7%nat => Some (median_ballot_length P)
  | 9%nat => Some (median_ballot_cost I P)
  | 11%nat => Some (median_approval_score I P)
  | 13%nat => Some (median_total_score I P)
  | _ => None
  end.

Definition Qmaxabs (l : list Q) : Q := fold_right (fun x m => if Qleb m (Qabs x) then Qabs x else m) 0 l.

Definition check_float (c : case) (e : nat * Q) : list nat :=
  let '(id, r) := e in
  if Nat.eqb id 5 then
    let cs := c_costs c in
    flag (match cs with [] => false | _ => close_sqrt r (variance cs) (Qmaxabs cs) end) 105
    ++ flag (match cs with [] => false | _ => close_sqrt r (var_project_cost (I_of c)) (Qmaxabs cs) end) 205
  else
    flag (match spec_float c id with Some v => close r v | None => false end) (100 + id)
    ++ flag (match model_float c id with Some v => close r v | None => false end) (200 + id).

Definition check_exact (c : case) (e : nat * Q) : list nat :=
  let '(id, r) := e in
  flag (match spec_exact c id with Some v => Qeqb r v | None => false end) (100 + id)
  ++ flag (match model_exact c id with Some v => Qeqb r v | None => false end) (200 + id).

Definition qlist_eqb := list_eqb Qeqb.

Definition spec_vec (c : case) (id : nat) : option (list Q) :=
  let I := I_of c in let V := c_ballots c in let ps := all_projects I in
  match id with
  | 14%nat => Some (map (n_containing V) ps)
  | 15%nat => Some (map (score_sum V) ps)
  | 16%nat => Some (map (n_containing V) ps)
  | 17%nat => Some (flat_map (fun a => map (flow V a) ps) ps)
  | _ => None
  end.
Definition model_vec (c : case) (id : nat) : option (list Q) :=
  let I := I_of c in let P := c_classes c in let ps := all_projects I in
  match id with
  | 14%nat => Some (map (approval_score P) ps)
  | 15%nat => Some (map (total_score P) ps)
  | 16%nat => Some (map (votes_count P) ps)
  | 17%nat => Some (flat_map (fun a => map (voter_flow P a) ps) ps)
  | _ => None
  end.
Definition check_vec (c : case) (e : nat * list Q) : list nat :=
  let '(id, r) := e in
  flag (match spec_vec c id with Some v => qlist_eqb r v | None => false end) (100 + id)
  ++ flag (match model_vec c id with Some v => qlist_eqb r v | None => false end) (200 + id).

(* ----- satisfaction statistics ----- *)
Definition cmp (exact : bool) (r v : Q) : bool := if exact then Qeqb r v else close r v.
Definition ocmp (exact : bool) (r : option Q) (v : option Q) : bool :=
  match r with
  | None => true                       (* not asked *)
  | Some x => match v with Some y => cmp exact x y | None => false end
  end.

(* answers that may be an exception: None = not asked, Some None = raised *)
Definition ocmp_r (exact : bool) (r : option (option Q)) (v : option Q) : bool :=
  match r with
  | None => true
  | Some None => match v with None => true | Some _ => false end
  | Some (Some x) => match v with Some y => cmp exact x y | None => false end
  end.
(* Gini of the voters' satisfactions: undefined (ValueError) as soon as one voter has a negative satisfaction *)
Definition gini_def (S : list Q) (inv : bool) : option Q :=
  if existsb (fun v => Qltb v 0) S then None else Some (if inv then 1 - gini S else gini S).

(* the three approval measures the oracle recomputes from the ballots *)
Definition sat_def (I : inst) (W : list nat) (meas : nat) (b : bal) : Q :=
  let common := filter (fun p => memb p W) (bprojs b) in
  if Nat.eqb meas 1 then Qnat (length common)
  else if Nat.eqb meas 2 then tcost I common
  else match common with [] => 0 | _ => 1 end.

Definition sorted_eqb (a b : list Q) : bool := qlist_eqb (isort Qleb a) (isort Qleb b).

Definition close_list (r v : list Q) : bool :=
  Nat.eqb (length r) (length v) && forallb (fun '(x, y) => close x y) (combine r v).

Definition check_hist (S : list Q) (Sc : sats) (h : nat * Q * list Q) : list nat :=
  let '(k, mx, r) := h in
  flag (close_list r (histogram k mx S)) 125
  ++ flag (close_list r (satisfaction_histogram k mx Sc)) 225.

Definition check_satq (c : case) (s : satq) : list nat :=
  let I := I_of c in
  let S := sq_voters s in
  let Sc := combine (sq_classes s) (map snd (c_classes c)) in
  let ex := sq_exact s in
  flag (Nat.eqb (length S) (length (c_ballots c)) && Nat.eqb (length (sq_classes s)) (length (c_classes c))
        && sorted_eqb (expandQ Sc) S
        && (Nat.eqb (sq_meas s) 0 || qlist_eqb S (map (sat_def I (sq_alloc s) (sq_meas s)) (c_ballots c)))) 126
  ++ flag (ocmp ex (sq_avg s) (Some (mean S))) 120
  ++ flag (ocmp ex (sq_avg s) (Some (avg_satisfaction Sc))) 220
  ++ flag (ocmp ex (sq_neh s) (Some (share_positive S))) 121
  ++ flag (ocmp ex (sq_neh s) (Some (avg_satisfaction Sc))) 221
  ++ flag (ocmp true (sq_pos s) (match S with [] => None | _ => Some (share_positive S) end)) 122
  ++ flag (ocmp true (sq_pos s) (percent_positive_satisfaction Sc)) 222
  ++ flag (ocmp_r ex (sq_gini s) (gini_def S false)) 123
  ++ flag (ocmp_r ex (sq_gini s) (gini_of_satisfaction Sc false)) 223
  ++ flag (ocmp_r ex (sq_gini_inv s) (gini_def S true)) 124
  ++ flag (ocmp_r ex (sq_gini_inv s) (gini_of_satisfaction Sc true)) 224
  ++ flat_map (check_hist S Sc) (sq_hist s).

(* ----- category proportionality ----- *)
Definition check_cat (c : case) : list nat :=
  match c_catprop c with
  | None => []
  | Some x =>
    let I := I_of c in
    match c_alloc c with
    | [] => flag (Qeqb x 0) 127
    | _ => flag (close_exp_neg x (cat_msd I (c_pcats c) (c_ncat c) (c_ballots c) (c_alloc c))) 127
    end
    ++ flag (match category_msd I (c_pcats c) (c_ncat c) (c_classes c) (c_alloc c) with
             | CatRaise => false
             | CatZero => Qeqb x 0
             | CatMsd t => close_exp_neg x t
             end) 227
  end.

(* ----- direct calls of the two helpers ----- *)
Definition check_meanq (e : list (Q * nat) * Q) : list nat :=
  let '(l, r) := e in
  flag (Qeqb r (wmean l)) 130 ++ flag (Qeqb r (mean_generator l)) 230.
Definition check_giniq (e : list Q * option Q) : list nat :=
  let '(l, r) := e in
  flag (match r with
        | None => existsb (fun v => Qltb v 0) l
        | Some g => negb (existsb (fun v => Qltb v 0) l) && Qeqb g (gini l)
        end) 131
  ++ flag (opt_eqb Qeqb r (gini_coefficient l)) 231.

(* the ballots the profile object iterates over, repeated by multiplicity, are the voters' ballots *)
Definition bal_key (b : bal) : list (nat * Q) := b.
Fixpoint bal_eqb (a b : bal) : bool :=
  match a, b with
  | [], [] => true
  | (p, x) :: r, (q, y) :: s => Nat.eqb p q && Qeqb x y && bal_eqb r s
  | _, _ => false
  end.
Fixpoint remove_first (b : bal) (l : list bal) : option (list bal) :=
  match l with
  | [] => None
  | x :: r => if bal_eqb b x then Some r
              else match remove_first b r with Some r' => Some (x :: r') | None => None end
  end.
Fixpoint multiset_eqb (a b : list bal) : bool :=
  match a with
  | [] => match b with [] => true | _ => false end
  | x :: r => match remove_first x b with Some b' => multiset_eqb r b' | None => false end
  end.

Definition check (c : case) : list nat :=
  flag (multiset_eqb (expandP (c_classes c)) (c_ballots c)) 140
  ++ flat_map (check_exact c) (c_exact c)
  ++ flat_map (check_float c) (c_float c)
  ++ flat_map (check_vec c) (c_vec c)
  ++ flat_map (check_satq c) (c_satq c)
  ++ check_cat c
  ++ flat_map check_meanq (c_meanq c)
  ++ flat_map check_giniq (c_giniq c).

Definition run (cs : list case) : list (nat * nat) := run_cases check 0 cs.
