(* Oracle/C13.v -- case-file runner for C13 (outcomes are a function of the election alone).

   The harness runs every call (rule x satisfaction measure x tie-breaking rule) of a case on every
   PRESENTATION of the election (voters permuted / projects inserted in another order / costs and budget
   multiplied by k / all three) in SEPARATE interpreters, one per PYTHONHASHSEED, some of them twice
   in a row, and hands over the canonicalised outcome of every single run:
     set-valued rules      [o_set] = the selected projects (ranks in name order), [o_val] = 0
     the welfare maximiser [o_set] = []  and  [o_val] = total satisfaction of the returned allocation,
                           divided by the scale factor for the measures that are proportional to cost
                           (optimal sets may legitimately differ, the optimum may not).
   [check] decides equality of all of them; nothing else is trusted to the harness but the encoding.
   Phragmen calls are in addition compared with Model/Phragmen.v (the model the C13 theorems talk
   about). *)
From PB Require Export Model.Phragmen Oracle.Common.
Open Scope Q_scope.

Record outv := mkO { o_set : list nat; o_val : Q }.

Record call := mkCall {
  k_cross : bool;                            (* compared across presentations, too (else: seeds, repetition) *)
  k_phr : option nat;                        (* Some t: sequential Phragmen with shipped tie-breaking t
                                                (0 lexico, 1 app_score, 2 min_cost, 3 max_cost) *)
  k_runs : list (list (outv * option outv))  (* [hash seed][presentation] -> (outcome, outcome of the repetition) *)
}.

Record case := mkCase {
  c_costs : list Q; c_budget : Q;            (* the election as PRESENTED FIRST (scale 1, rank order) *)
  c_ballots : list (list nat * nat);         (* approval ballots of presentation 0 with their multiplicities
                                                ([] for other ballot types / electorates too large for nat) *)
  c_pk : list nat;                           (* kind of every presentation: 0 the first one, 1 voters permuted,
                                                2 projects inserted in another order, 3 costs and budget scaled,
                                                4 all three, 5 the same election evaluated AFTER other elections
                                                on the same Instance / profile / Project objects (process history) *)
  c_calls : list call
}.

Definition outv_eqb (a b : outv) : bool := set_eqb (o_set a) (o_set b) && Qeqb (o_val a) (o_val b).

(* 1: the same call twice in one process *)
Definition twice_ok (k : call) : bool :=
  forallb (forallb (fun xy : outv * option outv =>
                      match snd xy with None => true | Some y => outv_eqb (fst xy) y end)) (k_runs k).

Definition row_eqb (r0 r : list (outv * option outv)) : bool :=
  Nat.eqb (length r0) (length r)
  && forallb (fun xy => outv_eqb (fst (fst xy)) (fst (snd xy))) (combine r0 r).

(* 2: every interpreter (hash seed) agrees with the first one, presentation by presentation *)
Definition seeds_ok (k : call) : bool :=
  match k_runs k with
  | [] => true
  | r0 :: rs => forallb (row_eqb r0) rs
  end.

(* 3..6: within every interpreter, every presentation of kind [kd] agrees with the first presentation *)
Definition pres_ok (kd : nat) (pk : list nat) (k : call) : bool :=
  negb (k_cross k) ||
  forallb (fun r => match r with
                    | [] => true
                    | b :: _ => forallb (fun kx : nat * (outv * option outv) =>
                                           negb (Nat.eqb (fst kx) kd) || outv_eqb (fst b) (fst (snd kx)))
                                        (combine pk r)
                    end) (k_runs k).

Definition shape_ok (pk : list nat) (k : call) : bool :=
  negb (Nat.eqb (length (k_runs k)) 0)
  && forallb (fun r => Nat.eqb (length r) (length pk)) (k_runs k).

(* the model of sequential Phragmen on presentation 0 *)
Definition tb_of (I : inst) (P : list aballot) (t : nat) : proj -> Q :=
  match t with
  | O => tb_lexico
  | 1%nat => tb_app_score P
  | 2%nat => tb_min_cost I
  | _ => tb_max_cost I
  end.

Definition phr_model (c : case) (t : nat) : option (list nat) :=
  let I := mkInst (c_costs c) (c_budget c) in
  let P := map (fun b => mkA (fst b) (snd b)) (c_ballots c) in
  phragmen_res I P (tb_of I P t) (all_projects I) (zero_loads P) [].

Definition model_ok (c : case) (k : call) : bool :=
  match k_phr k, k_runs k with
  | Some t, (x :: _) :: _ =>
      match phr_model c t with
      | Some W => set_eqb W (o_set (fst x))
      | None => false
      end
  | _, _ => true
  end.

(* failure codes
   1 repetition differs   2 hash seeds differ   3 voter order   4 project insertion order   5 scaling
   6 combined presentation   7 malformed case (harness)   8 Phragmen outcome differs from Model/Phragmen.v
   9 the outcome depends on what was computed before on the same objects (process history) *)
Definition check (c : case) : list nat :=
  let ks := c_calls c in
  flag (forallb twice_ok ks) 1
  ++ flag (forallb seeds_ok ks) 2
  ++ flag (forallb (pres_ok 1 (c_pk c)) ks) 3
  ++ flag (forallb (pres_ok 2 (c_pk c)) ks) 4
  ++ flag (forallb (pres_ok 3 (c_pk c)) ks) 5
  ++ flag (forallb (pres_ok 4 (c_pk c)) ks) 6
  ++ flag (forallb (shape_ok (c_pk c)) ks) 7
  ++ flag (forallb (model_ok c) ks) 8
  ++ flag (forallb (pres_ok 5 (c_pk c)) ks) 9.

Definition run (cs : list case) : list (nat * nat) := run_cases check 0 cs.
