(* Oracle/C03.v -- case-file runner for C03 (greedy welfare rule).
   The harness passes, read exactly from the implementation's own objects: total_satisfaction of every subset of the
   instance (indexed by bitmask), total_satisfaction_project per project, the tie-breaking key per project, and the
   returned allocation(s). *)
From PB Require Export Model.GreedyRule Model.InstanceM Oracle.Common.
Open Scope Q_scope.

Record case := mkCase {
  c_costs : list Q;
  c_budget : Q;
  c_sattab : list Q;          (* total_satisfaction(S) at index sum_{p in S} 2^p, all 2^n subsets *)
  c_sp : list Q;              (* total_satisfaction_project by rank *)
  c_tb : list Q;              (* tie-breaking key by rank *)
  c_init : list nat;          (* initial budget allocation *)
  c_additive : bool;          (* effective is_sat_additive (which scheme ran) *)
  c_resolute : bool;
  c_claim_run : bool;         (* the property claims "outcome of the greedy run of sat": general scheme, or fast path
                                 with a measure that really is additive *)
  c_out : list (list nat);    (* resolute: [returned list, in returned order]; irresolute: the returned list *)
  c_refuse : option (bool * bool)
                              (* Some (raised, judge_everywhere) when tie_breaking = refuse_tie_breaking: did the call
                                 raise TieBreakingException; is the answer judged on every election or only where the
                                 code at HEAD and the definition agree (see [refuse_region]) *)
}.

Definition I_of (c : case) : inst := mkInst (c_costs c) (c_budget c).

Definition mask (W : list nat) : nat := fold_right (fun p acc => (Nat.pow 2 p + acc)%nat) O W.
Definition sat_of (c : case) (W : list nat) : Q := nth (mask W) (c_sattab c) 0.
Definition sp_of (c : case) : proj -> Q := key_of_list (c_sp c).
Definition tb_of (c : case) : proj -> Q := key_of_list (c_tb c).

(* ---- boolean restatement of Spec/GreedySpec.v: replay of a run along a given purchase order ---- *)
Section Replay.
Variables (I : inst) (sat : list proj -> Q) (tb : proj -> Q).

Definition fitsb (alloc : list proj) (p : proj) : bool :=
  Nat.ltb p (nproj I) && negb (memb p alloc) && Qleb (tcost I alloc + cost I p) (budget I).

Definition tb_firstb (alloc : list proj) (p : proj) : bool :=
  let cands := filter (fitsb alloc) (all_projects I) in
  let d := mdens I sat alloc in
  fitsb alloc p
  && forallb (fun q => Qx_leb (d q) (d p)) cands
  && forallb (fun q => negb (Qx_leb (d p) (d q))
                       || Qltb (tb p) (tb q) || (Qeqb (tb p) (tb q) && Nat.leb p q)) cands.

Fixpoint replayb (alloc rest : list proj) : bool :=
  match rest with
  | [] => forallb (fun q => negb (fitsb alloc q)) (all_projects I)
  | p :: r => tb_firstb alloc p && replayb (alloc ++ [p]) r
  end.
End Replay.

Fixpoint prefixb (a l : list nat) : bool :=
  match a, l with
  | [], _ => true
  | x :: r, y :: t => Nat.eqb x y && prefixb r t
  | _ :: _, [] => false
  end.

(* failure codes
   1 oracle  a returned allocation is not exhaustive
   2 oracle  resolute outcome is not the outcome of the greedy run of the definition (neither along the returned
             order nor as a set)
   3 model   resolute outcome differs (as a set) from the model of the scheme that ran
   4 model   irresolute outcomes differ (as a set of sets) from the model
   5 model   malformed observation (resolute call with not exactly one allocation) *)
(* ---- refuse_tie_breaking: "raises TieBreakingException iff some round of the greedy definition has two or more
   tied best candidates, otherwise the outcome" (no key is ever needed then).
   None = fuel ran out (never); Some None = a round with a tie: must raise; Some (Some W) = the outcome ---- *)
Fixpoint refuse_run (I : inst) (sat : list proj -> Q) (fuel : nat) (feas alloc : list proj)
  : option (option (list proj)) :=
  match feas with
  | [] => Some (Some alloc)
  | _ :: _ =>
      match fuel with
      | O => None
      | S fuel' =>
          match argmax_all Qx_leb (mdens I sat alloc) feas with
          | [s] => refuse_run I sat fuel' (next_feasible I feas alloc s) (alloc ++ [s])
          | _ => Some None
          end
      end
  end.

(* where every reading agrees: the very first round already has a tie (definition: raise; the code consults the rule),
   or there is no project outside the initial allocation (nothing to do, the rule is never consulted) *)
Definition refuse_region (I : inst) (sat : list proj -> Q) (init : list proj) : bool :=
  Nat.leb 2 (length (argmax_all Qx_leb (mdens I sat init) (initial_feasible I init)))
  || forallb (fun p => memb p init) (all_projects I).

Definition check_refuse (c : case) (raised full : bool) : list nat :=
  let I := I_of c in
  let sat := sat_of c in
  let feas := initial_feasible I (c_init c) in
  match refuse_run I sat (length feas) feas (c_init c) with
  | None => [5%nat]
  | Some expected =>
      if full || refuse_region I sat (c_init c) then
        match expected with
        | None => flag raised 7
        | Some W =>
            flag (negb raised) 7
            ++ (if raised then []
                else flag (forallb (fun W' => is_exhaustive I W' (all_projects I)) (c_out c)) 1
                     ++ flag (setset_eqb (c_out c) [W]) 2)
        end
      else []
  end.

(* failure code 7 (oracle): under refuse_tie_breaking the call raised although no round of the definition has a tie,
   or returned although some round has one *)
Definition check_plain (c : case) : list nat :=
  let I := I_of c in
  let sat := sat_of c in
  let exh := forallb (fun W => is_exhaustive I W (all_projects I)) (c_out c) in
  flag exh 1 ++
  if c_resolute c then
    match c_out c with
    | [W] =>
        (if c_claim_run c then
           flag ((prefixb (c_init c) W && replayb I sat (tb_of c) (c_init c) (skipn (length (c_init c)) W))
                 || opt_eqb set_eqb (greedy_gen_res I sat (tb_of c) (c_init c)) (Some W)) 2
         else [])
        ++ flag (opt_eqb set_eqb (greedy_welfare_res I sat (sp_of c) (tb_of c) (c_additive c) (c_init c)) (Some W)) 3
    | _ => [5%nat]
    end
  else
    match greedy_welfare_irr I sat (tb_of c) (c_additive c) (c_init c) with
    | Some Ws => flag (setset_eqb Ws (c_out c)) 4
    | None => [4%nat]
    end.

Definition check (c : case) : list nat :=
  match c_refuse c with
  | Some (raised, full) => check_refuse c raised full
  | None => check_plain c
  end.

Definition run (cs : list case) : list (nat * nat) := run_cases check 0 cs.
