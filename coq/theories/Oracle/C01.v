(* Oracle/C01.v -- case-file runner for C01: every returned allocation is a feasible set of
   distinct instance projects containing the initial allocation. *)
From PB Require Export Base.Election Oracle.Common.
Open Scope Q_scope.

Record case := mkCase {
  c_costs : list Q;
  c_budget : Q;
  c_init : list nat;               (* initial allocation given to the rule *)
  c_outs : list (list nat)         (* returned allocation(s): one if resolute *)
}.

Definition I_of (c : case) : inst := mkInst (c_costs c) (c_budget c).

(* codes: 1 a project twice   2 a project that is not in the instance
          3 initial allocation not included   4 total cost above the budget limit *)
Definition check_out (I : inst) (init W : list nat) : list nat :=
  flag (nodupb W) 1
  ++ flag (forallb (fun p => Nat.ltb p (nproj I)) W) 2
  ++ flag (forallb (fun p => memb p W) init) 3
  ++ flag (Qleb (tcost I W) (budget I)) 4.

Definition check (c : case) : list nat :=
  flat_map (check_out (I_of c) (c_init c)) (c_outs c).

Definition run (cs : list case) : list (nat * nat) := run_cases check 0 cs.

Definition out_ok (I : inst) (init W : list nat) : bool :=
  match check_out I init W with [] => true | _ => false end.
