(* Oracle/C08.v -- case-file runner for C08 (irresolute outcomes = outcomes of all tie-breaking orders).
   The harness passes, for one election and one rule, the implementation's OWN returns:
     c_irr     the list returned with resoluteness=False (as returned: duplicates are kept)
     c_irr2    the same call under a second tie-breaking rule (the SET must not depend on the rule)
     c_perm    the resolute returns under ALL m! permutation tie-breaking rules
               (TieBreakingRule(lambda inst, prof, p: position of p in pi)), one entry per distinct outcome
     c_shipped the resolute returns under the shipped tie-breaking rules (with the key the rule computed)
     c_sample  a few (pi, resolute return under pi) for the comparison with the model under [rank_in pi]
   and decides the property on them with the booleans of Oracle/Common.v ([oracle_ok]; its meaning is
   proved in Proofs/IrresoluteP.v: [oracle_ok_iff]).  When the case carries the inputs of a Gallina model
   (c_model) the implementation's lists are also compared with the model's (correspondence). *)
From PB Require Export Base.RankIn Model.Phragmen Model.GreedyRule Model.MesRule Oracle.Common.
Open Scope Q_scope.

Inductive minput :=
| MNone
| MPhr (ballots : list (list nat * nat)) (loads : list Q)
                                                     (* approved ranks, multiplicity -- as enumerated by the profile;
                                                        initial_loads (zeros when the parameter is None) *)
| MGreedy (sattab : list Q) (sp : list Q) (additive : bool)
                                                     (* total_satisfaction of every subset (bitmask index),
                                                        total_satisfaction_project, which scheme runs when resolute *)
| MMes (voters : list (list Q * nat)) (enum : list nat) (bin : bool).
                                                     (* per MESVoter: sat_project by rank, multiplicity *)

Record case := mkCase {
  c_costs : list Q;
  c_budget : Q;
  c_init : list nat;
  c_irr : list (list nat);
  c_irr2 : list (list nat);
  c_perm : list (list nat);
  c_shipped : list (list Q * list nat);   (* key by rank, resolute return *)
  c_sample : list (list nat * list nat);  (* permutation, resolute return *)
  c_irrkey : list Q;                       (* key by rank of the rule used for c_irr *)
  c_model : minput
}.

Definition I_of (c : case) : inst := mkInst (c_costs c) (c_budget c).

(* ---------- the property on the implementation's own lists ---------- *)

(* no allocation twice *)
Definition irr_nodup (irr : list (list nat)) : bool := nodupb_list (map canon irr).
(* every irresolute allocation is the resolute outcome of some order *)
Definition irr_sub (irr perm : list (list nat)) : bool :=
  let P := map canon perm in forallb (fun W => memb_list W P) (map canon irr).
(* the resolute outcome of every order is one of the irresolute allocations *)
Definition perm_sub (irr perm : list (list nat)) : bool :=
  let A := map canon irr in forallb (fun W => memb_list W A) (map canon perm).
Definition oracle_ok (irr perm : list (list nat)) : bool :=
  irr_nodup irr && irr_sub irr perm && perm_sub irr perm.

(* ---------- the models ---------- *)

Definition mask (W : list nat) : nat := fold_right (fun p acc => (Nat.pow 2 p + acc)%nat) O W.

Definition model_irr (c : case) (tb : proj -> Q) : option (option (list (list nat))) :=
  let I := I_of c in
  match c_model c with
  | MNone => None
  | MPhr bs loads =>
      let P := map (fun '(s, k) => mkA s k) bs in
      Some (phragmen_irr I P tb (all_projects I) loads (c_init c))
  | MGreedy tab sp additive =>
      Some (greedy_welfare_irr I (fun W => nth (mask W) tab 0) tb additive (c_init c))
  | MMes vs enum bin =>
      Some (mes_irresolute (mkIn (c_costs c) (c_budget c) (map (fun um => mkV (fst um) (snd um)) vs)
                                 tb enum bin (c_init c)))
  end.

Definition model_res (c : case) (tb : proj -> Q) : option (option (list nat)) :=
  let I := I_of c in
  match c_model c with
  | MNone => None
  | MPhr bs loads =>
      let P := map (fun '(s, k) => mkA s k) bs in
      Some (phragmen_res I P tb (all_projects I) loads (c_init c))
  | MGreedy tab sp additive =>
      Some (greedy_welfare_res I (fun W => nth (mask W) tab 0) (key_of_list sp) tb additive (c_init c))
  | MMes vs enum bin =>
      Some (option_map o_alloc
              (mes_resolute (mkIn (c_costs c) (c_budget c) (map (fun um => mkV (fst um) (snd um)) vs)
                                  tb enum bin (c_init c))))
  end.

Definition res_agrees (c : case) (tb : proj -> Q) (W : list nat) : bool :=
  match model_res c tb with
  | None => true
  | Some (Some M) => set_eqb M W
  | Some None => false
  end.

(* failure codes
   1 oracle  the irresolute list contains the same allocation twice
   2 oracle  an irresolute allocation is not the resolute outcome of any strict order (extra outcome)
   3 oracle  the resolute outcome of some strict order is missing from the irresolute list
   4 oracle  the resolute outcome under a shipped tie-breaking rule is not in the irresolute list
   5 model   the irresolute list differs (set of sets) from the Gallina model's
   6 oracle  the irresolute SET depends on the tie-breaking rule passed to the irresolute call
   7 model   a resolute outcome under [rank_in pi] / a shipped key differs from the Gallina model's *)
Definition check (c : case) : list nat :=
  flag (irr_nodup (c_irr c)) 1
  ++ flag (irr_sub (c_irr c) (c_perm c)) 2
  ++ flag (perm_sub (c_irr c) (c_perm c)) 3
  ++ flag (perm_sub (c_irr c) (map snd (c_shipped c))) 4
  ++ flag (match model_irr c (key_of_list (c_irrkey c)) with
           | None => true
           | Some (Some Ws) => setset_eqb Ws (c_irr c)
           | Some None => false
           end) 5
  ++ flag (setset_eqb (c_irr c) (c_irr2 c)) 6
  ++ flag (forallb (fun '(pi, W) => res_agrees c (rank_in pi) W) (c_sample c)
           && forallb (fun '(ks, W) => res_agrees c (key_of_list ks) W) (c_shipped c)) 7.

Definition run (cs : list case) : list (nat * nat) := run_cases check 0 cs.
