(* Base/QExt.v -- rational-number helpers shared by all models.
   Stdlib only.  Q is a setoid ([==]); executable models keep values reduced with [Qred]. *)
From Coq Require Export QArith Qminmax Lia Lqa List Bool ZArith Permutation.
Export ListNotations.
Open Scope Q_scope.

(* Sum of a list of rationals (Python's [sum(...)], starting from 0). *)
Fixpoint Qsum (l : list Q) : Q :=
  match l with
  | [] => 0
  | x :: r => x + Qsum r
  end.

Definition Qsum_map {A} (f : A -> Q) (l : list A) : Q := Qsum (map f l).

Definition Qeqb (a b : Q) : bool := Qeq_bool a b.
Definition Qleb (a b : Q) : bool := Qle_bool a b.
Definition Qltb (a b : Q) : bool := negb (Qle_bool b a).

Lemma Qleb_iff a b : Qleb a b = true <-> a <= b.
Proof. apply Qle_bool_iff. Qed.

Lemma Qleb_false_iff a b : Qleb a b = false <-> b < a.
Proof.
  unfold Qleb. split; intro H.
  - apply Qnot_le_lt. intro Hle. apply Qle_bool_iff in Hle. congruence.
  - destruct (Qle_bool a b) eqn:E; [|reflexivity].
    apply Qle_bool_iff in E. exfalso. apply (Qlt_not_le _ _ H E).
Qed.

Lemma Qltb_iff a b : Qltb a b = true <-> a < b.
Proof.
  unfold Qltb. rewrite negb_true_iff. apply Qleb_false_iff.
Qed.

Lemma Qltb_false_iff a b : Qltb a b = false <-> b <= a.
Proof.
  unfold Qltb. rewrite negb_false_iff. apply Qle_bool_iff.
Qed.

Lemma Qeqb_iff a b : Qeqb a b = true <-> a == b.
Proof. apply Qeq_bool_iff. Qed.

Lemma Qeqb_false_iff a b : Qeqb a b = false <-> ~ a == b.
Proof.
  unfold Qeqb. split; intro H.
  - intro E. apply Qeq_bool_iff in E. congruence.
  - destruct (Qeq_bool a b) eqn:E; [|reflexivity]. apply Qeq_bool_iff in E. contradiction.
Qed.

Lemma Qsum_app l1 l2 : Qsum (l1 ++ l2) == Qsum l1 + Qsum l2.
Proof. induction l1 as [|x l1 IH]; simpl; [ring | rewrite IH; ring]. Qed.

Lemma Qsum_nonneg l : Forall (fun x => 0 <= x) l -> 0 <= Qsum l.
Proof.
  induction 1 as [|x l Hx _ IH]; simpl; [apply Qle_refl|].
  apply (Qplus_le_compat 0 x 0 (Qsum l)) in Hx; [|exact IH].
  now rewrite Qplus_0_l in Hx.
Qed.

Global Instance Qsum_perm_proper : Proper (@Permutation Q ==> Qeq) Qsum.
Proof.
  intros l1 l2 HP. induction HP as [|x l l' _ IH|x y l|l l' l'' _ IH1 _ IH2]; simpl.
  - reflexivity.
  - rewrite IH. reflexivity.
  - ring.
  - rewrite IH1. exact IH2.
Qed.

(* Extended rationals: Python's float('inf') next to exact fractions. *)
Inductive Qx := Fin (q : Q) | PInf.

Definition Qx_leb (a b : Qx) : bool :=
  match a, b with
  | _, PInf => true
  | PInf, Fin _ => false
  | Fin x, Fin y => Qleb x y
  end.
Definition Qx_eqb (a b : Qx) : bool :=
  match a, b with
  | PInf, PInf => true
  | Fin x, Fin y => Qeqb x y
  | _, _ => false
  end.
Definition Qx_ltb (a b : Qx) : bool := negb (Qx_leb b a).
