(* Base/RankIn.v -- a strict order over the projects as a tie-breaking key (DEFINITIONS ONLY).
   A permutation [pi] of the projects, read as "earlier in [pi] wins", is the tie-breaking rule
   TieBreakingRule(lambda inst, prof, p: position of p in pi): its key is [rank_in pi].
   Used by Proofs/ChoiceProcess.v, Proofs/IrresoluteP.v (C08) and Oracle/C08.v. *)
From PB Require Export Base.Election.
Open Scope Q_scope.

(* position of the first occurrence of [p] in [l]; [length l] when [p] does not occur *)
Fixpoint pos_in (p : nat) (l : list nat) : nat :=
  match l with
  | [] => O
  | x :: r => if Nat.eqb x p then O else S (pos_in p r)
  end.

Definition rank_in (pi : list proj) (p : proj) : Q := Qnat (pos_in p pi).
