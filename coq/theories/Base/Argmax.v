(* Base/Argmax.v -- "argmax with ties" as the Python code writes it everywhere:

       best = None; arg = []
       for x in l:
           v = f(x)
           if best is None or v > best:  best = v; arg = [x]
           elif v == best:               arg.append(x)

   over any value type with a boolean total preorder [leb] ([v > best] is [negb (leb v best)], [v == best] after
   [v <= best] is [leb best v]).  Used by Model/GreedyRule.v (marginal densities, Qx) and Model/Composition.v
   (satisfactions, Q; supports, nat).  Main fact: the scan returns [filter (is_max l) l], i.e. exactly the maximisers,
   in order of first occurrence. Stdlib only. *)
From PB Require Export Base.QExt Base.ListExt.

Section Argmax.
Variables (A V : Type) (leb : V -> V -> bool) (f : A -> V).

Fixpoint argmax_scan (l : list A) (best : option V) (acc : list A) : list A :=
  match l with
  | [] => acc
  | x :: r =>
      match best with
      | None => argmax_scan r (Some (f x)) [x]
      | Some b =>
          if negb (leb (f x) b) then argmax_scan r (Some (f x)) [x]
          else if leb b (f x) then argmax_scan r best (acc ++ [x])
          else argmax_scan r best acc
      end
  end.

Definition argmax_all (l : list A) : list A := argmax_scan l None [].

(* x attains the maximum of f over l *)
Definition is_max (l : list A) (x : A) : bool := forallb (fun y => leb (f y) (f x)) l.

Lemma filter_all_true (p : A -> bool) l : (forall x, In x l -> p x = true) -> filter p l = l.
Proof.
  induction l as [|a r IH]; intros H; simpl; [reflexivity|].
  rewrite (H a (or_introl eq_refl)). f_equal. apply IH. intros x Hx. apply H. right. exact Hx.
Qed.

Lemma filter_all_false (p : A -> bool) l : (forall x, In x l -> p x = false) -> filter p l = [].
Proof.
  induction l as [|a r IH]; intros H; simpl; [reflexivity|].
  rewrite (H a (or_introl eq_refl)). apply IH. intros x Hx. apply H. right. exact Hx.
Qed.

Hypothesis leb_total : forall x y, leb x y = true \/ leb y x = true.
Hypothesis leb_trans : forall x y z, leb x y = true -> leb y z = true -> leb x z = true.

Lemma leb_refl x : leb x x = true.
Proof. destruct (leb_total x x); assumption. Qed.

Lemma argmax_scan_spec : forall l b acc,
  (forall x, In x acc -> leb b (f x) = true /\ leb (f x) b = true) ->
  argmax_scan l (Some b) acc = filter (fun x => leb b (f x) && is_max l x) (acc ++ l).
Proof.
  induction l as [|x r IH]; intros b acc Hacc.
  - simpl. rewrite app_nil_r. symmetry. apply filter_all_true.
    intros z Hz. destruct (Hacc z Hz) as [H _]. rewrite H. reflexivity.
  - cbn [argmax_scan]. destruct (leb (f x) b) eqn:Exb; cbn [negb].
    + destruct (leb b (f x)) eqn:Ebx.
      * (* tie: x joins acc *)
        rewrite IH.
        -- rewrite <- app_assoc. cbn [app]. apply filter_ext_in. intros z Hz.
           unfold is_max. cbn [forallb].
           destruct (leb b (f z)) eqn:Ebz; [|reflexivity]. cbn [andb].
           assert (E : leb (f x) (f z) = true) by (eapply leb_trans; eassumption).
           rewrite E. reflexivity.
        -- intros z Hz. apply in_app_iff in Hz. destruct Hz as [Hz|[<-|[]]]; auto.
      * (* x strictly below the best *)
        rewrite IH by assumption.
        rewrite !filter_app. f_equal.
        -- apply filter_ext_in. intros z Hz. destruct (Hacc z Hz) as [H1 H2]. rewrite H1. cbn [andb].
           unfold is_max. cbn [forallb].
           assert (E : leb (f x) (f z) = true) by (eapply leb_trans; eassumption).
           rewrite E. reflexivity.
        -- cbn [filter]. rewrite Ebx. cbn [andb].
           apply filter_ext_in. intros z Hz. unfold is_max. cbn [forallb].
           destruct (leb b (f z)) eqn:Ebz; [|reflexivity]. cbn [andb].
           assert (E : leb (f x) (f z) = true) by (eapply leb_trans; eassumption).
           rewrite E. reflexivity.
    + (* x strictly above: restart *)
      assert (Ebx : leb b (f x) = true) by (destruct (leb_total b (f x)); congruence).
      rewrite IH.
      * change ([x] ++ r) with (x :: r). rewrite filter_app.
        replace (filter (fun z => leb b (f z) && is_max (x :: r) z) acc) with (@nil A).
        -- cbn [app]. apply filter_ext_in. intros z Hz. unfold is_max. cbn [forallb].
           destruct (leb (f x) (f z)) eqn:Exz; cbn [andb].
           ++ assert (E : leb b (f z) = true) by (eapply leb_trans; eassumption). rewrite E. reflexivity.
           ++ rewrite andb_false_r. reflexivity.
        -- symmetry. apply filter_all_false. intros a Ha.
           destruct (Hacc a Ha) as [H1 H2].
           unfold is_max. cbn [forallb].
           assert (E : leb (f x) (f a) = false).
           { destruct (leb (f x) (f a)) eqn:E; [|reflexivity].
             assert (leb (f x) b = true) by (eapply leb_trans; eassumption). congruence. }
           rewrite E. cbn [andb]. apply andb_false_r.
      * intros z [<-|[]]. split; apply leb_refl.
Qed.

Theorem argmax_all_filter l : argmax_all l = filter (is_max l) l.
Proof.
  unfold argmax_all. destruct l as [|x r]; [reflexivity|].
  cbn [argmax_scan]. rewrite argmax_scan_spec.
  - cbn [app]. apply filter_ext_in. intros z Hz. unfold is_max. cbn [forallb]. reflexivity.
  - intros z [<-|[]]. split; apply leb_refl.
Qed.

Lemma is_max_iff l x : is_max l x = true <-> forall y, In y l -> leb (f y) (f x) = true.
Proof. unfold is_max. apply forallb_forall. Qed.

Theorem argmax_all_In l x :
  In x (argmax_all l) <-> In x l /\ forall y, In y l -> leb (f y) (f x) = true.
Proof. rewrite argmax_all_filter, filter_In, is_max_iff. reflexivity. Qed.

Theorem argmax_all_NoDup l : NoDup l -> NoDup (argmax_all l).
Proof. rewrite argmax_all_filter. apply NoDup_filter. Qed.

Lemma filter_sublist (p : A -> bool) l : sublist (filter p l) l.
Proof.
  induction l as [|x r IH]; simpl; [constructor|].
  destruct (p x); constructor; exact IH.
Qed.

(* order of first occurrence: the result is a subsequence of the input *)
Theorem argmax_all_sublist l : sublist (argmax_all l) l.
Proof. rewrite argmax_all_filter. apply filter_sublist. Qed.

Theorem argmax_all_nonempty l : l <> [] -> argmax_all l <> [].
Proof.
  intros Hl.
  (* a maximiser exists in a non-empty list *)
  assert (Hex : exists x, In x l /\ forall y, In y l -> leb (f y) (f x) = true).
  { clear - Hl leb_total leb_trans. induction l as [|a r IH]; [congruence|].
    destruct r as [|b r'].
    - exists a. split; [left; reflexivity|]. intros y [<-|[]]. apply leb_refl.
    - destruct IH as [m [Hm Hmax]]; [discriminate|].
      destruct (leb (f a) (f m)) eqn:E.
      + exists m. split; [right; exact Hm|]. intros y [<-|Hy]; [exact E|apply Hmax; exact Hy].
      + assert (E' : leb (f m) (f a) = true) by (destruct (leb_total (f a) (f m)); congruence).
        exists a. split; [left; reflexivity|]. intros y [<-|Hy]; [apply leb_refl|].
        eapply leb_trans; [apply Hmax; exact Hy|exact E']. }
  destruct Hex as [x Hx]. apply argmax_all_In in Hx. intros E. rewrite E in Hx. exact Hx.
Qed.

End Argmax.
Arguments argmax_scan {A V} leb f l best acc.
Arguments argmax_all {A V} leb f l.
Arguments is_max {A V} leb f l x.

(* ---------- the orders used ---------- *)

Lemma Qleb_total x y : Qleb x y = true \/ Qleb y x = true.
Proof. rewrite !Qleb_iff. destruct (Qlt_le_dec x y) as [H|H]; [left; apply Qlt_le_weak; exact H|right; exact H]. Qed.

Lemma Qleb_trans x y z : Qleb x y = true -> Qleb y z = true -> Qleb x z = true.
Proof. rewrite !Qleb_iff. apply Qle_trans. Qed.

Lemma Qx_leb_total x y : Qx_leb x y = true \/ Qx_leb y x = true.
Proof. destruct x, y; simpl; auto. apply Qleb_total. Qed.

Lemma Qx_leb_trans x y z : Qx_leb x y = true -> Qx_leb y z = true -> Qx_leb x z = true.
Proof. destruct x, y, z; simpl; auto; try discriminate. apply Qleb_trans. Qed.
