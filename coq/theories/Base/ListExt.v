(* Base/ListExt.v -- list helpers: combinations / powerset in itertools order, subsequences,
   stable insertion sort, membership on nat. Stdlib only. *)
From Coq Require Export List Arith Lia Bool Permutation Sorted.
Export ListNotations.

Set Implicit Arguments.

Section Generic.
Variable A : Type.

(* itertools.combinations(l, r): r-element subsequences, lexicographic in positions *)
Fixpoint combs (l : list A) (r : nat) {struct l} : list (list A) :=
  match l with
  | [] => match r with O => [[]] | S _ => [] end
  | x :: t => match r with
              | O => [[]]
              | S r' => map (cons x) (combs t r') ++ combs t r
              end
  end.

(* pabutools.utils.powerset: chain.from_iterable(combinations(s, r) for r in range(len(s)+1)) *)
Definition powerset (l : list A) : list (list A) :=
  flat_map (combs l) (seq 0 (S (length l))).

(* subsequence relation *)
Inductive sublist : list A -> list A -> Prop :=
| sl_nil : sublist [] []
| sl_skip : forall x s l, sublist s l -> sublist s (x :: l)
| sl_take : forall x s l, sublist s l -> sublist (x :: s) (x :: l).

Lemma sublist_nil_l l : sublist [] l.
Proof. induction l; constructor; assumption. Qed.

Lemma sublist_refl l : sublist l l.
Proof. induction l; constructor; assumption. Qed.

Lemma sublist_length s l : sublist s l -> length s <= length l.
Proof. induction 1; simpl; lia. Qed.

Lemma sublist_In s l x : sublist s l -> In x s -> In x l.
Proof.
  induction 1 as [|y s l _ IH|y s l _ IH]; simpl; intros Hin; auto.
  destruct Hin; auto.
Qed.

Lemma sublist_nil_inv s : sublist s [] -> s = [].
Proof. inversion 1; reflexivity. Qed.

Lemma firstn_sublist l : forall k, sublist (firstn k l) l.
Proof.
  induction l as [|z r IH]; intros [|k]; simpl.
  - constructor.
  - constructor.
  - apply sublist_nil_l.
  - apply sl_take. apply IH.
Qed.

Lemma combs_0 l : combs l 0 = [[]].
Proof. destruct l; reflexivity. Qed.

Lemma combs_spec l : forall r s, In s (combs l r) <-> sublist s l /\ length s = r.
Proof.
  induction l as [|x t IH]; intros r s.
  - simpl. destruct r; simpl.
    + split.
      * intros [<-|[]]. split; [constructor|reflexivity].
      * intros [H _]. apply sublist_nil_inv in H. auto.
    + split; [intros []|]. intros [H Hl]. apply sublist_nil_inv in H. subst. discriminate.
  - destruct r as [|r'].
    + simpl. split.
      * intros [<-|[]]. split; [apply sublist_nil_l|reflexivity].
      * intros [_ Hl]. destruct s; [auto|discriminate].
    + simpl. rewrite in_app_iff, in_map_iff. split.
      * intros [[s' [<- Hs']]|Hs].
        -- apply IH in Hs'. destruct Hs' as [Hs' Hl]. split; [constructor; assumption|simpl; lia].
        -- apply IH in Hs. destruct Hs as [Hs Hl]. split; [constructor; assumption|assumption].
      * intros [Hs Hl]. inversion Hs as [|y s0 l0 Hs0|y s0 l0 Hs0]; subst.
        -- right. apply IH. auto.
        -- left. exists s0. split; [reflexivity|]. apply IH. simpl in Hl. split; [assumption|lia].
Qed.

Lemma powerset_spec l s : In s (powerset l) <-> sublist s l.
Proof.
  unfold powerset. rewrite in_flat_map. split.
  - intros [r [_ Hr]]. apply combs_spec in Hr. tauto.
  - intros Hs. exists (length s). split.
    + apply in_seq. pose proof (sublist_length Hs). lia.
    + apply combs_spec. auto.
Qed.

End Generic.

Lemma NoDup_app_intro A (l1 l2 : list A) :
  NoDup l1 -> NoDup l2 -> (forall x, In x l1 -> In x l2 -> False) -> NoDup (l1 ++ l2).
Proof.
  induction l1 as [|a l1 IH]; simpl; intros H1 H2 Hd; [assumption|].
  inversion H1 as [|b l0 Ha Hl1]; subst. constructor.
  - rewrite in_app_iff. intros [H|H]; [contradiction|]. apply (Hd a); [left; reflexivity|assumption].
  - apply IH; [assumption|assumption|]. intros x Hx1 Hx2. apply (Hd x); [right; assumption|assumption].
Qed.

Lemma NoDup_map_cons A (x : A) ls : NoDup ls -> NoDup (map (cons x) ls).
Proof.
  intros H. apply FinFun.Injective_map_NoDup; [|assumption].
  intros a b E. congruence.
Qed.

Lemma combs_NoDup A (l : list A) : NoDup l -> forall r, NoDup (combs l r).
Proof.
  induction l as [|x t IH]; intros Hnd r.
  - destruct r; simpl; constructor; [intros []|constructor].
  - inversion Hnd as [|y l0 Hx Ht]; subst. destruct r as [|r']; simpl.
    + constructor; [intros []|constructor].
    + apply NoDup_app_intro.
      * apply NoDup_map_cons. apply IH. assumption.
      * apply IH. assumption.
      * intros s Hs1 Hs2. apply in_map_iff in Hs1. destruct Hs1 as [s' [<- _]].
        apply combs_spec in Hs2. destruct Hs2 as [Hs2 _].
        apply Hx. eapply sublist_In; [exact Hs2|]. left. reflexivity.
Qed.
