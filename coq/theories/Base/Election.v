(* Base/Election.v -- common vocabulary: instances, allocations, feasibility, exhaustiveness.
   A project is the rank of its name in name order (instances are Python sets keyed by name, so
   names are pairwise distinct). *)
From PB Require Export Base.QExt Base.ListExt Base.Sorting.
Open Scope Q_scope.

Definition proj := nat.

Record inst := mkInst { costs : list Q; budget : Q }.

Definition cost (I : inst) (p : proj) : Q := nth p (costs I) 0.
Definition nproj (I : inst) : nat := length (costs I).
Definition all_projects (I : inst) : list proj := seq 0 (nproj I).

(* total_cost: a list sum -- duplicates count twice, as in Python *)
Definition tcost (I : inst) (W : list proj) : Q := Qsum (map (cost I) W).

Definition memb (p : proj) (W : list proj) : bool := existsb (Nat.eqb p) W.

Lemma memb_In p W : memb p W = true <-> In p W.
Proof.
  unfold memb. rewrite existsb_exists. split.
  - intros [x [Hx E]]. apply Nat.eqb_eq in E. subst. exact Hx.
  - intros H. exists p. split; [exact H|apply Nat.eqb_refl].
Qed.

Lemma memb_false_In p W : memb p W = false <-> ~ In p W.
Proof.
  rewrite <- memb_In. destruct (memb p W); split; congruence.
Qed.

Definition wf_inst (I : inst) : Prop := Forall (fun c => 0 <= c) (costs I) /\ 0 < budget I.

Definition feasible (I : inst) (W : list proj) : Prop :=
  NoDup W /\ (forall p, In p W -> (p < nproj I)%nat) /\ tcost I W <= budget I.

Definition exhaustive (I : inst) (W : list proj) : Prop :=
  forall p, (p < nproj I)%nat -> ~ In p W -> budget I < tcost I W + cost I p.

Definition set_eq {A} (l l' : list A) : Prop := forall x, In x l <-> In x l'.

Lemma tcost_app I W1 W2 : tcost I (W1 ++ W2) == tcost I W1 + tcost I W2.
Proof. unfold tcost. rewrite map_app. apply Qsum_app. Qed.

Lemma tcost_cons I p W : tcost I (p :: W) == cost I p + tcost I W.
Proof. unfold tcost. simpl. reflexivity. Qed.

Lemma tcost_perm I W W' : Permutation W W' -> tcost I W == tcost I W'.
Proof. intros H. unfold tcost. apply Qsum_perm_proper. apply Permutation_map. exact H. Qed.

Lemma cost_nonneg I p : Forall (fun c => 0 <= c) (costs I) -> 0 <= cost I p.
Proof.
  intros H. unfold cost. destruct (Nat.lt_ge_cases p (length (costs I))) as [Hlt|Hge].
  - rewrite Forall_forall in H. apply H. apply nth_In. exact Hlt.
  - rewrite nth_overflow by exact Hge. apply Qle_refl.
Qed.

Lemma tcost_nonneg I W : Forall (fun c => 0 <= c) (costs I) -> 0 <= tcost I W.
Proof.
  intros H. unfold tcost. apply Qsum_nonneg. rewrite Forall_forall. intros x Hx.
  apply in_map_iff in Hx. destruct Hx as [p [<- _]]. apply cost_nonneg. exact H.
Qed.

(* ---------- voters ---------- *)

Definition Qnat (n : nat) : Q := inject_Z (Z.of_nat n).

(* a class of [vmul] identical voters with per-project utilities [vu] (additive satisfaction):
   a list profile has all multiplicities 1, a multiprofile one class per distinct ballot *)
Record vcls := mkV { vu : list Q; vmul : nat }.
Definition util (v : vcls) (p : proj) : Q := nth p (vu v) 0.
Definition nvoters (P : list vcls) : nat := fold_right (fun v n => (vmul v + n)%nat) O P.
Definition expand (P : list vcls) : list vcls :=
  flat_map (fun v => repeat (mkV (vu v) 1) (vmul v)) P.

(* approval ballots as lists of approved project ranks (+ multiplicity) *)
Record aballot := mkA { aset : list proj; amul : nat }.
Definition approves (b : aballot) (p : proj) : bool := memb p (aset b).

(* ---------- tie-breaking ---------- *)

(* TieBreakingRule.order = sorted(projects, key=func): a stable sort on a numeric key.
   lexicographic: key = rank; min_cost: key = cost; max_cost: key = -cost; app_score: key = -score *)
Definition tie_order (tb : proj -> Q) (l : list proj) : list proj :=
  isort (fun p q => Qleb (tb p) (tb q)) l.
Definition name_sort (l : list proj) : list proj := isort Nat.leb l.
(* untie = first element of the order; None on an empty list (Python: IndexError) *)
Definition untie (tb : proj -> Q) (l : list proj) : option proj := hd_error (tie_order tb l).
Definition key_of_list (ks : list Q) (p : proj) : Q := nth p ks 0.
