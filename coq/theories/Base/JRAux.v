(* Base/JRAux.v -- helper lemmas for the justified-representation development (C14):
   min / max of a list of rationals with a default (Python's min(x, default=0)), sums of maps,
   subset sums, sub-lists vs. duplicate-free sets.  Stdlib only. *)
From PB Require Export Base.Election.
Open Scope Q_scope.

(* ---------- min / max of a non-empty list; the result is (Leibniz) one of the elements ---------- *)
Fixpoint qmin_ne (x : Q) (l : list Q) : Q :=
  match l with
  | [] => x
  | y :: t => qmin_ne (if Qleb x y then x else y) t
  end.
Fixpoint qmax_ne (x : Q) (l : list Q) : Q :=
  match l with
  | [] => x
  | y :: t => qmax_ne (if Qleb y x then x else y) t
  end.
(* Python: min(l, default=d) / max(l, default=d) *)
Definition qmin_default (d : Q) (l : list Q) : Q :=
  match l with [] => d | x :: t => qmin_ne x t end.
Definition qmax_default (d : Q) (l : list Q) : Q :=
  match l with [] => d | x :: t => qmax_ne x t end.

Lemma qmin_ne_In l : forall x, In (qmin_ne x l) (x :: l).
Proof.
  induction l as [|y t IH]; intros x; simpl; [left; reflexivity|].
  specialize (IH (if Qleb x y then x else y)). simpl in IH.
  destruct IH as [E|H]; [|right; right; exact H].
  rewrite <- E. destruct (Qleb x y); [left|right; left]; reflexivity.
Qed.

Lemma qmin_ne_le l : forall x y, In y (x :: l) -> qmin_ne x l <= y.
Proof.
  induction l as [|z t IH]; intros x y Hin; simpl.
  - destruct Hin as [<-|[]]. apply Qle_refl.
  - destruct (Qleb x z) eqn:E.
    + apply Qleb_iff in E. destruct Hin as [<-|[<-|H]].
      * apply IH. left. reflexivity.
      * eapply Qle_trans; [apply (IH x x); left; reflexivity|exact E].
      * apply IH. right. exact H.
    + apply Qleb_false_iff in E. destruct Hin as [<-|[<-|H]].
      * eapply Qle_trans; [apply (IH z z); left; reflexivity|apply Qlt_le_weak; exact E].
      * apply IH. left. reflexivity.
      * apply IH. right. exact H.
Qed.

Lemma qmax_ne_In l : forall x, In (qmax_ne x l) (x :: l).
Proof.
  induction l as [|y t IH]; intros x; simpl; [left; reflexivity|].
  specialize (IH (if Qleb y x then x else y)). simpl in IH.
  destruct IH as [E|H]; [|right; right; exact H].
  rewrite <- E. destruct (Qleb y x); [left|right; left]; reflexivity.
Qed.

Lemma qmax_ne_ge l : forall x y, In y (x :: l) -> y <= qmax_ne x l.
Proof.
  induction l as [|z t IH]; intros x y Hin; simpl.
  - destruct Hin as [<-|[]]. apply Qle_refl.
  - destruct (Qleb z x) eqn:E.
    + apply Qleb_iff in E. destruct Hin as [<-|[<-|H]].
      * apply IH. left. reflexivity.
      * eapply Qle_trans; [exact E|apply (IH x x); left; reflexivity].
      * apply IH. right. exact H.
    + apply Qleb_false_iff in E. destruct Hin as [<-|[<-|H]].
      * eapply Qle_trans; [apply Qlt_le_weak; exact E|apply (IH z z); left; reflexivity].
      * apply IH. left. reflexivity.
      * apply IH. right. exact H.
Qed.

(* ---------- sums of maps ---------- *)
Section Sums.
Variable A : Type.

Lemma Qsum_map_ext_in (f g : A -> Q) l :
  (forall x, In x l -> f x == g x) -> Qsum (map f l) == Qsum (map g l).
Proof.
  induction l as [|x t IH]; intros H; simpl; [reflexivity|].
  rewrite (H x) by (left; reflexivity). rewrite IH; [reflexivity|].
  intros y Hy. apply H. right. exact Hy.
Qed.

Lemma Qsum_map_le (f g : A -> Q) l :
  (forall x, In x l -> f x <= g x) -> Qsum (map f l) <= Qsum (map g l).
Proof.
  induction l as [|x t IH]; intros H; simpl; [apply Qle_refl|].
  apply Qplus_le_compat; [apply H; left; reflexivity|].
  apply IH. intros y Hy. apply H. right. exact Hy.
Qed.

Lemma Qsum_map_nonneg (f : A -> Q) l :
  (forall x, In x l -> 0 <= f x) -> 0 <= Qsum (map f l).
Proof.
  intros H. apply Qsum_nonneg. rewrite Forall_forall. intros y Hy.
  apply in_map_iff in Hy. destruct Hy as [x [<- Hx]]. apply H. exact Hx.
Qed.

Lemma Qsum_map_perm (f : A -> Q) l l' : Permutation l l' -> Qsum (map f l) == Qsum (map f l').
Proof. intros H. apply Qsum_perm_proper. apply Permutation_map. exact H. Qed.

Lemma Qsum_map_filter (f : A -> Q) (g : A -> bool) l :
  Qsum (map f (filter g l)) == Qsum (map (fun x => if g x then f x else 0) l).
Proof.
  induction l as [|x t IH]; simpl; [reflexivity|].
  destruct (g x); simpl; rewrite IH; ring.
Qed.

Lemma sublist_filter (g : A -> bool) l : sublist (filter g l) l.
Proof.
  induction l as [|x t IH]; simpl; [constructor|].
  destruct (g x); constructor; exact IH.
Qed.

Lemma sublist_NoDup (s l : list A) : sublist s l -> NoDup l -> NoDup s.
Proof.
  induction 1 as [|x s l Hs IH|x s l Hs IH]; intros Hnd.
  - constructor.
  - inversion Hnd; subst. apply IH. assumption.
  - inversion Hnd as [|y l0 Hx Hl]; subst. constructor.
    + intros Hin. apply Hx. eapply sublist_In; [exact Hs|exact Hin].
    + apply IH. exact Hl.
Qed.

End Sums.
Arguments Qsum_map_ext_in {A}.
Arguments Qsum_map_le {A}.
Arguments Qsum_map_nonneg {A}.
Arguments Qsum_map_perm {A}.
Arguments Qsum_map_filter {A}.
Arguments sublist_filter {A}.
Arguments sublist_NoDup {A}.

(* a duplicate-free subset of W sums to at most the sum over W (non-negative terms) *)
Lemma Qsum_map_incl_le (f : nat -> Q) (T : list nat) : forall W,
  NoDup T -> (forall p, In p T -> In p W) -> (forall p, In p W -> 0 <= f p) ->
  Qsum (map f T) <= Qsum (map f W).
Proof.
  induction T as [|p T IH]; intros W Hnd Hincl Hnn; simpl.
  - apply Qsum_map_nonneg. exact Hnn.
  - inversion Hnd as [|q l Hp HT]; subst.
    assert (Hin : In p W) by (apply Hincl; left; reflexivity).
    destruct (in_split _ _ Hin) as [W1 [W2 ->]].
    assert (HP : Permutation (W1 ++ p :: W2) (p :: W1 ++ W2))
      by (symmetry; apply Permutation_middle).
    rewrite (Qsum_map_perm f _ _ HP). simpl.
    apply Qplus_le_compat; [apply Qle_refl|].
    apply IH; [exact HT| |].
    + intros q Hq. assert (Hq' : In q (W1 ++ p :: W2)) by (apply Hincl; right; exact Hq).
      rewrite in_app_iff in *. simpl in Hq'. destruct Hq' as [H|[H|H]]; auto.
      subst. contradiction.
    + intros q Hq. apply Hnn. rewrite in_app_iff in *. simpl. tauto.
Qed.

(* every duplicate-free set of members of a duplicate-free enumeration is, up to order, one of
   its sub-lists *)
Lemma pset_as_sublist (enum T : list nat) :
  NoDup enum -> NoDup T -> (forall p, In p T -> In p enum) ->
  exists T', sublist T' enum /\ Permutation T T'.
Proof.
  intros He HT Hincl. exists (filter (fun p => memb p T) enum). split.
  - apply sublist_filter.
  - apply NoDup_Permutation; [exact HT|apply NoDup_filter; exact He|].
    intros p. rewrite filter_In, memb_In. split; [intros H; split; auto|tauto].
Qed.

(* the members of T outside W, in the order of T *)
Definition outside (W T : list nat) : list nat := filter (fun p => negb (memb p W)) T.

Lemma outside_In W T p : In p (outside W T) <-> In p T /\ ~ In p W.
Proof. unfold outside. rewrite filter_In, negb_true_iff, memb_false_In. tauto. Qed.

Lemma outside_nil W T : outside W T = [] -> forall p, In p T -> In p W.
Proof.
  intros E p Hp. destruct (memb p W) eqn:M; [apply memb_In; exact M|].
  exfalso. assert (H : In p (outside W T)) by (apply outside_In; split; [exact Hp|apply memb_false_In; exact M]).
  rewrite E in H. exact H.
Qed.

Lemma Qnat_pos n : (0 < n)%nat -> 0 < Qnat n.
Proof. intros H. unfold Qnat, Qlt. simpl. lia. Qed.
