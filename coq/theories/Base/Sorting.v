(* Base/Sorting.v -- stable insertion sort (model of Python's stable [sorted(key=...)]),
   its basic facts, and the tie-breaking order built on it. Stdlib only. *)
From PB Require Export Base.ListExt.

Set Implicit Arguments.

Section Sort.
Variable A : Type.
Variable leb : A -> A -> bool.   (* leb x y = "key x <= key y" *)

(* insert x before the first element y with leb x y: elements with an equal key that were
   already in the list (they came later in the input) stay behind x => stable. *)
Fixpoint insert (x : A) (l : list A) : list A :=
  match l with
  | [] => [x]
  | y :: t => if leb x y then x :: y :: t else y :: insert x t
  end.

Definition isort (l : list A) : list A := fold_right insert [] l.

Lemma insert_perm x l : Permutation (x :: l) (insert x l).
Proof.
  induction l as [|y t IH]; simpl; [reflexivity|].
  destruct (leb x y); [reflexivity|].
  rewrite perm_swap. constructor. exact IH.
Qed.

Lemma isort_perm l : Permutation l (isort l).
Proof.
  induction l as [|x t IH]; simpl; [constructor|].
  rewrite <- insert_perm. constructor. exact IH.
Qed.

Lemma isort_length l : length (isort l) = length l.
Proof. symmetry. apply Permutation_length, isort_perm. Qed.

Lemma isort_In l x : In x (isort l) <-> In x l.
Proof.
  split; intro H.
  - eapply Permutation_in; [symmetry; apply isort_perm|exact H].
  - eapply Permutation_in; [apply isort_perm|exact H].
Qed.

Hypothesis leb_total : forall x y, leb x y = true \/ leb y x = true.
Hypothesis leb_trans : forall x y z, leb x y = true -> leb y z = true -> leb x z = true.

Definition lebP x y := leb x y = true.

Lemma insert_sorted x l : StronglySorted lebP l -> StronglySorted lebP (insert x l).
Proof.
  induction 1 as [|y t Hs IH Hall]; simpl.
  - constructor; [constructor|constructor].
  - destruct (leb x y) eqn:E.
    + constructor; [constructor; assumption|].
      constructor; [exact E|].
      rewrite Forall_forall in *. intros z Hz. eapply leb_trans; [exact E|]. apply Hall. exact Hz.
    + constructor; [exact IH|].
      assert (Hyx : leb y x = true) by (destruct (leb_total x y); congruence).
      rewrite Forall_forall in *. intros z Hz.
      eapply Permutation_in in Hz; [|symmetry; apply insert_perm].
      destruct Hz as [<-|Hz]; [exact Hyx|apply Hall; exact Hz].
Qed.

Lemma isort_sorted l : StronglySorted lebP (isort l).
Proof.
  induction l as [|x t IH]; simpl; [constructor|apply insert_sorted; exact IH].
Qed.

End Sort.
