(* Generated/Anchors.v -- REGENERATED from /repo's source on every run by
   harness/vharness/anchors.py.  Do not edit. *)
From Coq Require Import List String ZArith.
Import ListNotations.
Open Scope string_scope.

Definition CHECK_ROUND_PRECISION : Z := 2%Z.
Definition ROUND_PRECISION : Z := 6%Z.
(* utils.round_cmp: 0 = round(a, p) - round(b, p); 1 = round(a - b, p) *)
Definition ANCHOR_ROUND_CMP_MODE : Z := 0%Z.
(* priceable(): INF = max(budget, costs) * BIGM_FACTOR *)
Definition ANCHOR_BIGM_FACTOR : Z := 10%Z.
(* priceability_relaxation.py: Relaxation.INF = budget * RELAX_INF_FACTOR; MinAddOffset.BUDGET_FRACTION;
   MinAddVector forces beta[c] = 0 on selected projects with rows whose big-M is RELAX_VEC_CAP_FACTOR budgets *)
Definition ANCHOR_RELAX_INF_FACTOR : Z := 10%Z.
Definition ANCHOR_RELAX_FRACTION_NUM : Z := 1%Z.
Definition ANCHOR_RELAX_FRACTION_DEN : positive := 40%positive.
Definition ANCHOR_RELAX_VEC_CAP_FACTOR : Z := 10%Z.
(* exhaustion_by_budget_increase defaults: step = B * (num/den); bound = B * (num_ballots + k) *)
Definition INCREASE_STEP_NUM : Z := 1%Z.
Definition INCREASE_STEP_DEN : positive := 100%positive.
Definition INCREASE_BOUND_PLUS : Z := 1%Z.
Definition wrapped_ApprovalBallot : list string := ["__and__"; "__iand__"; "__ior__"; "__isub__"; "__ixor__"; "__or__"; "__rand__"; "__ror__"; "__rsub__"; "__rxor__"; "__sub__"; "__xor__"; "copy"; "difference"; "difference_update"; "intersection"; "intersection_update"; "symmetric_difference"; "symmetric_difference_update"; "union"].
Definition wrapped_ApprovalMultiProfile : list string := ["__add__"; "__and__"; "__iadd__"; "__iand__"; "__imul__"; "__ior__"; "__isub__"; "__mul__"; "__or__"; "__ror__"; "__sub__"; "copy"].
Definition wrapped_ApprovalProfile : list string := ["__add__"; "__getitem__"; "__iadd__"; "__imul__"; "__mul__"; "__reversed__"; "__rmul__"; "copy"; "reverse"].
Definition wrapped_BudgetAllocation : list string := ["__add__"; "__getitem__"; "__iadd__"; "__imul__"; "__mul__"; "__reversed__"; "__rmul__"; "copy"; "reverse"].
Definition wrapped_CardinalBallot : list string := ["__ior__"; "__or__"; "__ror__"; "copy"].
Definition wrapped_CardinalMultiProfile : list string := ["__add__"; "__and__"; "__iadd__"; "__iand__"; "__imul__"; "__ior__"; "__isub__"; "__mul__"; "__or__"; "__ror__"; "__sub__"; "copy"].
Definition wrapped_CardinalProfile : list string := ["__add__"; "__getitem__"; "__iadd__"; "__imul__"; "__mul__"; "__reversed__"; "__rmul__"; "copy"; "reverse"].
Definition wrapped_CumulativeBallot : list string := ["__ior__"; "__or__"; "__reversed__"; "__ror__"; "copy"].
Definition wrapped_CumulativeMultiProfile : list string := ["__add__"; "__and__"; "__iadd__"; "__iand__"; "__imul__"; "__ior__"; "__isub__"; "__mul__"; "__or__"; "__ror__"; "__sub__"; "copy"].
Definition wrapped_CumulativeProfile : list string := ["__add__"; "__getitem__"; "__iadd__"; "__imul__"; "__mul__"; "__reversed__"; "__rmul__"; "copy"; "reverse"].
Definition wrapped_Instance : list string := ["__and__"; "__iand__"; "__ior__"; "__isub__"; "__ixor__"; "__or__"; "__rand__"; "__ror__"; "__rsub__"; "__rxor__"; "__sub__"; "__xor__"; "copy"; "difference"; "difference_update"; "intersection"; "intersection_update"; "symmetric_difference"; "symmetric_difference_update"; "union"].
Definition wrapped_OrdinalBallot : list string := ["__ior__"; "__or__"; "__ror__"; "copy"].
Definition wrapped_OrdinalMultiProfile : list string := ["__add__"; "__and__"; "__iadd__"; "__iand__"; "__imul__"; "__ior__"; "__isub__"; "__mul__"; "__or__"; "__ror__"; "__sub__"; "copy"].
Definition wrapped_OrdinalProfile : list string := ["__add__"; "__getitem__"; "__iadd__"; "__imul__"; "__mul__"; "__reversed__"; "__rmul__"; "copy"; "reverse"].
Definition wrapped_SatisfactionMultiProfile : list string := ["__add__"; "__and__"; "__iadd__"; "__iand__"; "__imul__"; "__ior__"; "__isub__"; "__mul__"; "__or__"; "__ror__"; "__sub__"; "copy"].
Definition wrapped_SatisfactionProfile : list string := ["__add__"; "__getitem__"; "__iadd__"; "__imul__"; "__mul__"; "__reversed__"; "__rmul__"; "copy"; "reverse"].
