(* Generated/PyFuncs.v -- REGENERATED from the Python source on every run by harness/vharness/pytrans.py.
   Do not edit.  One definition per translated function, over the vocabulary of Model/PyPrims.v;
   [Untranslated] marks a function whose source left the translated fragment. *)
From Coq Require Import String.
From PB Require Import Model.PyPrims.
Open Scope Q_scope.

(* pabutools/election/satisfaction/additivesatisfaction.py:140 cardinality_sat_func
def cardinality_sat_func(instance: Instance, profile: AbstractProfile, ballot: AbstractBallot, project: Project, precomputed_values: dict) -> int:
    return int(project in ballot) *)
Definition gen_cardinality_sat_func (v_instance : py_inst) (v_profile : py_profile) (v_ballot : py_ballot) (v_project : py_proj) (v_precomputed_values : py_dict) : Q :=
  (py_int_of_bool (py_in_ballot v_ballot v_project)).
Global Hint Unfold gen_cardinality_sat_func : pygen.
(* no ZeroDivisionError: every frac(a, b) on the executed path has b != 0 *)
Definition gen_cardinality_sat_func_safe (v_instance : py_inst) (v_profile : py_profile) (v_ballot : py_ballot) (v_project : py_proj) (v_precomputed_values : py_dict) : bool :=
  true.
Global Hint Unfold gen_cardinality_sat_func_safe : pygen.

(* pabutools/election/satisfaction/additivesatisfaction.py:195 relative_cardinality_sat_func
def relative_cardinality_sat_func(instance: Instance, profile: AbstractProfile, ballot: AbstractBallot, project: Project, precomputed_values: dict) -> int:
    if precomputed_values['max_budget_allocation_card'] == 0:
        return 0
    return frac(int(project in ballot), precomputed_values['max_budget_allocation_card']) *)
Definition gen_relative_cardinality_sat_func (v_instance : py_inst) (v_profile : py_profile) (v_ballot : py_ballot) (v_project : py_proj) (v_precomputed_values : py_dict) : Q :=
  (if (py_eq (py_dict_get v_precomputed_values "max_budget_allocation_card"%string) 0)
  then 0
  else (frac (py_int_of_bool (py_in_ballot v_ballot v_project)) (py_dict_get v_precomputed_values "max_budget_allocation_card"%string))).
Global Hint Unfold gen_relative_cardinality_sat_func : pygen.
(* no ZeroDivisionError: every frac(a, b) on the executed path has b != 0 *)
Definition gen_relative_cardinality_sat_func_safe (v_instance : py_inst) (v_profile : py_profile) (v_ballot : py_ballot) (v_project : py_proj) (v_precomputed_values : py_dict) : bool :=
  (if (py_eq (py_dict_get v_precomputed_values "max_budget_allocation_card"%string) 0)
  then true
  else (py_truth (py_dict_get v_precomputed_values "max_budget_allocation_card"%string))).
Global Hint Unfold gen_relative_cardinality_sat_func_safe : pygen.

(* pabutools/election/satisfaction/additivesatisfaction.py:267 cost_sat_func
def cost_sat_func(instance: Instance, profile: AbstractProfile, ballot: AbstractBallot, project: Project, precomputed_values: dict) -> int:
    return int(project in ballot) * project.cost *)
Definition gen_cost_sat_func (v_instance : py_inst) (v_profile : py_profile) (v_ballot : py_ballot) (v_project : py_proj) (v_precomputed_values : py_dict) : Q :=
  ((py_int_of_bool (py_in_ballot v_ballot v_project)) * (py_cost v_instance v_project)).
Global Hint Unfold gen_cost_sat_func : pygen.
(* no ZeroDivisionError: every frac(a, b) on the executed path has b != 0 *)
Definition gen_cost_sat_func_safe (v_instance : py_inst) (v_profile : py_profile) (v_ballot : py_ballot) (v_project : py_proj) (v_precomputed_values : py_dict) : bool :=
  true.
Global Hint Unfold gen_cost_sat_func_safe : pygen.

(* pabutools/election/satisfaction/additivesatisfaction.py:320 relative_cost_sat_func
def relative_cost_sat_func(instance: Instance, profile: AbstractProfile, ballot: AbstractBallot, project: Project, precomputed_values: dict) -> Numeric:
    if precomputed_values['max_budget_allocation_cost'] == 0:
        return 0
    return frac(int(project in ballot) * project.cost, precomputed_values['max_budget_allocation_cost']) *)
Definition gen_relative_cost_sat_func (v_instance : py_inst) (v_profile : py_profile) (v_ballot : py_ballot) (v_project : py_proj) (v_precomputed_values : py_dict) : Q :=
  (if (py_eq (py_dict_get v_precomputed_values "max_budget_allocation_cost"%string) 0)
  then 0
  else (frac ((py_int_of_bool (py_in_ballot v_ballot v_project)) * (py_cost v_instance v_project)) (py_dict_get v_precomputed_values "max_budget_allocation_cost"%string))).
Global Hint Unfold gen_relative_cost_sat_func : pygen.
(* no ZeroDivisionError: every frac(a, b) on the executed path has b != 0 *)
Definition gen_relative_cost_sat_func_safe (v_instance : py_inst) (v_profile : py_profile) (v_ballot : py_ballot) (v_project : py_proj) (v_precomputed_values : py_dict) : bool :=
  (if (py_eq (py_dict_get v_precomputed_values "max_budget_allocation_cost"%string) 0)
  then true
  else (py_truth (py_dict_get v_precomputed_values "max_budget_allocation_cost"%string))).
Global Hint Unfold gen_relative_cost_sat_func_safe : pygen.

(* pabutools/election/satisfaction/additivesatisfaction.py:391 relative_cost_approx_normaliser_sat_func
def relative_cost_approx_normaliser_sat_func(instance: Instance, profile: AbstractProfile, ballot: AbstractBallot, project: Project, precomputed_values: dict) -> Numeric:
    if precomputed_values['normalizer'] == 0:
        return 0
    return frac(int(project in ballot) * project.cost, precomputed_values['normalizer']) *)
Definition gen_relative_cost_approx_normaliser_sat_func (v_instance : py_inst) (v_profile : py_profile) (v_ballot : py_ballot) (v_project : py_proj) (v_precomputed_values : py_dict) : Q :=
  (if (py_eq (py_dict_get v_precomputed_values "normalizer"%string) 0)
  then 0
  else (frac ((py_int_of_bool (py_in_ballot v_ballot v_project)) * (py_cost v_instance v_project)) (py_dict_get v_precomputed_values "normalizer"%string))).
Global Hint Unfold gen_relative_cost_approx_normaliser_sat_func : pygen.
(* no ZeroDivisionError: every frac(a, b) on the executed path has b != 0 *)
Definition gen_relative_cost_approx_normaliser_sat_func_safe (v_instance : py_inst) (v_profile : py_profile) (v_ballot : py_ballot) (v_project : py_proj) (v_precomputed_values : py_dict) : bool :=
  (if (py_eq (py_dict_get v_precomputed_values "normalizer"%string) 0)
  then true
  else (py_truth (py_dict_get v_precomputed_values "normalizer"%string))).
Global Hint Unfold gen_relative_cost_approx_normaliser_sat_func_safe : pygen.

(* pabutools/election/satisfaction/additivesatisfaction.py:584 effort_sat_func
def effort_sat_func(instance: Instance, profile: AbstractProfile, ballot: AbstractBallot, project: Project, precomputed_values: dict) -> Numeric:
    denominator = sum((profile.multiplicity(b) for b in profile if project in b))
    if denominator:
        return int(project in ballot) * frac(project.cost, denominator)
    return 0 *)
Definition gen_effort_sat_func (v_instance : py_inst) (v_profile : py_profile) (v_ballot : py_ballot) (v_project : py_proj) (v_precomputed_values : py_dict) : Q :=
  let v_denominator := (py_sum (map (fun v_b => (py_multiplicity v_profile v_b)) (filter (fun v_b => (py_in_pballot v_b v_project)) (py_profile_iter v_profile)))) in
  (if (py_truth v_denominator)
  then ((py_int_of_bool (py_in_ballot v_ballot v_project)) * (frac (py_cost v_instance v_project) v_denominator))
  else 0).
Global Hint Unfold gen_effort_sat_func : pygen.
(* no ZeroDivisionError: every frac(a, b) on the executed path has b != 0 *)
Definition gen_effort_sat_func_safe (v_instance : py_inst) (v_profile : py_profile) (v_ballot : py_ballot) (v_project : py_proj) (v_precomputed_values : py_dict) : bool :=
  let v_denominator := (py_sum (map (fun v_b => (py_multiplicity v_profile v_b)) (filter (fun v_b => (py_in_pballot v_b v_project)) (py_profile_iter v_profile)))) in
  (if (py_truth v_denominator)
  then (py_truth v_denominator)
  else true).
Global Hint Unfold gen_effort_sat_func_safe : pygen.

(* pabutools/election/satisfaction/additivesatisfaction.py:641 additive_card_sat_func
def additive_card_sat_func(instance: Instance, profile: AbstractProfile, ballot: AbstractCardinalBallot, project: Project, precomputed_values: dict) -> Numeric:
    return ballot.get(project, 0) *)
Definition gen_additive_card_sat_func (v_instance : py_inst) (v_profile : py_profile) (v_ballot : py_ballot) (v_project : py_proj) (v_precomputed_values : py_dict) : Q :=
  (py_ballot_get v_ballot v_project 0).
Global Hint Unfold gen_additive_card_sat_func : pygen.
(* no ZeroDivisionError: every frac(a, b) on the executed path has b != 0 *)
Definition gen_additive_card_sat_func_safe (v_instance : py_inst) (v_profile : py_profile) (v_ballot : py_ballot) (v_project : py_proj) (v_precomputed_values : py_dict) : bool :=
  true.
Global Hint Unfold gen_additive_card_sat_func_safe : pygen.

(* pabutools/election/satisfaction/additivesatisfaction.py:705 additive_card_relative_sat_func
def additive_card_relative_sat_func(instance: Instance, profile: AbstractProfile, ballot: AbstractCardinalBallot, project: Project, precomputed_values: dict) -> Numeric:
    if precomputed_values['max_budget_allocation_score'] == 0:
        return 0
    return frac(ballot.get(project, 0), precomputed_values['max_budget_allocation_score']) *)
Definition gen_additive_card_relative_sat_func (v_instance : py_inst) (v_profile : py_profile) (v_ballot : py_ballot) (v_project : py_proj) (v_precomputed_values : py_dict) : Q :=
  (if (py_eq (py_dict_get v_precomputed_values "max_budget_allocation_score"%string) 0)
  then 0
  else (frac (py_ballot_get v_ballot v_project 0) (py_dict_get v_precomputed_values "max_budget_allocation_score"%string))).
Global Hint Unfold gen_additive_card_relative_sat_func : pygen.
(* no ZeroDivisionError: every frac(a, b) on the executed path has b != 0 *)
Definition gen_additive_card_relative_sat_func_safe (v_instance : py_inst) (v_profile : py_profile) (v_ballot : py_ballot) (v_project : py_proj) (v_precomputed_values : py_dict) : bool :=
  (if (py_eq (py_dict_get v_precomputed_values "max_budget_allocation_score"%string) 0)
  then true
  else (py_truth (py_dict_get v_precomputed_values "max_budget_allocation_score"%string))).
Global Hint Unfold gen_additive_card_relative_sat_func_safe : pygen.

(* pabutools/election/satisfaction/functionalsatisfaction.py:80 cc_sat_func_app
def cc_sat_func_app(instance: Instance, profile: AbstractProfile, ballot: AbstractApprovalBallot, projects: Collection[Project]) -> int:
    return int(any((p in ballot for p in projects))) *)
Definition gen_cc_sat_func_app (v_instance : py_inst) (v_profile : py_profile) (v_ballot : py_ballot) (v_projects : (list py_proj)) : Q :=
  (py_int_of_bool (py_any (map (fun v_p => (py_in_ballot v_ballot v_p)) v_projects))).
Global Hint Unfold gen_cc_sat_func_app : pygen.
(* no ZeroDivisionError: every frac(a, b) on the executed path has b != 0 *)
Definition gen_cc_sat_func_app_safe (v_instance : py_inst) (v_profile : py_profile) (v_ballot : py_ballot) (v_projects : (list py_proj)) : bool :=
  true.
Global Hint Unfold gen_cc_sat_func_app_safe : pygen.

(* pabutools/election/satisfaction/functionalsatisfaction.py:110 cc_sat_func_card
def cc_sat_func_card(instance: Instance, profile: AbstractProfile, ballot: AbstractCardinalBallot, projects: Collection[Project]) -> Numeric:
    res = 0
    for p in projects:
        if p in ballot and ballot[p] > res:
            res = ballot[p]
    return res *)
Definition gen_cc_sat_func_card (v_instance : py_inst) (v_profile : py_profile) (v_ballot : py_ballot) (v_projects : (list py_proj)) : Q :=
  let v_res := 0 in
  (let v_res := fold_left (fun (v_res : Q) v_p => 
    (if ((py_in_ballot v_ballot v_p) && (py_gt (py_ballot_getitem v_ballot v_p) v_res))
  then let v_res := (py_ballot_getitem v_ballot v_p) in
  v_res
  else v_res)) v_projects v_res in
  v_res).
Global Hint Unfold gen_cc_sat_func_card : pygen.
(* no ZeroDivisionError: every frac(a, b) on the executed path has b != 0 *)
Definition gen_cc_sat_func_card_safe (v_instance : py_inst) (v_profile : py_profile) (v_ballot : py_ballot) (v_projects : (list py_proj)) : bool :=
  let v_res := 0 in
  (let v_res := fold_left (fun (v_res : Q) v_p => 
    (if ((py_in_ballot v_ballot v_p) && (py_gt (py_ballot_getitem v_ballot v_p) v_res))
  then let v_res := (py_ballot_getitem v_ballot v_p) in
  v_res
  else v_res)) v_projects v_res in
  true).
Global Hint Unfold gen_cc_sat_func_card_safe : pygen.

(* pabutools/election/satisfaction/positionalsatisfaction.py:76 borda_sat_func
def borda_sat_func(ballot: AbstractOrdinalBallot, project: Project) -> int:
    if project in ballot:
        return len(ballot) - ballot.position(project) - 1
    return 0 *)
Definition gen_borda_sat_func (v_ballot : py_ballot) (v_project : py_proj) : Q :=
  (if (py_in_ballot v_ballot v_project)
  then (((py_len_ballot v_ballot) - (py_ballot_position v_ballot v_project)) - 1)
  else 0).
Global Hint Unfold gen_borda_sat_func : pygen.
(* no ZeroDivisionError: every frac(a, b) on the executed path has b != 0 *)
Definition gen_borda_sat_func_safe (v_ballot : py_ballot) (v_project : py_proj) : bool :=
  (if (py_in_ballot v_ballot v_project)
  then true
  else true).
Global Hint Unfold gen_borda_sat_func_safe : pygen.

(* pabutools/tiebreaking.py:136 refuse_to_break_ties
def refuse_to_break_ties(instance: Instance, profile: AbstractProfile, project: Project):
    raise TieBreakingException('A tie occurred, but no tie-breaking rule was provided.') *)
Definition gen_refuse_to_break_ties (v_instance : py_inst) (v_profile : py_aprofile) (v_project : py_proj) : (option Q) :=
  None.
Global Hint Unfold gen_refuse_to_break_ties : pygen.
(* no ZeroDivisionError: every frac(a, b) on the executed path has b != 0 *)
Definition gen_refuse_to_break_ties_safe (v_instance : py_inst) (v_profile : py_aprofile) (v_project : py_proj) : bool :=
  true.
Global Hint Unfold gen_refuse_to_break_ties_safe : pygen.

(* pabutools/election/satisfaction/additivesatisfaction.py:82 AdditiveSatisfaction.preprocessing
def preprocessing(self, instance: Instance, profile: AbstractProfile, ballot: AbstractBallot) -> dict:
    return {} *)
Definition gen_AdditiveSatisfaction_preprocessing (v_instance : py_inst) (v_profile : py_profile) (v_ballot : py_ballot) : py_dict :=
  (py_dict_of []).
Global Hint Unfold gen_AdditiveSatisfaction_preprocessing : pygen.

(* pabutools/election/satisfaction/additivesatisfaction.py:257 Relative_Cardinality_Sat.preprocessing
def preprocessing(self, instance: Instance, profile: AbstractProfile, ballot: AbstractBallot):
    return {'max_budget_allocation_card': max_budget_allocation_cardinality(ballot, instance.budget_limit)} *)
Definition gen_Relative_Cardinality_Sat_preprocessing (v_instance : py_inst) (v_profile : py_profile) (v_ballot : py_ballot) : py_dict :=
  (py_dict_of [("max_budget_allocation_card"%string, (py_max_budget_allocation_cardinality v_instance (py_ballot_iter v_ballot) (py_budget_limit v_instance)))]).
Global Hint Unfold gen_Relative_Cardinality_Sat_preprocessing : pygen.

(* pabutools/election/satisfaction/additivesatisfaction.py:381 Relative_Cost_Sat.preprocessing
def preprocessing(self, instance: Instance, profile: AbstractProfile, ballot: AbstractBallot):
    return {'max_budget_allocation_cost': max_budget_allocation_cost(ballot, instance.budget_limit)} *)
Definition gen_Relative_Cost_Sat_preprocessing (orc : py_oracle) (v_instance : py_inst) (v_profile : py_profile) (v_ballot : py_ballot) : py_dict :=
  (py_dict_of [("max_budget_allocation_cost"%string, (py_max_budget_allocation_cost orc v_instance (py_ballot_iter v_ballot) (py_budget_limit v_instance)))]).
Global Hint Unfold gen_Relative_Cost_Sat_preprocessing : pygen.

(* pabutools/election/satisfaction/additivesatisfaction.py:450 Relative_Cost_Approx_Normaliser_Sat.preprocessing
def preprocessing(self, instance: Instance, profile: AbstractProfile, ballot: AbstractBallot):
    return {'normalizer': min(total_cost([p for p in ballot]), instance.budget_limit)} *)
Definition gen_Relative_Cost_Approx_Normaliser_Sat_preprocessing (v_instance : py_inst) (v_profile : py_profile) (v_ballot : py_ballot) : py_dict :=
  (py_dict_of [("normalizer"%string, (py_min2 (py_total_cost v_instance (py_ballot_iter v_ballot)) (py_budget_limit v_instance)))]).
Global Hint Unfold gen_Relative_Cost_Approx_Normaliser_Sat_preprocessing : pygen.

(* pabutools/election/satisfaction/additivesatisfaction.py:774 Additive_Cardinal_Relative_Sat.preprocessing
def preprocessing(self, instance: Instance, profile: AbstractProfile, ballot: AbstractCardinalBallot):
    res = 0
    mip_model = Model()
    mip_model.verbose = 0
    p_vars = {p: mip_model.add_var(var_type=BINARY, name='x_{}'.format(p)) for p in instance}
    if p_vars:
        mip_model.objective = maximize(xsum((p_vars[p] * ballot.get(p, 0) for p in instance)))
        mip_model += xsum((p_vars[p] * p.cost for p in instance)) <= instance.budget_limit
        mip_model.optimize()
        res = sum((ballot.get(p, 0) for p in p_vars if p_vars[p].x >= 0.99))
    return {'max_budget_allocation_score': frac(res)}
-- body outside the fragment (call of Model outside the fragment): only the keys of the returned dictionary are translated, the values are the opaque parameters *)
Definition gen_Additive_Cardinal_Relative_Sat_preprocessing (opaque0 : Q) (v_instance : py_inst) (v_profile : py_profile) (v_ballot : py_ballot) : py_dict :=
  (py_dict_of [("max_budget_allocation_score"%string, opaque0)]).
Global Hint Unfold gen_Additive_Cardinal_Relative_Sat_preprocessing : pygen.

(* pabutools/election/satisfaction/additivesatisfaction.py:105 AdditiveSatisfaction.get_project_sat
def get_project_sat(self, project: Project) -> Numeric:
    score = self.scores.get(project, None)
    if score is None:
        score = self.func(self.instance, self.profile, self.ballot, project, self.precomputed_values)
        self.scores[project] = score
    return score *)
Definition gen_AdditiveSatisfaction_get_project_sat (self_ballot : py_ballot) (self_func : (py_inst -> py_profile -> py_ballot -> py_proj -> py_dict -> Q)) (self_instance : py_inst) (self_precomputed_values : py_dict) (self_profile : py_profile) (v_project : py_proj) : Q :=
  let v_score := (self_func self_instance self_profile self_ballot v_project self_precomputed_values) in
  v_score.
Global Hint Unfold gen_AdditiveSatisfaction_get_project_sat : pygen.

(* pabutools/election/satisfaction/additivesatisfaction.py:133 AdditiveSatisfaction.sat
def sat(self, proj: Collection[Project]) -> Numeric:
    return sum((self.get_project_sat(p) for p in proj)) *)
Definition gen_AdditiveSatisfaction_sat (self_ballot : py_ballot) (self_func : (py_inst -> py_profile -> py_ballot -> py_proj -> py_dict -> Q)) (self_instance : py_inst) (self_precomputed_values : py_dict) (self_profile : py_profile) (v_proj : (list py_proj)) : Q :=
  (py_sum (map (fun v_p => (gen_AdditiveSatisfaction_get_project_sat self_ballot self_func self_instance self_precomputed_values self_profile v_p)) v_proj)).
Global Hint Unfold gen_AdditiveSatisfaction_sat : pygen.

(* pabutools/election/satisfaction/additivesatisfaction.py:136 AdditiveSatisfaction.sat_project
def sat_project(self, project: Project) -> Numeric:
    return self.get_project_sat(project) *)
Definition gen_AdditiveSatisfaction_sat_project (self_ballot : py_ballot) (self_func : (py_inst -> py_profile -> py_ballot -> py_proj -> py_dict -> Q)) (self_instance : py_inst) (self_precomputed_values : py_dict) (self_profile : py_profile) (v_project : py_proj) : Q :=
  (gen_AdditiveSatisfaction_get_project_sat self_ballot self_func self_instance self_precomputed_values self_profile v_project).
Global Hint Unfold gen_AdditiveSatisfaction_sat_project : pygen.

(* pabutools/election/satisfaction/functionalsatisfaction.py:73 FunctionalSatisfaction.sat
def sat(self, projects: Collection[Project]) -> Numeric:
    return self.func(self.instance, self.profile, self.ballot, projects) *)
Definition gen_FunctionalSatisfaction_sat (self_ballot : py_ballot) (self_func : (py_inst -> py_profile -> py_ballot -> (list py_proj) -> Q)) (self_instance : py_inst) (self_profile : py_profile) (v_projects : (list py_proj)) : Q :=
  (self_func self_instance self_profile self_ballot v_projects).
Global Hint Unfold gen_FunctionalSatisfaction_sat : pygen.

(* pabutools/election/satisfaction/functionalsatisfaction.py:76 FunctionalSatisfaction.sat_project
def sat_project(self, project: Project) -> Numeric:
    return self.sat([project]) *)
Definition gen_FunctionalSatisfaction_sat_project (self_ballot : py_ballot) (self_func : (py_inst -> py_profile -> py_ballot -> (list py_proj) -> Q)) (self_instance : py_inst) (self_profile : py_profile) (v_project : py_proj) : Q :=
  (gen_FunctionalSatisfaction_sat self_ballot self_func self_instance self_profile [v_project]).
Global Hint Unfold gen_FunctionalSatisfaction_sat_project : pygen.

(* pabutools/election/satisfaction/positionalsatisfaction.py:68 PositionalSatisfaction.sat
def sat(self, projects: Collection[Project]):
    scores = [self.positional_func(self.ballot, project) for project in projects]
    return self.aggregation_func(scores) *)
Definition gen_PositionalSatisfaction_sat (self_aggregation_func : ((list Q) -> Q)) (self_ballot : py_ballot) (self_instance : py_inst) (self_positional_func : (py_ballot -> py_proj -> Q)) (self_profile : py_profile) (v_projects : (list py_proj)) : Q :=
  let v_scores := (map (fun v_project => (self_positional_func self_ballot v_project)) v_projects) in
  (self_aggregation_func v_scores).
Global Hint Unfold gen_PositionalSatisfaction_sat : pygen.

(* pabutools/election/satisfaction/positionalsatisfaction.py:72 PositionalSatisfaction.sat_project
def sat_project(self, project: Project) -> Numeric:
    return self.sat([project]) *)
Definition gen_PositionalSatisfaction_sat_project (self_aggregation_func : ((list Q) -> Q)) (self_ballot : py_ballot) (self_instance : py_inst) (self_positional_func : (py_ballot -> py_proj -> Q)) (self_profile : py_profile) (v_project : py_proj) : Q :=
  (gen_PositionalSatisfaction_sat self_aggregation_func self_ballot self_instance self_positional_func self_profile [v_project]).
Global Hint Unfold gen_PositionalSatisfaction_sat_project : pygen.

(* pabutools/tiebreaking.py:35 TieBreakingRule.order
def order(self, instance: Instance, profile: AbstractProfile, projects: Collection[Project], key: Callable[..., Project] | None=None) -> list[Project]:

    def default_key(p):
        return p
    if key is None:
        key = default_key
    return sorted(projects, key=lambda project: self.func(instance, profile, key(project))) *)
Definition gen_TieBreakingRule_order (self_func : (py_inst -> py_aprofile -> py_proj -> Q)) (v_instance : py_inst) (v_profile : py_aprofile) (v_projects : (list py_proj)) : (list py_proj) :=
  (py_sorted_by_key (fun x1_0 => (self_func v_instance v_profile x1_0)) v_projects).
Global Hint Unfold gen_TieBreakingRule_order : pygen.

(* pabutools/tiebreaking.py:35 TieBreakingRule.order
def order(self, instance: Instance, profile: AbstractProfile, projects: Collection[Project], key: Callable[..., Project] | None=None) -> list[Project]:

    def default_key(p):
        return p
    if key is None:
        key = default_key
    return sorted(projects, key=lambda project: self.func(instance, profile, key(project))) *)
Definition gen_TieBreakingRule_order_key (self_func : (py_inst -> py_aprofile -> py_proj -> Q)) (v_instance : py_inst) (v_profile : py_aprofile) (v_projects : (list py_proj)) (v_key : (py_proj -> py_proj)) : (list py_proj) :=
  (py_sorted_by_key (fun x1_0 => (self_func v_instance v_profile (v_key x1_0))) v_projects).
Global Hint Unfold gen_TieBreakingRule_order_key : pygen.

(* pabutools/tiebreaking.py:73 TieBreakingRule.untie
def untie(self, instance: Instance, profile: AbstractProfile, projects: Collection[Project], key: Callable[..., Project] | None=None) -> Project:

    def default_key(p):
        return p
    if key is None:
        key = default_key
    return self.order(instance, profile, projects, key)[0] *)
Definition gen_TieBreakingRule_untie (self_func : (py_inst -> py_aprofile -> py_proj -> Q)) (v_instance : py_inst) (v_profile : py_aprofile) (v_projects : (list py_proj)) : (option py_proj) :=
  (py_index (gen_TieBreakingRule_order_key self_func v_instance v_profile v_projects (fun x1_0 => x1_0)) 0%nat).
Global Hint Unfold gen_TieBreakingRule_untie : pygen.

(* pabutools/tiebreaking.py:73 TieBreakingRule.untie
def untie(self, instance: Instance, profile: AbstractProfile, projects: Collection[Project], key: Callable[..., Project] | None=None) -> Project:

    def default_key(p):
        return p
    if key is None:
        key = default_key
    return self.order(instance, profile, projects, key)[0] *)
Definition gen_TieBreakingRule_untie_key (self_func : (py_inst -> py_aprofile -> py_proj -> Q)) (v_instance : py_inst) (v_profile : py_aprofile) (v_projects : (list py_proj)) (v_key : (py_proj -> py_proj)) : (option py_proj) :=
  (py_index (gen_TieBreakingRule_order_key self_func v_instance v_profile v_projects v_key) 0%nat).
Global Hint Unfold gen_TieBreakingRule_untie_key : pygen.

(* pabutools/election/satisfaction/additivesatisfaction.py:187 Cardinality_Sat.__init__: Cardinality_Sat(instance, profile, ballot).sat -- AdditiveSatisfaction.__init__ chain executed symbolically *)
Definition gen_Cardinality_Sat_sat (v_instance : py_inst) (v_profile : py_profile) (v_ballot : py_ballot) (v_projects : (list py_proj)) : Q :=
  gen_AdditiveSatisfaction_sat v_ballot gen_cardinality_sat_func v_instance (gen_AdditiveSatisfaction_preprocessing v_instance v_profile v_ballot) v_profile v_projects.
Global Hint Unfold gen_Cardinality_Sat_sat : pygen.

(* pabutools/election/satisfaction/additivesatisfaction.py:187 Cardinality_Sat.__init__: Cardinality_Sat(instance, profile, ballot).sat_project -- AdditiveSatisfaction.__init__ chain executed symbolically *)
Definition gen_Cardinality_Sat_sat_project (v_instance : py_inst) (v_profile : py_profile) (v_ballot : py_ballot) (v_project : py_proj) : Q :=
  gen_AdditiveSatisfaction_sat_project v_ballot gen_cardinality_sat_func v_instance (gen_AdditiveSatisfaction_preprocessing v_instance v_profile v_ballot) v_profile v_project.
Global Hint Unfold gen_Cardinality_Sat_sat_project : pygen.

(* pabutools/election/satisfaction/additivesatisfaction.py:250 Relative_Cardinality_Sat.__init__: Relative_Cardinality_Sat(instance, profile, ballot).sat -- AdditiveSatisfaction.__init__ chain executed symbolically *)
Definition gen_Relative_Cardinality_Sat_sat (v_instance : py_inst) (v_profile : py_profile) (v_ballot : py_ballot) (v_projects : (list py_proj)) : Q :=
  gen_AdditiveSatisfaction_sat v_ballot gen_relative_cardinality_sat_func v_instance (gen_Relative_Cardinality_Sat_preprocessing v_instance v_profile v_ballot) v_profile v_projects.
Global Hint Unfold gen_Relative_Cardinality_Sat_sat : pygen.

(* pabutools/election/satisfaction/additivesatisfaction.py:250 Relative_Cardinality_Sat.__init__: Relative_Cardinality_Sat(instance, profile, ballot).sat_project -- AdditiveSatisfaction.__init__ chain executed symbolically *)
Definition gen_Relative_Cardinality_Sat_sat_project (v_instance : py_inst) (v_profile : py_profile) (v_ballot : py_ballot) (v_project : py_proj) : Q :=
  gen_AdditiveSatisfaction_sat_project v_ballot gen_relative_cardinality_sat_func v_instance (gen_Relative_Cardinality_Sat_preprocessing v_instance v_profile v_ballot) v_profile v_project.
Global Hint Unfold gen_Relative_Cardinality_Sat_sat_project : pygen.

(* pabutools/election/satisfaction/additivesatisfaction.py:314 Cost_Sat.__init__: Cost_Sat(instance, profile, ballot).sat -- AdditiveSatisfaction.__init__ chain executed symbolically *)
Definition gen_Cost_Sat_sat (v_instance : py_inst) (v_profile : py_profile) (v_ballot : py_ballot) (v_projects : (list py_proj)) : Q :=
  gen_AdditiveSatisfaction_sat v_ballot gen_cost_sat_func v_instance (gen_AdditiveSatisfaction_preprocessing v_instance v_profile v_ballot) v_profile v_projects.
Global Hint Unfold gen_Cost_Sat_sat : pygen.

(* pabutools/election/satisfaction/additivesatisfaction.py:314 Cost_Sat.__init__: Cost_Sat(instance, profile, ballot).sat_project -- AdditiveSatisfaction.__init__ chain executed symbolically *)
Definition gen_Cost_Sat_sat_project (v_instance : py_inst) (v_profile : py_profile) (v_ballot : py_ballot) (v_project : py_proj) : Q :=
  gen_AdditiveSatisfaction_sat_project v_ballot gen_cost_sat_func v_instance (gen_AdditiveSatisfaction_preprocessing v_instance v_profile v_ballot) v_profile v_project.
Global Hint Unfold gen_Cost_Sat_sat_project : pygen.

(* pabutools/election/satisfaction/additivesatisfaction.py:374 Relative_Cost_Sat.__init__: Relative_Cost_Sat(instance, profile, ballot).sat -- AdditiveSatisfaction.__init__ chain executed symbolically *)
Definition gen_Relative_Cost_Sat_sat (orc : py_oracle) (v_instance : py_inst) (v_profile : py_profile) (v_ballot : py_ballot) (v_projects : (list py_proj)) : Q :=
  gen_AdditiveSatisfaction_sat v_ballot gen_relative_cost_sat_func v_instance ((gen_Relative_Cost_Sat_preprocessing orc) v_instance v_profile v_ballot) v_profile v_projects.
Global Hint Unfold gen_Relative_Cost_Sat_sat : pygen.

(* pabutools/election/satisfaction/additivesatisfaction.py:374 Relative_Cost_Sat.__init__: Relative_Cost_Sat(instance, profile, ballot).sat_project -- AdditiveSatisfaction.__init__ chain executed symbolically *)
Definition gen_Relative_Cost_Sat_sat_project (orc : py_oracle) (v_instance : py_inst) (v_profile : py_profile) (v_ballot : py_ballot) (v_project : py_proj) : Q :=
  gen_AdditiveSatisfaction_sat_project v_ballot gen_relative_cost_sat_func v_instance ((gen_Relative_Cost_Sat_preprocessing orc) v_instance v_profile v_ballot) v_profile v_project.
Global Hint Unfold gen_Relative_Cost_Sat_sat_project : pygen.

(* pabutools/election/satisfaction/additivesatisfaction.py:443 Relative_Cost_Approx_Normaliser_Sat.__init__: Relative_Cost_Approx_Normaliser_Sat(instance, profile, ballot).sat -- AdditiveSatisfaction.__init__ chain executed symbolically *)
Definition gen_Relative_Cost_Approx_Normaliser_Sat_sat (v_instance : py_inst) (v_profile : py_profile) (v_ballot : py_ballot) (v_projects : (list py_proj)) : Q :=
  gen_AdditiveSatisfaction_sat v_ballot gen_relative_cost_approx_normaliser_sat_func v_instance (gen_Relative_Cost_Approx_Normaliser_Sat_preprocessing v_instance v_profile v_ballot) v_profile v_projects.
Global Hint Unfold gen_Relative_Cost_Approx_Normaliser_Sat_sat : pygen.

(* pabutools/election/satisfaction/additivesatisfaction.py:443 Relative_Cost_Approx_Normaliser_Sat.__init__: Relative_Cost_Approx_Normaliser_Sat(instance, profile, ballot).sat_project -- AdditiveSatisfaction.__init__ chain executed symbolically *)
Definition gen_Relative_Cost_Approx_Normaliser_Sat_sat_project (v_instance : py_inst) (v_profile : py_profile) (v_ballot : py_ballot) (v_project : py_proj) : Q :=
  gen_AdditiveSatisfaction_sat_project v_ballot gen_relative_cost_approx_normaliser_sat_func v_instance (gen_Relative_Cost_Approx_Normaliser_Sat_preprocessing v_instance v_profile v_ballot) v_profile v_project.
Global Hint Unfold gen_Relative_Cost_Approx_Normaliser_Sat_sat_project : pygen.

(* pabutools/election/satisfaction/additivesatisfaction.py:635 Effort_Sat.__init__: Effort_Sat(instance, profile, ballot).sat -- AdditiveSatisfaction.__init__ chain executed symbolically *)
Definition gen_Effort_Sat_sat (v_instance : py_inst) (v_profile : py_profile) (v_ballot : py_ballot) (v_projects : (list py_proj)) : Q :=
  gen_AdditiveSatisfaction_sat v_ballot gen_effort_sat_func v_instance (gen_AdditiveSatisfaction_preprocessing v_instance v_profile v_ballot) v_profile v_projects.
Global Hint Unfold gen_Effort_Sat_sat : pygen.

(* pabutools/election/satisfaction/additivesatisfaction.py:635 Effort_Sat.__init__: Effort_Sat(instance, profile, ballot).sat_project -- AdditiveSatisfaction.__init__ chain executed symbolically *)
Definition gen_Effort_Sat_sat_project (v_instance : py_inst) (v_profile : py_profile) (v_ballot : py_ballot) (v_project : py_proj) : Q :=
  gen_AdditiveSatisfaction_sat_project v_ballot gen_effort_sat_func v_instance (gen_AdditiveSatisfaction_preprocessing v_instance v_profile v_ballot) v_profile v_project.
Global Hint Unfold gen_Effort_Sat_sat_project : pygen.

(* pabutools/election/satisfaction/additivesatisfaction.py:687 Additive_Cardinal_Sat.__init__: Additive_Cardinal_Sat(instance, profile, ballot).sat -- AdditiveSatisfaction.__init__ chain executed symbolically under the guard isinstance(ballot, AbstractCardinalBallot) *)
Definition gen_Additive_Cardinal_Sat_sat (v_instance : py_inst) (v_profile : py_profile) (v_ballot : py_ballot) (v_projects : (list py_proj)) : Q :=
  gen_AdditiveSatisfaction_sat v_ballot gen_additive_card_sat_func v_instance (gen_AdditiveSatisfaction_preprocessing v_instance v_profile v_ballot) v_profile v_projects.
Global Hint Unfold gen_Additive_Cardinal_Sat_sat : pygen.

(* pabutools/election/satisfaction/additivesatisfaction.py:687 Additive_Cardinal_Sat.__init__: Additive_Cardinal_Sat(instance, profile, ballot).sat_project -- AdditiveSatisfaction.__init__ chain executed symbolically under the guard isinstance(ballot, AbstractCardinalBallot) *)
Definition gen_Additive_Cardinal_Sat_sat_project (v_instance : py_inst) (v_profile : py_profile) (v_ballot : py_ballot) (v_project : py_proj) : Q :=
  gen_AdditiveSatisfaction_sat_project v_ballot gen_additive_card_sat_func v_instance (gen_AdditiveSatisfaction_preprocessing v_instance v_profile v_ballot) v_profile v_project.
Global Hint Unfold gen_Additive_Cardinal_Sat_sat_project : pygen.

(* pabutools/election/satisfaction/additivesatisfaction.py:757 Additive_Cardinal_Relative_Sat.__init__: Additive_Cardinal_Relative_Sat(instance, profile, ballot).sat -- AdditiveSatisfaction.__init__ chain executed symbolically under the guard isinstance(ballot, AbstractCardinalBallot) *)
Definition gen_Additive_Cardinal_Relative_Sat_sat (opaque0 : Q) (v_instance : py_inst) (v_profile : py_profile) (v_ballot : py_ballot) (v_projects : (list py_proj)) : Q :=
  gen_AdditiveSatisfaction_sat v_ballot gen_additive_card_relative_sat_func v_instance ((gen_Additive_Cardinal_Relative_Sat_preprocessing opaque0) v_instance v_profile v_ballot) v_profile v_projects.
Global Hint Unfold gen_Additive_Cardinal_Relative_Sat_sat : pygen.

(* pabutools/election/satisfaction/additivesatisfaction.py:757 Additive_Cardinal_Relative_Sat.__init__: Additive_Cardinal_Relative_Sat(instance, profile, ballot).sat_project -- AdditiveSatisfaction.__init__ chain executed symbolically under the guard isinstance(ballot, AbstractCardinalBallot) *)
Definition gen_Additive_Cardinal_Relative_Sat_sat_project (opaque0 : Q) (v_instance : py_inst) (v_profile : py_profile) (v_ballot : py_ballot) (v_project : py_proj) : Q :=
  gen_AdditiveSatisfaction_sat_project v_ballot gen_additive_card_relative_sat_func v_instance ((gen_Additive_Cardinal_Relative_Sat_preprocessing opaque0) v_instance v_profile v_ballot) v_profile v_project.
Global Hint Unfold gen_Additive_Cardinal_Relative_Sat_sat_project : pygen.

(* pabutools/election/satisfaction/functionalsatisfaction.py:163 CC_Sat.__init__: CC_Sat(instance, profile, ballot).sat -- FunctionalSatisfaction.__init__ chain executed symbolically under the guard isinstance(ballot, AbstractApprovalBallot) *)
Definition gen_CC_Sat_approval_sat (v_instance : py_inst) (v_profile : py_profile) (v_ballot : py_ballot) (v_projects : (list py_proj)) : Q :=
  gen_FunctionalSatisfaction_sat v_ballot gen_cc_sat_func_app v_instance v_profile v_projects.
Global Hint Unfold gen_CC_Sat_approval_sat : pygen.

(* pabutools/election/satisfaction/functionalsatisfaction.py:163 CC_Sat.__init__: CC_Sat(instance, profile, ballot).sat_project -- FunctionalSatisfaction.__init__ chain executed symbolically under the guard isinstance(ballot, AbstractApprovalBallot) *)
Definition gen_CC_Sat_approval_sat_project (v_instance : py_inst) (v_profile : py_profile) (v_ballot : py_ballot) (v_project : py_proj) : Q :=
  gen_FunctionalSatisfaction_sat_project v_ballot gen_cc_sat_func_app v_instance v_profile v_project.
Global Hint Unfold gen_CC_Sat_approval_sat_project : pygen.

(* pabutools/election/satisfaction/functionalsatisfaction.py:163 CC_Sat.__init__: CC_Sat(instance, profile, ballot).sat -- FunctionalSatisfaction.__init__ chain executed symbolically under the guard isinstance(ballot, AbstractCardinalBallot) *)
Definition gen_CC_Sat_cardinal_sat (v_instance : py_inst) (v_profile : py_profile) (v_ballot : py_ballot) (v_projects : (list py_proj)) : Q :=
  gen_FunctionalSatisfaction_sat v_ballot gen_cc_sat_func_card v_instance v_profile v_projects.
Global Hint Unfold gen_CC_Sat_cardinal_sat : pygen.

(* pabutools/election/satisfaction/functionalsatisfaction.py:163 CC_Sat.__init__: CC_Sat(instance, profile, ballot).sat_project -- FunctionalSatisfaction.__init__ chain executed symbolically under the guard isinstance(ballot, AbstractCardinalBallot) *)
Definition gen_CC_Sat_cardinal_sat_project (v_instance : py_inst) (v_profile : py_profile) (v_ballot : py_ballot) (v_project : py_proj) : Q :=
  gen_FunctionalSatisfaction_sat_project v_ballot gen_cc_sat_func_card v_instance v_profile v_project.
Global Hint Unfold gen_CC_Sat_cardinal_sat_project : pygen.

(* pabutools/election/satisfaction/positionalsatisfaction.py:114 Additive_Borda_Sat.__init__: Additive_Borda_Sat(instance, profile, ballot).sat -- PositionalSatisfaction.__init__ chain executed symbolically under the guard isinstance(ballot, AbstractOrdinalBallot) *)
Definition gen_Additive_Borda_Sat_sat (v_instance : py_inst) (v_profile : py_profile) (v_ballot : py_ballot) (v_projects : (list py_proj)) : Q :=
  gen_PositionalSatisfaction_sat py_sum v_ballot v_instance gen_borda_sat_func v_profile v_projects.
Global Hint Unfold gen_Additive_Borda_Sat_sat : pygen.

(* pabutools/election/satisfaction/positionalsatisfaction.py:114 Additive_Borda_Sat.__init__: Additive_Borda_Sat(instance, profile, ballot).sat_project -- PositionalSatisfaction.__init__ chain executed symbolically under the guard isinstance(ballot, AbstractOrdinalBallot) *)
Definition gen_Additive_Borda_Sat_sat_project (v_instance : py_inst) (v_profile : py_profile) (v_ballot : py_ballot) (v_project : py_proj) : Q :=
  gen_PositionalSatisfaction_sat_project py_sum v_ballot v_instance gen_borda_sat_func v_profile v_project.
Global Hint Unfold gen_Additive_Borda_Sat_sat_project : pygen.

(* pabutools/tiebreaking.py:110 lexico_tie_breaking
lexico_tie_breaking = TieBreakingRule(lambda inst, prof, proj: proj.name) *)
Definition gen_lexico_tie_breaking_key (v_inst : py_inst) (v_prof : py_aprofile) (v_proj : py_proj) : Q :=
  (py_name v_proj).
Global Hint Unfold gen_lexico_tie_breaking_key : pygen.
(* no ZeroDivisionError: every frac(a, b) on the executed path has b != 0 *)
Definition gen_lexico_tie_breaking_key_safe (v_inst : py_inst) (v_prof : py_aprofile) (v_proj : py_proj) : bool :=
  true.
Global Hint Unfold gen_lexico_tie_breaking_key_safe : pygen.

(* pabutools/tiebreaking.py:110 lexico_tie_breaking: lexico_tie_breaking.order(instance, profile, projects) *)
Definition gen_lexico_tie_breaking_order (v_instance : py_inst) (v_profile : py_aprofile) (v_projects : (list py_proj)) : (list py_proj) :=
  gen_TieBreakingRule_order gen_lexico_tie_breaking_key v_instance v_profile v_projects.
Global Hint Unfold gen_lexico_tie_breaking_order : pygen.

(* pabutools/tiebreaking.py:110 lexico_tie_breaking: lexico_tie_breaking.untie(instance, profile, projects) *)
Definition gen_lexico_tie_breaking_untie (v_instance : py_inst) (v_profile : py_aprofile) (v_projects : (list py_proj)) : (option py_proj) :=
  gen_TieBreakingRule_untie gen_lexico_tie_breaking_key v_instance v_profile v_projects.
Global Hint Unfold gen_lexico_tie_breaking_untie : pygen.

(* pabutools/tiebreaking.py:115 app_score_tie_breaking
app_score_tie_breaking = TieBreakingRule(lambda inst, prof, proj: -prof.approval_score(proj)) *)
Definition gen_app_score_tie_breaking_key (v_inst : py_inst) (v_prof : py_aprofile) (v_proj : py_proj) : Q :=
  (- (py_approval_score v_prof v_proj)).
Global Hint Unfold gen_app_score_tie_breaking_key : pygen.
(* no ZeroDivisionError: every frac(a, b) on the executed path has b != 0 *)
Definition gen_app_score_tie_breaking_key_safe (v_inst : py_inst) (v_prof : py_aprofile) (v_proj : py_proj) : bool :=
  true.
Global Hint Unfold gen_app_score_tie_breaking_key_safe : pygen.

(* pabutools/tiebreaking.py:115 app_score_tie_breaking: app_score_tie_breaking.order(instance, profile, projects) *)
Definition gen_app_score_tie_breaking_order (v_instance : py_inst) (v_profile : py_aprofile) (v_projects : (list py_proj)) : (list py_proj) :=
  gen_TieBreakingRule_order gen_app_score_tie_breaking_key v_instance v_profile v_projects.
Global Hint Unfold gen_app_score_tie_breaking_order : pygen.

(* pabutools/tiebreaking.py:115 app_score_tie_breaking: app_score_tie_breaking.untie(instance, profile, projects) *)
Definition gen_app_score_tie_breaking_untie (v_instance : py_inst) (v_profile : py_aprofile) (v_projects : (list py_proj)) : (option py_proj) :=
  gen_TieBreakingRule_untie gen_app_score_tie_breaking_key v_instance v_profile v_projects.
Global Hint Unfold gen_app_score_tie_breaking_untie : pygen.

(* pabutools/tiebreaking.py:123 min_cost_tie_breaking
min_cost_tie_breaking = TieBreakingRule(lambda inst, prof, proj: proj.cost) *)
Definition gen_min_cost_tie_breaking_key (v_inst : py_inst) (v_prof : py_aprofile) (v_proj : py_proj) : Q :=
  (py_cost v_inst v_proj).
Global Hint Unfold gen_min_cost_tie_breaking_key : pygen.
(* no ZeroDivisionError: every frac(a, b) on the executed path has b != 0 *)
Definition gen_min_cost_tie_breaking_key_safe (v_inst : py_inst) (v_prof : py_aprofile) (v_proj : py_proj) : bool :=
  true.
Global Hint Unfold gen_min_cost_tie_breaking_key_safe : pygen.

(* pabutools/tiebreaking.py:123 min_cost_tie_breaking: min_cost_tie_breaking.order(instance, profile, projects) *)
Definition gen_min_cost_tie_breaking_order (v_instance : py_inst) (v_profile : py_aprofile) (v_projects : (list py_proj)) : (list py_proj) :=
  gen_TieBreakingRule_order gen_min_cost_tie_breaking_key v_instance v_profile v_projects.
Global Hint Unfold gen_min_cost_tie_breaking_order : pygen.

(* pabutools/tiebreaking.py:123 min_cost_tie_breaking: min_cost_tie_breaking.untie(instance, profile, projects) *)
Definition gen_min_cost_tie_breaking_untie (v_instance : py_inst) (v_profile : py_aprofile) (v_projects : (list py_proj)) : (option py_proj) :=
  gen_TieBreakingRule_untie gen_min_cost_tie_breaking_key v_instance v_profile v_projects.
Global Hint Unfold gen_min_cost_tie_breaking_untie : pygen.

(* pabutools/tiebreaking.py:129 max_cost_tie_breaking
max_cost_tie_breaking = TieBreakingRule(lambda inst, prof, proj: -proj.cost) *)
Definition gen_max_cost_tie_breaking_key (v_inst : py_inst) (v_prof : py_aprofile) (v_proj : py_proj) : Q :=
  (- (py_cost v_inst v_proj)).
Global Hint Unfold gen_max_cost_tie_breaking_key : pygen.
(* no ZeroDivisionError: every frac(a, b) on the executed path has b != 0 *)
Definition gen_max_cost_tie_breaking_key_safe (v_inst : py_inst) (v_prof : py_aprofile) (v_proj : py_proj) : bool :=
  true.
Global Hint Unfold gen_max_cost_tie_breaking_key_safe : pygen.

(* pabutools/tiebreaking.py:129 max_cost_tie_breaking: max_cost_tie_breaking.order(instance, profile, projects) *)
Definition gen_max_cost_tie_breaking_order (v_instance : py_inst) (v_profile : py_aprofile) (v_projects : (list py_proj)) : (list py_proj) :=
  gen_TieBreakingRule_order gen_max_cost_tie_breaking_key v_instance v_profile v_projects.
Global Hint Unfold gen_max_cost_tie_breaking_order : pygen.

(* pabutools/tiebreaking.py:129 max_cost_tie_breaking: max_cost_tie_breaking.untie(instance, profile, projects) *)
Definition gen_max_cost_tie_breaking_untie (v_instance : py_inst) (v_profile : py_aprofile) (v_projects : (list py_proj)) : (option py_proj) :=
  gen_TieBreakingRule_untie gen_max_cost_tie_breaking_key v_instance v_profile v_projects.
Global Hint Unfold gen_max_cost_tie_breaking_untie : pygen.

(* pabutools/tiebreaking.py:142 refuse_tie_breaking
refuse_tie_breaking = TieBreakingRule(refuse_to_break_ties) *)
Definition gen_refuse_tie_breaking_key (v_instance : py_inst) (v_profile : py_aprofile) (v_project : py_proj) : (option Q) :=
  gen_refuse_to_break_ties v_instance v_profile v_project.
Global Hint Unfold gen_refuse_tie_breaking_key : pygen.

(* class wiring: which function every shipped measure hands to which base class, under which guard *)
Definition gen_wiring_Additive_Borda_Sat : list py_wire := [mkWire (GuardIsinstance "AbstractOrdinalBallot"%string) "PositionalSatisfaction"%string ["borda_sat_func"%string; "sum"%string]].
Definition gen_wiring_Additive_Cardinal_Relative_Sat : list py_wire := [mkWire (GuardIsinstance "AbstractCardinalBallot"%string) "AdditiveSatisfaction"%string ["additive_card_relative_sat_func"%string]].
Definition gen_wiring_Additive_Cardinal_Sat : list py_wire := [mkWire (GuardIsinstance "AbstractCardinalBallot"%string) "AdditiveSatisfaction"%string ["additive_card_sat_func"%string]].
Definition gen_wiring_Additive_Cost_Log_Sat : list py_wire := [mkWire (GuardIsinstance "AbstractApprovalBallot"%string) "AdditiveSatisfaction"%string ["additive_cost_log_sat_func"%string]].
Definition gen_wiring_Additive_Cost_Sqrt_Sat : list py_wire := [mkWire (GuardIsinstance "AbstractApprovalBallot"%string) "AdditiveSatisfaction"%string ["add_cost_sqrt_sat_func"%string]].
Definition gen_wiring_CC_Sat : list py_wire := [mkWire (GuardIsinstance "AbstractApprovalBallot"%string) "FunctionalSatisfaction"%string ["cc_sat_func_app"%string]; mkWire (GuardIsinstance "AbstractCardinalBallot"%string) "FunctionalSatisfaction"%string ["cc_sat_func_card"%string]].
Definition gen_wiring_Cardinality_Sat : list py_wire := [mkWire GuardAny "AdditiveSatisfaction"%string ["cardinality_sat_func"%string]].
Definition gen_wiring_Cost_Log_Sat : list py_wire := [mkWire (GuardIsinstance "AbstractApprovalBallot"%string) "FunctionalSatisfaction"%string ["cost_log_sat_func"%string]].
Definition gen_wiring_Cost_Sat : list py_wire := [mkWire GuardAny "AdditiveSatisfaction"%string ["cost_sat_func"%string]].
Definition gen_wiring_Cost_Sqrt_Sat : list py_wire := [mkWire (GuardIsinstance "AbstractApprovalBallot"%string) "FunctionalSatisfaction"%string ["cost_sqrt_sat_func"%string]].
Definition gen_wiring_Effort_Sat : list py_wire := [mkWire GuardAny "AdditiveSatisfaction"%string ["effort_sat_func"%string]].
Definition gen_wiring_Relative_Cardinality_Sat : list py_wire := [mkWire GuardAny "AdditiveSatisfaction"%string ["relative_cardinality_sat_func"%string]].
Definition gen_wiring_Relative_Cost_Approx_Normaliser_Sat : list py_wire := [mkWire GuardAny "AdditiveSatisfaction"%string ["relative_cost_approx_normaliser_sat_func"%string]].
Definition gen_wiring_Relative_Cost_Sat : list py_wire := [mkWire GuardAny "AdditiveSatisfaction"%string ["relative_cost_sat_func"%string]].
Definition gen_wiring : list (string * list py_wire) :=
  [("Additive_Borda_Sat"%string, gen_wiring_Additive_Borda_Sat);
   ("Additive_Cardinal_Relative_Sat"%string, gen_wiring_Additive_Cardinal_Relative_Sat);
   ("Additive_Cardinal_Sat"%string, gen_wiring_Additive_Cardinal_Sat);
   ("Additive_Cost_Log_Sat"%string, gen_wiring_Additive_Cost_Log_Sat);
   ("Additive_Cost_Sqrt_Sat"%string, gen_wiring_Additive_Cost_Sqrt_Sat);
   ("CC_Sat"%string, gen_wiring_CC_Sat);
   ("Cardinality_Sat"%string, gen_wiring_Cardinality_Sat);
   ("Cost_Log_Sat"%string, gen_wiring_Cost_Log_Sat);
   ("Cost_Sat"%string, gen_wiring_Cost_Sat);
   ("Cost_Sqrt_Sat"%string, gen_wiring_Cost_Sqrt_Sat);
   ("Effort_Sat"%string, gen_wiring_Effort_Sat);
   ("Relative_Cardinality_Sat"%string, gen_wiring_Relative_Cardinality_Sat);
   ("Relative_Cost_Approx_Normaliser_Sat"%string, gen_wiring_Relative_Cost_Approx_Normaliser_Sat);
   ("Relative_Cost_Sat"%string, gen_wiring_Relative_Cost_Sat)].
Definition gen_tie_rules : list string := ["lexico_tie_breaking"%string; "app_score_tie_breaking"%string; "min_cost_tie_breaking"%string; "max_cost_tie_breaking"%string; "refuse_tie_breaking"%string].
Definition gen_untranslated : list string := [].
