(* Generated/PyFuncs.v -- REGENERATED from the Python source on every run by harness/vharness/pytrans.py.
   Do not edit.  One definition per translated function, over the vocabulary of Model/PyPrims.v;
   [Untranslated] marks a function whose source left the translated fragment. *)
From Coq Require Import String.
From PB Require Import Model.PyPrims.
Open Scope Q_scope.

(* pabutools/election/satisfaction/additivesatisfaction.py:140 cardinality_sat_func
def cardinality_sat_func(instance: Instance, profile: AbstractProfile, ballot: AbstractBallot, project: Project, precomputed_values: dict) -> int:
    return int(project in ballot) *)
Definition gen_cardinality_sat_func (v_instance : py_inst) (v_profile : py_profile) (v_ballot : py_ballot) (v_project : py_proj) (v_precomputed_values : py_dict) : Q :=
  (py_int_of_bool (py_in_ballot v_ballot v_project)).
Global Hint Unfold gen_cardinality_sat_func : pygen.
(* no ZeroDivisionError: every frac(a, b) on the executed path has b != 0 *)
Definition gen_cardinality_sat_func_safe (v_instance : py_inst) (v_profile : py_profile) (v_ballot : py_ballot) (v_project : py_proj) (v_precomputed_values : py_dict) : bool :=
  true.
Global Hint Unfold gen_cardinality_sat_func_safe : pygen.

(* pabutools/election/satisfaction/additivesatisfaction.py:195 relative_cardinality_sat_func
def relative_cardinality_sat_func(instance: Instance, profile: AbstractProfile, ballot: AbstractBallot, project: Project, precomputed_values: dict) -> int:
    if precomputed_values['max_budget_allocation_card'] == 0:
        return 0
    return frac(int(project in ballot), precomputed_values['max_budget_allocation_card']) *)
Definition gen_relative_cardinality_sat_func (v_instance : py_inst) (v_profile : py_profile) (v_ballot : py_ballot) (v_project : py_proj) (v_precomputed_values : py_dict) : Q :=
  (if (py_eq (py_dict_get v_precomputed_values "max_budget_allocation_card"%string) 0)
  then 0
  else (frac (py_int_of_bool (py_in_ballot v_ballot v_project)) (py_dict_get v_precomputed_values "max_budget_allocation_card"%string))).
Global Hint Unfold gen_relative_cardinality_sat_func : pygen.
(* no ZeroDivisionError: every frac(a, b) on the executed path has b != 0 *)
Definition gen_relative_cardinality_sat_func_safe (v_instance : py_inst) (v_profile : py_profile) (v_ballot : py_ballot) (v_project : py_proj) (v_precomputed_values : py_dict) : bool :=
  (if (py_eq (py_dict_get v_precomputed_values "max_budget_allocation_card"%string) 0)
  then true
  else (py_truth (py_dict_get v_precomputed_values "max_budget_allocation_card"%string))).
Global Hint Unfold gen_relative_cardinality_sat_func_safe : pygen.

(* pabutools/election/satisfaction/additivesatisfaction.py:267 cost_sat_func
def cost_sat_func(instance: Instance, profile: AbstractProfile, ballot: AbstractBallot, project: Project, precomputed_values: dict) -> int:
    return int(project in ballot) * project.cost *)
Definition gen_cost_sat_func (v_instance : py_inst) (v_profile : py_profile) (v_ballot : py_ballot) (v_project : py_proj) (v_precomputed_values : py_dict) : Q :=
  ((py_int_of_bool (py_in_ballot v_ballot v_project)) * (py_cost v_instance v_project)).
Global Hint Unfold gen_cost_sat_func : pygen.
(* no ZeroDivisionError: every frac(a, b) on the executed path has b != 0 *)
Definition gen_cost_sat_func_safe (v_instance : py_inst) (v_profile : py_profile) (v_ballot : py_ballot) (v_project : py_proj) (v_precomputed_values : py_dict) : bool :=
  true.
Global Hint Unfold gen_cost_sat_func_safe : pygen.

(* pabutools/election/satisfaction/additivesatisfaction.py:320 relative_cost_sat_func
def relative_cost_sat_func(instance: Instance, profile: AbstractProfile, ballot: AbstractBallot, project: Project, precomputed_values: dict) -> Numeric:
    if precomputed_values['max_budget_allocation_cost'] == 0:
        return 0
    return frac(int(project in ballot) * project.cost, precomputed_values['max_budget_allocation_cost']) *)
Definition gen_relative_cost_sat_func (v_instance : py_inst) (v_profile : py_profile) (v_ballot : py_ballot) (v_project : py_proj) (v_precomputed_values : py_dict) : Q :=
  (if (py_eq (py_dict_get v_precomputed_values "max_budget_allocation_cost"%string) 0)
  then 0
  else (frac ((py_int_of_bool (py_in_ballot v_ballot v_project)) * (py_cost v_instance v_project)) (py_dict_get v_precomputed_values "max_budget_allocation_cost"%string))).
Global Hint Unfold gen_relative_cost_sat_func : pygen.
(* no ZeroDivisionError: every frac(a, b) on the executed path has b != 0 *)
Definition gen_relative_cost_sat_func_safe (v_instance : py_inst) (v_profile : py_profile) (v_ballot : py_ballot) (v_project : py_proj) (v_precomputed_values : py_dict) : bool :=
  (if (py_eq (py_dict_get v_precomputed_values "max_budget_allocation_cost"%string) 0)
  then true
  else (py_truth (py_dict_get v_precomputed_values "max_budget_allocation_cost"%string))).
Global Hint Unfold gen_relative_cost_sat_func_safe : pygen.

(* pabutools/election/satisfaction/additivesatisfaction.py:391 relative_cost_approx_normaliser_sat_func
def relative_cost_approx_normaliser_sat_func(instance: Instance, profile: AbstractProfile, ballot: AbstractBallot, project: Project, precomputed_values: dict) -> Numeric:
    if precomputed_values['normalizer'] == 0:
        return 0
    return frac(int(project in ballot) * project.cost, precomputed_values['normalizer']) *)
Definition gen_relative_cost_approx_normaliser_sat_func (v_instance : py_inst) (v_profile : py_profile) (v_ballot : py_ballot) (v_project : py_proj) (v_precomputed_values : py_dict) : Q :=
  (if (py_eq (py_dict_get v_precomputed_values "normalizer"%string) 0)
  then 0
  else (frac ((py_int_of_bool (py_in_ballot v_ballot v_project)) * (py_cost v_instance v_project)) (py_dict_get v_precomputed_values "normalizer"%string))).
Global Hint Unfold gen_relative_cost_approx_normaliser_sat_func : pygen.
(* no ZeroDivisionError: every frac(a, b) on the executed path has b != 0 *)
Definition gen_relative_cost_approx_normaliser_sat_func_safe (v_instance : py_inst) (v_profile : py_profile) (v_ballot : py_ballot) (v_project : py_proj) (v_precomputed_values : py_dict) : bool :=
  (if (py_eq (py_dict_get v_precomputed_values "normalizer"%string) 0)
  then true
  else (py_truth (py_dict_get v_precomputed_values "normalizer"%string))).
Global Hint Unfold gen_relative_cost_approx_normaliser_sat_func_safe : pygen.

(* pabutools/election/satisfaction/additivesatisfaction.py:584 effort_sat_func
def effort_sat_func(instance: Instance, profile: AbstractProfile, ballot: AbstractBallot, project: Project, precomputed_values: dict) -> Numeric:
    denominator = sum((profile.multiplicity(b) for b in profile if project in b))
    if denominator:
        return int(project in ballot) * frac(project.cost, denominator)
    return 0 *)
Definition gen_effort_sat_func (v_instance : py_inst) (v_profile : py_profile) (v_ballot : py_ballot) (v_project : py_proj) (v_precomputed_values : py_dict) : Q :=
  let v_denominator := (py_sum (map (fun v_b => (py_multiplicity v_profile v_b)) (filter (fun v_b => (py_in_pballot v_b v_project)) (py_profile_iter v_profile)))) in
  (if (py_truth v_denominator)
  then ((py_int_of_bool (py_in_ballot v_ballot v_project)) * (frac (py_cost v_instance v_project) v_denominator))
  else 0).
Global Hint Unfold gen_effort_sat_func : pygen.
(* no ZeroDivisionError: every frac(a, b) on the executed path has b != 0 *)
Definition gen_effort_sat_func_safe (v_instance : py_inst) (v_profile : py_profile) (v_ballot : py_ballot) (v_project : py_proj) (v_precomputed_values : py_dict) : bool :=
  let v_denominator := (py_sum (map (fun v_b => (py_multiplicity v_profile v_b)) (filter (fun v_b => (py_in_pballot v_b v_project)) (py_profile_iter v_profile)))) in
  (if (py_truth v_denominator)
  then (py_truth v_denominator)
  else true).
Global Hint Unfold gen_effort_sat_func_safe : pygen.

(* pabutools/election/satisfaction/additivesatisfaction.py:641 additive_card_sat_func
def additive_card_sat_func(instance: Instance, profile: AbstractProfile, ballot: AbstractCardinalBallot, project: Project, precomputed_values: dict) -> Numeric:
    return ballot.get(project, 0) *)
Definition gen_additive_card_sat_func (v_instance : py_inst) (v_profile : py_profile) (v_ballot : py_ballot) (v_project : py_proj) (v_precomputed_values : py_dict) : Q :=
  (py_ballot_get v_ballot v_project 0).
Global Hint Unfold gen_additive_card_sat_func : pygen.
(* no ZeroDivisionError: every frac(a, b) on the executed path has b != 0 *)
Definition gen_additive_card_sat_func_safe (v_instance : py_inst) (v_profile : py_profile) (v_ballot : py_ballot) (v_project : py_proj) (v_precomputed_values : py_dict) : bool :=
  true.
Global Hint Unfold gen_additive_card_sat_func_safe : pygen.

(* pabutools/election/satisfaction/additivesatisfaction.py:705 additive_card_relative_sat_func
def additive_card_relative_sat_func(instance: Instance, profile: AbstractProfile, ballot: AbstractCardinalBallot, project: Project, precomputed_values: dict) -> Numeric:
    if precomputed_values['max_budget_allocation_score'] == 0:
        return 0
    return frac(ballot.get(project, 0), precomputed_values['max_budget_allocation_score']) *)
Definition gen_additive_card_relative_sat_func (v_instance : py_inst) (v_profile : py_profile) (v_ballot : py_ballot) (v_project : py_proj) (v_precomputed_values : py_dict) : Q :=
  (if (py_eq (py_dict_get v_precomputed_values "max_budget_allocation_score"%string) 0)
  then 0
  else (frac (py_ballot_get v_ballot v_project 0) (py_dict_get v_precomputed_values "max_budget_allocation_score"%string))).
Global Hint Unfold gen_additive_card_relative_sat_func : pygen.
(* no ZeroDivisionError: every frac(a, b) on the executed path has b != 0 *)
Definition gen_additive_card_relative_sat_func_safe (v_instance : py_inst) (v_profile : py_profile) (v_ballot : py_ballot) (v_project : py_proj) (v_precomputed_values : py_dict) : bool :=
  (if (py_eq (py_dict_get v_precomputed_values "max_budget_allocation_score"%string) 0)
  then true
  else (py_truth (py_dict_get v_precomputed_values "max_budget_allocation_score"%string))).
Global Hint Unfold gen_additive_card_relative_sat_func_safe : pygen.

(* pabutools/election/satisfaction/functionalsatisfaction.py:80 cc_sat_func_app
def cc_sat_func_app(instance: Instance, profile: AbstractProfile, ballot: AbstractApprovalBallot, projects: Collection[Project]) -> int:
    return int(any((p in ballot for p in projects))) *)
Definition gen_cc_sat_func_app (v_instance : py_inst) (v_profile : py_profile) (v_ballot : py_ballot) (v_projects : (list py_proj)) : Q :=
  (py_int_of_bool (py_any (map (fun v_p => (py_in_ballot v_ballot v_p)) v_projects))).
Global Hint Unfold gen_cc_sat_func_app : pygen.
(* no ZeroDivisionError: every frac(a, b) on the executed path has b != 0 *)
Definition gen_cc_sat_func_app_safe (v_instance : py_inst) (v_profile : py_profile) (v_ballot : py_ballot) (v_projects : (list py_proj)) : bool :=
  true.
Global Hint Unfold gen_cc_sat_func_app_safe : pygen.

(* pabutools/election/satisfaction/functionalsatisfaction.py:110 cc_sat_func_card
def cc_sat_func_card(instance: Instance, profile: AbstractProfile, ballot: AbstractCardinalBallot, projects: Collection[Project]) -> Numeric:
    res = 0
    for p in projects:
        if p in ballot and ballot[p] > res:
            res = ballot[p]
    return res *)
Definition gen_cc_sat_func_card (v_instance : py_inst) (v_profile : py_profile) (v_ballot : py_ballot) (v_projects : (list py_proj)) : Q :=
  let v_res := 0 in
  (let v_res := fold_left (fun (v_res : Q) v_p => 
    let v_res := (if ((py_in_ballot v_ballot v_p) && (py_gt (py_ballot_getitem v_ballot v_p) v_res))
  then let v_res := (py_ballot_getitem v_ballot v_p) in
  v_res
  else v_res) in
  v_res) v_projects v_res in
  v_res).
Global Hint Unfold gen_cc_sat_func_card : pygen.
(* no ZeroDivisionError: every frac(a, b) on the executed path has b != 0 *)
Definition gen_cc_sat_func_card_safe (v_instance : py_inst) (v_profile : py_profile) (v_ballot : py_ballot) (v_projects : (list py_proj)) : bool :=
  true.
Global Hint Unfold gen_cc_sat_func_card_safe : pygen.

(* pabutools/election/satisfaction/positionalsatisfaction.py:76 borda_sat_func
def borda_sat_func(ballot: AbstractOrdinalBallot, project: Project) -> int:
    if project in ballot:
        return len(ballot) - ballot.position(project) - 1
    return 0 *)
Definition gen_borda_sat_func (v_ballot : py_ballot) (v_project : py_proj) : Q :=
  (if (py_in_ballot v_ballot v_project)
  then (((py_len_ballot v_ballot) - (py_ballot_position v_ballot v_project)) - 1)
  else 0).
Global Hint Unfold gen_borda_sat_func : pygen.
(* no ZeroDivisionError: every frac(a, b) on the executed path has b != 0 *)
Definition gen_borda_sat_func_safe (v_ballot : py_ballot) (v_project : py_proj) : bool :=
  true.
Global Hint Unfold gen_borda_sat_func_safe : pygen.

(* pabutools/tiebreaking.py:136 refuse_to_break_ties
def refuse_to_break_ties(instance: Instance, profile: AbstractProfile, project: Project):
    raise TieBreakingException('A tie occurred, but no tie-breaking rule was provided.') *)
Definition gen_refuse_to_break_ties (v_instance : py_inst) (v_profile : py_aprofile) (v_project : py_proj) : (option Q) :=
  None.
Global Hint Unfold gen_refuse_to_break_ties : pygen.
(* no ZeroDivisionError: every frac(a, b) on the executed path has b != 0 *)
Definition gen_refuse_to_break_ties_safe (v_instance : py_inst) (v_profile : py_aprofile) (v_project : py_proj) : bool :=
  true.
Global Hint Unfold gen_refuse_to_break_ties_safe : pygen.

(* pabutools/election/instance.py:104 total_cost
def total_cost(projects: Collection[Project]) -> Numeric:
    return sum((p.cost for p in projects)) *)
Definition gen_total_cost (cinst : py_inst) (v_projects : (list py_proj)) : Q :=
  (py_sum (map (fun v_p => (py_cost cinst v_p)) v_projects)).
Global Hint Unfold gen_total_cost : pygen.
(* no ZeroDivisionError: every frac(a, b) on the executed path has b != 0 *)
Definition gen_total_cost_safe (cinst : py_inst) (v_projects : (list py_proj)) : bool :=
  true.
Global Hint Unfold gen_total_cost_safe : pygen.

(* pabutools/election/instance.py:121 max_budget_allocation_cardinality
def max_budget_allocation_cardinality(projects: Collection[Project], budget_limit: Numeric) -> int:
    projects_sorted = sorted(projects, key=lambda proj: proj.cost)
    cost = 0
    selected = 0
    for p in projects_sorted:
        new_total_cost = p.cost + cost
        if new_total_cost > budget_limit:
            break
        cost = new_total_cost
        selected += 1
    return selected *)
Definition gen_max_budget_allocation_cardinality (cinst : py_inst) (v_projects : (list py_proj)) (v_budget_limit : Q) : Q :=
  let v_projects_sorted := (py_sorted_by_key (fun x1_0 => (py_cost cinst x1_0)) v_projects) in
  let v_cost := 0 in
  let v_selected := 0 in
  (let '(stop2, v_cost, v_selected) := fold_left (fun (st2 : (bool * Q * Q)%type) v_p => let '(stop2, v_cost, v_selected) := st2 in 
    if stop2 then st2 else let v_new_total_cost := ((py_cost cinst v_p) + v_cost) in
  (if (py_gt v_new_total_cost v_budget_limit)
  then (true, v_cost, v_selected)
  else let v_cost := v_new_total_cost in
  let v_selected := (v_selected + 1) in
  (stop2, v_cost, v_selected))) v_projects_sorted (false, v_cost, v_selected) in
  v_selected).
Global Hint Unfold gen_max_budget_allocation_cardinality : pygen.
(* no ZeroDivisionError: every frac(a, b) on the executed path has b != 0 *)
Definition gen_max_budget_allocation_cardinality_safe (cinst : py_inst) (v_projects : (list py_proj)) (v_budget_limit : Q) : bool :=
  true.
Global Hint Unfold gen_max_budget_allocation_cardinality_safe : pygen.

(* pabutools/utils.py:54 powerset
def powerset(iterable: Iterable) -> Generator:
    s = list(iterable)
    return chain.from_iterable((combinations(s, r) for r in range(len(s) + 1))) *)
Definition gen_powerset (v_iterable : (list py_proj)) : (list (list py_proj)) :=
  let v_s := v_iterable in
  (py_chain (map (fun v_r => (py_combinations v_s v_r)) (py_range ((py_len v_s) + 1)))).
Global Hint Unfold gen_powerset : pygen.
(* no ZeroDivisionError: every frac(a, b) on the executed path has b != 0 *)
Definition gen_powerset_safe (v_iterable : (list py_proj)) : bool :=
  true.
Global Hint Unfold gen_powerset_safe : pygen.

(* pabutools/utils.py:23 mean_generator
def mean_generator(generator: Iterable[Numeric] | Iterable[tuple[Numeric, int]]) -> Numeric:
    n: int = 0
    mean: Numeric = 0
    for x in generator:
        multiplicity: int = 1
        value: Numeric = x
        if isinstance(x, tuple):
            value = x[0]
            multiplicity = x[1]
        for i in range(multiplicity):
            n += 1
            mean += frac(value - mean, n)
    return mean *)
Definition gen_mean_generator (v_generator : (list (Q * Q)%type)) : Q :=
  let v_n := 0 in
  let v_mean := 0 in
  (let '(v_n, v_mean) := fold_left (fun (st1 : (Q * Q)%type) v_x => let '(v_n, v_mean) := st1 in 
    let v_multiplicity := 1 in
  let v_value := v_x in
  let v_value := (fst v_x) in
  let v_multiplicity := (snd v_x) in
  (let '(v_n, v_mean) := fold_left (fun (st2 : (Q * Q)%type) v_i => let '(v_n, v_mean) := st2 in 
    let v_n := (v_n + 1) in
  let v_mean := (v_mean + (frac (v_value - v_mean) v_n)) in
  (v_n, v_mean)) (py_range v_multiplicity) (v_n, v_mean) in
  (v_n, v_mean))) v_generator (v_n, v_mean) in
  v_mean).
Global Hint Unfold gen_mean_generator : pygen.
(* no ZeroDivisionError: every frac(a, b) on the executed path has b != 0 *)
Definition gen_mean_generator_safe (v_generator : (list (Q * Q)%type)) : bool :=
  let v_n := 0 in
  let v_mean := 0 in
  (let '(ok1, v_n, v_mean) := fold_left (fun (st1 : (bool * Q * Q)%type) v_x => let '(ok1, v_n, v_mean) := st1 in 
    if ok1 then let v_multiplicity := 1 in
  let v_value := v_x in
  let v_value := (fst v_x) in
  let v_multiplicity := (snd v_x) in
  (let '(ok2, v_n, v_mean) := fold_left (fun (st2 : (bool * Q * Q)%type) v_i => let '(ok2, v_n, v_mean) := st2 in 
    if ok2 then let v_n := (v_n + 1) in
  (if (py_truth v_n) then let v_mean := (v_mean + (frac (v_value - v_mean) v_n)) in
  (ok2, v_n, v_mean) else (false, v_n, v_mean)) else st2) (py_range v_multiplicity) (true, v_n, v_mean) in
  (if ok2 then (ok1, v_n, v_mean) else (false, v_n, v_mean))) else st1) v_generator (true, v_n, v_mean) in
  (if ok1 then true else false)).
Global Hint Unfold gen_mean_generator_safe : pygen.

(* pabutools/utils.py:23 mean_generator
def mean_generator(generator: Iterable[Numeric] | Iterable[tuple[Numeric, int]]) -> Numeric:
    n: int = 0
    mean: Numeric = 0
    for x in generator:
        multiplicity: int = 1
        value: Numeric = x
        if isinstance(x, tuple):
            value = x[0]
            multiplicity = x[1]
        for i in range(multiplicity):
            n += 1
            mean += frac(value - mean, n)
    return mean *)
Definition gen_mean_generator_plain (v_generator : (list Q)) : Q :=
  let v_n := 0 in
  let v_mean := 0 in
  (let '(v_n, v_mean) := fold_left (fun (st1 : (Q * Q)%type) v_x => let '(v_n, v_mean) := st1 in 
    let v_multiplicity := 1 in
  let v_value := v_x in
  (let '(v_n, v_mean) := fold_left (fun (st2 : (Q * Q)%type) v_i => let '(v_n, v_mean) := st2 in 
    let v_n := (v_n + 1) in
  let v_mean := (v_mean + (frac (v_value - v_mean) v_n)) in
  (v_n, v_mean)) (py_range v_multiplicity) (v_n, v_mean) in
  (v_n, v_mean))) v_generator (v_n, v_mean) in
  v_mean).
Global Hint Unfold gen_mean_generator_plain : pygen.
(* no ZeroDivisionError: every frac(a, b) on the executed path has b != 0 *)
Definition gen_mean_generator_plain_safe (v_generator : (list Q)) : bool :=
  let v_n := 0 in
  let v_mean := 0 in
  (let '(ok1, v_n, v_mean) := fold_left (fun (st1 : (bool * Q * Q)%type) v_x => let '(ok1, v_n, v_mean) := st1 in 
    if ok1 then let v_multiplicity := 1 in
  let v_value := v_x in
  (let '(ok2, v_n, v_mean) := fold_left (fun (st2 : (bool * Q * Q)%type) v_i => let '(ok2, v_n, v_mean) := st2 in 
    if ok2 then let v_n := (v_n + 1) in
  (if (py_truth v_n) then let v_mean := (v_mean + (frac (v_value - v_mean) v_n)) in
  (ok2, v_n, v_mean) else (false, v_n, v_mean)) else st2) (py_range v_multiplicity) (true, v_n, v_mean) in
  (if ok2 then (ok1, v_n, v_mean) else (false, v_n, v_mean))) else st1) v_generator (true, v_n, v_mean) in
  (if ok1 then true else false)).
Global Hint Unfold gen_mean_generator_plain_safe : pygen.

(* pabutools/utils.py:72 gini_coefficient
def gini_coefficient(values: Iterable[Numeric]) -> Numeric:
    all_nul: bool = True
    num_values: int = 0
    for v in values:
        if v < 0:
            raise ValueError('Negative values not supported by gini coefficient implementation.')
        if all_nul and v > 0:
            all_nul = False
        num_values += 1
    if all_nul:
        return 0
    sorted_values: list[Numeric] = sorted(values)
    total_cum_sum: Numeric = 0
    for i, v in enumerate(sorted_values):
        total_cum_sum += v * (num_values - i)
    return frac(num_values + 1 - frac(2 * total_cum_sum, sum(values)), num_values) *)
Definition gen_gini_coefficient (v_values : (list Q)) : (option Q) :=
  let v_all_nul := true in
  let v_num_values := 0 in
  (let '(ret1, v_all_nul, v_num_values) := fold_left (fun (st1 : ((option (option Q)) * bool * Q)%type) v_v => let '(ret1, v_all_nul, v_num_values) := st1 in 
    match ret1 with Some _ => st1 | None => (if (py_lt v_v 0)
  then ((Some (None)), v_all_nul, v_num_values)
  else let v_all_nul := (if (v_all_nul && (py_gt v_v 0))
  then let v_all_nul := false in
  v_all_nul
  else v_all_nul) in
  let v_num_values := (v_num_values + 1) in
  (ret1, v_all_nul, v_num_values)) end) v_values ((@None (option Q)), v_all_nul, v_num_values) in
  match ret1 with Some r1 => r1 | None => (if v_all_nul
  then (Some 0)
  else let v_sorted_values := (py_sorted_nums v_values) in
  let v_total_cum_sum := 0 in
  (let v_total_cum_sum := fold_left (fun (v_total_cum_sum : Q) it2 => 
    let v_total_cum_sum := (v_total_cum_sum + ((snd it2) * (v_num_values - (fst it2)))) in
  v_total_cum_sum) (py_enumerate v_sorted_values) v_total_cum_sum in
  (Some (frac ((v_num_values + 1) - (frac (2 * v_total_cum_sum) (py_sum v_values))) v_num_values)))) end).
Global Hint Unfold gen_gini_coefficient : pygen.
(* no ZeroDivisionError: every frac(a, b) on the executed path has b != 0 *)
Definition gen_gini_coefficient_safe (v_values : (list Q)) : bool :=
  let v_all_nul := true in
  let v_num_values := 0 in
  (let '(ret1, v_all_nul, v_num_values) := fold_left (fun (st1 : ((option bool) * bool * Q)%type) v_v => let '(ret1, v_all_nul, v_num_values) := st1 in 
    match ret1 with Some _ => st1 | None => (if (py_lt v_v 0)
  then ((Some (true)), v_all_nul, v_num_values)
  else let v_all_nul := (if (v_all_nul && (py_gt v_v 0))
  then let v_all_nul := false in
  v_all_nul
  else v_all_nul) in
  let v_num_values := (v_num_values + 1) in
  (ret1, v_all_nul, v_num_values)) end) v_values ((@None bool), v_all_nul, v_num_values) in
  match ret1 with Some r1 => r1 | None => (if v_all_nul
  then true
  else let v_sorted_values := (py_sorted_nums v_values) in
  let v_total_cum_sum := 0 in
  (let v_total_cum_sum := fold_left (fun (v_total_cum_sum : Q) it3 => 
    let v_total_cum_sum := (v_total_cum_sum + ((snd it3) * (v_num_values - (fst it3)))) in
  v_total_cum_sum) (py_enumerate v_sorted_values) v_total_cum_sum in
  (py_truth (py_sum v_values)) && (py_truth v_num_values))) end).
Global Hint Unfold gen_gini_coefficient_safe : pygen.

(* pabutools/analysis/votersatisfaction.py:20 avg_satisfaction
def avg_satisfaction(instance: Instance, profile: AbstractProfile, budget_allocation: Collection[Project], sat_class: type[SatisfactionMeasure]) -> Numeric:
    return mean_generator(((sat_class(instance, profile, ballot).sat(budget_allocation), profile.multiplicity(ballot)) for ballot in profile)) *)
Definition gen_avg_satisfaction (v_instance : py_inst) (v_profile : py_profile) (v_budget_allocation : (list py_proj)) (v_sat_class : py_satclass) : Q :=
  (gen_mean_generator (map (fun v_ballot => (((v_sat_class v_instance v_profile v_ballot) v_budget_allocation), (py_multiplicity v_profile v_ballot))) (py_profile_iter v_profile))).
Global Hint Unfold gen_avg_satisfaction : pygen.
(* no ZeroDivisionError: every frac(a, b) on the executed path has b != 0 *)
Definition gen_avg_satisfaction_safe (v_instance : py_inst) (v_profile : py_profile) (v_budget_allocation : (list py_proj)) (v_sat_class : py_satclass) : bool :=
  (gen_mean_generator_safe  (map (fun v_ballot => (((v_sat_class v_instance v_profile v_ballot) v_budget_allocation), (py_multiplicity v_profile v_ballot))) (py_profile_iter v_profile))).
Global Hint Unfold gen_avg_satisfaction_safe : pygen.

(* pabutools/analysis/votersatisfaction.py:55 percent_non_empty_handed
def percent_non_empty_handed(instance: Instance, profile: AbstractProfile, budget_allocation: Collection[Project]) -> Numeric:
    return avg_satisfaction(instance, profile, budget_allocation, CC_Sat) *)
Definition gen_percent_non_empty_handed (cls_CC_Sat : py_satclass) (v_instance : py_inst) (v_profile : py_profile) (v_budget_allocation : (list py_proj)) : Q :=
  (gen_avg_satisfaction v_instance v_profile v_budget_allocation cls_CC_Sat).
Global Hint Unfold gen_percent_non_empty_handed : pygen.
(* the satisfaction classes the function names (its cls_ parameters, in that order) *)
Definition gen_percent_non_empty_handed_classes : list string := ["CC_Sat"%string].
(* no ZeroDivisionError: every frac(a, b) on the executed path has b != 0 *)
Definition gen_percent_non_empty_handed_safe (cls_CC_Sat : py_satclass) (v_instance : py_inst) (v_profile : py_profile) (v_budget_allocation : (list py_proj)) : bool :=
  (gen_avg_satisfaction_safe  v_instance v_profile v_budget_allocation cls_CC_Sat).
Global Hint Unfold gen_percent_non_empty_handed_safe : pygen.

(* pabutools/analysis/votersatisfaction.py:81 percent_positive_satisfaction
def percent_positive_satisfaction(profile: AbstractProfile, budget_allocation: Collection[Project], sat_class: type[SatisfactionMeasure]) -> Numeric:
    sat_profile = profile.as_sat_profile(sat_class)
    num_pos_sat = 0
    for sat in sat_profile:
        if sat.sat(budget_allocation) > 0:
            num_pos_sat += sat_profile.multiplicity(sat)
    return frac(num_pos_sat, profile.num_ballots()) *)
Definition gen_percent_positive_satisfaction (cinst : py_inst) (v_profile : py_profile) (v_budget_allocation : (list py_proj)) (v_sat_class : py_satclass) : Q :=
  let v_sat_profile := (py_as_sat_profile cinst v_profile v_sat_class) in
  let v_num_pos_sat := 0 in
  (let v_num_pos_sat := fold_left (fun (v_num_pos_sat : Q) v_sat => 
    let v_num_pos_sat := (if (py_gt (fst v_sat v_budget_allocation) 0)
  then let v_num_pos_sat := (v_num_pos_sat + (py_satprofile_multiplicity v_sat_profile v_sat)) in
  v_num_pos_sat
  else v_num_pos_sat) in
  v_num_pos_sat) (py_satprofile_iter v_sat_profile) v_num_pos_sat in
  (frac v_num_pos_sat (py_num_ballots v_profile))).
Global Hint Unfold gen_percent_positive_satisfaction : pygen.
(* no ZeroDivisionError: every frac(a, b) on the executed path has b != 0 *)
Definition gen_percent_positive_satisfaction_safe (cinst : py_inst) (v_profile : py_profile) (v_budget_allocation : (list py_proj)) (v_sat_class : py_satclass) : bool :=
  let v_sat_profile := (py_as_sat_profile cinst v_profile v_sat_class) in
  let v_num_pos_sat := 0 in
  (let v_num_pos_sat := fold_left (fun (v_num_pos_sat : Q) v_sat => 
    let v_num_pos_sat := (if (py_gt (fst v_sat v_budget_allocation) 0)
  then let v_num_pos_sat := (v_num_pos_sat + (py_satprofile_multiplicity v_sat_profile v_sat)) in
  v_num_pos_sat
  else v_num_pos_sat) in
  v_num_pos_sat) (py_satprofile_iter v_sat_profile) v_num_pos_sat in
  (py_truth (py_num_ballots v_profile))).
Global Hint Unfold gen_percent_positive_satisfaction_safe : pygen.

(* pabutools/analysis/votersatisfaction.py:112 gini_coefficient_of_satisfaction
def gini_coefficient_of_satisfaction(instance: Instance, profile: AbstractProfile, budget_allocation: Collection[Project], sat_class: type[SatisfactionMeasure], invert: bool=False) -> Numeric:
    voter_satisfactions = []
    for ballot in profile:
        voter_satisfaction = frac(sat_class(instance, profile, ballot).sat(budget_allocation))
        for i in range(profile.multiplicity(ballot)):
            voter_satisfactions.append(voter_satisfaction)
    if invert:
        return 1 - gini_coefficient(np.array(voter_satisfactions))
    return gini_coefficient(np.array(voter_satisfactions)) *)
Definition gen_gini_coefficient_of_satisfaction (v_instance : py_inst) (v_profile : py_profile) (v_budget_allocation : (list py_proj)) (v_sat_class : py_satclass) (v_invert : bool) : (option Q) :=
  let v_voter_satisfactions := (@nil Q) in
  (let v_voter_satisfactions := fold_left (fun (v_voter_satisfactions : (list Q)) v_ballot => 
    let v_voter_satisfaction := ((v_sat_class v_instance v_profile v_ballot) v_budget_allocation) in
  (let v_voter_satisfactions := fold_left (fun (v_voter_satisfactions : (list Q)) v_i => 
    let v_voter_satisfactions := (v_voter_satisfactions ++ [v_voter_satisfaction]) in
  v_voter_satisfactions) (py_range (py_multiplicity v_profile v_ballot)) v_voter_satisfactions in
  v_voter_satisfactions)) (py_profile_iter v_profile) v_voter_satisfactions in
  (if v_invert
  then match (gen_gini_coefficient v_voter_satisfactions) with Some r3 => (Some (1 - r3)) | None => None end
  else match (gen_gini_coefficient v_voter_satisfactions) with Some r4 => (Some r4) | None => None end)).
Global Hint Unfold gen_gini_coefficient_of_satisfaction : pygen.
(* no ZeroDivisionError: every frac(a, b) on the executed path has b != 0 *)
Definition gen_gini_coefficient_of_satisfaction_safe (v_instance : py_inst) (v_profile : py_profile) (v_budget_allocation : (list py_proj)) (v_sat_class : py_satclass) (v_invert : bool) : bool :=
  let v_voter_satisfactions := (@nil Q) in
  (let v_voter_satisfactions := fold_left (fun (v_voter_satisfactions : (list Q)) v_ballot => 
    let v_voter_satisfaction := ((v_sat_class v_instance v_profile v_ballot) v_budget_allocation) in
  (let v_voter_satisfactions := fold_left (fun (v_voter_satisfactions : (list Q)) v_i => 
    let v_voter_satisfactions := (v_voter_satisfactions ++ [v_voter_satisfaction]) in
  v_voter_satisfactions) (py_range (py_multiplicity v_profile v_ballot)) v_voter_satisfactions in
  v_voter_satisfactions)) (py_profile_iter v_profile) v_voter_satisfactions in
  (if v_invert
  then match (gen_gini_coefficient v_voter_satisfactions) with Some r6 => (gen_gini_coefficient_safe  v_voter_satisfactions) | None => true end
  else match (gen_gini_coefficient v_voter_satisfactions) with Some r7 => (gen_gini_coefficient_safe  v_voter_satisfactions) | None => true end)).
Global Hint Unfold gen_gini_coefficient_of_satisfaction_safe : pygen.

(* pabutools/analysis/votersatisfaction.py:153 satisfaction_histogram
def satisfaction_histogram(instance: Instance, profile: AbstractProfile, budget_allocation: Collection[Project], sat_class: type[SatisfactionMeasure], max_satisfaction: Numeric, num_bins: int=21) -> list[Numeric]:
    if isinstance(profile, MultiProfile):
        sat_profile = SatisfactionMultiProfile(instance=instance, multiprofile=profile, sat_class=sat_class)
    else:
        sat_profile = SatisfactionMultiProfile(instance=instance, profile=profile, sat_class=sat_class)
    hist_data = [0.0 for _ in range(num_bins)]
    for ballot in sat_profile:
        satisfaction = ballot.sat(budget_allocation)
        if satisfaction >= max_satisfaction:
            hist_data[-1] += sat_profile.multiplicity(ballot)
        else:
            hist_data[math.ceil(satisfaction * (num_bins - 1) / max_satisfaction)] += sat_profile.multiplicity(ballot)
    for i in range(len(hist_data)):
        hist_data[i] /= profile.num_ballots()
    return hist_data *)
Definition gen_satisfaction_histogram : py_untranslated := Untranslated "unknown name MultiProfile".

(* pabutools/analysis/profileproperties.py:16 avg_ballot_length
def avg_ballot_length(instance: Instance, profile: AbstractProfile) -> Numeric:
    return mean_generator(((len(ballot), profile.multiplicity(ballot)) for ballot in profile)) *)
Definition gen_avg_ballot_length (v_instance : py_inst) (v_profile : py_profile) : Q :=
  (gen_mean_generator (map (fun v_ballot => ((py_len_pballot v_ballot), (py_multiplicity v_profile v_ballot))) (py_profile_iter v_profile))).
Global Hint Unfold gen_avg_ballot_length : pygen.
(* no ZeroDivisionError: every frac(a, b) on the executed path has b != 0 *)
Definition gen_avg_ballot_length_safe (v_instance : py_inst) (v_profile : py_profile) : bool :=
  (gen_mean_generator_safe  (map (fun v_ballot => ((py_len_pballot v_ballot), (py_multiplicity v_profile v_ballot))) (py_profile_iter v_profile))).
Global Hint Unfold gen_avg_ballot_length_safe : pygen.

(* pabutools/analysis/profileproperties.py:38 median_ballot_length
def median_ballot_length(instance: Instance, profile: AbstractProfile) -> Numeric:
    if profile.num_ballots() == 0:
        return 0
    ballot_lengths = np.zeros(profile.num_ballots())
    index = 0
    for ballot in profile:
        for j in range(profile.multiplicity(ballot)):
            ballot_lengths[index] = len(ballot)
            index += 1
    return float(np.median(ballot_lengths)) *)
Definition gen_median_ballot_length : py_untranslated := Untranslated "call of np.zeros outside the fragment".

(* pabutools/analysis/profileproperties.py:66 avg_ballot_cost
def avg_ballot_cost(instance: Instance, profile: AbstractProfile) -> Numeric:
    return mean_generator(((total_cost(ballot), profile.multiplicity(ballot)) for ballot in profile)) *)
Definition gen_avg_ballot_cost (v_instance : py_inst) (v_profile : py_profile) : Q :=
  (gen_mean_generator (map (fun v_ballot => ((py_total_cost v_instance (py_pballot_iter v_ballot)), (py_multiplicity v_profile v_ballot))) (py_profile_iter v_profile))).
Global Hint Unfold gen_avg_ballot_cost : pygen.
(* no ZeroDivisionError: every frac(a, b) on the executed path has b != 0 *)
Definition gen_avg_ballot_cost_safe (v_instance : py_inst) (v_profile : py_profile) : bool :=
  (gen_mean_generator_safe  (map (fun v_ballot => ((py_total_cost v_instance (py_pballot_iter v_ballot)), (py_multiplicity v_profile v_ballot))) (py_profile_iter v_profile))).
Global Hint Unfold gen_avg_ballot_cost_safe : pygen.

(* pabutools/analysis/profileproperties.py:88 median_ballot_cost
def median_ballot_cost(instance: Instance, profile: AbstractProfile) -> Numeric:
    if profile.num_ballots() == 0:
        return 0
    ballot_costs = np.zeros(profile.num_ballots())
    index = 0
    for ballot in profile:
        for j in range(profile.multiplicity(ballot)):
            ballot_costs[index] = total_cost(ballot)
            index += 1
    return np.median(ballot_costs) *)
Definition gen_median_ballot_cost : py_untranslated := Untranslated "call of np.zeros outside the fragment".

(* pabutools/analysis/profileproperties.py:116 avg_approval_score
def avg_approval_score(instance: Instance, profile: AbstractApprovalProfile) -> Numeric:
    return mean_generator([profile.approval_score(project) for project in instance]) *)
Definition gen_avg_approval_score (v_instance : py_inst) (v_profile : py_profile) : Q :=
  (gen_mean_generator_plain (map (fun v_project => (py_profile_approval_score v_profile v_project)) (py_instance_iter v_instance))).
Global Hint Unfold gen_avg_approval_score : pygen.
(* no ZeroDivisionError: every frac(a, b) on the executed path has b != 0 *)
Definition gen_avg_approval_score_safe (v_instance : py_inst) (v_profile : py_profile) : bool :=
  (gen_mean_generator_plain_safe  (map (fun v_project => (py_profile_approval_score v_profile v_project)) (py_instance_iter v_instance))).
Global Hint Unfold gen_avg_approval_score_safe : pygen.

(* pabutools/analysis/profileproperties.py:136 median_approval_score
def median_approval_score(instance: Instance, profile: AbstractApprovalProfile) -> Numeric:
    if len(instance) == 0:
        return 0
    return float(np.median([frac(profile.approval_score(project)) for project in instance])) *)
Definition gen_median_approval_score (v_instance : py_inst) (v_profile : py_profile) : Q :=
  (if (py_eq (py_len_instance v_instance) 0)
  then 0
  else (py_float (py_np_median (map (fun v_project => (py_profile_approval_score v_profile v_project)) (py_instance_iter v_instance))))).
Global Hint Unfold gen_median_approval_score : pygen.
(* no ZeroDivisionError: every frac(a, b) on the executed path has b != 0 *)
Definition gen_median_approval_score_safe (v_instance : py_inst) (v_profile : py_profile) : bool :=
  true.
Global Hint Unfold gen_median_approval_score_safe : pygen.

(* pabutools/analysis/profileproperties.py:162 avg_total_score
def avg_total_score(instance: Instance, profile: AbstractCardinalProfile) -> Numeric:
    return mean_generator((profile.total_score(project) for project in instance)) *)
Definition gen_avg_total_score (v_instance : py_inst) (v_profile : py_profile) : Q :=
  (gen_mean_generator_plain (map (fun v_project => (py_profile_total_score v_profile v_project)) (py_instance_iter v_instance))).
Global Hint Unfold gen_avg_total_score : pygen.
(* no ZeroDivisionError: every frac(a, b) on the executed path has b != 0 *)
Definition gen_avg_total_score_safe (v_instance : py_inst) (v_profile : py_profile) : bool :=
  (gen_mean_generator_plain_safe  (map (fun v_project => (py_profile_total_score v_profile v_project)) (py_instance_iter v_instance))).
Global Hint Unfold gen_avg_total_score_safe : pygen.

(* pabutools/analysis/profileproperties.py:182 median_total_score
def median_total_score(instance: Instance, profile: AbstractCardinalProfile) -> Numeric:
    if len(instance) == 0:
        return 0
    return float(np.median([frac(profile.total_score(project)) for project in instance])) *)
Definition gen_median_total_score (v_instance : py_inst) (v_profile : py_profile) : Q :=
  (if (py_eq (py_len_instance v_instance) 0)
  then 0
  else (py_float (py_np_median (map (fun v_project => (py_profile_total_score v_profile v_project)) (py_instance_iter v_instance))))).
Global Hint Unfold gen_median_total_score : pygen.
(* no ZeroDivisionError: every frac(a, b) on the executed path has b != 0 *)
Definition gen_median_total_score_safe (v_instance : py_inst) (v_profile : py_profile) : bool :=
  true.
Global Hint Unfold gen_median_total_score_safe : pygen.

(* pabutools/analysis/instanceproperties.py:10 sum_project_cost
def sum_project_cost(instance: Instance) -> Numeric:
    return total_cost(instance) *)
Definition gen_sum_project_cost (v_instance : py_inst) : Q :=
  (py_total_cost v_instance (py_instance_iter v_instance)).
Global Hint Unfold gen_sum_project_cost : pygen.
(* no ZeroDivisionError: every frac(a, b) on the executed path has b != 0 *)
Definition gen_sum_project_cost_safe (v_instance : py_inst) : bool :=
  true.
Global Hint Unfold gen_sum_project_cost_safe : pygen.

(* pabutools/analysis/instanceproperties.py:28 funding_scarcity
def funding_scarcity(instance: Instance) -> Numeric:
    if instance.budget_limit > 0:
        return frac(total_cost(instance), instance.budget_limit)
    raise ValueError('funding scarcity can only be calculated for instances with budget limit > 0') *)
Definition gen_funding_scarcity (v_instance : py_inst) : (option Q) :=
  (if (py_gt (py_budget_limit v_instance) 0)
  then (Some (frac (py_total_cost v_instance (py_instance_iter v_instance)) (py_budget_limit v_instance)))
  else None).
Global Hint Unfold gen_funding_scarcity : pygen.
(* no ZeroDivisionError: every frac(a, b) on the executed path has b != 0 *)
Definition gen_funding_scarcity_safe (v_instance : py_inst) : bool :=
  (if (py_gt (py_budget_limit v_instance) 0)
  then (py_truth (py_budget_limit v_instance))
  else true).
Global Hint Unfold gen_funding_scarcity_safe : pygen.

(* pabutools/analysis/instanceproperties.py:51 avg_project_cost
def avg_project_cost(instance: Instance) -> Numeric:
    return frac(total_cost(instance), len(instance)) *)
Definition gen_avg_project_cost (v_instance : py_inst) : Q :=
  (frac (py_total_cost v_instance (py_instance_iter v_instance)) (py_len_instance v_instance)).
Global Hint Unfold gen_avg_project_cost : pygen.
(* no ZeroDivisionError: every frac(a, b) on the executed path has b != 0 *)
Definition gen_avg_project_cost_safe (v_instance : py_inst) : bool :=
  (py_truth (py_len_instance v_instance)).
Global Hint Unfold gen_avg_project_cost_safe : pygen.

(* pabutools/analysis/instanceproperties.py:69 median_project_cost
def median_project_cost(instance: Instance) -> Numeric:
    return float(np.median([project.cost for project in instance])) *)
Definition gen_median_project_cost (v_instance : py_inst) : Q :=
  (py_float (py_np_median (map (fun v_project => (py_cost v_instance v_project)) (py_instance_iter v_instance)))).
Global Hint Unfold gen_median_project_cost : pygen.
(* no ZeroDivisionError: every frac(a, b) on the executed path has b != 0 *)
Definition gen_median_project_cost_safe (v_instance : py_inst) : bool :=
  true.
Global Hint Unfold gen_median_project_cost_safe : pygen.

(* pabutools/analysis/instanceproperties.py:87 std_dev_project_cost
def std_dev_project_cost(instance: Instance) -> Numeric:
    return float(np.std([project.cost for project in instance], dtype=np.float64)) *)
Definition gen_std_dev_project_cost : py_untranslated := Untranslated "unknown name np".

(* pabutools/utils.py:106 round_cmp
def round_cmp(a: Numeric, b: Numeric, precision: int=6) -> int:
    return round(a, precision) - round(b, precision) *)
Definition gen_round_cmp (v_a : Q) (v_b : Q) (v_precision : Q) : Q :=
  ((py_round v_a v_precision) - (py_round v_b v_precision)).
Global Hint Unfold gen_round_cmp : pygen.
(* no ZeroDivisionError: every frac(a, b) on the executed path has b != 0 *)
Definition gen_round_cmp_safe (v_a : Q) (v_b : Q) (v_precision : Q) : bool :=
  true.
Global Hint Unfold gen_round_cmp_safe : pygen.

(* pabutools/analysis/priceability.py:25 validate_price_system
def validate_price_system(instance: Instance, profile: AbstractApprovalProfile, budget_allocation: Collection[Project], voter_budget: Numeric, payment_functions: list[dict[Project, Numeric]], stable: bool=False, exhaustive: bool=True, relaxation: Relaxation | None=None, *, verbose: bool=False) -> bool:
    C = instance
    N = profile
    W = budget_allocation
    NW = [c for c in C if c not in W]
    b = voter_budget
    pf = payment_functions
    total = total_cost(W)
    spent = [sum((pf[idx][c] for c in C)) for idx, _ in enumerate(N)]
    leftover = [b - spent[idx] for idx, _ in enumerate(N)]
    max_payment = [max((pf[idx][c] for c in C), default=0) for idx, _ in enumerate(N)]
    errors = collections.defaultdict(list)
    if total > instance.budget_limit:
        errors['C0a'].append(f'total price for allocation is equal {total} > {instance.budget_limit}')
    if exhaustive:
        for c in NW:
            if total + c.cost <= instance.budget_limit:
                errors['C0b'].append(f'allocation is not exhaustive {total} + {c.cost} = {total + c.cost} <= {instance.budget_limit}')
    for idx, i in enumerate(N):
        for c in C:
            if c not in i and pf[idx][c] != 0:
                errors['C1'].append(f'voter {idx} paid {pf[idx][c]} for unapproved project {c}')
            if round_cmp(pf[idx][c], 0, CHECK_ROUND_PRECISION) < 0:
                errors['C1'].append(f'voter {idx} paid a negative amount {pf[idx][c]} for project {c}')
    for idx, _ in enumerate(N):
        if round_cmp(spent[idx], b, CHECK_ROUND_PRECISION) > 0:
            errors['C2'].append(f'payments of voter {idx} are equal {spent[idx]} > {b}')
    for c in W:
        s = sum((pf[idx][c] for idx, _ in enumerate(N)))
        if round_cmp(s, c.cost, CHECK_ROUND_PRECISION) != 0:
            errors['C3'].append(f'payments for selected project {c} are equal {s} != {c.cost}')
    for c in NW:
        s = sum((pf[idx][c] for idx, _ in enumerate(N)))
        if round_cmp(s, 0, CHECK_ROUND_PRECISION) != 0:
            errors['C4'].append(f'payments for not selected project {c} are equal {s} != 0')
    if not stable:
        for c in NW:
            s = sum((leftover[idx] for idx, i in enumerate(N) if c in i))
            if round_cmp(s, c.cost, CHECK_ROUND_PRECISION) > 0:
                errors['C5'].append(f'voters' leftover money for not selected project {c} are equal {s} > {c.cost}')
    else:
        for c in NW:
            s = sum((max(max_payment[idx], leftover[idx]) for idx, i in enumerate(N) if c in i))
            cost = c.cost if relaxation is None else relaxation.get_relaxed_cost(c)
            if round_cmp(s, cost, CHECK_ROUND_PRECISION) > 0:
                errors['S5'].append(f'voters' leftover money (or the most they've spent for a project) for not selected project {c} are equal {s} > {cost}')
    if verbose:
        for condition, error in errors.items():
            print(f'({condition}) {error}')
    return not errors *)
Definition gen_validate_price_system (v_instance : py_inst) (v_profile : (list (list py_proj))) (v_budget_allocation : (list py_proj)) (v_voter_budget : Q) (v_payment_functions : py_payments) (v_stable : bool) (v_exhaustive : bool) : bool :=
  let v_C := v_instance in
  let v_N := v_profile in
  let v_W := v_budget_allocation in
  let v_NW := (filter (fun v_c => (negb (py_in_list v_W v_c))) (py_instance_iter v_C)) in
  let v_b := v_voter_budget in
  let v_pf := v_payment_functions in
  let v_total := (py_total_cost v_instance v_W) in
  let v_spent := (map (fun v_pr1 => (py_sum (map (fun v_c => (py_row_get (py_pay_row v_pf (fst v_pr1)) v_c)) (py_instance_iter v_C)))) (py_enumerate v_N)) in
  let v_leftover := (map (fun v_pr2 => (v_b - (py_list_get v_spent (fst v_pr2)))) (py_enumerate v_N)) in
  let v_max_payment := (map (fun v_pr3 => (py_max_list (map (fun v_c => (py_row_get (py_pay_row v_pf (fst v_pr3)) v_c)) (py_instance_iter v_C)) 0)) (py_enumerate v_N)) in
  let v_errors := false in
  let v_errors := (if (py_gt v_total (py_budget_limit v_instance))
  then let v_errors := true in
  v_errors
  else v_errors) in
  (if v_exhaustive
  then (let v_errors := fold_left (fun (v_errors : bool) v_c => 
    let v_errors := (if (py_le (v_total + (py_cost v_instance v_c)) (py_budget_limit v_instance))
  then let v_errors := true in
  v_errors
  else v_errors) in
  v_errors) v_NW v_errors in
  (let v_errors := fold_left (fun (v_errors : bool) it5 => 
    (let v_errors := fold_left (fun (v_errors : bool) v_c => 
    let v_errors := (if ((negb (py_in_list (snd it5) v_c)) && (py_ne (py_row_get (py_pay_row v_pf (fst it5)) v_c) 0))
  then let v_errors := true in
  v_errors
  else v_errors) in
  let v_errors := (if (py_lt (gen_round_cmp (py_row_get (py_pay_row v_pf (fst it5)) v_c) 0 2) 0)
  then let v_errors := true in
  v_errors
  else v_errors) in
  v_errors) (py_instance_iter v_C) v_errors in
  v_errors)) (py_enumerate v_N) v_errors in
  (let v_errors := fold_left (fun (v_errors : bool) it7 => 
    let v_errors := (if (py_gt (gen_round_cmp (py_list_get v_spent (fst it7)) v_b 2) 0)
  then let v_errors := true in
  v_errors
  else v_errors) in
  v_errors) (py_enumerate v_N) v_errors in
  (let v_errors := fold_left (fun (v_errors : bool) v_c => 
    let v_s := (py_sum (map (fun v_pr9 => (py_row_get (py_pay_row v_pf (fst v_pr9)) v_c)) (py_enumerate v_N))) in
  let v_errors := (if (py_ne (gen_round_cmp v_s (py_cost v_instance v_c) 2) 0)
  then let v_errors := true in
  v_errors
  else v_errors) in
  v_errors) v_W v_errors in
  (let v_errors := fold_left (fun (v_errors : bool) v_c => 
    let v_s := (py_sum (map (fun v_pr11 => (py_row_get (py_pay_row v_pf (fst v_pr11)) v_c)) (py_enumerate v_N))) in
  let v_errors := (if (py_ne (gen_round_cmp v_s 0 2) 0)
  then let v_errors := true in
  v_errors
  else v_errors) in
  v_errors) v_NW v_errors in
  (if (negb v_stable)
  then (let v_errors := fold_left (fun (v_errors : bool) v_c => 
    let v_s := (py_sum (map (fun v_pr13 => (py_list_get v_leftover (fst v_pr13))) (filter (fun v_pr13 => (py_in_list (snd v_pr13) v_c)) (py_enumerate v_N)))) in
  let v_errors := (if (py_gt (gen_round_cmp v_s (py_cost v_instance v_c) 2) 0)
  then let v_errors := true in
  v_errors
  else v_errors) in
  v_errors) v_NW v_errors in
  (negb v_errors))
  else (let v_errors := fold_left (fun (v_errors : bool) v_c => 
    let v_s := (py_sum (map (fun v_pr15 => (py_max2 (py_list_get v_max_payment (fst v_pr15)) (py_list_get v_leftover (fst v_pr15)))) (filter (fun v_pr15 => (py_in_list (snd v_pr15) v_c)) (py_enumerate v_N)))) in
  let v_cost := (py_cost v_instance v_c) in
  let v_errors := (if (py_gt (gen_round_cmp v_s v_cost 2) 0)
  then let v_errors := true in
  v_errors
  else v_errors) in
  v_errors) v_NW v_errors in
  (negb v_errors))))))))
  else (let v_errors := fold_left (fun (v_errors : bool) it16 => 
    (let v_errors := fold_left (fun (v_errors : bool) v_c => 
    let v_errors := (if ((negb (py_in_list (snd it16) v_c)) && (py_ne (py_row_get (py_pay_row v_pf (fst it16)) v_c) 0))
  then let v_errors := true in
  v_errors
  else v_errors) in
  let v_errors := (if (py_lt (gen_round_cmp (py_row_get (py_pay_row v_pf (fst it16)) v_c) 0 2) 0)
  then let v_errors := true in
  v_errors
  else v_errors) in
  v_errors) (py_instance_iter v_C) v_errors in
  v_errors)) (py_enumerate v_N) v_errors in
  (let v_errors := fold_left (fun (v_errors : bool) it18 => 
    let v_errors := (if (py_gt (gen_round_cmp (py_list_get v_spent (fst it18)) v_b 2) 0)
  then let v_errors := true in
  v_errors
  else v_errors) in
  v_errors) (py_enumerate v_N) v_errors in
  (let v_errors := fold_left (fun (v_errors : bool) v_c => 
    let v_s := (py_sum (map (fun v_pr20 => (py_row_get (py_pay_row v_pf (fst v_pr20)) v_c)) (py_enumerate v_N))) in
  let v_errors := (if (py_ne (gen_round_cmp v_s (py_cost v_instance v_c) 2) 0)
  then let v_errors := true in
  v_errors
  else v_errors) in
  v_errors) v_W v_errors in
  (let v_errors := fold_left (fun (v_errors : bool) v_c => 
    let v_s := (py_sum (map (fun v_pr22 => (py_row_get (py_pay_row v_pf (fst v_pr22)) v_c)) (py_enumerate v_N))) in
  let v_errors := (if (py_ne (gen_round_cmp v_s 0 2) 0)
  then let v_errors := true in
  v_errors
  else v_errors) in
  v_errors) v_NW v_errors in
  (if (negb v_stable)
  then (let v_errors := fold_left (fun (v_errors : bool) v_c => 
    let v_s := (py_sum (map (fun v_pr24 => (py_list_get v_leftover (fst v_pr24))) (filter (fun v_pr24 => (py_in_list (snd v_pr24) v_c)) (py_enumerate v_N)))) in
  let v_errors := (if (py_gt (gen_round_cmp v_s (py_cost v_instance v_c) 2) 0)
  then let v_errors := true in
  v_errors
  else v_errors) in
  v_errors) v_NW v_errors in
  (negb v_errors))
  else (let v_errors := fold_left (fun (v_errors : bool) v_c => 
    let v_s := (py_sum (map (fun v_pr26 => (py_max2 (py_list_get v_max_payment (fst v_pr26)) (py_list_get v_leftover (fst v_pr26)))) (filter (fun v_pr26 => (py_in_list (snd v_pr26) v_c)) (py_enumerate v_N)))) in
  let v_cost := (py_cost v_instance v_c) in
  let v_errors := (if (py_gt (gen_round_cmp v_s v_cost 2) 0)
  then let v_errors := true in
  v_errors
  else v_errors) in
  v_errors) v_NW v_errors in
  (negb v_errors)))))))).
Global Hint Unfold gen_validate_price_system : pygen.
(* no ZeroDivisionError: every frac(a, b) on the executed path has b != 0 *)
Definition gen_validate_price_system_safe (v_instance : py_inst) (v_profile : (list (list py_proj))) (v_budget_allocation : (list py_proj)) (v_voter_budget : Q) (v_payment_functions : py_payments) (v_stable : bool) (v_exhaustive : bool) : bool :=
  true.
Global Hint Unfold gen_validate_price_system_safe : pygen.

(* pabutools/analysis/priceability.py:25 validate_price_system
def validate_price_system(instance: Instance, profile: AbstractApprovalProfile, budget_allocation: Collection[Project], voter_budget: Numeric, payment_functions: list[dict[Project, Numeric]], stable: bool=False, exhaustive: bool=True, relaxation: Relaxation | None=None, *, verbose: bool=False) -> bool:
    C = instance
    N = profile
    W = budget_allocation
    NW = [c for c in C if c not in W]
    b = voter_budget
    pf = payment_functions
    total = total_cost(W)
    spent = [sum((pf[idx][c] for c in C)) for idx, _ in enumerate(N)]
    leftover = [b - spent[idx] for idx, _ in enumerate(N)]
    max_payment = [max((pf[idx][c] for c in C), default=0) for idx, _ in enumerate(N)]
    errors = collections.defaultdict(list)
    if total > instance.budget_limit:
        errors['C0a'].append(f'total price for allocation is equal {total} > {instance.budget_limit}')
    if exhaustive:
        for c in NW:
            if total + c.cost <= instance.budget_limit:
                errors['C0b'].append(f'allocation is not exhaustive {total} + {c.cost} = {total + c.cost} <= {instance.budget_limit}')
    for idx, i in enumerate(N):
        for c in C:
            if c not in i and pf[idx][c] != 0:
                errors['C1'].append(f'voter {idx} paid {pf[idx][c]} for unapproved project {c}')
            if round_cmp(pf[idx][c], 0, CHECK_ROUND_PRECISION) < 0:
                errors['C1'].append(f'voter {idx} paid a negative amount {pf[idx][c]} for project {c}')
    for idx, _ in enumerate(N):
        if round_cmp(spent[idx], b, CHECK_ROUND_PRECISION) > 0:
            errors['C2'].append(f'payments of voter {idx} are equal {spent[idx]} > {b}')
    for c in W:
        s = sum((pf[idx][c] for idx, _ in enumerate(N)))
        if round_cmp(s, c.cost, CHECK_ROUND_PRECISION) != 0:
            errors['C3'].append(f'payments for selected project {c} are equal {s} != {c.cost}')
    for c in NW:
        s = sum((pf[idx][c] for idx, _ in enumerate(N)))
        if round_cmp(s, 0, CHECK_ROUND_PRECISION) != 0:
            errors['C4'].append(f'payments for not selected project {c} are equal {s} != 0')
    if not stable:
        for c in NW:
            s = sum((leftover[idx] for idx, i in enumerate(N) if c in i))
            if round_cmp(s, c.cost, CHECK_ROUND_PRECISION) > 0:
                errors['C5'].append(f'voters' leftover money for not selected project {c} are equal {s} > {c.cost}')
    else:
        for c in NW:
            s = sum((max(max_payment[idx], leftover[idx]) for idx, i in enumerate(N) if c in i))
            cost = c.cost if relaxation is None else relaxation.get_relaxed_cost(c)
            if round_cmp(s, cost, CHECK_ROUND_PRECISION) > 0:
                errors['S5'].append(f'voters' leftover money (or the most they've spent for a project) for not selected project {c} are equal {s} > {cost}')
    if verbose:
        for condition, error in errors.items():
            print(f'({condition}) {error}')
    return not errors *)
Definition gen_validate_price_system_relax (v_instance : py_inst) (v_profile : (list (list py_proj))) (v_budget_allocation : (list py_proj)) (v_voter_budget : Q) (v_payment_functions : py_payments) (v_stable : bool) (v_exhaustive : bool) (v_relaxation : py_relax) : bool :=
  let v_C := v_instance in
  let v_N := v_profile in
  let v_W := v_budget_allocation in
  let v_NW := (filter (fun v_c => (negb (py_in_list v_W v_c))) (py_instance_iter v_C)) in
  let v_b := v_voter_budget in
  let v_pf := v_payment_functions in
  let v_total := (py_total_cost v_instance v_W) in
  let v_spent := (map (fun v_pr1 => (py_sum (map (fun v_c => (py_row_get (py_pay_row v_pf (fst v_pr1)) v_c)) (py_instance_iter v_C)))) (py_enumerate v_N)) in
  let v_leftover := (map (fun v_pr2 => (v_b - (py_list_get v_spent (fst v_pr2)))) (py_enumerate v_N)) in
  let v_max_payment := (map (fun v_pr3 => (py_max_list (map (fun v_c => (py_row_get (py_pay_row v_pf (fst v_pr3)) v_c)) (py_instance_iter v_C)) 0)) (py_enumerate v_N)) in
  let v_errors := false in
  let v_errors := (if (py_gt v_total (py_budget_limit v_instance))
  then let v_errors := true in
  v_errors
  else v_errors) in
  (if v_exhaustive
  then (let v_errors := fold_left (fun (v_errors : bool) v_c => 
    let v_errors := (if (py_le (v_total + (py_cost v_instance v_c)) (py_budget_limit v_instance))
  then let v_errors := true in
  v_errors
  else v_errors) in
  v_errors) v_NW v_errors in
  (let v_errors := fold_left (fun (v_errors : bool) it5 => 
    (let v_errors := fold_left (fun (v_errors : bool) v_c => 
    let v_errors := (if ((negb (py_in_list (snd it5) v_c)) && (py_ne (py_row_get (py_pay_row v_pf (fst it5)) v_c) 0))
  then let v_errors := true in
  v_errors
  else v_errors) in
  let v_errors := (if (py_lt (gen_round_cmp (py_row_get (py_pay_row v_pf (fst it5)) v_c) 0 2) 0)
  then let v_errors := true in
  v_errors
  else v_errors) in
  v_errors) (py_instance_iter v_C) v_errors in
  v_errors)) (py_enumerate v_N) v_errors in
  (let v_errors := fold_left (fun (v_errors : bool) it7 => 
    let v_errors := (if (py_gt (gen_round_cmp (py_list_get v_spent (fst it7)) v_b 2) 0)
  then let v_errors := true in
  v_errors
  else v_errors) in
  v_errors) (py_enumerate v_N) v_errors in
  (let v_errors := fold_left (fun (v_errors : bool) v_c => 
    let v_s := (py_sum (map (fun v_pr9 => (py_row_get (py_pay_row v_pf (fst v_pr9)) v_c)) (py_enumerate v_N))) in
  let v_errors := (if (py_ne (gen_round_cmp v_s (py_cost v_instance v_c) 2) 0)
  then let v_errors := true in
  v_errors
  else v_errors) in
  v_errors) v_W v_errors in
  (let v_errors := fold_left (fun (v_errors : bool) v_c => 
    let v_s := (py_sum (map (fun v_pr11 => (py_row_get (py_pay_row v_pf (fst v_pr11)) v_c)) (py_enumerate v_N))) in
  let v_errors := (if (py_ne (gen_round_cmp v_s 0 2) 0)
  then let v_errors := true in
  v_errors
  else v_errors) in
  v_errors) v_NW v_errors in
  (if (negb v_stable)
  then (let v_errors := fold_left (fun (v_errors : bool) v_c => 
    let v_s := (py_sum (map (fun v_pr13 => (py_list_get v_leftover (fst v_pr13))) (filter (fun v_pr13 => (py_in_list (snd v_pr13) v_c)) (py_enumerate v_N)))) in
  let v_errors := (if (py_gt (gen_round_cmp v_s (py_cost v_instance v_c) 2) 0)
  then let v_errors := true in
  v_errors
  else v_errors) in
  v_errors) v_NW v_errors in
  (negb v_errors))
  else (let v_errors := fold_left (fun (v_errors : bool) v_c => 
    let v_s := (py_sum (map (fun v_pr15 => (py_max2 (py_list_get v_max_payment (fst v_pr15)) (py_list_get v_leftover (fst v_pr15)))) (filter (fun v_pr15 => (py_in_list (snd v_pr15) v_c)) (py_enumerate v_N)))) in
  let v_cost := (py_relaxed_cost v_instance v_relaxation v_c) in
  let v_errors := (if (py_gt (gen_round_cmp v_s v_cost 2) 0)
  then let v_errors := true in
  v_errors
  else v_errors) in
  v_errors) v_NW v_errors in
  (negb v_errors))))))))
  else (let v_errors := fold_left (fun (v_errors : bool) it16 => 
    (let v_errors := fold_left (fun (v_errors : bool) v_c => 
    let v_errors := (if ((negb (py_in_list (snd it16) v_c)) && (py_ne (py_row_get (py_pay_row v_pf (fst it16)) v_c) 0))
  then let v_errors := true in
  v_errors
  else v_errors) in
  let v_errors := (if (py_lt (gen_round_cmp (py_row_get (py_pay_row v_pf (fst it16)) v_c) 0 2) 0)
  then let v_errors := true in
  v_errors
  else v_errors) in
  v_errors) (py_instance_iter v_C) v_errors in
  v_errors)) (py_enumerate v_N) v_errors in
  (let v_errors := fold_left (fun (v_errors : bool) it18 => 
    let v_errors := (if (py_gt (gen_round_cmp (py_list_get v_spent (fst it18)) v_b 2) 0)
  then let v_errors := true in
  v_errors
  else v_errors) in
  v_errors) (py_enumerate v_N) v_errors in
  (let v_errors := fold_left (fun (v_errors : bool) v_c => 
    let v_s := (py_sum (map (fun v_pr20 => (py_row_get (py_pay_row v_pf (fst v_pr20)) v_c)) (py_enumerate v_N))) in
  let v_errors := (if (py_ne (gen_round_cmp v_s (py_cost v_instance v_c) 2) 0)
  then let v_errors := true in
  v_errors
  else v_errors) in
  v_errors) v_W v_errors in
  (let v_errors := fold_left (fun (v_errors : bool) v_c => 
    let v_s := (py_sum (map (fun v_pr22 => (py_row_get (py_pay_row v_pf (fst v_pr22)) v_c)) (py_enumerate v_N))) in
  let v_errors := (if (py_ne (gen_round_cmp v_s 0 2) 0)
  then let v_errors := true in
  v_errors
  else v_errors) in
  v_errors) v_NW v_errors in
  (if (negb v_stable)
  then (let v_errors := fold_left (fun (v_errors : bool) v_c => 
    let v_s := (py_sum (map (fun v_pr24 => (py_list_get v_leftover (fst v_pr24))) (filter (fun v_pr24 => (py_in_list (snd v_pr24) v_c)) (py_enumerate v_N)))) in
  let v_errors := (if (py_gt (gen_round_cmp v_s (py_cost v_instance v_c) 2) 0)
  then let v_errors := true in
  v_errors
  else v_errors) in
  v_errors) v_NW v_errors in
  (negb v_errors))
  else (let v_errors := fold_left (fun (v_errors : bool) v_c => 
    let v_s := (py_sum (map (fun v_pr26 => (py_max2 (py_list_get v_max_payment (fst v_pr26)) (py_list_get v_leftover (fst v_pr26)))) (filter (fun v_pr26 => (py_in_list (snd v_pr26) v_c)) (py_enumerate v_N)))) in
  let v_cost := (py_relaxed_cost v_instance v_relaxation v_c) in
  let v_errors := (if (py_gt (gen_round_cmp v_s v_cost 2) 0)
  then let v_errors := true in
  v_errors
  else v_errors) in
  v_errors) v_NW v_errors in
  (negb v_errors)))))))).
Global Hint Unfold gen_validate_price_system_relax : pygen.
(* no ZeroDivisionError: every frac(a, b) on the executed path has b != 0 *)
Definition gen_validate_price_system_relax_safe (v_instance : py_inst) (v_profile : (list (list py_proj))) (v_budget_allocation : (list py_proj)) (v_voter_budget : Q) (v_payment_functions : py_payments) (v_stable : bool) (v_exhaustive : bool) (v_relaxation : py_relax) : bool :=
  true.
Global Hint Unfold gen_validate_price_system_relax_safe : pygen.

(* pabutools/utils.py:54 powerset
def powerset(iterable: Iterable) -> Generator:
    s = list(iterable)
    return chain.from_iterable((combinations(s, r) for r in range(len(s) + 1))) *)
Definition gen_powerset_ballots (v_iterable : (list py_ballot)) : (list (list py_ballot)) :=
  let v_s := v_iterable in
  (py_chain (map (fun v_r => (py_combinations v_s v_r)) (py_range ((py_len v_s) + 1)))).
Global Hint Unfold gen_powerset_ballots : pygen.
(* no ZeroDivisionError: every frac(a, b) on the executed path has b != 0 *)
Definition gen_powerset_ballots_safe (v_iterable : (list py_ballot)) : bool :=
  true.
Global Hint Unfold gen_powerset_ballots_safe : pygen.

(* pabutools/analysis/cohesiveness.py:20 is_large_enough
def is_large_enough(group_size: int, num_voters: int, projects_cost: Numeric, budget_limit: Numeric) -> bool:
    return projects_cost * num_voters <= group_size * budget_limit *)
Definition gen_is_large_enough (v_group_size : Q) (v_num_voters : Q) (v_projects_cost : Q) (v_budget_limit : Q) : bool :=
  (py_le (v_projects_cost * v_num_voters) (v_group_size * v_budget_limit)).
Global Hint Unfold gen_is_large_enough : pygen.
(* no ZeroDivisionError: every frac(a, b) on the executed path has b != 0 *)
Definition gen_is_large_enough_safe (v_group_size : Q) (v_num_voters : Q) (v_projects_cost : Q) (v_budget_limit : Q) : bool :=
  true.
Global Hint Unfold gen_is_large_enough_safe : pygen.

(* pabutools/analysis/cohesiveness.py:26 is_cohesive_approval
def is_cohesive_approval(instance: Instance, profile: AbstractApprovalProfile, projects: Collection[Project], ballots: Collection[AbstractApprovalBallot]) -> bool:
    if not is_large_enough(sum((profile.multiplicity(b) for b in ballots)), profile.num_ballots(), total_cost(projects), instance.budget_limit):
        return False
    if len(ballots) == 0 or len(projects) == 0:
        return False
    for ballot in ballots:
        for p in projects:
            if p not in ballot:
                return False
    return True *)
Definition gen_is_cohesive_approval (v_instance : py_inst) (v_profile : (list py_ballot)) (v_projects : (list py_proj)) (v_ballots : (list py_ballot)) : bool :=
  (if (negb (gen_is_large_enough (py_sum (map (fun v_b => 1) v_ballots)) (py_len v_profile) (py_total_cost v_instance v_projects) (py_budget_limit v_instance)))
  then false
  else (if ((py_eq (py_len v_ballots) 0) || (py_eq (py_len v_projects) 0))
  then false
  else (let ret1 := fold_left (fun (ret1 : (option bool)) v_ballot => 
    match ret1 with Some _ => ret1 | None => (let ret2 := fold_left (fun (ret2 : (option (option bool))) v_p => 
    match ret2 with Some _ => ret2 | None => (if (negb (py_in_ballot v_ballot v_p))
  then (Some ((Some (false))))
  else ret2) end) v_projects (@None (option bool)) in
  match ret2 with Some r2 => r2 | None => ret1 end) end) v_ballots (@None bool) in
  match ret1 with Some r1 => r1 | None => true end))).
Global Hint Unfold gen_is_cohesive_approval : pygen.
(* no ZeroDivisionError: every frac(a, b) on the executed path has b != 0 *)
Definition gen_is_cohesive_approval_safe (v_instance : py_inst) (v_profile : (list py_ballot)) (v_projects : (list py_proj)) (v_ballots : (list py_ballot)) : bool :=
  true.
Global Hint Unfold gen_is_cohesive_approval_safe : pygen.

(* pabutools/analysis/cohesiveness.py:48 is_cohesive_cardinal
def is_cohesive_cardinal(instance: Instance, profile: AbstractCardinalProfile, projects: Collection[Project], ballots: Collection[AbstractCardinalBallot], alpha: dict[Project, Numeric]) -> bool:
    if not is_large_enough(sum((profile.multiplicity(b) for b in ballots)), profile.num_ballots(), total_cost(projects), instance.budget_limit):
        return False
    if len(ballots) == 0 or len(projects) == 0:
        return False
    for ballot in ballots:
        for p in projects:
            if ballot[p] < alpha[p]:
                return False
    return True *)
Definition gen_is_cohesive_cardinal (v_instance : py_inst) (v_profile : (list py_ballot)) (v_projects : (list py_proj)) (v_ballots : (list py_ballot)) (v_alpha : (py_proj -> Q)) : bool :=
  (if (negb (gen_is_large_enough (py_sum (map (fun v_b => 1) v_ballots)) (py_len v_profile) (py_total_cost v_instance v_projects) (py_budget_limit v_instance)))
  then false
  else (if ((py_eq (py_len v_ballots) 0) || (py_eq (py_len v_projects) 0))
  then false
  else (let ret1 := fold_left (fun (ret1 : (option bool)) v_ballot => 
    match ret1 with Some _ => ret1 | None => (let ret2 := fold_left (fun (ret2 : (option (option bool))) v_p => 
    match ret2 with Some _ => ret2 | None => (if (py_lt (py_ballot_getitem v_ballot v_p) (v_alpha v_p))
  then (Some ((Some (false))))
  else ret2) end) v_projects (@None (option bool)) in
  match ret2 with Some r2 => r2 | None => ret1 end) end) v_ballots (@None bool) in
  match ret1 with Some r1 => r1 | None => true end))).
Global Hint Unfold gen_is_cohesive_cardinal : pygen.
(* no ZeroDivisionError: every frac(a, b) on the executed path has b != 0 *)
Definition gen_is_cohesive_cardinal_safe (v_instance : py_inst) (v_profile : (list py_ballot)) (v_projects : (list py_proj)) (v_ballots : (list py_ballot)) (v_alpha : (py_proj -> Q)) : bool :=
  true.
Global Hint Unfold gen_is_cohesive_cardinal_safe : pygen.

(* pabutools/analysis/cohesiveness.py:71 cohesive_groups
def cohesive_groups(instance: Instance, profile: AbstractProfile, projects=None):
    if projects is None:
        projects = instance
    res = []
    for group in powerset(profile):
        if len(group) > 0:
            for project_set in powerset(projects):
                if len(project_set) > 0:
                    if isinstance(profile, AbstractApprovalProfile):
                        if is_cohesive_approval(instance, profile, project_set, group):
                            res.append((group, project_set))
                    elif isinstance(profile, AbstractCardinalProfile):
                        alpha_min = {p: min((b[p] for b in group)) for p in project_set}
                        if is_cohesive_cardinal(instance, profile, project_set, group, alpha_min):
                            res.append((group, project_set))
                    else:
                        raise NotImplementedError(f'We cannot find cohesive groups in a profile of type {type(profile)}. Only approval and cardinal profiles are supported.')
    return res *)
Definition gen_cohesive_groups (v_instance : py_inst) (v_profile : (list py_ballot)) : (list ((list py_ballot) * (list py_proj))%type) :=
  let v_projects := v_instance in
  let v_res := (@nil ((list py_ballot) * (list py_proj))%type) in
  (let v_res := fold_left (fun (v_res : (list ((list py_ballot) * (list py_proj))%type)) v_group => 
    (if (py_gt (py_len v_group) 0)
  then (let v_res := fold_left (fun (v_res : (list ((list py_ballot) * (list py_proj))%type)) v_project_set => 
    (if (py_gt (py_len v_project_set) 0)
  then let v_res := (if (gen_is_cohesive_approval v_instance v_profile v_project_set v_group)
  then let v_res := (v_res ++ [(v_group, v_project_set)]) in
  v_res
  else v_res) in
  v_res
  else v_res)) (gen_powerset (py_instance_iter v_projects)) v_res in
  v_res)
  else v_res)) (gen_powerset_ballots v_profile) v_res in
  v_res).
Global Hint Unfold gen_cohesive_groups : pygen.
(* no ZeroDivisionError: every frac(a, b) on the executed path has b != 0 *)
Definition gen_cohesive_groups_safe (v_instance : py_inst) (v_profile : (list py_ballot)) : bool :=
  true.
Global Hint Unfold gen_cohesive_groups_safe : pygen.

(* pabutools/analysis/cohesiveness.py:71 cohesive_groups
def cohesive_groups(instance: Instance, profile: AbstractProfile, projects=None):
    if projects is None:
        projects = instance
    res = []
    for group in powerset(profile):
        if len(group) > 0:
            for project_set in powerset(projects):
                if len(project_set) > 0:
                    if isinstance(profile, AbstractApprovalProfile):
                        if is_cohesive_approval(instance, profile, project_set, group):
                            res.append((group, project_set))
                    elif isinstance(profile, AbstractCardinalProfile):
                        alpha_min = {p: min((b[p] for b in group)) for p in project_set}
                        if is_cohesive_cardinal(instance, profile, project_set, group, alpha_min):
                            res.append((group, project_set))
                    else:
                        raise NotImplementedError(f'We cannot find cohesive groups in a profile of type {type(profile)}. Only approval and cardinal profiles are supported.')
    return res *)
Definition gen_cohesive_groups_cardinal (v_instance : py_inst) (v_profile : (list py_ballot)) : (list ((list py_ballot) * (list py_proj))%type) :=
  let v_projects := v_instance in
  let v_res := (@nil ((list py_ballot) * (list py_proj))%type) in
  (let v_res := fold_left (fun (v_res : (list ((list py_ballot) * (list py_proj))%type)) v_group => 
    (if (py_gt (py_len v_group) 0)
  then (let v_res := fold_left (fun (v_res : (list ((list py_ballot) * (list py_proj))%type)) v_project_set => 
    (if (py_gt (py_len v_project_set) 0)
  then let v_alpha_min := (fun v_p => (py_min_list (map (fun v_b => (py_ballot_getitem v_b v_p)) v_group) 0)) in
  let v_res := (if (gen_is_cohesive_cardinal v_instance v_profile v_project_set v_group v_alpha_min)
  then let v_res := (v_res ++ [(v_group, v_project_set)]) in
  v_res
  else v_res) in
  v_res
  else v_res)) (gen_powerset (py_instance_iter v_projects)) v_res in
  v_res)
  else v_res)) (gen_powerset_ballots v_profile) v_res in
  v_res).
Global Hint Unfold gen_cohesive_groups_cardinal : pygen.
(* no ZeroDivisionError: every frac(a, b) on the executed path has b != 0 *)
Definition gen_cohesive_groups_cardinal_safe (v_instance : py_inst) (v_profile : (list py_ballot)) : bool :=
  let v_projects := v_instance in
  let v_res := (@nil ((list py_ballot) * (list py_proj))%type) in
  (let '(ok1, v_res) := fold_left (fun (st1 : (bool * (list ((list py_ballot) * (list py_proj))%type))%type) v_group => let '(ok1, v_res) := st1 in 
    if ok1 then (if (py_gt (py_len v_group) 0)
  then (let '(ok2, v_res) := fold_left (fun (st2 : (bool * (list ((list py_ballot) * (list py_proj))%type))%type) v_project_set => let '(ok2, v_res) := st2 in 
    if ok2 then (if (py_gt (py_len v_project_set) 0)
  then (if (forallb (fun v_p => (negb (py_is_empty (map (fun v_b => (py_ballot_getitem v_b v_p)) v_group)))) v_project_set) then let v_alpha_min := (fun v_p => (py_min_list (map (fun v_b => (py_ballot_getitem v_b v_p)) v_group) 0)) in
  let v_res := (if (gen_is_cohesive_cardinal v_instance v_profile v_project_set v_group v_alpha_min)
  then let v_res := (v_res ++ [(v_group, v_project_set)]) in
  v_res
  else v_res) in
  (ok2, v_res) else (false, v_res))
  else (ok2, v_res)) else st2) (gen_powerset (py_instance_iter v_projects)) (true, v_res) in
  (if ok2 then (ok1, v_res) else (false, v_res)))
  else (ok1, v_res)) else st1) (gen_powerset_ballots v_profile) (true, v_res) in
  (if ok1 then true else false)).
Global Hint Unfold gen_cohesive_groups_cardinal_safe : pygen.

(* pabutools/analysis/justifiedrepresentation.py:22 is_in_core
def is_in_core(instance: Instance, profile: AbstractProfile, sat_class: type[SatisfactionMeasure], budget_allocation: Collection[Project], up_to_func: Callable[[Iterable[Numeric]], Numeric] | None=None) -> bool:
    for group in powerset(profile):
        if len(group) > 0:
            for project_set in powerset(instance):
                if is_large_enough(sum((profile.multiplicity(b) for b in group)), profile.num_ballots(), total_cost(project_set), instance.budget_limit):
                    all_better_alone = True
                    for ballot in group:
                        sat = sat_class(instance, profile, ballot)
                        surplus = 0
                        if up_to_func is not None:
                            surplus = up_to_func((sat.sat_project(p) for p in project_set if p not in budget_allocation))
                        if sat.sat(budget_allocation) + surplus >= sat.sat(project_set):
                            all_better_alone = False
                            break
                    if all_better_alone:
                        return False
    return True *)
Definition gen_is_in_core (v_instance : py_inst) (v_profile : (list py_ballot)) (v_sat_class : py_satclass_l) (v_budget_allocation : (list py_proj)) : bool :=
  (let ret1 := fold_left (fun (ret1 : (option bool)) v_group => 
    match ret1 with Some _ => ret1 | None => (if (py_gt (py_len v_group) 0)
  then (let ret2 := fold_left (fun (ret2 : (option (option bool))) v_project_set => 
    match ret2 with Some _ => ret2 | None => (if (gen_is_large_enough (py_sum (map (fun v_b => 1) v_group)) (py_len v_profile) (py_total_cost v_instance v_project_set) (py_budget_limit v_instance))
  then let v_all_better_alone := true in
  (let '(stop3, v_all_better_alone) := fold_left (fun (st3 : (bool * bool)%type) v_ballot => let '(stop3, v_all_better_alone) := st3 in 
    if stop3 then st3 else let v_sat := (v_sat_class v_instance v_profile v_ballot) in
  let v_surplus := 0 in
  (if (py_ge ((v_sat v_budget_allocation) + v_surplus) (v_sat v_project_set))
  then let v_all_better_alone := false in
  (true, v_all_better_alone)
  else (stop3, v_all_better_alone))) v_group (false, v_all_better_alone) in
  (if v_all_better_alone
  then (Some ((Some (false))))
  else ret2))
  else ret2) end) (gen_powerset (py_instance_iter v_instance)) (@None (option bool)) in
  match ret2 with Some r2 => r2 | None => ret1 end)
  else ret1) end) (gen_powerset_ballots v_profile) (@None bool) in
  match ret1 with Some r1 => r1 | None => true end).
Global Hint Unfold gen_is_in_core : pygen.
(* no ZeroDivisionError: every frac(a, b) on the executed path has b != 0 *)
Definition gen_is_in_core_safe (v_instance : py_inst) (v_profile : (list py_ballot)) (v_sat_class : py_satclass_l) (v_budget_allocation : (list py_proj)) : bool :=
  true.
Global Hint Unfold gen_is_in_core_safe : pygen.

(* pabutools/analysis/justifiedrepresentation.py:22 is_in_core
def is_in_core(instance: Instance, profile: AbstractProfile, sat_class: type[SatisfactionMeasure], budget_allocation: Collection[Project], up_to_func: Callable[[Iterable[Numeric]], Numeric] | None=None) -> bool:
    for group in powerset(profile):
        if len(group) > 0:
            for project_set in powerset(instance):
                if is_large_enough(sum((profile.multiplicity(b) for b in group)), profile.num_ballots(), total_cost(project_set), instance.budget_limit):
                    all_better_alone = True
                    for ballot in group:
                        sat = sat_class(instance, profile, ballot)
                        surplus = 0
                        if up_to_func is not None:
                            surplus = up_to_func((sat.sat_project(p) for p in project_set if p not in budget_allocation))
                        if sat.sat(budget_allocation) + surplus >= sat.sat(project_set):
                            all_better_alone = False
                            break
                    if all_better_alone:
                        return False
    return True *)
Definition gen_is_in_core_upto (v_instance : py_inst) (v_profile : (list py_ballot)) (v_sat_class : py_satclass_l) (v_budget_allocation : (list py_proj)) (v_up_to_func : ((list Q) -> Q)) : bool :=
  (let ret1 := fold_left (fun (ret1 : (option bool)) v_group => 
    match ret1 with Some _ => ret1 | None => (if (py_gt (py_len v_group) 0)
  then (let ret2 := fold_left (fun (ret2 : (option (option bool))) v_project_set => 
    match ret2 with Some _ => ret2 | None => (if (gen_is_large_enough (py_sum (map (fun v_b => 1) v_group)) (py_len v_profile) (py_total_cost v_instance v_project_set) (py_budget_limit v_instance))
  then let v_all_better_alone := true in
  (let '(stop3, v_all_better_alone) := fold_left (fun (st3 : (bool * bool)%type) v_ballot => let '(stop3, v_all_better_alone) := st3 in 
    if stop3 then st3 else let v_sat := (v_sat_class v_instance v_profile v_ballot) in
  let v_surplus := 0 in
  let v_surplus := (v_up_to_func (map (fun v_p => (v_sat [v_p])) (filter (fun v_p => (negb (py_in_list v_budget_allocation v_p))) v_project_set))) in
  (if (py_ge ((v_sat v_budget_allocation) + v_surplus) (v_sat v_project_set))
  then let v_all_better_alone := false in
  (true, v_all_better_alone)
  else (stop3, v_all_better_alone))) v_group (false, v_all_better_alone) in
  (if v_all_better_alone
  then (Some ((Some (false))))
  else ret2))
  else ret2) end) (gen_powerset (py_instance_iter v_instance)) (@None (option bool)) in
  match ret2 with Some r2 => r2 | None => ret1 end)
  else ret1) end) (gen_powerset_ballots v_profile) (@None bool) in
  match ret1 with Some r1 => r1 | None => true end).
Global Hint Unfold gen_is_in_core_upto : pygen.
(* no ZeroDivisionError: every frac(a, b) on the executed path has b != 0 *)
Definition gen_is_in_core_upto_safe (v_instance : py_inst) (v_profile : (list py_ballot)) (v_sat_class : py_satclass_l) (v_budget_allocation : (list py_proj)) (v_up_to_func : ((list Q) -> Q)) : bool :=
  true.
Global Hint Unfold gen_is_in_core_upto_safe : pygen.

(* pabutools/analysis/justifiedrepresentation.py:59 is_strong_EJR_approval
def is_strong_EJR_approval(instance: Instance, profile: AbstractApprovalProfile, sat_class: type[SatisfactionMeasure], budget_allocation: Collection[Project]) -> bool:
    for group, project_set in cohesive_groups(instance, profile):
        all_agents_sat = True
        for ballot in group:
            sat = sat_class(instance, profile, ballot)
            if sat.sat(budget_allocation) < sat.sat(project_set):
                all_agents_sat = False
                break
        if not all_agents_sat:
            return False
    return True *)
Definition gen_is_strong_EJR_approval (v_instance : py_inst) (v_profile : (list py_ballot)) (v_sat_class : py_satclass_l) (v_budget_allocation : (list py_proj)) : bool :=
  (let ret1 := fold_left (fun (ret1 : (option bool)) it1 => 
    match ret1 with Some _ => ret1 | None => let v_all_agents_sat := true in
  (let '(stop2, v_all_agents_sat) := fold_left (fun (st2 : (bool * bool)%type) v_ballot => let '(stop2, v_all_agents_sat) := st2 in 
    if stop2 then st2 else let v_sat := (v_sat_class v_instance v_profile v_ballot) in
  (if (py_lt (v_sat v_budget_allocation) (v_sat (snd it1)))
  then let v_all_agents_sat := false in
  (true, v_all_agents_sat)
  else (stop2, v_all_agents_sat))) (fst it1) (false, v_all_agents_sat) in
  (if (negb v_all_agents_sat)
  then (Some (false))
  else ret1)) end) (gen_cohesive_groups v_instance v_profile) (@None bool) in
  match ret1 with Some r1 => r1 | None => true end).
Global Hint Unfold gen_is_strong_EJR_approval : pygen.
(* no ZeroDivisionError: every frac(a, b) on the executed path has b != 0 *)
Definition gen_is_strong_EJR_approval_safe (v_instance : py_inst) (v_profile : (list py_ballot)) (v_sat_class : py_satclass_l) (v_budget_allocation : (list py_proj)) : bool :=
  true.
Global Hint Unfold gen_is_strong_EJR_approval_safe : pygen.

(* pabutools/analysis/justifiedrepresentation.py:81 is_EJR_approval
def is_EJR_approval(instance: Instance, profile: AbstractApprovalProfile, sat_class: type[SatisfactionMeasure], budget_allocation: Collection[Project], up_to_func: Callable[[Iterable[Numeric]], Numeric] | None=None) -> bool:
    for group, project_set in cohesive_groups(instance, profile):
        one_agent_sat = False
        for ballot in group:
            sat = sat_class(instance, profile, ballot)
            surplus = 0
            if up_to_func is not None:
                surplus = up_to_func((sat.sat_project(p) for p in project_set if p not in budget_allocation))
            if sat.sat(budget_allocation) + surplus >= sat.sat(project_set):
                one_agent_sat = True
                break
        if not one_agent_sat:
            return False
    return True *)
Definition gen_is_EJR_approval (v_instance : py_inst) (v_profile : (list py_ballot)) (v_sat_class : py_satclass_l) (v_budget_allocation : (list py_proj)) : bool :=
  (let ret1 := fold_left (fun (ret1 : (option bool)) it1 => 
    match ret1 with Some _ => ret1 | None => let v_one_agent_sat := false in
  (let '(stop2, v_one_agent_sat) := fold_left (fun (st2 : (bool * bool)%type) v_ballot => let '(stop2, v_one_agent_sat) := st2 in 
    if stop2 then st2 else let v_sat := (v_sat_class v_instance v_profile v_ballot) in
  let v_surplus := 0 in
  (if (py_ge ((v_sat v_budget_allocation) + v_surplus) (v_sat (snd it1)))
  then let v_one_agent_sat := true in
  (true, v_one_agent_sat)
  else (stop2, v_one_agent_sat))) (fst it1) (false, v_one_agent_sat) in
  (if (negb v_one_agent_sat)
  then (Some (false))
  else ret1)) end) (gen_cohesive_groups v_instance v_profile) (@None bool) in
  match ret1 with Some r1 => r1 | None => true end).
Global Hint Unfold gen_is_EJR_approval : pygen.
(* no ZeroDivisionError: every frac(a, b) on the executed path has b != 0 *)
Definition gen_is_EJR_approval_safe (v_instance : py_inst) (v_profile : (list py_ballot)) (v_sat_class : py_satclass_l) (v_budget_allocation : (list py_proj)) : bool :=
  true.
Global Hint Unfold gen_is_EJR_approval_safe : pygen.

(* pabutools/analysis/justifiedrepresentation.py:81 is_EJR_approval
def is_EJR_approval(instance: Instance, profile: AbstractApprovalProfile, sat_class: type[SatisfactionMeasure], budget_allocation: Collection[Project], up_to_func: Callable[[Iterable[Numeric]], Numeric] | None=None) -> bool:
    for group, project_set in cohesive_groups(instance, profile):
        one_agent_sat = False
        for ballot in group:
            sat = sat_class(instance, profile, ballot)
            surplus = 0
            if up_to_func is not None:
                surplus = up_to_func((sat.sat_project(p) for p in project_set if p not in budget_allocation))
            if sat.sat(budget_allocation) + surplus >= sat.sat(project_set):
                one_agent_sat = True
                break
        if not one_agent_sat:
            return False
    return True *)
Definition gen_is_EJR_approval_upto (v_instance : py_inst) (v_profile : (list py_ballot)) (v_sat_class : py_satclass_l) (v_budget_allocation : (list py_proj)) (v_up_to_func : ((list Q) -> Q)) : bool :=
  (let ret1 := fold_left (fun (ret1 : (option bool)) it1 => 
    match ret1 with Some _ => ret1 | None => let v_one_agent_sat := false in
  (let '(stop2, v_one_agent_sat) := fold_left (fun (st2 : (bool * bool)%type) v_ballot => let '(stop2, v_one_agent_sat) := st2 in 
    if stop2 then st2 else let v_sat := (v_sat_class v_instance v_profile v_ballot) in
  let v_surplus := 0 in
  let v_surplus := (v_up_to_func (map (fun v_p => (v_sat [v_p])) (filter (fun v_p => (negb (py_in_list v_budget_allocation v_p))) (snd it1)))) in
  (if (py_ge ((v_sat v_budget_allocation) + v_surplus) (v_sat (snd it1)))
  then let v_one_agent_sat := true in
  (true, v_one_agent_sat)
  else (stop2, v_one_agent_sat))) (fst it1) (false, v_one_agent_sat) in
  (if (negb v_one_agent_sat)
  then (Some (false))
  else ret1)) end) (gen_cohesive_groups v_instance v_profile) (@None bool) in
  match ret1 with Some r1 => r1 | None => true end).
Global Hint Unfold gen_is_EJR_approval_upto : pygen.
(* no ZeroDivisionError: every frac(a, b) on the executed path has b != 0 *)
Definition gen_is_EJR_approval_upto_safe (v_instance : py_inst) (v_profile : (list py_ballot)) (v_sat_class : py_satclass_l) (v_budget_allocation : (list py_proj)) (v_up_to_func : ((list Q) -> Q)) : bool :=
  true.
Global Hint Unfold gen_is_EJR_approval_upto_safe : pygen.

(* pabutools/analysis/justifiedrepresentation.py:111 is_EJR_any_approval
def is_EJR_any_approval(instance: Instance, profile: AbstractApprovalProfile, sat_class: type[SatisfactionMeasure], budget_allocation: Collection[Project]) -> bool:
    return is_EJR_approval(instance, profile, sat_class, budget_allocation, up_to_func=lambda x: min(x, default=0)) *)
Definition gen_is_EJR_any_approval (v_instance : py_inst) (v_profile : (list py_ballot)) (v_sat_class : py_satclass_l) (v_budget_allocation : (list py_proj)) : bool :=
  (gen_is_EJR_approval_upto v_instance v_profile v_sat_class v_budget_allocation (fun x1_0 => (py_min_list x1_0 0))).
Global Hint Unfold gen_is_EJR_any_approval : pygen.
(* no ZeroDivisionError: every frac(a, b) on the executed path has b != 0 *)
Definition gen_is_EJR_any_approval_safe (v_instance : py_inst) (v_profile : (list py_ballot)) (v_sat_class : py_satclass_l) (v_budget_allocation : (list py_proj)) : bool :=
  true.
Global Hint Unfold gen_is_EJR_any_approval_safe : pygen.

(* pabutools/analysis/justifiedrepresentation.py:130 is_EJR_one_approval
def is_EJR_one_approval(instance: Instance, profile: AbstractApprovalProfile, sat_class: type[SatisfactionMeasure], budget_allocation: Collection[Project]) -> bool:
    return is_EJR_approval(instance, profile, sat_class, budget_allocation, up_to_func=lambda x: max(x, default=0)) *)
Definition gen_is_EJR_one_approval (v_instance : py_inst) (v_profile : (list py_ballot)) (v_sat_class : py_satclass_l) (v_budget_allocation : (list py_proj)) : bool :=
  (gen_is_EJR_approval_upto v_instance v_profile v_sat_class v_budget_allocation (fun x1_0 => (py_max_list x1_0 0))).
Global Hint Unfold gen_is_EJR_one_approval : pygen.
(* no ZeroDivisionError: every frac(a, b) on the executed path has b != 0 *)
Definition gen_is_EJR_one_approval_safe (v_instance : py_inst) (v_profile : (list py_ballot)) (v_sat_class : py_satclass_l) (v_budget_allocation : (list py_proj)) : bool :=
  true.
Global Hint Unfold gen_is_EJR_one_approval_safe : pygen.

(* pabutools/analysis/justifiedrepresentation.py:149 is_PJR_approval
def is_PJR_approval(instance: Instance, profile: AbstractApprovalProfile, sat_class: type[SatisfactionMeasure], budget_allocation: Collection[Project], up_to_func: Callable[[Iterable[Numeric]], Numeric] | None=None) -> bool:
    for group, project_set in cohesive_groups(instance, profile):
        sat = sat_class(instance, profile, ApprovalBallot(instance))
        threshold = sat.sat(project_set)
        group_approved = {p for p in budget_allocation if any((p in b for b in group))}
        surplus = 0
        if up_to_func is not None:
            surplus = up_to_func((sat.sat_project(p) for p in project_set if p not in budget_allocation))
        group_sat = sat.sat(group_approved) + surplus
        if group_sat < threshold:
            return False
    return True *)
Definition gen_is_PJR_approval (v_instance : py_inst) (v_profile : (list py_ballot)) (v_sat_class : py_satclass_l) (v_budget_allocation : (list py_proj)) : bool :=
  (let ret1 := fold_left (fun (ret1 : (option bool)) it1 => 
    match ret1 with Some _ => ret1 | None => let v_sat := (v_sat_class v_instance v_profile (py_full_ballot v_instance)) in
  let v_threshold := (v_sat (snd it1)) in
  let v_group_approved := (filter (fun v_p => (py_any (map (fun v_b => (py_in_ballot v_b v_p)) (fst it1)))) v_budget_allocation) in
  let v_surplus := 0 in
  let v_group_sat := ((v_sat v_group_approved) + v_surplus) in
  (if (py_lt v_group_sat v_threshold)
  then (Some (false))
  else ret1) end) (gen_cohesive_groups v_instance v_profile) (@None bool) in
  match ret1 with Some r1 => r1 | None => true end).
Global Hint Unfold gen_is_PJR_approval : pygen.
(* no ZeroDivisionError: every frac(a, b) on the executed path has b != 0 *)
Definition gen_is_PJR_approval_safe (v_instance : py_inst) (v_profile : (list py_ballot)) (v_sat_class : py_satclass_l) (v_budget_allocation : (list py_proj)) : bool :=
  true.
Global Hint Unfold gen_is_PJR_approval_safe : pygen.

(* pabutools/analysis/justifiedrepresentation.py:149 is_PJR_approval
def is_PJR_approval(instance: Instance, profile: AbstractApprovalProfile, sat_class: type[SatisfactionMeasure], budget_allocation: Collection[Project], up_to_func: Callable[[Iterable[Numeric]], Numeric] | None=None) -> bool:
    for group, project_set in cohesive_groups(instance, profile):
        sat = sat_class(instance, profile, ApprovalBallot(instance))
        threshold = sat.sat(project_set)
        group_approved = {p for p in budget_allocation if any((p in b for b in group))}
        surplus = 0
        if up_to_func is not None:
            surplus = up_to_func((sat.sat_project(p) for p in project_set if p not in budget_allocation))
        group_sat = sat.sat(group_approved) + surplus
        if group_sat < threshold:
            return False
    return True *)
Definition gen_is_PJR_approval_upto (v_instance : py_inst) (v_profile : (list py_ballot)) (v_sat_class : py_satclass_l) (v_budget_allocation : (list py_proj)) (v_up_to_func : ((list Q) -> Q)) : bool :=
  (let ret1 := fold_left (fun (ret1 : (option bool)) it1 => 
    match ret1 with Some _ => ret1 | None => let v_sat := (v_sat_class v_instance v_profile (py_full_ballot v_instance)) in
  let v_threshold := (v_sat (snd it1)) in
  let v_group_approved := (filter (fun v_p => (py_any (map (fun v_b => (py_in_ballot v_b v_p)) (fst it1)))) v_budget_allocation) in
  let v_surplus := 0 in
  let v_surplus := (v_up_to_func (map (fun v_p => (v_sat [v_p])) (filter (fun v_p => (negb (py_in_list v_budget_allocation v_p))) (snd it1)))) in
  let v_group_sat := ((v_sat v_group_approved) + v_surplus) in
  (if (py_lt v_group_sat v_threshold)
  then (Some (false))
  else ret1) end) (gen_cohesive_groups v_instance v_profile) (@None bool) in
  match ret1 with Some r1 => r1 | None => true end).
Global Hint Unfold gen_is_PJR_approval_upto : pygen.
(* no ZeroDivisionError: every frac(a, b) on the executed path has b != 0 *)
Definition gen_is_PJR_approval_upto_safe (v_instance : py_inst) (v_profile : (list py_ballot)) (v_sat_class : py_satclass_l) (v_budget_allocation : (list py_proj)) (v_up_to_func : ((list Q) -> Q)) : bool :=
  true.
Global Hint Unfold gen_is_PJR_approval_upto_safe : pygen.

(* pabutools/analysis/justifiedrepresentation.py:175 is_PJR_any_approval
def is_PJR_any_approval(instance: Instance, profile: AbstractApprovalProfile, sat_class: type[SatisfactionMeasure], budget_allocation: Collection[Project]) -> bool:
    return is_PJR_approval(instance, profile, sat_class, budget_allocation, up_to_func=lambda x: min(x, default=0)) *)
Definition gen_is_PJR_any_approval (v_instance : py_inst) (v_profile : (list py_ballot)) (v_sat_class : py_satclass_l) (v_budget_allocation : (list py_proj)) : bool :=
  (gen_is_PJR_approval_upto v_instance v_profile v_sat_class v_budget_allocation (fun x1_0 => (py_min_list x1_0 0))).
Global Hint Unfold gen_is_PJR_any_approval : pygen.
(* no ZeroDivisionError: every frac(a, b) on the executed path has b != 0 *)
Definition gen_is_PJR_any_approval_safe (v_instance : py_inst) (v_profile : (list py_ballot)) (v_sat_class : py_satclass_l) (v_budget_allocation : (list py_proj)) : bool :=
  true.
Global Hint Unfold gen_is_PJR_any_approval_safe : pygen.

(* pabutools/analysis/justifiedrepresentation.py:194 is_PJR_one_approval
def is_PJR_one_approval(instance: Instance, profile: AbstractApprovalProfile, sat_class: type[SatisfactionMeasure], budget_allocation: Collection[Project]) -> bool:
    return is_PJR_approval(instance, profile, sat_class, budget_allocation, up_to_func=lambda x: max(x, default=0)) *)
Definition gen_is_PJR_one_approval (v_instance : py_inst) (v_profile : (list py_ballot)) (v_sat_class : py_satclass_l) (v_budget_allocation : (list py_proj)) : bool :=
  (gen_is_PJR_approval_upto v_instance v_profile v_sat_class v_budget_allocation (fun x1_0 => (py_max_list x1_0 0))).
Global Hint Unfold gen_is_PJR_one_approval : pygen.
(* no ZeroDivisionError: every frac(a, b) on the executed path has b != 0 *)
Definition gen_is_PJR_one_approval_safe (v_instance : py_inst) (v_profile : (list py_ballot)) (v_sat_class : py_satclass_l) (v_budget_allocation : (list py_proj)) : bool :=
  true.
Global Hint Unfold gen_is_PJR_one_approval_safe : pygen.

(* pabutools/analysis/justifiedrepresentation.py:213 is_strong_EJR_cardinal
def is_strong_EJR_cardinal(instance: Instance, profile: AbstractCardinalProfile, budget_allocation: Collection[Project], sat_class: type[SatisfactionMeasure]=Additive_Cardinal_Sat) -> bool:
    for group, project_set in cohesive_groups(instance, profile):
        all_agents_sat = True
        threshold = sum((min((b[p] for b in group)) for p in project_set))
        for ballot in group:
            sat = sat_class(instance, profile, ballot)
            if sat.sat(budget_allocation) < threshold:
                all_agents_sat = False
                break
        if not all_agents_sat:
            return False
    return True *)
Definition gen_is_strong_EJR_cardinal (v_instance : py_inst) (v_profile : (list py_ballot)) (v_budget_allocation : (list py_proj)) (v_sat_class : py_satclass_l) : bool :=
  (let ret1 := fold_left (fun (ret1 : (option bool)) it1 => 
    match ret1 with Some _ => ret1 | None => let v_all_agents_sat := true in
  let v_threshold := (py_sum (map (fun v_p => (py_min_list (map (fun v_b => (py_ballot_getitem v_b v_p)) (fst it1)) 0)) (snd it1))) in
  (let '(stop2, v_all_agents_sat) := fold_left (fun (st2 : (bool * bool)%type) v_ballot => let '(stop2, v_all_agents_sat) := st2 in 
    if stop2 then st2 else let v_sat := (v_sat_class v_instance v_profile v_ballot) in
  (if (py_lt (v_sat v_budget_allocation) v_threshold)
  then let v_all_agents_sat := false in
  (true, v_all_agents_sat)
  else (stop2, v_all_agents_sat))) (fst it1) (false, v_all_agents_sat) in
  (if (negb v_all_agents_sat)
  then (Some (false))
  else ret1)) end) (gen_cohesive_groups_cardinal v_instance v_profile) (@None bool) in
  match ret1 with Some r1 => r1 | None => true end).
Global Hint Unfold gen_is_strong_EJR_cardinal : pygen.
(* no ZeroDivisionError: every frac(a, b) on the executed path has b != 0 *)
Definition gen_is_strong_EJR_cardinal_safe (v_instance : py_inst) (v_profile : (list py_ballot)) (v_budget_allocation : (list py_proj)) (v_sat_class : py_satclass_l) : bool :=
  (if (gen_cohesive_groups_cardinal_safe  v_instance v_profile) then (let '(ok1, ret1) := fold_left (fun (st1 : (bool * (option bool))%type) it1 => let '(ok1, ret1) := st1 in 
    if ok1 then match ret1 with Some _ => st1 | None => let v_all_agents_sat := true in
  (if (forallb (fun v_p => (negb (py_is_empty (map (fun v_b => (py_ballot_getitem v_b v_p)) (fst it1))))) (snd it1)) then let v_threshold := (py_sum (map (fun v_p => (py_min_list (map (fun v_b => (py_ballot_getitem v_b v_p)) (fst it1)) 0)) (snd it1))) in
  (let '(stop2, v_all_agents_sat) := fold_left (fun (st2 : (bool * bool)%type) v_ballot => let '(stop2, v_all_agents_sat) := st2 in 
    if stop2 then st2 else let v_sat := (v_sat_class v_instance v_profile v_ballot) in
  (if (py_lt (v_sat v_budget_allocation) v_threshold)
  then let v_all_agents_sat := false in
  (true, v_all_agents_sat)
  else (stop2, v_all_agents_sat))) (fst it1) (false, v_all_agents_sat) in
  (if (negb v_all_agents_sat)
  then (ok1, (Some (true)))
  else (ok1, ret1))) else (false, ret1)) end else st1) (gen_cohesive_groups_cardinal v_instance v_profile) (true, (@None bool)) in
  (if ok1 then match ret1 with Some r1 => r1 | None => true end else false)) else false).
Global Hint Unfold gen_is_strong_EJR_cardinal_safe : pygen.

(* pabutools/analysis/justifiedrepresentation.py:236 is_EJR_cardinal
def is_EJR_cardinal(instance: Instance, profile: AbstractCardinalProfile, budget_allocation: Collection[Project], sat_class: type[SatisfactionMeasure]=Additive_Cardinal_Sat, up_to_func: Callable[[Iterable[Numeric]], Numeric] | None=None) -> bool:
    for group, project_set in cohesive_groups(instance, profile):
        one_agent_sat = False
        threshold = sum((min((b[p] for b in group)) for p in project_set))
        for ballot in group:
            sat = sat_class(instance, profile, ballot)
            surplus = 0
            if up_to_func is not None:
                surplus = up_to_func((sat.sat_project(p) for p in project_set if p not in budget_allocation))
            if sat.sat(budget_allocation) + surplus >= threshold:
                one_agent_sat = True
                break
        if not one_agent_sat:
            return False
    return True *)
Definition gen_is_EJR_cardinal (v_instance : py_inst) (v_profile : (list py_ballot)) (v_budget_allocation : (list py_proj)) (v_sat_class : py_satclass_l) : bool :=
  (let ret1 := fold_left (fun (ret1 : (option bool)) it1 => 
    match ret1 with Some _ => ret1 | None => let v_one_agent_sat := false in
  let v_threshold := (py_sum (map (fun v_p => (py_min_list (map (fun v_b => (py_ballot_getitem v_b v_p)) (fst it1)) 0)) (snd it1))) in
  (let '(stop2, v_one_agent_sat) := fold_left (fun (st2 : (bool * bool)%type) v_ballot => let '(stop2, v_one_agent_sat) := st2 in 
    if stop2 then st2 else let v_sat := (v_sat_class v_instance v_profile v_ballot) in
  let v_surplus := 0 in
  (if (py_ge ((v_sat v_budget_allocation) + v_surplus) v_threshold)
  then let v_one_agent_sat := true in
  (true, v_one_agent_sat)
  else (stop2, v_one_agent_sat))) (fst it1) (false, v_one_agent_sat) in
  (if (negb v_one_agent_sat)
  then (Some (false))
  else ret1)) end) (gen_cohesive_groups_cardinal v_instance v_profile) (@None bool) in
  match ret1 with Some r1 => r1 | None => true end).
Global Hint Unfold gen_is_EJR_cardinal : pygen.
(* no ZeroDivisionError: every frac(a, b) on the executed path has b != 0 *)
Definition gen_is_EJR_cardinal_safe (v_instance : py_inst) (v_profile : (list py_ballot)) (v_budget_allocation : (list py_proj)) (v_sat_class : py_satclass_l) : bool :=
  (if (gen_cohesive_groups_cardinal_safe  v_instance v_profile) then (let '(ok1, ret1) := fold_left (fun (st1 : (bool * (option bool))%type) it1 => let '(ok1, ret1) := st1 in 
    if ok1 then match ret1 with Some _ => st1 | None => let v_one_agent_sat := false in
  (if (forallb (fun v_p => (negb (py_is_empty (map (fun v_b => (py_ballot_getitem v_b v_p)) (fst it1))))) (snd it1)) then let v_threshold := (py_sum (map (fun v_p => (py_min_list (map (fun v_b => (py_ballot_getitem v_b v_p)) (fst it1)) 0)) (snd it1))) in
  (let '(stop2, v_one_agent_sat) := fold_left (fun (st2 : (bool * bool)%type) v_ballot => let '(stop2, v_one_agent_sat) := st2 in 
    if stop2 then st2 else let v_sat := (v_sat_class v_instance v_profile v_ballot) in
  let v_surplus := 0 in
  (if (py_ge ((v_sat v_budget_allocation) + v_surplus) v_threshold)
  then let v_one_agent_sat := true in
  (true, v_one_agent_sat)
  else (stop2, v_one_agent_sat))) (fst it1) (false, v_one_agent_sat) in
  (if (negb v_one_agent_sat)
  then (ok1, (Some (true)))
  else (ok1, ret1))) else (false, ret1)) end else st1) (gen_cohesive_groups_cardinal v_instance v_profile) (true, (@None bool)) in
  (if ok1 then match ret1 with Some r1 => r1 | None => true end else false)) else false).
Global Hint Unfold gen_is_EJR_cardinal_safe : pygen.

(* pabutools/analysis/justifiedrepresentation.py:236 is_EJR_cardinal
def is_EJR_cardinal(instance: Instance, profile: AbstractCardinalProfile, budget_allocation: Collection[Project], sat_class: type[SatisfactionMeasure]=Additive_Cardinal_Sat, up_to_func: Callable[[Iterable[Numeric]], Numeric] | None=None) -> bool:
    for group, project_set in cohesive_groups(instance, profile):
        one_agent_sat = False
        threshold = sum((min((b[p] for b in group)) for p in project_set))
        for ballot in group:
            sat = sat_class(instance, profile, ballot)
            surplus = 0
            if up_to_func is not None:
                surplus = up_to_func((sat.sat_project(p) for p in project_set if p not in budget_allocation))
            if sat.sat(budget_allocation) + surplus >= threshold:
                one_agent_sat = True
                break
        if not one_agent_sat:
            return False
    return True *)
Definition gen_is_EJR_cardinal_upto (v_instance : py_inst) (v_profile : (list py_ballot)) (v_budget_allocation : (list py_proj)) (v_sat_class : py_satclass_l) (v_up_to_func : ((list Q) -> Q)) : bool :=
  (let ret1 := fold_left (fun (ret1 : (option bool)) it1 => 
    match ret1 with Some _ => ret1 | None => let v_one_agent_sat := false in
  let v_threshold := (py_sum (map (fun v_p => (py_min_list (map (fun v_b => (py_ballot_getitem v_b v_p)) (fst it1)) 0)) (snd it1))) in
  (let '(stop2, v_one_agent_sat) := fold_left (fun (st2 : (bool * bool)%type) v_ballot => let '(stop2, v_one_agent_sat) := st2 in 
    if stop2 then st2 else let v_sat := (v_sat_class v_instance v_profile v_ballot) in
  let v_surplus := 0 in
  let v_surplus := (v_up_to_func (map (fun v_p => (v_sat [v_p])) (filter (fun v_p => (negb (py_in_list v_budget_allocation v_p))) (snd it1)))) in
  (if (py_ge ((v_sat v_budget_allocation) + v_surplus) v_threshold)
  then let v_one_agent_sat := true in
  (true, v_one_agent_sat)
  else (stop2, v_one_agent_sat))) (fst it1) (false, v_one_agent_sat) in
  (if (negb v_one_agent_sat)
  then (Some (false))
  else ret1)) end) (gen_cohesive_groups_cardinal v_instance v_profile) (@None bool) in
  match ret1 with Some r1 => r1 | None => true end).
Global Hint Unfold gen_is_EJR_cardinal_upto : pygen.
(* no ZeroDivisionError: every frac(a, b) on the executed path has b != 0 *)
Definition gen_is_EJR_cardinal_upto_safe (v_instance : py_inst) (v_profile : (list py_ballot)) (v_budget_allocation : (list py_proj)) (v_sat_class : py_satclass_l) (v_up_to_func : ((list Q) -> Q)) : bool :=
  (if (gen_cohesive_groups_cardinal_safe  v_instance v_profile) then (let '(ok1, ret1) := fold_left (fun (st1 : (bool * (option bool))%type) it1 => let '(ok1, ret1) := st1 in 
    if ok1 then match ret1 with Some _ => st1 | None => let v_one_agent_sat := false in
  (if (forallb (fun v_p => (negb (py_is_empty (map (fun v_b => (py_ballot_getitem v_b v_p)) (fst it1))))) (snd it1)) then let v_threshold := (py_sum (map (fun v_p => (py_min_list (map (fun v_b => (py_ballot_getitem v_b v_p)) (fst it1)) 0)) (snd it1))) in
  (let '(stop2, v_one_agent_sat) := fold_left (fun (st2 : (bool * bool)%type) v_ballot => let '(stop2, v_one_agent_sat) := st2 in 
    if stop2 then st2 else let v_sat := (v_sat_class v_instance v_profile v_ballot) in
  let v_surplus := 0 in
  let v_surplus := (v_up_to_func (map (fun v_p => (v_sat [v_p])) (filter (fun v_p => (negb (py_in_list v_budget_allocation v_p))) (snd it1)))) in
  (if (py_ge ((v_sat v_budget_allocation) + v_surplus) v_threshold)
  then let v_one_agent_sat := true in
  (true, v_one_agent_sat)
  else (stop2, v_one_agent_sat))) (fst it1) (false, v_one_agent_sat) in
  (if (negb v_one_agent_sat)
  then (ok1, (Some (true)))
  else (ok1, ret1))) else (false, ret1)) end else st1) (gen_cohesive_groups_cardinal v_instance v_profile) (true, (@None bool)) in
  (if ok1 then match ret1 with Some r1 => r1 | None => true end else false)) else false).
Global Hint Unfold gen_is_EJR_cardinal_upto_safe : pygen.

(* pabutools/analysis/justifiedrepresentation.py:267 is_EJR_any_cardinal
def is_EJR_any_cardinal(instance: Instance, profile: AbstractCardinalProfile, budget_allocation: Collection[Project]) -> bool:
    return is_EJR_cardinal(instance, profile, budget_allocation, up_to_func=lambda x: min(x, default=0)) *)
Definition gen_is_EJR_any_cardinal (cls_Additive_Cardinal_Sat : py_satclass_l) (v_instance : py_inst) (v_profile : (list py_ballot)) (v_budget_allocation : (list py_proj)) : bool :=
  (gen_is_EJR_cardinal_upto v_instance v_profile v_budget_allocation cls_Additive_Cardinal_Sat (fun x1_0 => (py_min_list x1_0 0))).
Global Hint Unfold gen_is_EJR_any_cardinal : pygen.
(* the satisfaction classes the function names (its cls_ parameters, in that order) *)
Definition gen_is_EJR_any_cardinal_classes : list string := ["Additive_Cardinal_Sat"%string].
(* no ZeroDivisionError: every frac(a, b) on the executed path has b != 0 *)
Definition gen_is_EJR_any_cardinal_safe (cls_Additive_Cardinal_Sat : py_satclass_l) (v_instance : py_inst) (v_profile : (list py_ballot)) (v_budget_allocation : (list py_proj)) : bool :=
  (gen_is_EJR_cardinal_upto_safe  v_instance v_profile v_budget_allocation cls_Additive_Cardinal_Sat (fun x1_0 => (py_min_list x1_0 0))).
Global Hint Unfold gen_is_EJR_any_cardinal_safe : pygen.

(* pabutools/analysis/justifiedrepresentation.py:281 is_EJR_one_cardinal
def is_EJR_one_cardinal(instance: Instance, profile: AbstractCardinalProfile, budget_allocation: Collection[Project]) -> bool:
    return is_EJR_cardinal(instance, profile, budget_allocation, up_to_func=lambda x: max(x, default=0)) *)
Definition gen_is_EJR_one_cardinal (cls_Additive_Cardinal_Sat : py_satclass_l) (v_instance : py_inst) (v_profile : (list py_ballot)) (v_budget_allocation : (list py_proj)) : bool :=
  (gen_is_EJR_cardinal_upto v_instance v_profile v_budget_allocation cls_Additive_Cardinal_Sat (fun x1_0 => (py_max_list x1_0 0))).
Global Hint Unfold gen_is_EJR_one_cardinal : pygen.
(* the satisfaction classes the function names (its cls_ parameters, in that order) *)
Definition gen_is_EJR_one_cardinal_classes : list string := ["Additive_Cardinal_Sat"%string].
(* no ZeroDivisionError: every frac(a, b) on the executed path has b != 0 *)
Definition gen_is_EJR_one_cardinal_safe (cls_Additive_Cardinal_Sat : py_satclass_l) (v_instance : py_inst) (v_profile : (list py_ballot)) (v_budget_allocation : (list py_proj)) : bool :=
  (gen_is_EJR_cardinal_upto_safe  v_instance v_profile v_budget_allocation cls_Additive_Cardinal_Sat (fun x1_0 => (py_max_list x1_0 0))).
Global Hint Unfold gen_is_EJR_one_cardinal_safe : pygen.

(* pabutools/analysis/justifiedrepresentation.py:295 is_PJR_cardinal
def is_PJR_cardinal(instance: Instance, profile: AbstractCardinalProfile, budget_allocation: Iterable[Project], up_to_func: Callable[[Iterable[Numeric]], Numeric] | None=None) -> bool:
    for group, project_set in cohesive_groups(instance, profile):
        threshold = sum((min((b[p] for b in group)) for p in project_set))
        group_sat = sum((max((b[p] for b in group)) for p in budget_allocation))
        surplus = 0
        if up_to_func is not None:
            surplus = up_to_func((max((b[p] for b in group)) for p in project_set if p not in budget_allocation))
        if group_sat + surplus < threshold:
            return False
    return True *)
Definition gen_is_PJR_cardinal (v_instance : py_inst) (v_profile : (list py_ballot)) (v_budget_allocation : (list py_proj)) : bool :=
  (let ret1 := fold_left (fun (ret1 : (option bool)) it1 => 
    match ret1 with Some _ => ret1 | None => let v_threshold := (py_sum (map (fun v_p => (py_min_list (map (fun v_b => (py_ballot_getitem v_b v_p)) (fst it1)) 0)) (snd it1))) in
  let v_group_sat := (py_sum (map (fun v_p => (py_max_list (map (fun v_b => (py_ballot_getitem v_b v_p)) (fst it1)) 0)) v_budget_allocation)) in
  let v_surplus := 0 in
  (if (py_lt (v_group_sat + v_surplus) v_threshold)
  then (Some (false))
  else ret1) end) (gen_cohesive_groups_cardinal v_instance v_profile) (@None bool) in
  match ret1 with Some r1 => r1 | None => true end).
Global Hint Unfold gen_is_PJR_cardinal : pygen.
(* no ZeroDivisionError: every frac(a, b) on the executed path has b != 0 *)
Definition gen_is_PJR_cardinal_safe (v_instance : py_inst) (v_profile : (list py_ballot)) (v_budget_allocation : (list py_proj)) : bool :=
  (if (gen_cohesive_groups_cardinal_safe  v_instance v_profile) then (let '(ok1, ret1) := fold_left (fun (st1 : (bool * (option bool))%type) it1 => let '(ok1, ret1) := st1 in 
    if ok1 then match ret1 with Some _ => st1 | None => (if (forallb (fun v_p => (negb (py_is_empty (map (fun v_b => (py_ballot_getitem v_b v_p)) (fst it1))))) (snd it1)) then let v_threshold := (py_sum (map (fun v_p => (py_min_list (map (fun v_b => (py_ballot_getitem v_b v_p)) (fst it1)) 0)) (snd it1))) in
  (if (forallb (fun v_p => (negb (py_is_empty (map (fun v_b => (py_ballot_getitem v_b v_p)) (fst it1))))) v_budget_allocation) then let v_group_sat := (py_sum (map (fun v_p => (py_max_list (map (fun v_b => (py_ballot_getitem v_b v_p)) (fst it1)) 0)) v_budget_allocation)) in
  let v_surplus := 0 in
  (if (py_lt (v_group_sat + v_surplus) v_threshold)
  then (ok1, (Some (true)))
  else (ok1, ret1)) else (false, ret1)) else (false, ret1)) end else st1) (gen_cohesive_groups_cardinal v_instance v_profile) (true, (@None bool)) in
  (if ok1 then match ret1 with Some r1 => r1 | None => true end else false)) else false).
Global Hint Unfold gen_is_PJR_cardinal_safe : pygen.

(* pabutools/analysis/justifiedrepresentation.py:295 is_PJR_cardinal
def is_PJR_cardinal(instance: Instance, profile: AbstractCardinalProfile, budget_allocation: Iterable[Project], up_to_func: Callable[[Iterable[Numeric]], Numeric] | None=None) -> bool:
    for group, project_set in cohesive_groups(instance, profile):
        threshold = sum((min((b[p] for b in group)) for p in project_set))
        group_sat = sum((max((b[p] for b in group)) for p in budget_allocation))
        surplus = 0
        if up_to_func is not None:
            surplus = up_to_func((max((b[p] for b in group)) for p in project_set if p not in budget_allocation))
        if group_sat + surplus < threshold:
            return False
    return True *)
Definition gen_is_PJR_cardinal_upto (v_instance : py_inst) (v_profile : (list py_ballot)) (v_budget_allocation : (list py_proj)) (v_up_to_func : ((list Q) -> Q)) : bool :=
  (let ret1 := fold_left (fun (ret1 : (option bool)) it1 => 
    match ret1 with Some _ => ret1 | None => let v_threshold := (py_sum (map (fun v_p => (py_min_list (map (fun v_b => (py_ballot_getitem v_b v_p)) (fst it1)) 0)) (snd it1))) in
  let v_group_sat := (py_sum (map (fun v_p => (py_max_list (map (fun v_b => (py_ballot_getitem v_b v_p)) (fst it1)) 0)) v_budget_allocation)) in
  let v_surplus := 0 in
  let v_surplus := (v_up_to_func (map (fun v_p => (py_max_list (map (fun v_b => (py_ballot_getitem v_b v_p)) (fst it1)) 0)) (filter (fun v_p => (negb (py_in_list v_budget_allocation v_p))) (snd it1)))) in
  (if (py_lt (v_group_sat + v_surplus) v_threshold)
  then (Some (false))
  else ret1) end) (gen_cohesive_groups_cardinal v_instance v_profile) (@None bool) in
  match ret1 with Some r1 => r1 | None => true end).
Global Hint Unfold gen_is_PJR_cardinal_upto : pygen.
(* no ZeroDivisionError: every frac(a, b) on the executed path has b != 0 *)
Definition gen_is_PJR_cardinal_upto_safe (v_instance : py_inst) (v_profile : (list py_ballot)) (v_budget_allocation : (list py_proj)) (v_up_to_func : ((list Q) -> Q)) : bool :=
  (if (gen_cohesive_groups_cardinal_safe  v_instance v_profile) then (let '(ok1, ret1) := fold_left (fun (st1 : (bool * (option bool))%type) it1 => let '(ok1, ret1) := st1 in 
    if ok1 then match ret1 with Some _ => st1 | None => (if (forallb (fun v_p => (negb (py_is_empty (map (fun v_b => (py_ballot_getitem v_b v_p)) (fst it1))))) (snd it1)) then let v_threshold := (py_sum (map (fun v_p => (py_min_list (map (fun v_b => (py_ballot_getitem v_b v_p)) (fst it1)) 0)) (snd it1))) in
  (if (forallb (fun v_p => (negb (py_is_empty (map (fun v_b => (py_ballot_getitem v_b v_p)) (fst it1))))) v_budget_allocation) then let v_group_sat := (py_sum (map (fun v_p => (py_max_list (map (fun v_b => (py_ballot_getitem v_b v_p)) (fst it1)) 0)) v_budget_allocation)) in
  let v_surplus := 0 in
  (if (forallb (fun v_p => (negb (py_is_empty (map (fun v_b => (py_ballot_getitem v_b v_p)) (fst it1))))) (filter (fun v_p => (negb (py_in_list v_budget_allocation v_p))) (snd it1))) then let v_surplus := (v_up_to_func (map (fun v_p => (py_max_list (map (fun v_b => (py_ballot_getitem v_b v_p)) (fst it1)) 0)) (filter (fun v_p => (negb (py_in_list v_budget_allocation v_p))) (snd it1)))) in
  (if (py_lt (v_group_sat + v_surplus) v_threshold)
  then (ok1, (Some (true)))
  else (ok1, ret1)) else (false, ret1)) else (false, ret1)) else (false, ret1)) end else st1) (gen_cohesive_groups_cardinal v_instance v_profile) (true, (@None bool)) in
  (if ok1 then match ret1 with Some r1 => r1 | None => true end else false)) else false).
Global Hint Unfold gen_is_PJR_cardinal_upto_safe : pygen.

(* pabutools/analysis/justifiedrepresentation.py:320 is_PJR_any_cardinal
def is_PJR_any_cardinal(instance: Instance, profile: AbstractCardinalProfile, budget_allocation: Iterable[Project]) -> bool:
    return is_PJR_cardinal(instance, profile, budget_allocation, up_to_func=lambda x: min(x, default=0)) *)
Definition gen_is_PJR_any_cardinal (v_instance : py_inst) (v_profile : (list py_ballot)) (v_budget_allocation : (list py_proj)) : bool :=
  (gen_is_PJR_cardinal_upto v_instance v_profile v_budget_allocation (fun x1_0 => (py_min_list x1_0 0))).
Global Hint Unfold gen_is_PJR_any_cardinal : pygen.
(* no ZeroDivisionError: every frac(a, b) on the executed path has b != 0 *)
Definition gen_is_PJR_any_cardinal_safe (v_instance : py_inst) (v_profile : (list py_ballot)) (v_budget_allocation : (list py_proj)) : bool :=
  (gen_is_PJR_cardinal_upto_safe  v_instance v_profile v_budget_allocation (fun x1_0 => (py_min_list x1_0 0))).
Global Hint Unfold gen_is_PJR_any_cardinal_safe : pygen.

(* pabutools/analysis/justifiedrepresentation.py:334 is_PJR_one_cardinal
def is_PJR_one_cardinal(instance: Instance, profile: AbstractCardinalProfile, budget_allocation: Iterable[Project]) -> bool:
    return is_PJR_cardinal(instance, profile, budget_allocation, up_to_func=lambda x: max(x, default=0)) *)
Definition gen_is_PJR_one_cardinal (v_instance : py_inst) (v_profile : (list py_ballot)) (v_budget_allocation : (list py_proj)) : bool :=
  (gen_is_PJR_cardinal_upto v_instance v_profile v_budget_allocation (fun x1_0 => (py_max_list x1_0 0))).
Global Hint Unfold gen_is_PJR_one_cardinal : pygen.
(* no ZeroDivisionError: every frac(a, b) on the executed path has b != 0 *)
Definition gen_is_PJR_one_cardinal_safe (v_instance : py_inst) (v_profile : (list py_ballot)) (v_budget_allocation : (list py_proj)) : bool :=
  (gen_is_PJR_cardinal_upto_safe  v_instance v_profile v_budget_allocation (fun x1_0 => (py_max_list x1_0 0))).
Global Hint Unfold gen_is_PJR_one_cardinal_safe : pygen.

(* pabutools/election/satisfaction/additivesatisfaction.py:82 AdditiveSatisfaction.preprocessing
def preprocessing(self, instance: Instance, profile: AbstractProfile, ballot: AbstractBallot) -> dict:
    return {} *)
Definition gen_AdditiveSatisfaction_preprocessing (v_instance : py_inst) (v_profile : py_profile) (v_ballot : py_ballot) : py_dict :=
  (py_dict_of []).
Global Hint Unfold gen_AdditiveSatisfaction_preprocessing : pygen.

(* pabutools/election/satisfaction/additivesatisfaction.py:257 Relative_Cardinality_Sat.preprocessing
def preprocessing(self, instance: Instance, profile: AbstractProfile, ballot: AbstractBallot):
    return {'max_budget_allocation_card': max_budget_allocation_cardinality(ballot, instance.budget_limit)} *)
Definition gen_Relative_Cardinality_Sat_preprocessing (v_instance : py_inst) (v_profile : py_profile) (v_ballot : py_ballot) : py_dict :=
  (py_dict_of [("max_budget_allocation_card"%string, (py_max_budget_allocation_cardinality v_instance (py_ballot_iter v_ballot) (py_budget_limit v_instance)))]).
Global Hint Unfold gen_Relative_Cardinality_Sat_preprocessing : pygen.

(* pabutools/election/satisfaction/additivesatisfaction.py:381 Relative_Cost_Sat.preprocessing
def preprocessing(self, instance: Instance, profile: AbstractProfile, ballot: AbstractBallot):
    return {'max_budget_allocation_cost': max_budget_allocation_cost(ballot, instance.budget_limit)} *)
Definition gen_Relative_Cost_Sat_preprocessing (orc : py_oracle) (v_instance : py_inst) (v_profile : py_profile) (v_ballot : py_ballot) : py_dict :=
  (py_dict_of [("max_budget_allocation_cost"%string, (py_max_budget_allocation_cost orc v_instance (py_ballot_iter v_ballot) (py_budget_limit v_instance)))]).
Global Hint Unfold gen_Relative_Cost_Sat_preprocessing : pygen.

(* pabutools/election/satisfaction/additivesatisfaction.py:450 Relative_Cost_Approx_Normaliser_Sat.preprocessing
def preprocessing(self, instance: Instance, profile: AbstractProfile, ballot: AbstractBallot):
    return {'normalizer': min(total_cost([p for p in ballot]), instance.budget_limit)} *)
Definition gen_Relative_Cost_Approx_Normaliser_Sat_preprocessing (v_instance : py_inst) (v_profile : py_profile) (v_ballot : py_ballot) : py_dict :=
  (py_dict_of [("normalizer"%string, (py_min2 (py_total_cost v_instance (py_ballot_iter v_ballot)) (py_budget_limit v_instance)))]).
Global Hint Unfold gen_Relative_Cost_Approx_Normaliser_Sat_preprocessing : pygen.

(* pabutools/election/satisfaction/additivesatisfaction.py:774 Additive_Cardinal_Relative_Sat.preprocessing
def preprocessing(self, instance: Instance, profile: AbstractProfile, ballot: AbstractCardinalBallot):
    res = 0
    mip_model = Model()
    mip_model.verbose = 0
    p_vars = {p: mip_model.add_var(var_type=BINARY, name='x_{}'.format(p)) for p in instance}
    if p_vars:
        mip_model.objective = maximize(xsum((p_vars[p] * ballot.get(p, 0) for p in instance)))
        mip_model += xsum((p_vars[p] * p.cost for p in instance)) <= instance.budget_limit
        mip_model.optimize()
        res = sum((ballot.get(p, 0) for p in p_vars if p_vars[p].x >= 0.99))
    return {'max_budget_allocation_score': frac(res)}
-- body outside the fragment (call of Model outside the fragment): only the keys of the returned dictionary are translated, the values are the opaque parameters *)
Definition gen_Additive_Cardinal_Relative_Sat_preprocessing (opaque0 : Q) (v_instance : py_inst) (v_profile : py_profile) (v_ballot : py_ballot) : py_dict :=
  (py_dict_of [("max_budget_allocation_score"%string, opaque0)]).
Global Hint Unfold gen_Additive_Cardinal_Relative_Sat_preprocessing : pygen.

(* pabutools/election/satisfaction/additivesatisfaction.py:105 AdditiveSatisfaction.get_project_sat
def get_project_sat(self, project: Project) -> Numeric:
    score = self.scores.get(project, None)
    if score is None:
        score = self.func(self.instance, self.profile, self.ballot, project, self.precomputed_values)
        self.scores[project] = score
    return score *)
Definition gen_AdditiveSatisfaction_get_project_sat (self_ballot : py_ballot) (self_func : (py_inst -> py_profile -> py_ballot -> py_proj -> py_dict -> Q)) (self_instance : py_inst) (self_precomputed_values : py_dict) (self_profile : py_profile) (v_project : py_proj) : Q :=
  let v_score := (self_func self_instance self_profile self_ballot v_project self_precomputed_values) in
  v_score.
Global Hint Unfold gen_AdditiveSatisfaction_get_project_sat : pygen.

(* pabutools/election/satisfaction/additivesatisfaction.py:133 AdditiveSatisfaction.sat
def sat(self, proj: Collection[Project]) -> Numeric:
    return sum((self.get_project_sat(p) for p in proj)) *)
Definition gen_AdditiveSatisfaction_sat (self_ballot : py_ballot) (self_func : (py_inst -> py_profile -> py_ballot -> py_proj -> py_dict -> Q)) (self_instance : py_inst) (self_precomputed_values : py_dict) (self_profile : py_profile) (v_proj : (list py_proj)) : Q :=
  (py_sum (map (fun v_p => (gen_AdditiveSatisfaction_get_project_sat self_ballot self_func self_instance self_precomputed_values self_profile v_p)) v_proj)).
Global Hint Unfold gen_AdditiveSatisfaction_sat : pygen.

(* pabutools/election/satisfaction/additivesatisfaction.py:136 AdditiveSatisfaction.sat_project
def sat_project(self, project: Project) -> Numeric:
    return self.get_project_sat(project) *)
Definition gen_AdditiveSatisfaction_sat_project (self_ballot : py_ballot) (self_func : (py_inst -> py_profile -> py_ballot -> py_proj -> py_dict -> Q)) (self_instance : py_inst) (self_precomputed_values : py_dict) (self_profile : py_profile) (v_project : py_proj) : Q :=
  (gen_AdditiveSatisfaction_get_project_sat self_ballot self_func self_instance self_precomputed_values self_profile v_project).
Global Hint Unfold gen_AdditiveSatisfaction_sat_project : pygen.

(* pabutools/election/satisfaction/functionalsatisfaction.py:73 FunctionalSatisfaction.sat
def sat(self, projects: Collection[Project]) -> Numeric:
    return self.func(self.instance, self.profile, self.ballot, projects) *)
Definition gen_FunctionalSatisfaction_sat (self_ballot : py_ballot) (self_func : (py_inst -> py_profile -> py_ballot -> (list py_proj) -> Q)) (self_instance : py_inst) (self_profile : py_profile) (v_projects : (list py_proj)) : Q :=
  (self_func self_instance self_profile self_ballot v_projects).
Global Hint Unfold gen_FunctionalSatisfaction_sat : pygen.

(* pabutools/election/satisfaction/functionalsatisfaction.py:76 FunctionalSatisfaction.sat_project
def sat_project(self, project: Project) -> Numeric:
    return self.sat([project]) *)
Definition gen_FunctionalSatisfaction_sat_project (self_ballot : py_ballot) (self_func : (py_inst -> py_profile -> py_ballot -> (list py_proj) -> Q)) (self_instance : py_inst) (self_profile : py_profile) (v_project : py_proj) : Q :=
  (gen_FunctionalSatisfaction_sat self_ballot self_func self_instance self_profile [v_project]).
Global Hint Unfold gen_FunctionalSatisfaction_sat_project : pygen.

(* pabutools/election/satisfaction/positionalsatisfaction.py:68 PositionalSatisfaction.sat
def sat(self, projects: Collection[Project]):
    scores = [self.positional_func(self.ballot, project) for project in projects]
    return self.aggregation_func(scores) *)
Definition gen_PositionalSatisfaction_sat (self_aggregation_func : ((list Q) -> Q)) (self_ballot : py_ballot) (self_instance : py_inst) (self_positional_func : (py_ballot -> py_proj -> Q)) (self_profile : py_profile) (v_projects : (list py_proj)) : Q :=
  let v_scores := (map (fun v_project => (self_positional_func self_ballot v_project)) v_projects) in
  (self_aggregation_func v_scores).
Global Hint Unfold gen_PositionalSatisfaction_sat : pygen.

(* pabutools/election/satisfaction/positionalsatisfaction.py:72 PositionalSatisfaction.sat_project
def sat_project(self, project: Project) -> Numeric:
    return self.sat([project]) *)
Definition gen_PositionalSatisfaction_sat_project (self_aggregation_func : ((list Q) -> Q)) (self_ballot : py_ballot) (self_instance : py_inst) (self_positional_func : (py_ballot -> py_proj -> Q)) (self_profile : py_profile) (v_project : py_proj) : Q :=
  (gen_PositionalSatisfaction_sat self_aggregation_func self_ballot self_instance self_positional_func self_profile [v_project]).
Global Hint Unfold gen_PositionalSatisfaction_sat_project : pygen.

(* pabutools/tiebreaking.py:35 TieBreakingRule.order
def order(self, instance: Instance, profile: AbstractProfile, projects: Collection[Project], key: Callable[..., Project] | None=None) -> list[Project]:

    def default_key(p):
        return p
    if key is None:
        key = default_key
    return sorted(projects, key=lambda project: self.func(instance, profile, key(project))) *)
Definition gen_TieBreakingRule_order (self_func : (py_inst -> py_aprofile -> py_proj -> Q)) (v_instance : py_inst) (v_profile : py_aprofile) (v_projects : (list py_proj)) : (list py_proj) :=
  (py_sorted_by_key (fun x1_0 => (self_func v_instance v_profile x1_0)) v_projects).
Global Hint Unfold gen_TieBreakingRule_order : pygen.

(* pabutools/tiebreaking.py:35 TieBreakingRule.order
def order(self, instance: Instance, profile: AbstractProfile, projects: Collection[Project], key: Callable[..., Project] | None=None) -> list[Project]:

    def default_key(p):
        return p
    if key is None:
        key = default_key
    return sorted(projects, key=lambda project: self.func(instance, profile, key(project))) *)
Definition gen_TieBreakingRule_order_key (self_func : (py_inst -> py_aprofile -> py_proj -> Q)) (v_instance : py_inst) (v_profile : py_aprofile) (v_projects : (list py_proj)) (v_key : (py_proj -> py_proj)) : (list py_proj) :=
  (py_sorted_by_key (fun x1_0 => (self_func v_instance v_profile (v_key x1_0))) v_projects).
Global Hint Unfold gen_TieBreakingRule_order_key : pygen.

(* pabutools/tiebreaking.py:73 TieBreakingRule.untie
def untie(self, instance: Instance, profile: AbstractProfile, projects: Collection[Project], key: Callable[..., Project] | None=None) -> Project:

    def default_key(p):
        return p
    if key is None:
        key = default_key
    return self.order(instance, profile, projects, key)[0] *)
Definition gen_TieBreakingRule_untie (self_func : (py_inst -> py_aprofile -> py_proj -> Q)) (v_instance : py_inst) (v_profile : py_aprofile) (v_projects : (list py_proj)) : (option py_proj) :=
  (py_index (gen_TieBreakingRule_order_key self_func v_instance v_profile v_projects (fun x1_0 => x1_0)) 0%nat).
Global Hint Unfold gen_TieBreakingRule_untie : pygen.

(* pabutools/tiebreaking.py:73 TieBreakingRule.untie
def untie(self, instance: Instance, profile: AbstractProfile, projects: Collection[Project], key: Callable[..., Project] | None=None) -> Project:

    def default_key(p):
        return p
    if key is None:
        key = default_key
    return self.order(instance, profile, projects, key)[0] *)
Definition gen_TieBreakingRule_untie_key (self_func : (py_inst -> py_aprofile -> py_proj -> Q)) (v_instance : py_inst) (v_profile : py_aprofile) (v_projects : (list py_proj)) (v_key : (py_proj -> py_proj)) : (option py_proj) :=
  (py_index (gen_TieBreakingRule_order_key self_func v_instance v_profile v_projects v_key) 0%nat).
Global Hint Unfold gen_TieBreakingRule_untie_key : pygen.

(* pabutools/election/instance.py:396 Instance.is_feasible
def is_feasible(self, projects: Collection[Project]) -> bool:
    return total_cost(projects) <= self.budget_limit *)
Definition gen_Instance_is_feasible (v_self : py_inst) (v_projects : (list py_proj)) : bool :=
  (py_le (py_total_cost v_self v_projects) (py_budget_limit v_self)).
Global Hint Unfold gen_Instance_is_feasible : pygen.
(* no ZeroDivisionError: every frac(a, b) on the executed path has b != 0 *)
Definition gen_Instance_is_feasible_safe (v_self : py_inst) (v_projects : (list py_proj)) : bool :=
  true.
Global Hint Unfold gen_Instance_is_feasible_safe : pygen.

(* pabutools/election/instance.py:412 Instance.is_exhaustive
def is_exhaustive(self, projects: Collection[Project], available_projects: Collection[Project] | None=None) -> bool:
    if available_projects is None:
        available_projects = self
    cost = total_cost(projects)
    for p in available_projects:
        if p not in projects and p.cost + cost <= self.budget_limit:
            return False
    return True *)
Definition gen_Instance_is_exhaustive (v_self : py_inst) (v_projects : (list py_proj)) : bool :=
  let v_available_projects := v_self in
  let v_cost := (py_total_cost v_self v_projects) in
  (let ret1 := fold_left (fun (ret1 : (option bool)) v_p => 
    match ret1 with Some _ => ret1 | None => (if ((negb (py_in_list v_projects v_p)) && (py_le ((py_cost v_self v_p) + v_cost) (py_budget_limit v_self)))
  then (Some (false))
  else ret1) end) (py_instance_iter v_available_projects) (@None bool) in
  match ret1 with Some r1 => r1 | None => true end).
Global Hint Unfold gen_Instance_is_exhaustive : pygen.
(* no ZeroDivisionError: every frac(a, b) on the executed path has b != 0 *)
Definition gen_Instance_is_exhaustive_safe (v_self : py_inst) (v_projects : (list py_proj)) : bool :=
  true.
Global Hint Unfold gen_Instance_is_exhaustive_safe : pygen.

(* pabutools/election/instance.py:412 Instance.is_exhaustive
def is_exhaustive(self, projects: Collection[Project], available_projects: Collection[Project] | None=None) -> bool:
    if available_projects is None:
        available_projects = self
    cost = total_cost(projects)
    for p in available_projects:
        if p not in projects and p.cost + cost <= self.budget_limit:
            return False
    return True *)
Definition gen_Instance_is_exhaustive_avail (v_self : py_inst) (v_projects : (list py_proj)) (v_available_projects : (list py_proj)) : bool :=
  let v_cost := (py_total_cost v_self v_projects) in
  (let ret1 := fold_left (fun (ret1 : (option bool)) v_p => 
    match ret1 with Some _ => ret1 | None => (if ((negb (py_in_list v_projects v_p)) && (py_le ((py_cost v_self v_p) + v_cost) (py_budget_limit v_self)))
  then (Some (false))
  else ret1) end) v_available_projects (@None bool) in
  match ret1 with Some r1 => r1 | None => true end).
Global Hint Unfold gen_Instance_is_exhaustive_avail : pygen.
(* no ZeroDivisionError: every frac(a, b) on the executed path has b != 0 *)
Definition gen_Instance_is_exhaustive_avail_safe (v_self : py_inst) (v_projects : (list py_proj)) (v_available_projects : (list py_proj)) : bool :=
  true.
Global Hint Unfold gen_Instance_is_exhaustive_avail_safe : pygen.

(* pabutools/election/instance.py:382 Instance.is_trivial
def is_trivial(self) -> bool:
    return total_cost(self) <= self.budget_limit or self.budget_limit < min((p.cost for p in self)) *)
Definition gen_Instance_is_trivial (v_self : py_inst) : bool :=
  ((py_le (py_total_cost v_self (py_instance_iter v_self)) (py_budget_limit v_self)) || (py_lt (py_budget_limit v_self) (py_min_list (map (fun v_p => (py_cost v_self v_p)) (py_instance_iter v_self)) 0))).
Global Hint Unfold gen_Instance_is_trivial : pygen.
(* no ZeroDivisionError: every frac(a, b) on the executed path has b != 0 *)
Definition gen_Instance_is_trivial_safe (v_self : py_inst) : bool :=
  (negb ((negb ((py_le (py_total_cost v_self (py_instance_iter v_self)) (py_budget_limit v_self))))) || (negb (py_is_empty (map (fun v_p => (py_cost v_self v_p)) (py_instance_iter v_self))))).
Global Hint Unfold gen_Instance_is_trivial_safe : pygen.

(* pabutools/election/instance.py:368 Instance.budget_allocations
def budget_allocations(self) -> Generator[Collection[Project]]:
    for b in powerset(self):
        if self.is_feasible(b):
            yield b *)
Definition gen_Instance_budget_allocations (v_self : py_inst) : (list (list py_proj)) :=
  let yielded := (@nil (list py_proj)) in
  (let yielded := fold_left (fun (yielded : (list (list py_proj))) v_b => 
    let yielded := (if (gen_Instance_is_feasible v_self v_b)
  then let yielded := (yielded ++ [v_b]) in
  yielded
  else yielded) in
  yielded) (gen_powerset (py_instance_iter v_self)) yielded in
  yielded).
Global Hint Unfold gen_Instance_budget_allocations : pygen.
(* no ZeroDivisionError: every frac(a, b) on the executed path has b != 0 *)
Definition gen_Instance_budget_allocations_safe (v_self : py_inst) : bool :=
  true.
Global Hint Unfold gen_Instance_budget_allocations_safe : pygen.

(* pabutools/election/satisfaction/additivesatisfaction.py:187 Cardinality_Sat.__init__: Cardinality_Sat(instance, profile, ballot).sat -- AdditiveSatisfaction.__init__ chain executed symbolically *)
Definition gen_Cardinality_Sat_sat (v_instance : py_inst) (v_profile : py_profile) (v_ballot : py_ballot) (v_projects : (list py_proj)) : Q :=
  gen_AdditiveSatisfaction_sat v_ballot gen_cardinality_sat_func v_instance (gen_AdditiveSatisfaction_preprocessing v_instance v_profile v_ballot) v_profile v_projects.
Global Hint Unfold gen_Cardinality_Sat_sat : pygen.

(* pabutools/election/satisfaction/additivesatisfaction.py:187 Cardinality_Sat.__init__: Cardinality_Sat(instance, profile, ballot).sat_project -- AdditiveSatisfaction.__init__ chain executed symbolically *)
Definition gen_Cardinality_Sat_sat_project (v_instance : py_inst) (v_profile : py_profile) (v_ballot : py_ballot) (v_project : py_proj) : Q :=
  gen_AdditiveSatisfaction_sat_project v_ballot gen_cardinality_sat_func v_instance (gen_AdditiveSatisfaction_preprocessing v_instance v_profile v_ballot) v_profile v_project.
Global Hint Unfold gen_Cardinality_Sat_sat_project : pygen.

(* pabutools/election/satisfaction/additivesatisfaction.py:250 Relative_Cardinality_Sat.__init__: Relative_Cardinality_Sat(instance, profile, ballot).sat -- AdditiveSatisfaction.__init__ chain executed symbolically *)
Definition gen_Relative_Cardinality_Sat_sat (v_instance : py_inst) (v_profile : py_profile) (v_ballot : py_ballot) (v_projects : (list py_proj)) : Q :=
  gen_AdditiveSatisfaction_sat v_ballot gen_relative_cardinality_sat_func v_instance (gen_Relative_Cardinality_Sat_preprocessing v_instance v_profile v_ballot) v_profile v_projects.
Global Hint Unfold gen_Relative_Cardinality_Sat_sat : pygen.

(* pabutools/election/satisfaction/additivesatisfaction.py:250 Relative_Cardinality_Sat.__init__: Relative_Cardinality_Sat(instance, profile, ballot).sat_project -- AdditiveSatisfaction.__init__ chain executed symbolically *)
Definition gen_Relative_Cardinality_Sat_sat_project (v_instance : py_inst) (v_profile : py_profile) (v_ballot : py_ballot) (v_project : py_proj) : Q :=
  gen_AdditiveSatisfaction_sat_project v_ballot gen_relative_cardinality_sat_func v_instance (gen_Relative_Cardinality_Sat_preprocessing v_instance v_profile v_ballot) v_profile v_project.
Global Hint Unfold gen_Relative_Cardinality_Sat_sat_project : pygen.

(* pabutools/election/satisfaction/additivesatisfaction.py:314 Cost_Sat.__init__: Cost_Sat(instance, profile, ballot).sat -- AdditiveSatisfaction.__init__ chain executed symbolically *)
Definition gen_Cost_Sat_sat (v_instance : py_inst) (v_profile : py_profile) (v_ballot : py_ballot) (v_projects : (list py_proj)) : Q :=
  gen_AdditiveSatisfaction_sat v_ballot gen_cost_sat_func v_instance (gen_AdditiveSatisfaction_preprocessing v_instance v_profile v_ballot) v_profile v_projects.
Global Hint Unfold gen_Cost_Sat_sat : pygen.

(* pabutools/election/satisfaction/additivesatisfaction.py:314 Cost_Sat.__init__: Cost_Sat(instance, profile, ballot).sat_project -- AdditiveSatisfaction.__init__ chain executed symbolically *)
Definition gen_Cost_Sat_sat_project (v_instance : py_inst) (v_profile : py_profile) (v_ballot : py_ballot) (v_project : py_proj) : Q :=
  gen_AdditiveSatisfaction_sat_project v_ballot gen_cost_sat_func v_instance (gen_AdditiveSatisfaction_preprocessing v_instance v_profile v_ballot) v_profile v_project.
Global Hint Unfold gen_Cost_Sat_sat_project : pygen.

(* pabutools/election/satisfaction/additivesatisfaction.py:374 Relative_Cost_Sat.__init__: Relative_Cost_Sat(instance, profile, ballot).sat -- AdditiveSatisfaction.__init__ chain executed symbolically *)
Definition gen_Relative_Cost_Sat_sat (orc : py_oracle) (v_instance : py_inst) (v_profile : py_profile) (v_ballot : py_ballot) (v_projects : (list py_proj)) : Q :=
  gen_AdditiveSatisfaction_sat v_ballot gen_relative_cost_sat_func v_instance ((gen_Relative_Cost_Sat_preprocessing orc) v_instance v_profile v_ballot) v_profile v_projects.
Global Hint Unfold gen_Relative_Cost_Sat_sat : pygen.

(* pabutools/election/satisfaction/additivesatisfaction.py:374 Relative_Cost_Sat.__init__: Relative_Cost_Sat(instance, profile, ballot).sat_project -- AdditiveSatisfaction.__init__ chain executed symbolically *)
Definition gen_Relative_Cost_Sat_sat_project (orc : py_oracle) (v_instance : py_inst) (v_profile : py_profile) (v_ballot : py_ballot) (v_project : py_proj) : Q :=
  gen_AdditiveSatisfaction_sat_project v_ballot gen_relative_cost_sat_func v_instance ((gen_Relative_Cost_Sat_preprocessing orc) v_instance v_profile v_ballot) v_profile v_project.
Global Hint Unfold gen_Relative_Cost_Sat_sat_project : pygen.

(* pabutools/election/satisfaction/additivesatisfaction.py:443 Relative_Cost_Approx_Normaliser_Sat.__init__: Relative_Cost_Approx_Normaliser_Sat(instance, profile, ballot).sat -- AdditiveSatisfaction.__init__ chain executed symbolically *)
Definition gen_Relative_Cost_Approx_Normaliser_Sat_sat (v_instance : py_inst) (v_profile : py_profile) (v_ballot : py_ballot) (v_projects : (list py_proj)) : Q :=
  gen_AdditiveSatisfaction_sat v_ballot gen_relative_cost_approx_normaliser_sat_func v_instance (gen_Relative_Cost_Approx_Normaliser_Sat_preprocessing v_instance v_profile v_ballot) v_profile v_projects.
Global Hint Unfold gen_Relative_Cost_Approx_Normaliser_Sat_sat : pygen.

(* pabutools/election/satisfaction/additivesatisfaction.py:443 Relative_Cost_Approx_Normaliser_Sat.__init__: Relative_Cost_Approx_Normaliser_Sat(instance, profile, ballot).sat_project -- AdditiveSatisfaction.__init__ chain executed symbolically *)
Definition gen_Relative_Cost_Approx_Normaliser_Sat_sat_project (v_instance : py_inst) (v_profile : py_profile) (v_ballot : py_ballot) (v_project : py_proj) : Q :=
  gen_AdditiveSatisfaction_sat_project v_ballot gen_relative_cost_approx_normaliser_sat_func v_instance (gen_Relative_Cost_Approx_Normaliser_Sat_preprocessing v_instance v_profile v_ballot) v_profile v_project.
Global Hint Unfold gen_Relative_Cost_Approx_Normaliser_Sat_sat_project : pygen.

(* pabutools/election/satisfaction/additivesatisfaction.py:635 Effort_Sat.__init__: Effort_Sat(instance, profile, ballot).sat -- AdditiveSatisfaction.__init__ chain executed symbolically *)
Definition gen_Effort_Sat_sat (v_instance : py_inst) (v_profile : py_profile) (v_ballot : py_ballot) (v_projects : (list py_proj)) : Q :=
  gen_AdditiveSatisfaction_sat v_ballot gen_effort_sat_func v_instance (gen_AdditiveSatisfaction_preprocessing v_instance v_profile v_ballot) v_profile v_projects.
Global Hint Unfold gen_Effort_Sat_sat : pygen.

(* pabutools/election/satisfaction/additivesatisfaction.py:635 Effort_Sat.__init__: Effort_Sat(instance, profile, ballot).sat_project -- AdditiveSatisfaction.__init__ chain executed symbolically *)
Definition gen_Effort_Sat_sat_project (v_instance : py_inst) (v_profile : py_profile) (v_ballot : py_ballot) (v_project : py_proj) : Q :=
  gen_AdditiveSatisfaction_sat_project v_ballot gen_effort_sat_func v_instance (gen_AdditiveSatisfaction_preprocessing v_instance v_profile v_ballot) v_profile v_project.
Global Hint Unfold gen_Effort_Sat_sat_project : pygen.

(* pabutools/election/satisfaction/additivesatisfaction.py:687 Additive_Cardinal_Sat.__init__: Additive_Cardinal_Sat(instance, profile, ballot).sat -- AdditiveSatisfaction.__init__ chain executed symbolically under the guard isinstance(ballot, AbstractCardinalBallot) *)
Definition gen_Additive_Cardinal_Sat_sat (v_instance : py_inst) (v_profile : py_profile) (v_ballot : py_ballot) (v_projects : (list py_proj)) : Q :=
  gen_AdditiveSatisfaction_sat v_ballot gen_additive_card_sat_func v_instance (gen_AdditiveSatisfaction_preprocessing v_instance v_profile v_ballot) v_profile v_projects.
Global Hint Unfold gen_Additive_Cardinal_Sat_sat : pygen.

(* pabutools/election/satisfaction/additivesatisfaction.py:687 Additive_Cardinal_Sat.__init__: Additive_Cardinal_Sat(instance, profile, ballot).sat_project -- AdditiveSatisfaction.__init__ chain executed symbolically under the guard isinstance(ballot, AbstractCardinalBallot) *)
Definition gen_Additive_Cardinal_Sat_sat_project (v_instance : py_inst) (v_profile : py_profile) (v_ballot : py_ballot) (v_project : py_proj) : Q :=
  gen_AdditiveSatisfaction_sat_project v_ballot gen_additive_card_sat_func v_instance (gen_AdditiveSatisfaction_preprocessing v_instance v_profile v_ballot) v_profile v_project.
Global Hint Unfold gen_Additive_Cardinal_Sat_sat_project : pygen.

(* pabutools/election/satisfaction/additivesatisfaction.py:757 Additive_Cardinal_Relative_Sat.__init__: Additive_Cardinal_Relative_Sat(instance, profile, ballot).sat -- AdditiveSatisfaction.__init__ chain executed symbolically under the guard isinstance(ballot, AbstractCardinalBallot) *)
Definition gen_Additive_Cardinal_Relative_Sat_sat (opaque0 : Q) (v_instance : py_inst) (v_profile : py_profile) (v_ballot : py_ballot) (v_projects : (list py_proj)) : Q :=
  gen_AdditiveSatisfaction_sat v_ballot gen_additive_card_relative_sat_func v_instance ((gen_Additive_Cardinal_Relative_Sat_preprocessing opaque0) v_instance v_profile v_ballot) v_profile v_projects.
Global Hint Unfold gen_Additive_Cardinal_Relative_Sat_sat : pygen.

(* pabutools/election/satisfaction/additivesatisfaction.py:757 Additive_Cardinal_Relative_Sat.__init__: Additive_Cardinal_Relative_Sat(instance, profile, ballot).sat_project -- AdditiveSatisfaction.__init__ chain executed symbolically under the guard isinstance(ballot, AbstractCardinalBallot) *)
Definition gen_Additive_Cardinal_Relative_Sat_sat_project (opaque0 : Q) (v_instance : py_inst) (v_profile : py_profile) (v_ballot : py_ballot) (v_project : py_proj) : Q :=
  gen_AdditiveSatisfaction_sat_project v_ballot gen_additive_card_relative_sat_func v_instance ((gen_Additive_Cardinal_Relative_Sat_preprocessing opaque0) v_instance v_profile v_ballot) v_profile v_project.
Global Hint Unfold gen_Additive_Cardinal_Relative_Sat_sat_project : pygen.

(* pabutools/election/satisfaction/functionalsatisfaction.py:163 CC_Sat.__init__: CC_Sat(instance, profile, ballot).sat -- FunctionalSatisfaction.__init__ chain executed symbolically under the guard isinstance(ballot, AbstractApprovalBallot) *)
Definition gen_CC_Sat_approval_sat (v_instance : py_inst) (v_profile : py_profile) (v_ballot : py_ballot) (v_projects : (list py_proj)) : Q :=
  gen_FunctionalSatisfaction_sat v_ballot gen_cc_sat_func_app v_instance v_profile v_projects.
Global Hint Unfold gen_CC_Sat_approval_sat : pygen.

(* pabutools/election/satisfaction/functionalsatisfaction.py:163 CC_Sat.__init__: CC_Sat(instance, profile, ballot).sat_project -- FunctionalSatisfaction.__init__ chain executed symbolically under the guard isinstance(ballot, AbstractApprovalBallot) *)
Definition gen_CC_Sat_approval_sat_project (v_instance : py_inst) (v_profile : py_profile) (v_ballot : py_ballot) (v_project : py_proj) : Q :=
  gen_FunctionalSatisfaction_sat_project v_ballot gen_cc_sat_func_app v_instance v_profile v_project.
Global Hint Unfold gen_CC_Sat_approval_sat_project : pygen.

(* pabutools/election/satisfaction/functionalsatisfaction.py:163 CC_Sat.__init__: CC_Sat(instance, profile, ballot).sat -- FunctionalSatisfaction.__init__ chain executed symbolically under the guard isinstance(ballot, AbstractCardinalBallot) *)
Definition gen_CC_Sat_cardinal_sat (v_instance : py_inst) (v_profile : py_profile) (v_ballot : py_ballot) (v_projects : (list py_proj)) : Q :=
  gen_FunctionalSatisfaction_sat v_ballot gen_cc_sat_func_card v_instance v_profile v_projects.
Global Hint Unfold gen_CC_Sat_cardinal_sat : pygen.

(* pabutools/election/satisfaction/functionalsatisfaction.py:163 CC_Sat.__init__: CC_Sat(instance, profile, ballot).sat_project -- FunctionalSatisfaction.__init__ chain executed symbolically under the guard isinstance(ballot, AbstractCardinalBallot) *)
Definition gen_CC_Sat_cardinal_sat_project (v_instance : py_inst) (v_profile : py_profile) (v_ballot : py_ballot) (v_project : py_proj) : Q :=
  gen_FunctionalSatisfaction_sat_project v_ballot gen_cc_sat_func_card v_instance v_profile v_project.
Global Hint Unfold gen_CC_Sat_cardinal_sat_project : pygen.

(* pabutools/election/satisfaction/positionalsatisfaction.py:114 Additive_Borda_Sat.__init__: Additive_Borda_Sat(instance, profile, ballot).sat -- PositionalSatisfaction.__init__ chain executed symbolically under the guard isinstance(ballot, AbstractOrdinalBallot) *)
Definition gen_Additive_Borda_Sat_sat (v_instance : py_inst) (v_profile : py_profile) (v_ballot : py_ballot) (v_projects : (list py_proj)) : Q :=
  gen_PositionalSatisfaction_sat py_sum v_ballot v_instance gen_borda_sat_func v_profile v_projects.
Global Hint Unfold gen_Additive_Borda_Sat_sat : pygen.

(* pabutools/election/satisfaction/positionalsatisfaction.py:114 Additive_Borda_Sat.__init__: Additive_Borda_Sat(instance, profile, ballot).sat_project -- PositionalSatisfaction.__init__ chain executed symbolically under the guard isinstance(ballot, AbstractOrdinalBallot) *)
Definition gen_Additive_Borda_Sat_sat_project (v_instance : py_inst) (v_profile : py_profile) (v_ballot : py_ballot) (v_project : py_proj) : Q :=
  gen_PositionalSatisfaction_sat_project py_sum v_ballot v_instance gen_borda_sat_func v_profile v_project.
Global Hint Unfold gen_Additive_Borda_Sat_sat_project : pygen.

(* pabutools/tiebreaking.py:110 lexico_tie_breaking
lexico_tie_breaking = TieBreakingRule(lambda inst, prof, proj: proj.name) *)
Definition gen_lexico_tie_breaking_key (v_inst : py_inst) (v_prof : py_aprofile) (v_proj : py_proj) : Q :=
  (py_name v_proj).
Global Hint Unfold gen_lexico_tie_breaking_key : pygen.
(* no ZeroDivisionError: every frac(a, b) on the executed path has b != 0 *)
Definition gen_lexico_tie_breaking_key_safe (v_inst : py_inst) (v_prof : py_aprofile) (v_proj : py_proj) : bool :=
  true.
Global Hint Unfold gen_lexico_tie_breaking_key_safe : pygen.

(* pabutools/tiebreaking.py:110 lexico_tie_breaking: lexico_tie_breaking.order(instance, profile, projects) *)
Definition gen_lexico_tie_breaking_order (v_instance : py_inst) (v_profile : py_aprofile) (v_projects : (list py_proj)) : (list py_proj) :=
  gen_TieBreakingRule_order gen_lexico_tie_breaking_key v_instance v_profile v_projects.
Global Hint Unfold gen_lexico_tie_breaking_order : pygen.

(* pabutools/tiebreaking.py:110 lexico_tie_breaking: lexico_tie_breaking.untie(instance, profile, projects) *)
Definition gen_lexico_tie_breaking_untie (v_instance : py_inst) (v_profile : py_aprofile) (v_projects : (list py_proj)) : (option py_proj) :=
  gen_TieBreakingRule_untie gen_lexico_tie_breaking_key v_instance v_profile v_projects.
Global Hint Unfold gen_lexico_tie_breaking_untie : pygen.

(* pabutools/tiebreaking.py:115 app_score_tie_breaking
app_score_tie_breaking = TieBreakingRule(lambda inst, prof, proj: -prof.approval_score(proj)) *)
Definition gen_app_score_tie_breaking_key (v_inst : py_inst) (v_prof : py_aprofile) (v_proj : py_proj) : Q :=
  (- (py_approval_score v_prof v_proj)).
Global Hint Unfold gen_app_score_tie_breaking_key : pygen.
(* no ZeroDivisionError: every frac(a, b) on the executed path has b != 0 *)
Definition gen_app_score_tie_breaking_key_safe (v_inst : py_inst) (v_prof : py_aprofile) (v_proj : py_proj) : bool :=
  true.
Global Hint Unfold gen_app_score_tie_breaking_key_safe : pygen.

(* pabutools/tiebreaking.py:115 app_score_tie_breaking: app_score_tie_breaking.order(instance, profile, projects) *)
Definition gen_app_score_tie_breaking_order (v_instance : py_inst) (v_profile : py_aprofile) (v_projects : (list py_proj)) : (list py_proj) :=
  gen_TieBreakingRule_order gen_app_score_tie_breaking_key v_instance v_profile v_projects.
Global Hint Unfold gen_app_score_tie_breaking_order : pygen.

(* pabutools/tiebreaking.py:115 app_score_tie_breaking: app_score_tie_breaking.untie(instance, profile, projects) *)
Definition gen_app_score_tie_breaking_untie (v_instance : py_inst) (v_profile : py_aprofile) (v_projects : (list py_proj)) : (option py_proj) :=
  gen_TieBreakingRule_untie gen_app_score_tie_breaking_key v_instance v_profile v_projects.
Global Hint Unfold gen_app_score_tie_breaking_untie : pygen.

(* pabutools/tiebreaking.py:123 min_cost_tie_breaking
min_cost_tie_breaking = TieBreakingRule(lambda inst, prof, proj: proj.cost) *)
Definition gen_min_cost_tie_breaking_key (v_inst : py_inst) (v_prof : py_aprofile) (v_proj : py_proj) : Q :=
  (py_cost v_inst v_proj).
Global Hint Unfold gen_min_cost_tie_breaking_key : pygen.
(* no ZeroDivisionError: every frac(a, b) on the executed path has b != 0 *)
Definition gen_min_cost_tie_breaking_key_safe (v_inst : py_inst) (v_prof : py_aprofile) (v_proj : py_proj) : bool :=
  true.
Global Hint Unfold gen_min_cost_tie_breaking_key_safe : pygen.

(* pabutools/tiebreaking.py:123 min_cost_tie_breaking: min_cost_tie_breaking.order(instance, profile, projects) *)
Definition gen_min_cost_tie_breaking_order (v_instance : py_inst) (v_profile : py_aprofile) (v_projects : (list py_proj)) : (list py_proj) :=
  gen_TieBreakingRule_order gen_min_cost_tie_breaking_key v_instance v_profile v_projects.
Global Hint Unfold gen_min_cost_tie_breaking_order : pygen.

(* pabutools/tiebreaking.py:123 min_cost_tie_breaking: min_cost_tie_breaking.untie(instance, profile, projects) *)
Definition gen_min_cost_tie_breaking_untie (v_instance : py_inst) (v_profile : py_aprofile) (v_projects : (list py_proj)) : (option py_proj) :=
  gen_TieBreakingRule_untie gen_min_cost_tie_breaking_key v_instance v_profile v_projects.
Global Hint Unfold gen_min_cost_tie_breaking_untie : pygen.

(* pabutools/tiebreaking.py:129 max_cost_tie_breaking
max_cost_tie_breaking = TieBreakingRule(lambda inst, prof, proj: -proj.cost) *)
Definition gen_max_cost_tie_breaking_key (v_inst : py_inst) (v_prof : py_aprofile) (v_proj : py_proj) : Q :=
  (- (py_cost v_inst v_proj)).
Global Hint Unfold gen_max_cost_tie_breaking_key : pygen.
(* no ZeroDivisionError: every frac(a, b) on the executed path has b != 0 *)
Definition gen_max_cost_tie_breaking_key_safe (v_inst : py_inst) (v_prof : py_aprofile) (v_proj : py_proj) : bool :=
  true.
Global Hint Unfold gen_max_cost_tie_breaking_key_safe : pygen.

(* pabutools/tiebreaking.py:129 max_cost_tie_breaking: max_cost_tie_breaking.order(instance, profile, projects) *)
Definition gen_max_cost_tie_breaking_order (v_instance : py_inst) (v_profile : py_aprofile) (v_projects : (list py_proj)) : (list py_proj) :=
  gen_TieBreakingRule_order gen_max_cost_tie_breaking_key v_instance v_profile v_projects.
Global Hint Unfold gen_max_cost_tie_breaking_order : pygen.

(* pabutools/tiebreaking.py:129 max_cost_tie_breaking: max_cost_tie_breaking.untie(instance, profile, projects) *)
Definition gen_max_cost_tie_breaking_untie (v_instance : py_inst) (v_profile : py_aprofile) (v_projects : (list py_proj)) : (option py_proj) :=
  gen_TieBreakingRule_untie gen_max_cost_tie_breaking_key v_instance v_profile v_projects.
Global Hint Unfold gen_max_cost_tie_breaking_untie : pygen.

(* pabutools/tiebreaking.py:142 refuse_tie_breaking
refuse_tie_breaking = TieBreakingRule(refuse_to_break_ties) *)
Definition gen_refuse_tie_breaking_key (v_instance : py_inst) (v_profile : py_aprofile) (v_project : py_proj) : (option Q) :=
  gen_refuse_to_break_ties v_instance v_profile v_project.
Global Hint Unfold gen_refuse_tie_breaking_key : pygen.

(* class wiring: which function every shipped measure hands to which base class, under which guard *)
Definition gen_wiring_Additive_Borda_Sat : list py_wire := [mkWire (GuardIsinstance "AbstractOrdinalBallot"%string) "PositionalSatisfaction"%string ["borda_sat_func"%string; "sum"%string]].
Definition gen_wiring_Additive_Cardinal_Relative_Sat : list py_wire := [mkWire (GuardIsinstance "AbstractCardinalBallot"%string) "AdditiveSatisfaction"%string ["additive_card_relative_sat_func"%string]].
Definition gen_wiring_Additive_Cardinal_Sat : list py_wire := [mkWire (GuardIsinstance "AbstractCardinalBallot"%string) "AdditiveSatisfaction"%string ["additive_card_sat_func"%string]].
Definition gen_wiring_Additive_Cost_Log_Sat : list py_wire := [mkWire (GuardIsinstance "AbstractApprovalBallot"%string) "AdditiveSatisfaction"%string ["additive_cost_log_sat_func"%string]].
Definition gen_wiring_Additive_Cost_Sqrt_Sat : list py_wire := [mkWire (GuardIsinstance "AbstractApprovalBallot"%string) "AdditiveSatisfaction"%string ["add_cost_sqrt_sat_func"%string]].
Definition gen_wiring_CC_Sat : list py_wire := [mkWire (GuardIsinstance "AbstractApprovalBallot"%string) "FunctionalSatisfaction"%string ["cc_sat_func_app"%string]; mkWire (GuardIsinstance "AbstractCardinalBallot"%string) "FunctionalSatisfaction"%string ["cc_sat_func_card"%string]].
Definition gen_wiring_Cardinality_Sat : list py_wire := [mkWire GuardAny "AdditiveSatisfaction"%string ["cardinality_sat_func"%string]].
Definition gen_wiring_Cost_Log_Sat : list py_wire := [mkWire (GuardIsinstance "AbstractApprovalBallot"%string) "FunctionalSatisfaction"%string ["cost_log_sat_func"%string]].
Definition gen_wiring_Cost_Sat : list py_wire := [mkWire GuardAny "AdditiveSatisfaction"%string ["cost_sat_func"%string]].
Definition gen_wiring_Cost_Sqrt_Sat : list py_wire := [mkWire (GuardIsinstance "AbstractApprovalBallot"%string) "FunctionalSatisfaction"%string ["cost_sqrt_sat_func"%string]].
Definition gen_wiring_Effort_Sat : list py_wire := [mkWire GuardAny "AdditiveSatisfaction"%string ["effort_sat_func"%string]].
Definition gen_wiring_Relative_Cardinality_Sat : list py_wire := [mkWire GuardAny "AdditiveSatisfaction"%string ["relative_cardinality_sat_func"%string]].
Definition gen_wiring_Relative_Cost_Approx_Normaliser_Sat : list py_wire := [mkWire GuardAny "AdditiveSatisfaction"%string ["relative_cost_approx_normaliser_sat_func"%string]].
Definition gen_wiring_Relative_Cost_Sat : list py_wire := [mkWire GuardAny "AdditiveSatisfaction"%string ["relative_cost_sat_func"%string]].
Definition gen_wiring : list (string * list py_wire) :=
  [("Additive_Borda_Sat"%string, gen_wiring_Additive_Borda_Sat);
   ("Additive_Cardinal_Relative_Sat"%string, gen_wiring_Additive_Cardinal_Relative_Sat);
   ("Additive_Cardinal_Sat"%string, gen_wiring_Additive_Cardinal_Sat);
   ("Additive_Cost_Log_Sat"%string, gen_wiring_Additive_Cost_Log_Sat);
   ("Additive_Cost_Sqrt_Sat"%string, gen_wiring_Additive_Cost_Sqrt_Sat);
   ("CC_Sat"%string, gen_wiring_CC_Sat);
   ("Cardinality_Sat"%string, gen_wiring_Cardinality_Sat);
   ("Cost_Log_Sat"%string, gen_wiring_Cost_Log_Sat);
   ("Cost_Sat"%string, gen_wiring_Cost_Sat);
   ("Cost_Sqrt_Sat"%string, gen_wiring_Cost_Sqrt_Sat);
   ("Effort_Sat"%string, gen_wiring_Effort_Sat);
   ("Relative_Cardinality_Sat"%string, gen_wiring_Relative_Cardinality_Sat);
   ("Relative_Cost_Approx_Normaliser_Sat"%string, gen_wiring_Relative_Cost_Approx_Normaliser_Sat);
   ("Relative_Cost_Sat"%string, gen_wiring_Relative_Cost_Sat)].
Definition gen_tie_rules : list string := ["lexico_tie_breaking"%string; "app_score_tie_breaking"%string; "min_cost_tie_breaking"%string; "max_cost_tie_breaking"%string; "refuse_tie_breaking"%string].
Definition gen_untranslated : list string := [].
Definition gen_untranslated_sat : list string := [].
Definition gen_untranslated_tie : list string := [].
Definition gen_untranslated_inst : list string := [].
Definition gen_untranslated_stats : list string := [].
Definition gen_untranslated_price : list string := [].
Definition gen_untranslated_jr : list string := [].
(* float-only statistics that are outside the fragment (correspondence only) *)
Definition gen_correspondence_only : list string := ["gen_satisfaction_histogram"%string; "gen_median_ballot_length"%string; "gen_median_ballot_cost"%string; "gen_std_dev_project_cost"%string].
