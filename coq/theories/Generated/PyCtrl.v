(* Generated/PyCtrl.v -- REGENERATED from the Python source on every run by harness/vharness/pytrans_ctrl.py.
   Do not edit.  One definition per translated function (state-passing translation of the imperative
   wrappers), over the vocabulary of Model/PyCtrlPrims.v; [Untranslated] marks a function whose source left
   the translated fragment.  X = the opaque part of a keyword dictionary, SC = the satisfaction class. *)
From Coq Require Import String.
From PB Require Import Model.PyCtrlPrims.
Open Scope Q_scope.

Section Gen.
Context {X SC : Type}.

(* pabutools/rules/exhaustion.py:14 completion_by_rule_combination with resoluteness=True
def completion_by_rule_combination(instance: Instance, profile: AbstractProfile, rule_sequence: Collection[Callable], rule_params: Collection[dict] | None=None, initial_budget_allocation: Iterable[Project] | None=None, resoluteness: bool=True) -> BudgetAllocation | list[BudgetAllocation]:
    if rule_params is not None and len(rule_sequence) != len(rule_params):
        raise ValueError('Parameters rule_sequence and rule_params must be of equal length.')
    if rule_params is None:
        rule_params = [{} for _ in rule_sequence]
    for i, params in enumerate(rule_params):
        if 'resoluteness' in params and params['resoluteness'] != resoluteness:
            raise ValueError(f'The rule parameter at position {i} sets the resoluteness parameter to a different one that the resoluteness argument passed to completion_by_rule_combination.')
    budget_allocations = []
    res = []
    if initial_budget_allocation is None:
        budget_allocations.append(BudgetAllocation())
    else:
        budget_allocations.append(BudgetAllocation(initial_budget_allocation))
    for index, rule in enumerate(rule_sequence):
        new_budget_allocations = BudgetAllocation()
        all_resolute = True
        for budget_allocation in budget_allocations:
            outcome = rule(instance, profile, initial_budget_allocation=budget_allocation, resoluteness=resoluteness, **rule_params[index])
            if resoluteness:
                if instance.is_exhaustive(outcome):
                    return outcome
                else:
                    new_budget_allocations = [outcome]
            else:
                for alloc in outcome:
                    if instance.is_exhaustive(alloc):
                        if alloc not in res:
                            res.append(alloc)
                    else:
                        all_resolute = False
                        new_budget_allocations.append(alloc)
        if not resoluteness and all_resolute:
            return res
        budget_allocations = new_budget_allocations
    if resoluteness:
        return budget_allocations[0]
    return res + budget_allocations *)
Definition gen_completion_by_rule_combination_res (v_instance : inst) (v_profile : (py_cprofile SC)) (v_rule_sequence : (list (py_rule X py_alloc))) (v_rule_params : (option (list (py_kwargs X)))) (v_initial_budget_allocation : (option py_alloc)) : py_res py_alloc :=
  (if match v_rule_params with None => false | Some n0 => (negb (py_nat_eq (length v_rule_sequence) (length n0))) end
  then (Raise "ValueError"%string)
  else let v_rule_params_3 := match v_rule_params with
  | None => let v_rule_params_2 := (map (fun _ => py_no_kwargs) v_rule_sequence) in
  v_rule_params_2
  | Some v_rule_params_1 => v_rule_params_1
  end in
  match py_for (fun (_ : unit) '(v_i, v_params) => 
    (if ((py_kw_has_res v_params) && (negb (py_bool_eq (py_kw_res_present v_params) true)))
  then (Exit (Raise "ValueError"%string))
  else (Next tt)))
    (py_enumerate v_rule_params_3) tt with
  | inl _ => let v_budget_allocations := (@nil py_alloc) in
  let v_budget_allocations_3 := match v_initial_budget_allocation with
  | None => let v_budget_allocations_1 := (v_budget_allocations ++ [(@nil proj)]) in
  v_budget_allocations_1
  | Some v_initial_budget_allocation_1 => let v_budget_allocations_2 := (v_budget_allocations ++ [v_initial_budget_allocation_1]) in
  v_budget_allocations_2
  end in
  match py_for (fun (v_budget_allocations_4 : (list py_alloc)) '(v_index, v_rule) => 
    let v_new_budget_allocations := (@nil py_alloc) in
  match py_for (fun (v_new_budget_allocations_1 : (list py_alloc)) v_budget_allocation => 
    match (py_getitem v_rule_params_3 v_index) with None => (Exit (Raise "IndexError"%string)) | Some g0 => let v_outcome := (v_rule (py_kw_set_res g0 true) (budget v_instance) v_budget_allocation) in
  (if (py_is_exhaustive v_instance v_outcome)
  then (Exit (Ok v_outcome))
  else let v_new_budget_allocations_2 := [v_outcome] in
  (Next v_new_budget_allocations_2)) end)
    v_budget_allocations_4 v_new_budget_allocations with
  | inl v_new_budget_allocations_3 => (Next v_new_budget_allocations_3)
  | inr r1 => (Exit r1)
  end)
    (py_enumerate v_rule_sequence) v_budget_allocations_3 with
  | inl v_budget_allocations_5 => match (py_getitem v_budget_allocations_5 0%nat) with None => (Raise "IndexError"%string) | Some g1 => (Ok g1) end
  | inr r2 => r2
  end
  | inr r0 => r0
  end).
(* what every variable of the function is bound to, and whether that object is mutated in place *)
Definition gen_alias_completion_by_rule_combination_res : list py_alias :=
  [mkAlias "instance"%string (AliasOf "instance"%string) false;
   mkAlias "profile"%string Scalar false;
   mkAlias "rule_sequence"%string (AliasOf "rule_sequence"%string) false;
   mkAlias "rule_params"%string (AliasOf "rule_params"%string) false;
   mkAlias "rule_params"%string Fresh false;
   mkAlias "initial_budget_allocation"%string (AliasOf "initial_budget_allocation"%string) false;
   mkAlias "i"%string Scalar false;
   mkAlias "params"%string (ElemOf "rule_params"%string) false;
   mkAlias "budget_allocations"%string Fresh false;
   mkAlias "budget_allocations"%string Fresh true;
   mkAlias "res"%string Fresh false;
   mkAlias "index"%string Scalar false;
   mkAlias "rule"%string Scalar false;
   mkAlias "new_budget_allocations"%string Fresh false;
   mkAlias "all_resolute"%string Scalar false;
   mkAlias "budget_allocation"%string RuleResult false;
   mkAlias "outcome"%string RuleResult false].

(* pabutools/rules/exhaustion.py:14 completion_by_rule_combination with resoluteness=False
def completion_by_rule_combination(instance: Instance, profile: AbstractProfile, rule_sequence: Collection[Callable], rule_params: Collection[dict] | None=None, initial_budget_allocation: Iterable[Project] | None=None, resoluteness: bool=True) -> BudgetAllocation | list[BudgetAllocation]:
    if rule_params is not None and len(rule_sequence) != len(rule_params):
        raise ValueError('Parameters rule_sequence and rule_params must be of equal length.')
    if rule_params is None:
        rule_params = [{} for _ in rule_sequence]
    for i, params in enumerate(rule_params):
        if 'resoluteness' in params and params['resoluteness'] != resoluteness:
            raise ValueError(f'The rule parameter at position {i} sets the resoluteness parameter to a different one that the resoluteness argument passed to completion_by_rule_combination.')
    budget_allocations = []
    res = []
    if initial_budget_allocation is None:
        budget_allocations.append(BudgetAllocation())
    else:
        budget_allocations.append(BudgetAllocation(initial_budget_allocation))
    for index, rule in enumerate(rule_sequence):
        new_budget_allocations = BudgetAllocation()
        all_resolute = True
        for budget_allocation in budget_allocations:
            outcome = rule(instance, profile, initial_budget_allocation=budget_allocation, resoluteness=resoluteness, **rule_params[index])
            if resoluteness:
                if instance.is_exhaustive(outcome):
                    return outcome
                else:
                    new_budget_allocations = [outcome]
            else:
                for alloc in outcome:
                    if instance.is_exhaustive(alloc):
                        if alloc not in res:
                            res.append(alloc)
                    else:
                        all_resolute = False
                        new_budget_allocations.append(alloc)
        if not resoluteness and all_resolute:
            return res
        budget_allocations = new_budget_allocations
    if resoluteness:
        return budget_allocations[0]
    return res + budget_allocations *)
Definition gen_completion_by_rule_combination_irr (v_instance : inst) (v_profile : (py_cprofile SC)) (v_rule_sequence : (list (py_rule X (list py_alloc)))) (v_rule_params : (option (list (py_kwargs X)))) (v_initial_budget_allocation : (option py_alloc)) : py_res (list py_alloc) :=
  (if match v_rule_params with None => false | Some n0 => (negb (py_nat_eq (length v_rule_sequence) (length n0))) end
  then (Raise "ValueError"%string)
  else let v_rule_params_3 := match v_rule_params with
  | None => let v_rule_params_2 := (map (fun _ => py_no_kwargs) v_rule_sequence) in
  v_rule_params_2
  | Some v_rule_params_1 => v_rule_params_1
  end in
  match py_for (fun (_ : unit) '(v_i, v_params) => 
    (if ((py_kw_has_res v_params) && (negb (py_bool_eq (py_kw_res_present v_params) false)))
  then (Exit (Raise "ValueError"%string))
  else (Next tt)))
    (py_enumerate v_rule_params_3) tt with
  | inl _ => let v_budget_allocations := (@nil py_alloc) in
  let v_res := (@nil py_alloc) in
  let v_budget_allocations_3 := match v_initial_budget_allocation with
  | None => let v_budget_allocations_1 := (v_budget_allocations ++ [(@nil proj)]) in
  v_budget_allocations_1
  | Some v_initial_budget_allocation_1 => let v_budget_allocations_2 := (v_budget_allocations ++ [v_initial_budget_allocation_1]) in
  v_budget_allocations_2
  end in
  match py_for (fun (st5 : ((list py_alloc) * (list py_alloc))%type) '(v_index, v_rule) => let '(v_budget_allocations_4, v_res_1) := st5 in 
    let v_new_budget_allocations := (@nil py_alloc) in
  match py_for (fun (st3 : ((list py_alloc) * (list py_alloc) * bool)%type) v_budget_allocation => let '(v_res_2, v_new_budget_allocations_1, v_all_resolute) := st3 in 
    match (py_getitem v_rule_params_3 v_index) with None => (Exit (Raise "IndexError"%string)) | Some g0 => let v_outcome := (v_rule (py_kw_set_res g0 false) (budget v_instance) v_budget_allocation) in
  match py_for (fun (st1 : ((list py_alloc) * (list py_alloc) * bool)%type) v_alloc => let '(v_res_3, v_new_budget_allocations_2, v_all_resolute_1) := st1 in 
    let '(v_res_6, v_new_budget_allocations_4, v_all_resolute_2) := (if (py_is_exhaustive v_instance v_alloc)
  then let v_res_5 := (if (negb (py_alloc_in v_alloc v_res_3))
  then let v_res_4 := (v_res_3 ++ [v_alloc]) in
  v_res_4
  else v_res_3) in
  (v_res_5, v_new_budget_allocations_2, v_all_resolute_1)
  else let v_new_budget_allocations_3 := (v_new_budget_allocations_2 ++ [v_alloc]) in
  (v_res_3, v_new_budget_allocations_3, false)) in
  (Next (v_res_6, v_new_budget_allocations_4, v_all_resolute_2)))
    v_outcome (v_res_2, v_new_budget_allocations_1, v_all_resolute) with
  | inl st0 => let '(v_res_7, v_new_budget_allocations_5, v_all_resolute_3) := st0 in
  (Next (v_res_7, v_new_budget_allocations_5, v_all_resolute_3))
  | inr r1 => (Exit r1)
  end end)
    v_budget_allocations_4 (v_res_1, v_new_budget_allocations, true) with
  | inl st2 => let '(v_res_8, v_new_budget_allocations_6, v_all_resolute_4) := st2 in
  (if v_all_resolute_4
  then (Exit (Ok v_res_8))
  else (Next (v_new_budget_allocations_6, v_res_8)))
  | inr r2 => (Exit r2)
  end)
    (py_enumerate v_rule_sequence) (v_budget_allocations_3, v_res) with
  | inl st4 => let '(v_budget_allocations_5, v_res_9) := st4 in
  (Ok (v_res_9 ++ v_budget_allocations_5))
  | inr r3 => r3
  end
  | inr r0 => r0
  end).
(* what every variable of the function is bound to, and whether that object is mutated in place *)
Definition gen_alias_completion_by_rule_combination_irr : list py_alias :=
  [mkAlias "instance"%string (AliasOf "instance"%string) false;
   mkAlias "profile"%string Scalar false;
   mkAlias "rule_sequence"%string (AliasOf "rule_sequence"%string) false;
   mkAlias "rule_params"%string (AliasOf "rule_params"%string) false;
   mkAlias "rule_params"%string Fresh false;
   mkAlias "initial_budget_allocation"%string (AliasOf "initial_budget_allocation"%string) false;
   mkAlias "i"%string Scalar false;
   mkAlias "params"%string (ElemOf "rule_params"%string) false;
   mkAlias "budget_allocations"%string Fresh false;
   mkAlias "budget_allocations"%string Fresh true;
   mkAlias "res"%string Fresh true;
   mkAlias "index"%string Scalar false;
   mkAlias "rule"%string Scalar false;
   mkAlias "new_budget_allocations"%string Fresh true;
   mkAlias "all_resolute"%string Scalar false;
   mkAlias "budget_allocation"%string RuleResult false;
   mkAlias "outcome"%string RuleResult false;
   mkAlias "alloc"%string RuleResult false].

(* pabutools/rules/exhaustion.py:99 exhaustion_by_budget_increase with resoluteness=True
def exhaustion_by_budget_increase(instance: Instance, profile: AbstractProfile, rule: Callable, rule_params: dict | None=None, initial_budget_allocation: Iterable[Project] | None=None, resoluteness: bool=True, exhaustive_stop: bool=True, budget_step: Numeric | None=None, budget_bound: Numeric | None=None) -> BudgetAllocation | list[BudgetAllocation]:
    if rule_params is None:
        rule_params = {}
    else:
        rule_params = dict(rule_params)
    current_instance = deepcopy(instance)
    if initial_budget_allocation is None:
        initial_budget_allocation = BudgetAllocation()
    else:
        initial_budget_allocation = BudgetAllocation(initial_budget_allocation)
    rule_params['initial_budget_allocation'] = initial_budget_allocation
    if resoluteness:
        previous_outcome = copy(initial_budget_allocation)
    else:
        previous_outcome = [copy(initial_budget_allocation)]
    if budget_step is None:
        budget_step = instance.budget_limit * frac(1, 100)
    if budget_bound is None:
        budget_bound = instance.budget_limit * (profile.num_ballots() + 1)
    rule_params['resoluteness'] = resoluteness
    while current_instance.budget_limit <= budget_bound:
        outcome = rule(current_instance, profile, **rule_params)
        if resoluteness:
            if not instance.is_feasible(outcome):
                return previous_outcome
            if exhaustive_stop and instance.is_exhaustive(outcome):
                return outcome
            current_instance.budget_limit += budget_step
            previous_outcome = outcome
        else:
            if any((not instance.is_feasible(o) for o in outcome)):
                return previous_outcome
            if exhaustive_stop and any((instance.is_exhaustive(o) for o in outcome)):
                return outcome
            current_instance.budget_limit += budget_step
            previous_outcome = outcome
    return previous_outcome *)
Definition gen_exhaustion_by_budget_increase_res (v_instance : inst) (v_profile : (py_cprofile SC)) (v_rule : (py_rule X py_alloc)) (v_rule_params : (option (py_kwargs X))) (v_initial_budget_allocation : (option py_alloc)) (v_exhaustive_stop : bool) (v_budget_step : (option Q)) (v_budget_bound : (option Q)) (fuel : nat) : py_res py_alloc :=
  let v_rule_params_2 := match v_rule_params with
  | None => py_no_kwargs
  | Some v_rule_params_1 => v_rule_params_1
  end in
  let v_initial_budget_allocation_3 := match v_initial_budget_allocation with
  | None => let v_initial_budget_allocation_2 := (@nil proj) in
  v_initial_budget_allocation_2
  | Some v_initial_budget_allocation_1 => v_initial_budget_allocation_1
  end in
  let v_budget_step_3 := match v_budget_step with
  | None => let v_budget_step_2 := ((budget v_instance) * (frac 1 100)) in
  v_budget_step_2
  | Some v_budget_step_1 => v_budget_step_1
  end in
  let v_budget_bound_3 := match v_budget_bound with
  | None => let v_budget_bound_2 := ((budget v_instance) * ((Qnat (cp_num_ballots v_profile)) + 1)) in
  v_budget_bound_2
  | Some v_budget_bound_1 => v_budget_bound_1
  end in
  match py_while fuel (fun (st1 : (inst * py_alloc)%type) => let '(v_current_instance_1, v_previous_outcome_1) := st1 in (py_le (budget v_current_instance_1) v_budget_bound_3))
    (fun (st2 : (inst * py_alloc)%type) => let '(v_current_instance, v_previous_outcome) := st2 in 
    let v_outcome := (v_rule (py_kw_set_res v_rule_params_2 true) (budget v_current_instance) v_initial_budget_allocation_3) in
  (if (py_is_feasible v_instance v_outcome)
  then (if (v_exhaustive_stop && (py_is_exhaustive v_instance v_outcome))
  then (Exit (Ok v_outcome))
  else let v_current_instance_2 := (py_with_budget v_current_instance (budget v_current_instance + v_budget_step_3)) in
  (Next (v_current_instance_2, v_outcome)))
  else (Exit (Ok v_previous_outcome))))
    (v_instance, v_initial_budget_allocation_3) with
  | None => OutOfFuel
  | Some (inl st0) => let '(v_current_instance_3, v_previous_outcome_2) := st0 in
  (Ok v_previous_outcome_2)
  | Some (inr r0) => r0
  end.
(* what every variable of the function is bound to, and whether that object is mutated in place *)
Definition gen_alias_exhaustion_by_budget_increase_res : list py_alias :=
  [mkAlias "instance"%string (AliasOf "instance"%string) false;
   mkAlias "profile"%string Scalar false;
   mkAlias "rule"%string Scalar false;
   mkAlias "rule_params"%string (AliasOf "rule_params"%string) false;
   mkAlias "rule_params"%string Fresh true;
   mkAlias "initial_budget_allocation"%string (AliasOf "initial_budget_allocation"%string) false;
   mkAlias "initial_budget_allocation"%string Fresh false;
   mkAlias "exhaustive_stop"%string Scalar false;
   mkAlias "budget_step"%string Scalar false;
   mkAlias "budget_bound"%string Scalar false;
   mkAlias "current_instance"%string Fresh true;
   mkAlias "previous_outcome"%string Fresh false;
   mkAlias "previous_outcome"%string RuleResult false;
   mkAlias "outcome"%string RuleResult false].

(* pabutools/rules/exhaustion.py:99 exhaustion_by_budget_increase with resoluteness=False
def exhaustion_by_budget_increase(instance: Instance, profile: AbstractProfile, rule: Callable, rule_params: dict | None=None, initial_budget_allocation: Iterable[Project] | None=None, resoluteness: bool=True, exhaustive_stop: bool=True, budget_step: Numeric | None=None, budget_bound: Numeric | None=None) -> BudgetAllocation | list[BudgetAllocation]:
    if rule_params is None:
        rule_params = {}
    else:
        rule_params = dict(rule_params)
    current_instance = deepcopy(instance)
    if initial_budget_allocation is None:
        initial_budget_allocation = BudgetAllocation()
    else:
        initial_budget_allocation = BudgetAllocation(initial_budget_allocation)
    rule_params['initial_budget_allocation'] = initial_budget_allocation
    if resoluteness:
        previous_outcome = copy(initial_budget_allocation)
    else:
        previous_outcome = [copy(initial_budget_allocation)]
    if budget_step is None:
        budget_step = instance.budget_limit * frac(1, 100)
    if budget_bound is None:
        budget_bound = instance.budget_limit * (profile.num_ballots() + 1)
    rule_params['resoluteness'] = resoluteness
    while current_instance.budget_limit <= budget_bound:
        outcome = rule(current_instance, profile, **rule_params)
        if resoluteness:
            if not instance.is_feasible(outcome):
                return previous_outcome
            if exhaustive_stop and instance.is_exhaustive(outcome):
                return outcome
            current_instance.budget_limit += budget_step
            previous_outcome = outcome
        else:
            if any((not instance.is_feasible(o) for o in outcome)):
                return previous_outcome
            if exhaustive_stop and any((instance.is_exhaustive(o) for o in outcome)):
                return outcome
            current_instance.budget_limit += budget_step
            previous_outcome = outcome
    return previous_outcome *)
Definition gen_exhaustion_by_budget_increase_irr (v_instance : inst) (v_profile : (py_cprofile SC)) (v_rule : (py_rule X (list py_alloc))) (v_rule_params : (option (py_kwargs X))) (v_initial_budget_allocation : (option py_alloc)) (v_exhaustive_stop : bool) (v_budget_step : (option Q)) (v_budget_bound : (option Q)) (fuel : nat) : py_res (list py_alloc) :=
  let v_rule_params_2 := match v_rule_params with
  | None => py_no_kwargs
  | Some v_rule_params_1 => v_rule_params_1
  end in
  let v_initial_budget_allocation_3 := match v_initial_budget_allocation with
  | None => let v_initial_budget_allocation_2 := (@nil proj) in
  v_initial_budget_allocation_2
  | Some v_initial_budget_allocation_1 => v_initial_budget_allocation_1
  end in
  let v_previous_outcome := [v_initial_budget_allocation_3] in
  let v_budget_step_3 := match v_budget_step with
  | None => let v_budget_step_2 := ((budget v_instance) * (frac 1 100)) in
  v_budget_step_2
  | Some v_budget_step_1 => v_budget_step_1
  end in
  let v_budget_bound_3 := match v_budget_bound with
  | None => let v_budget_bound_2 := ((budget v_instance) * ((Qnat (cp_num_ballots v_profile)) + 1)) in
  v_budget_bound_2
  | Some v_budget_bound_1 => v_budget_bound_1
  end in
  match py_while fuel (fun (st1 : (inst * (list py_alloc))%type) => let '(v_current_instance_1, v_previous_outcome_2) := st1 in (py_le (budget v_current_instance_1) v_budget_bound_3))
    (fun (st2 : (inst * (list py_alloc))%type) => let '(v_current_instance, v_previous_outcome_1) := st2 in 
    let v_outcome := (v_rule (py_kw_set_res v_rule_params_2 false) (budget v_current_instance) v_initial_budget_allocation_3) in
  (if (py_any (map (fun v_o => (negb (py_is_feasible v_instance v_o))) v_outcome))
  then (Exit (Ok v_previous_outcome_1))
  else (if (v_exhaustive_stop && (py_any (map (fun v_o_1 => (py_is_exhaustive v_instance v_o_1)) v_outcome)))
  then (Exit (Ok v_outcome))
  else let v_current_instance_2 := (py_with_budget v_current_instance (budget v_current_instance + v_budget_step_3)) in
  (Next (v_current_instance_2, v_outcome)))))
    (v_instance, v_previous_outcome) with
  | None => OutOfFuel
  | Some (inl st0) => let '(v_current_instance_3, v_previous_outcome_3) := st0 in
  (Ok v_previous_outcome_3)
  | Some (inr r0) => r0
  end.
(* what every variable of the function is bound to, and whether that object is mutated in place *)
Definition gen_alias_exhaustion_by_budget_increase_irr : list py_alias :=
  [mkAlias "instance"%string (AliasOf "instance"%string) false;
   mkAlias "profile"%string Scalar false;
   mkAlias "rule"%string Scalar false;
   mkAlias "rule_params"%string (AliasOf "rule_params"%string) false;
   mkAlias "rule_params"%string Fresh true;
   mkAlias "initial_budget_allocation"%string (AliasOf "initial_budget_allocation"%string) false;
   mkAlias "initial_budget_allocation"%string Fresh false;
   mkAlias "exhaustive_stop"%string Scalar false;
   mkAlias "budget_step"%string Scalar false;
   mkAlias "budget_bound"%string Scalar false;
   mkAlias "current_instance"%string Fresh true;
   mkAlias "previous_outcome"%string Fresh false;
   mkAlias "previous_outcome"%string RuleResult false;
   mkAlias "outcome"%string RuleResult false].

(* pabutools/rules/composition.py:18 popularity_comparison
def popularity_comparison(instance: Instance, profile: Profile, sat_class: type[SatisfactionMeasure], rule_sequence: Collection[Callable], rule_params: Collection[dict] | None=None, initial_budget_allocation: Iterable[Project] | None=None) -> list[BudgetAllocation]:
    if rule_params is not None and len(rule_sequence) != len(rule_params):
        raise ValueError('Parameters rule_sequence and rule_params must be of equal length.')
    if rule_params is None:
        rule_params = [{} for _ in rule_sequence]
    if initial_budget_allocation is None:
        budget_allocation = BudgetAllocation()
    else:
        budget_allocation = BudgetAllocation(initial_budget_allocation)
    results = []
    for index, rule in enumerate(rule_sequence):
        res = rule(instance, profile, initial_budget_allocation=budget_allocation, **rule_params[index])
        if res not in results:
            results.append(res)
    sat_profile = profile.as_sat_profile(sat_class)
    result_support = [0 for _ in results]
    for sat in sat_profile:
        sats = [sat.sat(r) for r in results]
        max_sat = None
        arg_max_sat = None
        for i, s in enumerate(sats):
            if max_sat is None or s > max_sat:
                max_sat = s
                arg_max_sat = [i]
            elif s == max_sat:
                arg_max_sat.append(i)
        for i in arg_max_sat:
            result_support[i] += sat_profile.multiplicity(sat)
    max_support = max(result_support)
    argmax_support = [i for i, s in enumerate(result_support) if s == max_support]
    return [results[i] for i in argmax_support] *)
Definition gen_popularity_comparison (v_instance : inst) (v_profile : (py_cprofile SC)) (v_sat_class : SC) (v_rule_sequence : (list (py_rule X py_alloc))) (v_rule_params : (option (list (py_kwargs X)))) (v_initial_budget_allocation : (option py_alloc)) : py_res (list py_alloc) :=
  (if match v_rule_params with None => false | Some n0 => (negb (py_nat_eq (length v_rule_sequence) (length n0))) end
  then (Raise "ValueError"%string)
  else let v_rule_params_3 := match v_rule_params with
  | None => let v_rule_params_2 := (map (fun _ => py_no_kwargs) v_rule_sequence) in
  v_rule_params_2
  | Some v_rule_params_1 => v_rule_params_1
  end in
  let v_budget_allocation_1 := match v_initial_budget_allocation with
  | None => let v_budget_allocation := (@nil proj) in
  v_budget_allocation
  | Some v_initial_budget_allocation_1 => v_initial_budget_allocation_1
  end in
  let v_results := (@nil py_alloc) in
  match py_for (fun (v_results_1 : (list py_alloc)) '(v_index, v_rule) => 
    match (py_getitem v_rule_params_3 v_index) with None => (Exit (Raise "IndexError"%string)) | Some g0 => let v_res := (v_rule g0 (budget v_instance) v_budget_allocation_1) in
  let v_results_3 := (if (negb (py_alloc_in v_res v_results_1))
  then let v_results_2 := (v_results_1 ++ [v_res]) in
  v_results_2
  else v_results_1) in
  (Next v_results_3) end)
    (py_enumerate v_rule_sequence) v_results with
  | inl v_results_4 => let v_sat_profile := (cp_as_sat v_profile v_sat_class) in
  let v_result_support := (map (fun _ => 0) v_results_4) in
  match py_for (fun (v_result_support_1 : (list Q)) v_sat => 
    let v_sats := (map (fun v_r => (py_sat_sat v_sat v_r)) v_results_4) in
  match py_for (fun (st1 : ((option Q) * (option (list nat)))%type) '(v_i, v_s) => let '(v_max_sat, v_arg_max_sat) := st1 in 
    (if match v_max_sat with None => true | Some n1 => (py_gt v_s n1) end
  then let v_arg_max_sat_1 := [v_i] in
  (Next ((Some v_s), (Some v_arg_max_sat_1)))
  else match v_max_sat with None => (Exit (Raise "TypeError"%string)) | Some v_max_sat_1 => (if (py_eq v_s v_max_sat_1)
  then match v_arg_max_sat with None => (Exit (Raise "AttributeError"%string)) | Some u0 => let v_arg_max_sat_2 := (Some (u0 ++ [v_i])) in
  (Next ((Some v_max_sat_1), v_arg_max_sat_2)) end
  else (Next ((Some v_max_sat_1), v_arg_max_sat))) end))
    (py_enumerate v_sats) (None, None) with
  | inl st0 => let '(v_max_sat_2, v_arg_max_sat_3) := st0 in
  match v_arg_max_sat_3 with None => (Exit (Raise "TypeError"%string)) | Some u1 => match py_for (fun (v_result_support_2 : (list Q)) v_i_1 => 
    match (py_getitem v_result_support_2 v_i_1) with None => (Exit (Raise "IndexError"%string)) | Some g1 => let v_result_support_3 := (py_setitem v_result_support_2 v_i_1 (g1 + (py_sat_multiplicity v_sat))) in
  (Next v_result_support_3) end)
    u1 v_result_support_1 with
  | inl v_result_support_4 => (Next v_result_support_4)
  | inr r2 => (Exit r2)
  end end
  | inr r1 => (Exit r1)
  end)
    v_sat_profile v_result_support with
  | inl v_result_support_5 => match (py_max_opt v_result_support_5) with None => (Raise "ValueError"%string) | Some m0 => let v_argmax_support := (map (fun '(v_i_2, v_s_1) => v_i_2) (filter (fun '(v_i_2, v_s_1) => (py_eq v_s_1 m0)) (py_enumerate v_result_support_5))) in
  match (py_all_some (map (fun v_i_3 => match (py_getitem v_results_4 v_i_3) with None => None | Some g2 => Some g2 end) v_argmax_support)) with None => (Raise "IndexError"%string) | Some c0 => (Ok c0) end end
  | inr r3 => r3
  end
  | inr r0 => r0
  end).
(* what every variable of the function is bound to, and whether that object is mutated in place *)
Definition gen_alias_popularity_comparison : list py_alias :=
  [mkAlias "instance"%string (AliasOf "instance"%string) false;
   mkAlias "profile"%string Scalar false;
   mkAlias "sat_class"%string Scalar false;
   mkAlias "rule_sequence"%string (AliasOf "rule_sequence"%string) false;
   mkAlias "rule_params"%string (AliasOf "rule_params"%string) false;
   mkAlias "rule_params"%string Fresh false;
   mkAlias "initial_budget_allocation"%string (AliasOf "initial_budget_allocation"%string) false;
   mkAlias "budget_allocation"%string Fresh false;
   mkAlias "results"%string Fresh true;
   mkAlias "index"%string Scalar false;
   mkAlias "rule"%string Scalar false;
   mkAlias "res"%string RuleResult false;
   mkAlias "sat_profile"%string Fresh false;
   mkAlias "result_support"%string Fresh true;
   mkAlias "sat"%string Scalar false;
   mkAlias "sats"%string Fresh false;
   mkAlias "max_sat"%string Scalar false;
   mkAlias "arg_max_sat"%string Fresh false;
   mkAlias "arg_max_sat"%string Fresh true;
   mkAlias "arg_max_sat"%string Scalar false;
   mkAlias "i"%string Scalar false;
   mkAlias "s"%string Scalar false;
   mkAlias "max_support"%string Scalar false;
   mkAlias "argmax_support"%string Fresh false].

(* pabutools/rules/composition.py:92 social_welfare_comparison
def social_welfare_comparison(instance: Instance, profile: Profile, sat_class: type[SatisfactionMeasure], rule_sequence: Collection[Callable], rule_params: Collection[dict] | None=None, initial_budget_allocation: Iterable[Project] | None=None) -> list[BudgetAllocation]:
    if rule_params is not None and len(rule_sequence) != len(rule_params):
        raise ValueError('Parameters rule_sequence and rule_params must be of equal length.')
    if rule_params is None:
        rule_params = [{} for _ in rule_sequence]
    if initial_budget_allocation is not None:
        budget_allocation = BudgetAllocation(initial_budget_allocation)
    else:
        budget_allocation = BudgetAllocation()
    results = []
    for index, rule in enumerate(rule_sequence):
        res = rule(instance, profile, initial_budget_allocation=budget_allocation, **rule_params[index])
        if res not in results:
            results.append(res)
    sat_profile = profile.as_sat_profile(sat_class)
    max_social_welfare = None
    argmax_social_welfare = None
    for result in results:
        social_welfare = sat_profile.total_satisfaction(result)
        if max_social_welfare is None or social_welfare > max_social_welfare:
            max_social_welfare = social_welfare
            argmax_social_welfare = [result]
        elif social_welfare == max_social_welfare:
            argmax_social_welfare.append(result)
    return argmax_social_welfare *)
Definition gen_social_welfare_comparison (v_instance : inst) (v_profile : (py_cprofile SC)) (v_sat_class : SC) (v_rule_sequence : (list (py_rule X py_alloc))) (v_rule_params : (option (list (py_kwargs X)))) (v_initial_budget_allocation : (option py_alloc)) : py_res (option (list py_alloc)) :=
  (if match v_rule_params with None => false | Some n0 => (negb (py_nat_eq (length v_rule_sequence) (length n0))) end
  then (Raise "ValueError"%string)
  else let v_rule_params_3 := match v_rule_params with
  | None => let v_rule_params_2 := (map (fun _ => py_no_kwargs) v_rule_sequence) in
  v_rule_params_2
  | Some v_rule_params_1 => v_rule_params_1
  end in
  let v_budget_allocation_1 := match v_initial_budget_allocation with
  | None => let v_budget_allocation := (@nil proj) in
  v_budget_allocation
  | Some v_initial_budget_allocation_1 => v_initial_budget_allocation_1
  end in
  let v_results := (@nil py_alloc) in
  match py_for (fun (v_results_1 : (list py_alloc)) '(v_index, v_rule) => 
    match (py_getitem v_rule_params_3 v_index) with None => (Exit (Raise "IndexError"%string)) | Some g0 => let v_res := (v_rule g0 (budget v_instance) v_budget_allocation_1) in
  let v_results_3 := (if (negb (py_alloc_in v_res v_results_1))
  then let v_results_2 := (v_results_1 ++ [v_res]) in
  v_results_2
  else v_results_1) in
  (Next v_results_3) end)
    (py_enumerate v_rule_sequence) v_results with
  | inl v_results_4 => let v_sat_profile := (cp_as_sat v_profile v_sat_class) in
  match py_for (fun (st1 : ((option Q) * (option (list py_alloc)))%type) v_result => let '(v_max_social_welfare, v_argmax_social_welfare) := st1 in 
    let v_social_welfare := (py_total_satisfaction v_sat_profile v_result) in
  (if match v_max_social_welfare with None => true | Some n1 => (py_gt v_social_welfare n1) end
  then let v_argmax_social_welfare_1 := [v_result] in
  (Next ((Some v_social_welfare), (Some v_argmax_social_welfare_1)))
  else match v_max_social_welfare with None => (Exit (Raise "TypeError"%string)) | Some v_max_social_welfare_1 => (if (py_eq v_social_welfare v_max_social_welfare_1)
  then match v_argmax_social_welfare with None => (Exit (Raise "AttributeError"%string)) | Some u0 => let v_argmax_social_welfare_2 := (Some (u0 ++ [v_result])) in
  (Next ((Some v_max_social_welfare_1), v_argmax_social_welfare_2)) end
  else (Next ((Some v_max_social_welfare_1), v_argmax_social_welfare))) end))
    v_results_4 (None, None) with
  | inl st0 => let '(v_max_social_welfare_2, v_argmax_social_welfare_3) := st0 in
  (Ok v_argmax_social_welfare_3)
  | inr r1 => r1
  end
  | inr r0 => r0
  end).
(* what every variable of the function is bound to, and whether that object is mutated in place *)
Definition gen_alias_social_welfare_comparison : list py_alias :=
  [mkAlias "instance"%string (AliasOf "instance"%string) false;
   mkAlias "profile"%string Scalar false;
   mkAlias "sat_class"%string Scalar false;
   mkAlias "rule_sequence"%string (AliasOf "rule_sequence"%string) false;
   mkAlias "rule_params"%string (AliasOf "rule_params"%string) false;
   mkAlias "rule_params"%string Fresh false;
   mkAlias "initial_budget_allocation"%string (AliasOf "initial_budget_allocation"%string) false;
   mkAlias "budget_allocation"%string Fresh false;
   mkAlias "results"%string Fresh true;
   mkAlias "index"%string Scalar false;
   mkAlias "rule"%string Scalar false;
   mkAlias "res"%string RuleResult false;
   mkAlias "sat_profile"%string Fresh false;
   mkAlias "max_social_welfare"%string Scalar false;
   mkAlias "argmax_social_welfare"%string Fresh false;
   mkAlias "argmax_social_welfare"%string Fresh true;
   mkAlias "argmax_social_welfare"%string Scalar false;
   mkAlias "result"%string RuleResult false;
   mkAlias "social_welfare"%string Scalar false].

(* pabutools/rules/greedywelfare/greedywelfare_rule.py:147 greedy_utilitarian_scheme_additive with resoluteness=True, analytics=False
def greedy_utilitarian_scheme_additive(instance: Instance, profile: AbstractProfile, sat_profile: GroupSatisfactionMeasure, budget_allocation: BudgetAllocation, tie_breaking: TieBreakingRule, resoluteness: bool=True, analytics: bool=False) -> BudgetAllocation | list[BudgetAllocation]:
    if not resoluteness:
        return greedy_utilitarian_scheme(instance, profile, sat_profile, budget_allocation, tie_breaking, resoluteness, analytics)
    projects = sorted(instance)
    for project in budget_allocation:
        projects.remove(project)
    projects = tie_breaking.order(instance, profile, projects)

    def satisfaction_density(proj):
        total_sat = sat_profile.total_satisfaction_project(proj)
        if total_sat > 0:
            if proj.cost > 0:
                return frac(total_sat, proj.cost)
            return inf
        return 0
    selection = BudgetAllocation(budget_allocation, details=GreedyWelfareAllocationDetails())
    if analytics:
        selection.details.projects.extend([GreedyWelfareProjectDetails(project, score=satisfaction_density(project)) for project in projects])
    ordered_projects = sorted(projects, key=lambda p: (-satisfaction_density(p), projects.index(p)))
    remaining_budget = instance.budget_limit - total_cost(budget_allocation)
    for project in ordered_projects:
        if project.cost <= remaining_budget:
            selection.append(project)
            remaining_budget -= project.cost
            if analytics:
                selection.details.mark_as_selected(project, remaining_budget)
    return selection *)
Definition gen_greedy_utilitarian_scheme_additive (v_instance : inst) (v_profile : (py_cprofile SC)) (v_sat_profile : (proj -> Q)) (v_budget_allocation : py_alloc) (v_tie_breaking : (proj -> Q)) : py_res py_alloc :=
  let v_projects := (py_sorted_projects (py_instance_iter v_instance)) in
  match py_for (fun (v_projects_1 : py_alloc) v_project => 
    match (py_remove v_projects_1 v_project) with None => (Exit (Raise "ValueError"%string)) | Some rm0 => let v_projects_2 := rm0 in
  (Next v_projects_2) end)
    v_budget_allocation v_projects with
  | inl v_projects_3 => let v_projects_4 := (tb_order_of_key v_tie_breaking v_projects_3) in
  let v_ordered_projects := (py_sorted_neg_then (fun p0 => (let v_total_sat := (v_sat_profile p0) in (if (py_gt v_total_sat 0) then (if (py_gt (py_cost v_instance p0) 0) then (Fin (frac v_total_sat (py_cost v_instance p0))) else PInf) else (Fin 0)))) (fun p0 => (py_index_of v_projects_4 p0)) v_projects_4) in
  let v_remaining_budget := ((budget v_instance) - (py_total_cost v_instance v_budget_allocation)) in
  match py_for (fun (st1 : (py_alloc * Q)%type) v_project_1 => let '(v_selection, v_remaining_budget_1) := st1 in 
    let '(v_selection_2, v_remaining_budget_3) := (if (py_le (py_cost v_instance v_project_1) v_remaining_budget_1)
  then let v_selection_1 := (v_selection ++ [v_project_1]) in
  let v_remaining_budget_2 := (v_remaining_budget_1 - (py_cost v_instance v_project_1)) in
  (v_selection_1, v_remaining_budget_2)
  else (v_selection, v_remaining_budget_1)) in
  (Next (v_selection_2, v_remaining_budget_3)))
    v_ordered_projects (v_budget_allocation, v_remaining_budget) with
  | inl st0 => let '(v_selection_3, v_remaining_budget_4) := st0 in
  (Ok v_selection_3)
  | inr r1 => r1
  end
  | inr r0 => r0
  end.
(* what every variable of the function is bound to, and whether that object is mutated in place *)
Definition gen_alias_greedy_utilitarian_scheme_additive : list py_alias :=
  [mkAlias "instance"%string (AliasOf "instance"%string) false;
   mkAlias "profile"%string Scalar false;
   mkAlias "sat_profile"%string Scalar false;
   mkAlias "budget_allocation"%string (AliasOf "budget_allocation"%string) false;
   mkAlias "tie_breaking"%string Scalar false;
   mkAlias "projects"%string Fresh false;
   mkAlias "projects"%string Fresh true;
   mkAlias "project"%string Scalar false;
   mkAlias "selection"%string Fresh true;
   mkAlias "ordered_projects"%string Fresh false;
   mkAlias "remaining_budget"%string Scalar false].

(* pabutools/rules/phragmen.py:58 sequential_phragmen with resoluteness=True
def sequential_phragmen(instance: Instance, profile: AbstractApprovalProfile, initial_loads: list[Numeric] | None=None, initial_budget_allocation: Collection[Project] | None=None, tie_breaking: TieBreakingRule | None=None, resoluteness: bool=True) -> BudgetAllocation | list[BudgetAllocation]:

    def aux(inst, projects, prof, voters, supporters, approval_scores, alloc, cost, allocs, resolute):
        if len(projects) == 0:
            alloc.sort()
            if alloc not in allocs:
                allocs.append(alloc)
        else:
            min_new_maxload = None
            arg_min_new_maxload = None
            for project in projects:
                if approval_scores[project] == 0:
                    new_maxload = float('inf')
                else:
                    new_maxload = frac(sum((voters[i].total_load() for i in supporters[project])) + project.cost, approval_scores[project])
                if min_new_maxload is None or new_maxload < min_new_maxload:
                    min_new_maxload = new_maxload
                    arg_min_new_maxload = [project]
                elif min_new_maxload == new_maxload:
                    arg_min_new_maxload.append(project)
            if any((cost + project.cost > inst.budget_limit for project in arg_min_new_maxload)):
                alloc.sort()
                if alloc not in allocs:
                    allocs.append(alloc)
            else:
                tied_projects = sorted(arg_min_new_maxload)
                if len(tied_projects) > 1:
                    tied_projects = tie_breaking.order(inst, prof, tied_projects)
                if resolute:
                    selected_project = tied_projects[0]
                    for voter in voters:
                        if selected_project in voter.ballot:
                            voter.load = min_new_maxload
                    alloc.append(selected_project)
                    projects.remove(selected_project)
                    aux(inst, projects, prof, voters, supporters, approval_scores, alloc, cost + selected_project.cost, allocs, resolute)
                else:
                    for selected_project in tied_projects:
                        new_voters = deepcopy(voters)
                        for voter in new_voters:
                            if selected_project in voter.ballot:
                                voter.load = min_new_maxload
                        new_alloc = deepcopy(alloc) + [selected_project]
                        new_cost = cost + selected_project.cost
                        new_projs = deepcopy(projects)
                        new_projs.remove(selected_project)
                        aux(inst, new_projs, prof, new_voters, supporters, approval_scores, new_alloc, new_cost, allocs, resolute)
    if tie_breaking is None:
        tie_breaking = lexico_tie_breaking
    if initial_budget_allocation is None:
        initial_budget_allocation = BudgetAllocation()
    else:
        initial_budget_allocation = BudgetAllocation(initial_budget_allocation)
    current_cost = total_cost(initial_budget_allocation)
    initial_projects = set((p for p in instance if p not in initial_budget_allocation and p.cost <= instance.budget_limit))
    if initial_loads is None:
        voters_details = [PhragmenVoter(b, 0, profile.multiplicity(b)) for b in profile]
    else:
        voters_details = [PhragmenVoter(b, initial_loads[i], profile.multiplicity(b)) for i, b in enumerate(profile)]
    supps = {proj: [i for i, v in enumerate(voters_details) if proj in v.ballot] for proj in initial_projects}
    scores = {project: profile.approval_score(project) for project in instance}
    all_budget_allocations: list[BudgetAllocation] = []
    aux(instance, initial_projects, profile, voters_details, supps, scores, initial_budget_allocation, current_cost, all_budget_allocations, resoluteness)
    if resoluteness:
        return all_budget_allocations[0]
    return all_budget_allocations *)
Definition gen_sequential_phragmen_res (v_instance : inst) (v_profile : py_aprofile) (v_initial_loads : (option (list Q))) (v_initial_budget_allocation : (option py_alloc)) (v_tie_breaking : (option (proj -> Q))) (v_enum : (list proj)) (fuel : nat) : py_res py_alloc :=
  let v_tie_breaking_2 := match v_tie_breaking with
  | None => py_name
  | Some v_tie_breaking_1 => v_tie_breaking_1
  end in
  let v_initial_budget_allocation_3 := match v_initial_budget_allocation with
  | None => let v_initial_budget_allocation_2 := (@nil proj) in
  v_initial_budget_allocation_2
  | Some v_initial_budget_allocation_1 => v_initial_budget_allocation_1
  end in
  let v_current_cost := (py_total_cost v_instance v_initial_budget_allocation_3) in
  let v_initial_projects := (filter (fun v_p => ((negb (py_in_list v_initial_budget_allocation_3 v_p)) && (py_le (py_cost v_instance v_p) (budget v_instance)))) v_enum) in
  let kJ2 := (fun (v_voters_details_1 : (list (aballot * Q * Q)%type)) =>
  let v_all_budget_allocations := (@nil py_alloc) in
  let v_aux := (fix v_aux (fuel1 : nat) (v_projects : py_alloc) (v_voters : (list (aballot * Q * Q)%type)) (v_alloc : py_alloc) (v_cost : Q) (v_allocs : (list py_alloc)) {struct fuel1} : py_res (py_alloc * (list (aballot * Q * Q)%type) * py_alloc * (list py_alloc))%type :=
    match fuel1 with
    | O => OutOfFuel
    | Datatypes.S fuel0 =>
    (if (py_nat_eq (length v_projects) 0%nat)
  then let v_alloc_1 := (py_sorted_projects v_alloc) in
  let v_allocs_2 := (if (negb (py_alloc_in v_alloc_1 v_allocs))
  then let v_allocs_1 := (v_allocs ++ [v_alloc_1]) in
  v_allocs_1
  else v_allocs) in
  (Ok (v_projects, v_voters, v_alloc_1, v_allocs_2))
  else match py_for (fun (st1 : ((option Qx) * (option py_alloc))%type) v_project => let '(v_min_new_maxload, v_arg_min_new_maxload) := st1 in 
    (if (py_eq (py_approval_score v_profile v_project) 0)
  then (if match v_min_new_maxload with None => true | Some n0 => (Qx_ltb PInf n0) end
  then let v_arg_min_new_maxload_1 := [v_project] in
  (Next ((Some PInf), (Some v_arg_min_new_maxload_1)))
  else match v_min_new_maxload with None => (Exit (Raise "TypeError"%string)) | Some v_min_new_maxload_1 => (if (Qx_eqb v_min_new_maxload_1 PInf)
  then match v_arg_min_new_maxload with None => (Exit (Raise "AttributeError"%string)) | Some u0 => let v_arg_min_new_maxload_2 := (Some (u0 ++ [v_project])) in
  (Next ((Some v_min_new_maxload_1), v_arg_min_new_maxload_2)) end
  else (Next ((Some v_min_new_maxload_1), v_arg_min_new_maxload))) end)
  else match (py_all_some (map (fun v_i_3 => match (py_getitem v_voters v_i_3) with None => None | Some g1 => Some ((snd g1) * (snd (fst g1))) end) (map (fun '(v_i_2, v_v_1) => v_i_2) (filter (fun '(v_i_2, v_v_1) => (approves (fst (fst v_v_1)) v_project)) (py_enumerate v_voters_details_1))))) with None => (Exit (Raise "IndexError"%string)) | Some c1 => let v_new_maxload := (frac ((py_sum c1) + (py_cost v_instance v_project)) (py_approval_score v_profile v_project)) in
  (if match v_min_new_maxload with None => true | Some n1 => (Qx_ltb (Fin v_new_maxload) n1) end
  then let v_arg_min_new_maxload_3 := [v_project] in
  (Next ((Some (Fin v_new_maxload)), (Some v_arg_min_new_maxload_3)))
  else match v_min_new_maxload with None => (Exit (Raise "TypeError"%string)) | Some v_min_new_maxload_2 => (if (Qx_eqb v_min_new_maxload_2 (Fin v_new_maxload))
  then match v_arg_min_new_maxload with None => (Exit (Raise "AttributeError"%string)) | Some u1 => let v_arg_min_new_maxload_4 := (Some (u1 ++ [v_project])) in
  (Next ((Some v_min_new_maxload_2), v_arg_min_new_maxload_4)) end
  else (Next ((Some v_min_new_maxload_2), v_arg_min_new_maxload))) end) end))
    v_projects (None, None) with
  | inl st0 => let '(v_min_new_maxload_3, v_arg_min_new_maxload_5) := st0 in
  match v_arg_min_new_maxload_5 with None => (Raise "TypeError"%string) | Some u2 => (if (py_any (map (fun v_project_1 => (py_gt (v_cost + (py_cost v_instance v_project_1)) (budget v_instance))) u2))
  then let v_alloc_2 := (py_sorted_projects v_alloc) in
  let v_allocs_4 := (if (negb (py_alloc_in v_alloc_2 v_allocs))
  then let v_allocs_3 := (v_allocs ++ [v_alloc_2]) in
  v_allocs_3
  else v_allocs) in
  (Ok (v_projects, v_voters, v_alloc_2, v_allocs_4))
  else match v_arg_min_new_maxload_5 with None => (Raise "TypeError"%string) | Some u3 => let v_tied_projects := (py_sorted_projects u3) in
  let v_tied_projects_2 := (if (py_nat_lt 1%nat (length v_tied_projects))
  then let v_tied_projects_1 := (tb_order_of_key v_tie_breaking_2 v_tied_projects) in
  v_tied_projects_1
  else v_tied_projects) in
  match (py_getitem v_tied_projects_2 0%nat) with None => (Raise "IndexError"%string) | Some g2 => let v_acc__1 := (@nil (aballot * Q * Q)%type) in
  match py_for (fun (v_acc__1_1 : (list (aballot * Q * Q)%type)) v_voter => 
    (if (approves (fst (fst v_voter)) g2)
  then match v_min_new_maxload_3 with None => (Exit (Raise "TypeError"%string)) | Some u4 => match (py_finite u4) with None => (Exit (Raise "FloatInfinity"%string)) | Some f0 => let v_voter_1 := ((fst (fst v_voter)), f0, (snd v_voter)) in
  let v_acc__1_2 := (v_acc__1_1 ++ [v_voter_1]) in
  (Next v_acc__1_2) end end
  else let v_acc__1_3 := (v_acc__1_1 ++ [v_voter]) in
  (Next v_acc__1_3)))
    v_voters v_acc__1 with
  | inl v_acc__1_4 => let v_alloc_3 := (v_alloc ++ [g2]) in
  match (py_remove v_projects g2) with None => (Raise "KeyError"%string) | Some rm0 => let v_projects_1 := rm0 in
  match v_aux fuel0 v_projects_1 v_acc__1_4 v_alloc_3 (v_cost + (py_cost v_instance g2)) v_allocs with
  | Ok (s0, s1, s2, s3) => (Ok (s0, s1, s2, s3))
  | Raise e0 => (Raise e0)
  | OutOfFuel => OutOfFuel
  end end
  | inr r1 => r1
  end end end) end
  | inr r0 => r0
  end)
    end) in
  match v_aux fuel v_initial_projects v_voters_details_1 v_initial_budget_allocation_3 v_current_cost v_all_budget_allocations with
  | Ok (s4, s5, s6, s7) => match (py_getitem s7 0%nat) with None => (Raise "IndexError"%string) | Some g3 => (Ok g3) end
  | Raise e1 => (Raise e1)
  | OutOfFuel => OutOfFuel
  end) in
  match v_initial_loads with
  | None => let v_voters_details := (map (fun v_b => (v_b, 0, (Qnat (amul v_b)))) v_profile) in
  (kJ2 v_voters_details)
  | Some v_initial_loads_1 => match (py_all_some (map (fun '(v_i, v_b_1) => match (py_getitem v_initial_loads_1 v_i) with None => None | Some g0 => Some (v_b_1, g0, (Qnat (amul v_b_1))) end) (py_enumerate v_profile))) with None => (Raise "IndexError"%string) | Some c0 => (kJ2 c0) end
  end.
(* what every variable of the function is bound to, and whether that object is mutated in place *)
Definition gen_alias_sequential_phragmen_res : list py_alias :=
  [mkAlias "instance"%string (AliasOf "instance"%string) false;
   mkAlias "profile"%string Scalar false;
   mkAlias "initial_loads"%string (AliasOf "initial_loads"%string) false;
   mkAlias "initial_budget_allocation"%string (AliasOf "initial_budget_allocation"%string) false;
   mkAlias "initial_budget_allocation"%string Fresh true;
   mkAlias "tie_breaking"%string Scalar false;
   mkAlias "current_cost"%string Scalar false;
   mkAlias "initial_projects"%string Fresh true;
   mkAlias "voters_details"%string Fresh true;
   mkAlias "supps"%string Scalar false;
   mkAlias "scores"%string Scalar false;
   mkAlias "all_budget_allocations"%string Fresh true;
   mkAlias "projects"%string Fresh true;
   mkAlias "voters"%string Fresh true;
   mkAlias "alloc"%string Fresh true;
   mkAlias "cost"%string Scalar false;
   mkAlias "allocs"%string Fresh true;
   mkAlias "min_new_maxload"%string Scalar false;
   mkAlias "arg_min_new_maxload"%string Fresh false;
   mkAlias "arg_min_new_maxload"%string Fresh true;
   mkAlias "arg_min_new_maxload"%string Scalar false;
   mkAlias "project"%string Scalar false;
   mkAlias "new_maxload"%string Scalar false;
   mkAlias "tied_projects"%string Fresh false;
   mkAlias "selected_project"%string Scalar false;
   mkAlias "acc__1"%string Fresh true;
   mkAlias "voter"%string Fresh true].

(* pabutools/rules/phragmen.py:58 sequential_phragmen with resoluteness=False
def sequential_phragmen(instance: Instance, profile: AbstractApprovalProfile, initial_loads: list[Numeric] | None=None, initial_budget_allocation: Collection[Project] | None=None, tie_breaking: TieBreakingRule | None=None, resoluteness: bool=True) -> BudgetAllocation | list[BudgetAllocation]:

    def aux(inst, projects, prof, voters, supporters, approval_scores, alloc, cost, allocs, resolute):
        if len(projects) == 0:
            alloc.sort()
            if alloc not in allocs:
                allocs.append(alloc)
        else:
            min_new_maxload = None
            arg_min_new_maxload = None
            for project in projects:
                if approval_scores[project] == 0:
                    new_maxload = float('inf')
                else:
                    new_maxload = frac(sum((voters[i].total_load() for i in supporters[project])) + project.cost, approval_scores[project])
                if min_new_maxload is None or new_maxload < min_new_maxload:
                    min_new_maxload = new_maxload
                    arg_min_new_maxload = [project]
                elif min_new_maxload == new_maxload:
                    arg_min_new_maxload.append(project)
            if any((cost + project.cost > inst.budget_limit for project in arg_min_new_maxload)):
                alloc.sort()
                if alloc not in allocs:
                    allocs.append(alloc)
            else:
                tied_projects = sorted(arg_min_new_maxload)
                if len(tied_projects) > 1:
                    tied_projects = tie_breaking.order(inst, prof, tied_projects)
                if resolute:
                    selected_project = tied_projects[0]
                    for voter in voters:
                        if selected_project in voter.ballot:
                            voter.load = min_new_maxload
                    alloc.append(selected_project)
                    projects.remove(selected_project)
                    aux(inst, projects, prof, voters, supporters, approval_scores, alloc, cost + selected_project.cost, allocs, resolute)
                else:
                    for selected_project in tied_projects:
                        new_voters = deepcopy(voters)
                        for voter in new_voters:
                            if selected_project in voter.ballot:
                                voter.load = min_new_maxload
                        new_alloc = deepcopy(alloc) + [selected_project]
                        new_cost = cost + selected_project.cost
                        new_projs = deepcopy(projects)
                        new_projs.remove(selected_project)
                        aux(inst, new_projs, prof, new_voters, supporters, approval_scores, new_alloc, new_cost, allocs, resolute)
    if tie_breaking is None:
        tie_breaking = lexico_tie_breaking
    if initial_budget_allocation is None:
        initial_budget_allocation = BudgetAllocation()
    else:
        initial_budget_allocation = BudgetAllocation(initial_budget_allocation)
    current_cost = total_cost(initial_budget_allocation)
    initial_projects = set((p for p in instance if p not in initial_budget_allocation and p.cost <= instance.budget_limit))
    if initial_loads is None:
        voters_details = [PhragmenVoter(b, 0, profile.multiplicity(b)) for b in profile]
    else:
        voters_details = [PhragmenVoter(b, initial_loads[i], profile.multiplicity(b)) for i, b in enumerate(profile)]
    supps = {proj: [i for i, v in enumerate(voters_details) if proj in v.ballot] for proj in initial_projects}
    scores = {project: profile.approval_score(project) for project in instance}
    all_budget_allocations: list[BudgetAllocation] = []
    aux(instance, initial_projects, profile, voters_details, supps, scores, initial_budget_allocation, current_cost, all_budget_allocations, resoluteness)
    if resoluteness:
        return all_budget_allocations[0]
    return all_budget_allocations *)
Definition gen_sequential_phragmen_irr (v_instance : inst) (v_profile : py_aprofile) (v_initial_loads : (option (list Q))) (v_initial_budget_allocation : (option py_alloc)) (v_tie_breaking : (option (proj -> Q))) (v_enum : (list proj)) (fuel : nat) : py_res (list py_alloc) :=
  let v_tie_breaking_2 := match v_tie_breaking with
  | None => py_name
  | Some v_tie_breaking_1 => v_tie_breaking_1
  end in
  let v_initial_budget_allocation_3 := match v_initial_budget_allocation with
  | None => let v_initial_budget_allocation_2 := (@nil proj) in
  v_initial_budget_allocation_2
  | Some v_initial_budget_allocation_1 => v_initial_budget_allocation_1
  end in
  let v_current_cost := (py_total_cost v_instance v_initial_budget_allocation_3) in
  let v_initial_projects := (filter (fun v_p => ((negb (py_in_list v_initial_budget_allocation_3 v_p)) && (py_le (py_cost v_instance v_p) (budget v_instance)))) v_enum) in
  let kJ2 := (fun (v_voters_details_1 : (list (aballot * Q * Q)%type)) =>
  let v_all_budget_allocations := (@nil py_alloc) in
  let v_aux := (fix v_aux (fuel1 : nat) (v_projects : py_alloc) (v_voters : (list (aballot * Q * Q)%type)) (v_alloc : py_alloc) (v_cost : Q) (v_allocs : (list py_alloc)) {struct fuel1} : py_res (py_alloc * (list (aballot * Q * Q)%type) * py_alloc * (list py_alloc))%type :=
    match fuel1 with
    | O => OutOfFuel
    | Datatypes.S fuel0 =>
    (if (py_nat_eq (length v_projects) 0%nat)
  then let v_alloc_1 := (py_sorted_projects v_alloc) in
  let v_allocs_2 := (if (negb (py_alloc_in v_alloc_1 v_allocs))
  then let v_allocs_1 := (v_allocs ++ [v_alloc_1]) in
  v_allocs_1
  else v_allocs) in
  (Ok (v_projects, v_voters, v_alloc_1, v_allocs_2))
  else match py_for (fun (st1 : ((option Qx) * (option py_alloc))%type) v_project => let '(v_min_new_maxload, v_arg_min_new_maxload) := st1 in 
    (if (py_eq (py_approval_score v_profile v_project) 0)
  then (if match v_min_new_maxload with None => true | Some n0 => (Qx_ltb PInf n0) end
  then let v_arg_min_new_maxload_1 := [v_project] in
  (Next ((Some PInf), (Some v_arg_min_new_maxload_1)))
  else match v_min_new_maxload with None => (Exit (Raise "TypeError"%string)) | Some v_min_new_maxload_1 => (if (Qx_eqb v_min_new_maxload_1 PInf)
  then match v_arg_min_new_maxload with None => (Exit (Raise "AttributeError"%string)) | Some u0 => let v_arg_min_new_maxload_2 := (Some (u0 ++ [v_project])) in
  (Next ((Some v_min_new_maxload_1), v_arg_min_new_maxload_2)) end
  else (Next ((Some v_min_new_maxload_1), v_arg_min_new_maxload))) end)
  else match (py_all_some (map (fun v_i_3 => match (py_getitem v_voters v_i_3) with None => None | Some g1 => Some ((snd g1) * (snd (fst g1))) end) (map (fun '(v_i_2, v_v_1) => v_i_2) (filter (fun '(v_i_2, v_v_1) => (approves (fst (fst v_v_1)) v_project)) (py_enumerate v_voters_details_1))))) with None => (Exit (Raise "IndexError"%string)) | Some c1 => let v_new_maxload := (frac ((py_sum c1) + (py_cost v_instance v_project)) (py_approval_score v_profile v_project)) in
  (if match v_min_new_maxload with None => true | Some n1 => (Qx_ltb (Fin v_new_maxload) n1) end
  then let v_arg_min_new_maxload_3 := [v_project] in
  (Next ((Some (Fin v_new_maxload)), (Some v_arg_min_new_maxload_3)))
  else match v_min_new_maxload with None => (Exit (Raise "TypeError"%string)) | Some v_min_new_maxload_2 => (if (Qx_eqb v_min_new_maxload_2 (Fin v_new_maxload))
  then match v_arg_min_new_maxload with None => (Exit (Raise "AttributeError"%string)) | Some u1 => let v_arg_min_new_maxload_4 := (Some (u1 ++ [v_project])) in
  (Next ((Some v_min_new_maxload_2), v_arg_min_new_maxload_4)) end
  else (Next ((Some v_min_new_maxload_2), v_arg_min_new_maxload))) end) end))
    v_projects (None, None) with
  | inl st0 => let '(v_min_new_maxload_3, v_arg_min_new_maxload_5) := st0 in
  match v_arg_min_new_maxload_5 with None => (Raise "TypeError"%string) | Some u2 => (if (py_any (map (fun v_project_1 => (py_gt (v_cost + (py_cost v_instance v_project_1)) (budget v_instance))) u2))
  then let v_alloc_2 := (py_sorted_projects v_alloc) in
  let v_allocs_4 := (if (negb (py_alloc_in v_alloc_2 v_allocs))
  then let v_allocs_3 := (v_allocs ++ [v_alloc_2]) in
  v_allocs_3
  else v_allocs) in
  (Ok (v_projects, v_voters, v_alloc_2, v_allocs_4))
  else match v_arg_min_new_maxload_5 with None => (Raise "TypeError"%string) | Some u3 => let v_tied_projects := (py_sorted_projects u3) in
  let v_tied_projects_2 := (if (py_nat_lt 1%nat (length v_tied_projects))
  then let v_tied_projects_1 := (tb_order_of_key v_tie_breaking_2 v_tied_projects) in
  v_tied_projects_1
  else v_tied_projects) in
  match py_for (fun (v_allocs_5 : (list py_alloc)) v_selected_project => 
    let v_acc__1 := (@nil (aballot * Q * Q)%type) in
  match py_for (fun (v_acc__1_1 : (list (aballot * Q * Q)%type)) v_voter => 
    (if (approves (fst (fst v_voter)) v_selected_project)
  then match v_min_new_maxload_3 with None => (Exit (Raise "TypeError"%string)) | Some u4 => match (py_finite u4) with None => (Exit (Raise "FloatInfinity"%string)) | Some f0 => let v_voter_1 := ((fst (fst v_voter)), f0, (snd v_voter)) in
  let v_acc__1_2 := (v_acc__1_1 ++ [v_voter_1]) in
  (Next v_acc__1_2) end end
  else let v_acc__1_3 := (v_acc__1_1 ++ [v_voter]) in
  (Next v_acc__1_3)))
    v_voters v_acc__1 with
  | inl v_acc__1_4 => let v_new_alloc := (v_alloc ++ [v_selected_project]) in
  let v_new_cost := (v_cost + (py_cost v_instance v_selected_project)) in
  match (py_remove v_projects v_selected_project) with None => (Exit (Raise "KeyError"%string)) | Some rm0 => let v_new_projs := rm0 in
  match v_aux fuel0 v_new_projs v_acc__1_4 v_new_alloc v_new_cost v_allocs_5 with
  | Ok (s0, s1, s2, s3) => (Next s3)
  | Raise e0 => (Exit (Raise e0))
  | OutOfFuel => (Exit OutOfFuel)
  end end
  | inr r1 => (Exit r1)
  end)
    v_tied_projects_2 v_allocs with
  | inl v_allocs_6 => (Ok (v_projects, v_voters, v_alloc, v_allocs_6))
  | inr r2 => r2
  end end) end
  | inr r0 => r0
  end)
    end) in
  match v_aux fuel v_initial_projects v_voters_details_1 v_initial_budget_allocation_3 v_current_cost v_all_budget_allocations with
  | Ok (s4, s5, s6, s7) => (Ok s7)
  | Raise e1 => (Raise e1)
  | OutOfFuel => OutOfFuel
  end) in
  match v_initial_loads with
  | None => let v_voters_details := (map (fun v_b => (v_b, 0, (Qnat (amul v_b)))) v_profile) in
  (kJ2 v_voters_details)
  | Some v_initial_loads_1 => match (py_all_some (map (fun '(v_i, v_b_1) => match (py_getitem v_initial_loads_1 v_i) with None => None | Some g0 => Some (v_b_1, g0, (Qnat (amul v_b_1))) end) (py_enumerate v_profile))) with None => (Raise "IndexError"%string) | Some c0 => (kJ2 c0) end
  end.
(* what every variable of the function is bound to, and whether that object is mutated in place *)
Definition gen_alias_sequential_phragmen_irr : list py_alias :=
  [mkAlias "instance"%string (AliasOf "instance"%string) false;
   mkAlias "profile"%string Scalar false;
   mkAlias "initial_loads"%string (AliasOf "initial_loads"%string) false;
   mkAlias "initial_budget_allocation"%string (AliasOf "initial_budget_allocation"%string) false;
   mkAlias "initial_budget_allocation"%string Fresh true;
   mkAlias "tie_breaking"%string Scalar false;
   mkAlias "current_cost"%string Scalar false;
   mkAlias "initial_projects"%string Fresh true;
   mkAlias "voters_details"%string Fresh true;
   mkAlias "supps"%string Scalar false;
   mkAlias "scores"%string Scalar false;
   mkAlias "all_budget_allocations"%string Fresh true;
   mkAlias "projects"%string Fresh false;
   mkAlias "voters"%string Fresh false;
   mkAlias "alloc"%string Fresh true;
   mkAlias "cost"%string Scalar false;
   mkAlias "allocs"%string Fresh true;
   mkAlias "min_new_maxload"%string Scalar false;
   mkAlias "arg_min_new_maxload"%string Fresh false;
   mkAlias "arg_min_new_maxload"%string Fresh true;
   mkAlias "arg_min_new_maxload"%string Scalar false;
   mkAlias "project"%string Scalar false;
   mkAlias "new_maxload"%string Scalar false;
   mkAlias "tied_projects"%string Fresh false;
   mkAlias "selected_project"%string Scalar false;
   mkAlias "new_voters"%string Fresh true;
   mkAlias "acc__1"%string Fresh true;
   mkAlias "voter"%string Fresh true;
   mkAlias "new_alloc"%string Fresh true;
   mkAlias "new_cost"%string Scalar false;
   mkAlias "new_projs"%string Fresh true].

End Gen.
Definition gen_untranslated_exhaustion : list string := [].
Definition gen_untranslated_composition : list string := [].
Definition gen_untranslated_greedy : list string := [].
Definition gen_untranslated_phragmen : list string := [].
