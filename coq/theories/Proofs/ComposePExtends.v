(* Proofs/ComposePExtends.v -- the three rule models extend the allocation they start from WHATEVER it is (also an
   infeasible or ill-formed one): purely structural, no hypothesis.  This is the unconditional [incl a (r a)] that
   C09_completion_spec_resolute / _irresolute ask for; with it the ORIGINAL abstract theorems can be instantiated
   (C09rules_completion_contract_literal), not only the relative forms of ComposeP.v. *)
From PB Require Import Model.Compose Proofs.InstanceP Proofs.ExhaustionP Proofs.ComposeP Proofs.ComposePRules
  Proofs.ComposePIncrease Proofs.ComposePCompletion.
From PB Require Proofs.MesRun Proofs.MesFeasible Proofs.GreedyP Proofs.PhragmenP.
Open Scope Q_scope.

(* ---------- Equal Shares ---------- *)
Theorem mes_rule_res_extends cs P tb enum bin b a : incl a (mes_rule_res cs P tb enum bin b a).
Proof.
  unfold mes_rule_res, MesRule.mes_resolute, MesRule.run_once_res.
  destruct (MesRule.run_res _ _ _ _ _ _ _) as [[[[alloc tr] fin] rest]|] eqn:E; simpl; [|apply incl_refl].
  apply MesRun.run_res_steps in E. destruct E as [s [_ [_ [_ [_ [T' [_ ->]]]]]]].
  unfold MesRule.start_alloc. cbn [MesRule.mi_init mes_input].
  intros p Hp. apply in_or_app. left. apply in_or_app. left. exact Hp.
Qed.

Lemma steps_acc_incl P tb s s' : MesRun.steps P tb s s' -> incl (MesRun.s_acc s) (MesRun.s_acc s').
Proof.
  induction 1 as [|s s' s'' H1 _ IH]; [apply incl_refl|].
  eapply incl_tran; [|exact IH]. destruct H1. cbn [MesRun.s_acc]. apply incl_appl. apply incl_refl.
Qed.

Theorem mes_rule_irr_extends cs P tb enum bin b a W : In W (mes_rule_irr cs P tb enum bin b a) -> incl a W.
Proof.
  unfold mes_rule_irr, MesRule.mes_irresolute, MesRule.run_once_irr.
  destruct (MesRule.run_irr _ _ _ _ _ _) as [L|] eqn:E; simpl; [|intros []].
  intros HW. apply MesFeasible.dedup_In in HW.
  destruct (MesRun.run_irr_steps _ _ _ _ _ _ _ E W HW) as [s [rest [Hs [_ ->]]]].
  apply steps_acc_incl in Hs. cbn [MesRun.s_acc] in Hs.
  intros p Hp. unfold MesRule.sort_alloc. apply isort_In. apply Hs.
  unfold MesRule.start_alloc. cbn [MesRule.mi_init mes_input]. apply in_or_app. left. exact Hp.
Qed.

(* ---------- greedy ---------- *)
Lemma greedy_opt_concat_In {X S} (g : S -> option (list X)) : forall l L W,
  GreedyRule.opt_concat (map g l) = Some L -> In W L -> exists s ls, In s l /\ g s = Some ls /\ In W ls.
Proof.
  induction l as [|s r IH]; simpl; intros L W H HW.
  - injection H as <-. destruct HW.
  - destruct (g s) as [a|] eqn:Eg; [|discriminate].
    destruct (GreedyRule.opt_concat (map g r)) as [b0|] eqn:Er; [|discriminate].
    injection H as <-. apply in_app_iff in HW. destruct HW as [HW|HW].
    + exists s, a. split; [left; reflexivity|]. split; [exact Eg|exact HW].
    + destruct (IH b0 W eq_refl HW) as [s' [ls [H1 [H2 H3]]]]. exists s', ls. split; [right; exact H1|]. split; assumption.
Qed.

Lemma gen_leaves_extends I sat tb resolute : forall fuel feas alloc L,
  GreedyRule.gen_leaves I sat tb resolute fuel feas alloc = Some L -> forall W, In W L -> incl alloc W.
Proof.
  induction fuel as [|f IH]; intros feas alloc L H W HW; destruct feas as [|p0 r]; simpl in H;
    try discriminate; try (injection H as <-; destruct HW as [<-|[]]; apply incl_refl).
  destruct (greedy_opt_concat_In _ _ _ _ H HW) as [s [ls [_ [Hs Hin]]]].
  eapply incl_tran; [|apply (IH _ _ _ Hs W Hin)]. apply incl_appl. apply incl_refl.
Qed.

Lemma dedup_sorted_In : forall leaves seen X,
  In X (GreedyRule.dedup_sorted seen leaves) -> In X seen \/ exists a, In a leaves /\ X = name_sort a.
Proof.
  induction leaves as [|a r IH]; simpl; intros seen X H; [left; exact H|].
  destruct (existsb (GreedyRule.nl_eqb (name_sort a)) seen).
  - destruct (IH _ _ H) as [H1|[a' [H1 H2]]]; [left; exact H1|right; exists a'; split; [right; exact H1|exact H2]].
  - destruct (IH _ _ H) as [H1|[a' [H1 H2]]].
    + apply in_app_or in H1. destruct H1 as [H1|[<-|[]]]; [left; exact H1|].
      right. exists a. split; [left; reflexivity|reflexivity].
    + right. exists a'. split; [right; exact H1|exact H2].
Qed.

Theorem greedy_rule_res_extends cs sat sp tb additive b a : incl a (greedy_rule_res cs sat sp tb additive b a).
Proof.
  unfold greedy_rule_res. destruct additive; simpl.
  - unfold GreedyRule.greedy_add_res. apply incl_appl. apply incl_refl.
  - unfold GreedyRule.greedy_gen_res.
    destruct (GreedyRule.gen_leaves _ _ _ _ _ _ _) as [[|W L]|] eqn:E; simpl; try apply incl_refl.
    apply (gen_leaves_extends _ _ _ _ _ _ _ _ E W). left. reflexivity.
Qed.

Theorem greedy_rule_irr_extends cs sat tb additive b a W : In W (greedy_rule_irr cs sat tb additive b a) -> incl a W.
Proof.
  unfold greedy_rule_irr, GreedyRule.greedy_welfare_irr, GreedyRule.greedy_gen_irr.
  destruct (GreedyRule.gen_leaves _ _ _ _ _ _ _) as [L|] eqn:E; simpl; [|intros []].
  intros HW. apply dedup_sorted_In in HW. destruct HW as [[]|[a0 [H1 ->]]].
  intros p Hp. unfold name_sort. apply isort_In. apply (gen_leaves_extends _ _ _ _ _ _ _ _ E a0 H1). exact Hp.
Qed.

(* ---------- sequential Phragmen ---------- *)
Lemma phr_res_extends I A tb : forall fuel projs loads alloc c W,
  Phragmen.phr_res fuel I A tb projs loads alloc c = Some W -> incl alloc W.
Proof.
  induction fuel as [|f IH]; intros projs loads alloc c W H; destruct projs as [|p0 r]; cbn [Phragmen.phr_res] in H;
    try (injection H as <-; apply incl_refl);
    destruct (Phragmen.phr_round I A tb loads (p0 :: r) c) as [|tied t];
    try (injection H as <-; apply incl_refl); try discriminate.
  destruct tied as [|p tl]; [discriminate|].
  eapply incl_tran; [|apply (IH _ _ _ _ _ H)]. apply incl_appl. apply incl_refl.
Qed.

Lemma phr_irr_extends I A tb : forall fuel projs loads alloc c Ws W,
  Phragmen.phr_irr fuel I A tb projs loads alloc c = Some Ws -> In W Ws -> incl alloc W.
Proof.
  induction fuel as [|f IH]; intros projs loads alloc c Ws W H HW; destruct projs as [|p0 r];
    cbn [Phragmen.phr_irr] in H;
    try (injection H as <-; destruct HW as [<-|[]]; apply incl_refl);
    destruct (Phragmen.phr_round I A tb loads (p0 :: r) c) as [|tied t];
    try (injection H as <-; destruct HW as [<-|[]]; apply incl_refl); try discriminate.
  destruct (PhragmenP.opt_concat_In _ _ _ H HW) as [ls [Hl Hin]].
  apply in_map_iff in Hl. destruct Hl as [p [Ep _]].
  eapply incl_tran; [|apply (IH _ _ _ _ _ _ Ep Hin)]. apply incl_appl. apply incl_refl.
Qed.

Theorem phr_rule_res_extends cs A tb enum loads b a : incl a (phr_rule_res cs A tb enum loads b a).
Proof.
  unfold phr_rule_res, Phragmen.phragmen_res.
  destruct (Phragmen.phr_res _ _ _ _ _ _ _ _) as [W|] eqn:E; simpl; [|apply incl_refl].
  intros p Hp. apply PhragmenP.name_sort_In. apply (phr_res_extends _ _ _ _ _ _ _ _ _ E). exact Hp.
Qed.

Theorem phr_rule_irr_extends cs A tb enum loads b a W : In W (phr_rule_irr cs A tb enum loads b a) -> incl a W.
Proof.
  unfold phr_rule_irr, Phragmen.phragmen_irr.
  destruct (Phragmen.phr_irr _ _ _ _ _ _ _ _) as [Ws|] eqn:E; simpl; [|intros []].
  intros HW. apply PhragmenP.dedup_nl_In in HW. apply in_map_iff in HW. destruct HW as [W0 [<- H0]].
  intros p Hp. apply PhragmenP.name_sort_In. apply (phr_irr_extends _ _ _ _ _ _ _ _ _ _ E H0). exact Hp.
Qed.

(* ---------- the irresolute models never return an empty list ---------- *)
Lemma fold_opt_none {A B} (g : A -> option (list B)) : forall l,
  fold_left (fun res a => match res with
                          | None => None
                          | Some L1 => match g a with None => None | Some L' => Some (L1 ++ L') end
                          end) l None = None.
Proof. induction l as [|a r IH]; simpl; [reflexivity|exact IH]. Qed.

Lemma fold_opt_prefix {A B} (g : A -> option (list B)) : forall l L0 L,
  fold_left (fun res a => match res with
                          | None => None
                          | Some L1 => match g a with None => None | Some L' => Some (L1 ++ L') end
                          end) l (Some L0) = Some L -> exists L', L = L0 ++ L'.
Proof.
  induction l as [|a r IH]; intros L0 L H; simpl in H.
  - injection H as <-. exists []. rewrite app_nil_r. reflexivity.
  - destruct (g a) as [L'|]; [|rewrite fold_opt_none in H; discriminate].
    destruct (IH _ _ H) as [L'' ->]. exists (L' ++ L''). rewrite app_assoc. reflexivity.
Qed.

Lemma run_irr_nonempty P tb : forall fuel buds projects acc L,
  MesRule.run_irr fuel P tb buds projects acc = Some L -> L <> [].
Proof.
  induction fuel as [|f IH]; intros buds projects acc L E; [discriminate|].
  rewrite MesRun.run_irr_S in E.
  destruct (MesRule.round_scan P buds projects) as [[best tied] projects'].
  destruct best as [rho|]; [|injection E as <-; discriminate].
  destruct (MesRule.pick_order tb tied) as [|sel0 rest']; [injection E as <-; discriminate|].
  cbn [fold_left] in E.
  destruct (MesRule.run_irr f P tb (MesRule.pay P sel0 rho buds)
              (MesRule.remove_proj (MesRule.mp_id sel0) projects') (acc ++ [MesRule.mp_id sel0])) as [L0|] eqn:E0.
  - apply fold_opt_prefix in E. destruct E as [L' ->]. apply IH in E0.
    destruct L0 as [|w L0']; [exfalso; apply E0; reflexivity|simpl; discriminate].
  - rewrite fold_opt_none in E. discriminate.
Qed.

Theorem mes_rule_irr_nonempty cs P tb enum bin b a : mes_rule_irr cs P tb enum bin b a <> [].
Proof.
  pose proof (mes_rule_irr_some cs P tb enum bin b a) as Hsome.
  unfold MesRule.mes_irresolute, MesRule.run_once_irr in Hsome.
  destruct (MesRule.run_irr _ _ _ _ _ _) as [L|] eqn:E; [|discriminate].
  injection Hsome as Hsome. rewrite <- Hsome. apply run_irr_nonempty in E.
  destruct L as [|W0 L']; [contradiction|simpl; discriminate].
Qed.

Lemma phr_irr_nonempty I A tb : forall fuel projs loads alloc c Ws,
  Phragmen.phr_irr fuel I A tb projs loads alloc c = Some Ws -> Ws <> [].
Proof.
  induction fuel as [|f IH]; intros projs lds al c Ws E; destruct projs as [|p0 r]; cbn [Phragmen.phr_irr] in E;
    try (injection E as <-; discriminate);
    destruct (Phragmen.phr_round I A tb lds (p0 :: r) c) as [|tied t] eqn:ER;
    try (injection E as <-; discriminate); try discriminate.
  destruct (PhragmenP.phr_round_pick _ _ _ _ _ _ _ _ ER) as [_ Hne].
  destruct tied as [|p tl]; [exfalso; apply Hne; [discriminate|reflexivity]|].
  cbn [map Phragmen.opt_concat] in E.
  destruct (Phragmen.phr_irr f I A tb _ _ _ _) as [L0|] eqn:E0; [|discriminate].
  destruct (Phragmen.opt_concat _) as [L1|]; [|discriminate].
  injection E as <-. pose proof (IH _ _ _ _ _ E0) as H0.
  destruct L0 as [|w L0']; [exfalso; apply H0; reflexivity|simpl; discriminate].
Qed.

Theorem phr_rule_irr_nonempty cs A tb enum loads b a : phr_rule_irr cs A tb enum loads b a <> [].
Proof.
  pose proof (phr_rule_irr_some cs A tb enum loads b a) as Hsome.
  unfold Phragmen.phragmen_irr in Hsome.
  destruct (Phragmen.phr_irr _ _ _ _ _ _ _ _) as [Ws|] eqn:E; [|discriminate].
  simpl in Hsome. injection Hsome as Hsome. rewrite <- Hsome. apply phr_irr_nonempty in E.
  destruct Ws as [|W0 Ws']; [contradiction|]. simpl. discriminate.
Qed.

(* ---------- the LITERAL hypotheses of C09_completion_spec_resolute / _irresolute ---------- *)
Theorem rule_models_completion_contract_literal cs B P tb enum bin sat sp gtb additive A ptb penum loads :
  mes_side cs P enum -> NoDup penum -> (forall p, In p penum -> (p < length cs)%nat) -> 0 < B ->
  let I := mkInst cs B in
  let rules := [mes_rule_res cs P tb enum bin B; greedy_rule_res cs sat sp gtb additive B;
                phr_rule_res cs A ptb penum loads B] in
  (forall r a, In r rules -> incl a (r a)) /\
  (forall r a, In r rules -> feasible I a -> feasible I (r a)).
Proof.
  intros Hs Hpe Hper HB I rules.
  assert (Hc : Forall (fun c => 0 <= c) cs) by apply Hs.
  split.
  - intros r a [<-|[<-|[<-|[]]]];
      [apply mes_rule_res_extends|apply greedy_rule_res_extends|apply phr_rule_res_extends].
  - intros r a Hr Ha.
    apply (rule_models_completion_contract cs B P tb enum bin sat sp gtb additive A ptb penum loads
             Hs Hc Hpe Hper HB r Hr a Ha).
Qed.

Theorem rule_models_completion_contract_literal_irr cs B P tb enum bin sat gtb additive A ptb penum loads :
  mes_side cs P enum -> NoDup penum -> (forall p, In p penum -> (p < length cs)%nat) -> 0 < B ->
  let I := mkInst cs B in
  let rules := [mes_rule_irr cs P tb enum bin B; greedy_rule_irr cs sat gtb additive B;
                phr_rule_irr cs A ptb penum loads B] in
  (forall r a W, In r rules -> In W (r a) -> incl a W) /\
  (forall r a W, In r rules -> feasible I a -> In W (r a) -> feasible I W) /\
  (forall r a, In r rules -> r a <> []).
Proof.
  intros Hs Hpe Hper HB I rules.
  assert (Hc : Forall (fun c => 0 <= c) cs) by apply Hs.
  split; [|split].
  - intros r a W [<-|[<-|[<-|[]]]];
      [apply mes_rule_irr_extends|apply greedy_rule_irr_extends|apply phr_rule_irr_extends].
  - intros r a W [<-|[<-|[<-|[]]]] Ha HW.
    + apply (mes_completes_ok_irr cs B P tb enum bin Hs HB a Ha W HW).
    + apply (greedy_completes_ok_irr cs B sat gtb additive Hc a Ha W HW).
    + apply (phr_completes_ok_irr cs B A ptb penum loads Hpe Hper a Ha W HW).
  - intros r a [<-|[<-|[<-|[]]]].
    + apply mes_rule_irr_nonempty.
    + destruct (greedy_rule_irr_some cs sat (fun _ => 0) gtb Hc additive B a) as [_ Hne]. exact Hne.
    + apply phr_rule_irr_nonempty.
Qed.

(* ---------- C09_completion_spec_irresolute instantiated as it stands: nothing is dropped ---------- *)
Theorem completion_irr_covers_models cs B P tb enum bin sat gtb additive A ptb penum loads
  (r2 : alloc -> list alloc) init :
  mes_side cs P enum -> NoDup penum -> (forall p, In p penum -> (p < length cs)%nat) -> 0 < B ->
  feasible (mkInst cs B) init ->
  In r2 [mes_rule_irr cs P tb enum bin B; greedy_rule_irr cs sat gtb additive B; phr_rule_irr cs A ptb penum loads B] ->
  forall a, In a (mes_rule_irr cs P tb enum bin B init) ->
  exists W, In W (completion_irr (mkInst cs B) [mes_rule_irr cs P tb enum bin B; r2] init) /\ incl a W.
Proof.
  intros Hs Hpe Hper HB Hinit Hr2.
  destruct (rule_models_completion_contract_literal_irr cs B P tb enum bin sat gtb additive A ptb penum loads
              Hs Hpe Hper HB) as [C1 [C2 C3]].
  assert (Hsub : forall r, In r [mes_rule_irr cs P tb enum bin B; r2] ->
            In r [mes_rule_irr cs P tb enum bin B; greedy_rule_irr cs sat gtb additive B;
                  phr_rule_irr cs A ptb penum loads B]).
  { intros r [<-|[<-|[]]]; [left; reflexivity|exact Hr2]. }
  destruct (completion_irr_spec (mkInst cs B) (mes_rule_irr cs P tb enum bin B) [r2] init) as [_ Hcov].
  - intros r a W Hr. apply C1. apply Hsub. exact Hr.
  - intros r a W Hr. apply C2. apply Hsub. exact Hr.
  - intros r a Hr. apply C3. apply Hsub. right. exact Hr.
  - exact Hinit.
  - exact Hcov.
Qed.
