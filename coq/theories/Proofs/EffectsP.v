(* Proofs/EffectsP.v -- the frame theorem of the effect language of Model/Effects.v (C20). *)
From PB Require Import Model.Effects.
Open Scope Q_scope.

Lemma exec_nil fuel progs args locals s : exec fuel progs args [] locals s = s.
Proof. destruct fuel; reflexivity. Qed.

Lemma exec_cons fuel progs args st rest locals s :
  exec fuel progs args (st :: rest) locals s =
  match st with
  | SCopy src =>
      match resolve args locals src with
      | Some l => exec fuel progs args rest (locals ++ [length s]) (s ++ [mkCell (vis (get s l)) []])
      | None => exec fuel progs args rest locals s
      end
  | SNew v => exec fuel progs args rest (locals ++ [length s]) (s ++ [mkCell v []])
  | SSetKey dst key v =>
      match resolve args locals dst with
      | Some l => exec fuel progs args rest locals (upd s l (fun c => mkCell (set_key key v (vis c)) (memo c)))
      | None => exec fuel progs args rest locals s
      end
  | SAppend dst v =>
      match resolve args locals dst with
      | Some l => exec fuel progs args rest locals (upd s l (fun c => mkCell (append_kid v (vis c)) (memo c)))
      | None => exec fuel progs args rest locals s
      end
  | SMemo dst key v =>
      match resolve args locals dst with
      | Some l => exec fuel progs args rest locals (upd s l (fun c => mkCell (vis c) ((key, v) :: memo c)))
      | None => exec fuel progs args rest locals s
      end
  | SCall f rs =>
      match fuel with
      | O => exec fuel progs args rest locals s
      | S fuel' =>
          exec fuel progs args rest locals (exec fuel' progs (resolve_all args locals rs) (progs f) [] s)
      end
  end.
Proof. destruct fuel; destruct st; reflexivity. Qed.

Lemma set_nth_length A (x : A) l : forall n, length (set_nth n x l) = length l.
Proof. induction l as [|y r IH]; intros [|n]; simpl; auto. Qed.

Lemma set_nth_firstn A B (g : A -> B) (x : A) l : forall n k, (n <= k)%nat ->
  firstn n (map g (set_nth k x l)) = firstn n (map g l).
Proof.
  induction l as [|y r IH]; intros n k H; [destruct k; reflexivity|].
  destruct k as [|k].
  - assert (n = 0%nat) by lia. subst. reflexivity.
  - destruct n as [|n]; [reflexivity|]. simpl. f_equal. apply IH. lia.
Qed.

Lemma set_nth_same_image A B (g : A -> B) (x : A) l : forall k,
  g x = g (nth k l x) -> map g (set_nth k x l) = map g l.
Proof.
  induction l as [|y r IH]; intros k H; [destruct k; reflexivity|].
  destruct k as [|k]; simpl in *.
  - rewrite H. reflexivity.
  - f_equal. apply IH. exact H.
Qed.

Lemma upd_length s l f : length (upd s l f) = length s.
Proof. unfold upd. destruct (Nat.ltb l (length s)); [apply set_nth_length|reflexivity]. Qed.

Lemma upd_view_far n s l f : (n <= l)%nat -> caller_view n (upd s l f) = caller_view n s.
Proof.
  intros H. unfold caller_view, upd. destruct (Nat.ltb l (length s)); [|reflexivity].
  apply set_nth_firstn. exact H.
Qed.

Lemma upd_view_vis n s l f : (forall c, vis (f c) = vis c) -> caller_view n (upd s l f) = caller_view n s.
Proof.
  intros H. unfold caller_view, upd. destruct (Nat.ltb l (length s)) eqn:E; [|reflexivity].
  f_equal. apply set_nth_same_image. rewrite H. unfold get. apply Nat.ltb_lt in E.
  f_equal. apply nth_indep. exact E.
Qed.

Lemma app_view n s c : (n <= length s)%nat -> caller_view n (s ++ [c]) = caller_view n s.
Proof.
  intros H. unfold caller_view. rewrite map_app, firstn_app, map_length.
  replace (n - length s)%nat with 0%nat by lia. simpl. apply app_nil_r.
Qed.

Lemma resolve_loc_in args locals i l : resolve args locals (Loc i) = Some l -> In l locals.
Proof. simpl. apply nth_error_In. Qed.

(* FRAME: a call whose programs write only into objects they allocated leaves every cell that existed
   before the call caller-visibly unchanged (and never shrinks the store) *)
Theorem exec_frame progs : (forall f, local_only (progs f) = true) ->
  forall fuel n args p locals s,
  local_only p = true ->
  (forall l, In l locals -> (n <= l)%nat) ->
  (n <= length s)%nat ->
  (length s <= length (exec fuel progs args p locals s))%nat /\
  caller_view n (exec fuel progs args p locals s) = caller_view n s.
Proof.
  intros Hprogs. induction fuel as [fuel IHf] using lt_wf_ind.
  intros n args p. induction p as [|st rest IHp]; intros locals s Hp Hloc Hn.
  - rewrite exec_nil. split; [lia|reflexivity].
  - simpl in Hp. apply andb_true_iff in Hp. destruct Hp as [Hst Hrest].
    rewrite exec_cons.
    assert (Hfresh : forall l, In l (locals ++ [length s]) -> (n <= l)%nat).
    { intros l Hl. apply in_app_or in Hl. destruct Hl as [Hl|[<-|[]]]; [apply Hloc; exact Hl|exact Hn]. }
    destruct st as [src|v|dst key v|dst v|dst key v|f rs].
    + destruct (resolve args locals src) as [l|]; [|apply IHp; assumption].
      destruct (IHp (locals ++ [length s]) (s ++ [mkCell (vis (get s l)) []]) Hrest Hfresh) as [H1 H2].
      { rewrite app_length. simpl. lia. }
      rewrite app_length in H1. simpl in H1. split; [lia|]. rewrite H2. apply app_view. exact Hn.
    + destruct (IHp (locals ++ [length s]) (s ++ [mkCell v []]) Hrest Hfresh) as [H1 H2].
      { rewrite app_length. simpl. lia. }
      rewrite app_length in H1. simpl in H1. split; [lia|]. rewrite H2. apply app_view. exact Hn.
    + destruct dst as [i|i]; [discriminate|].
      destruct (resolve args locals (Loc i)) as [l|] eqn:E; [|apply IHp; assumption].
      apply resolve_loc_in in E.
      destruct (IHp locals (upd s l (fun c => mkCell (set_key key v (vis c)) (memo c))) Hrest Hloc) as [H1 H2].
      { rewrite upd_length. exact Hn. }
      rewrite upd_length in H1. split; [exact H1|]. rewrite H2. apply upd_view_far. apply Hloc. exact E.
    + destruct dst as [i|i]; [discriminate|].
      destruct (resolve args locals (Loc i)) as [l|] eqn:E; [|apply IHp; assumption].
      apply resolve_loc_in in E.
      destruct (IHp locals (upd s l (fun c => mkCell (append_kid v (vis c)) (memo c))) Hrest Hloc) as [H1 H2].
      { rewrite upd_length. exact Hn. }
      rewrite upd_length in H1. split; [exact H1|]. rewrite H2. apply upd_view_far. apply Hloc. exact E.
    + destruct (resolve args locals dst) as [l|]; [|apply IHp; assumption].
      destruct (IHp locals (upd s l (fun c => mkCell (vis c) ((key, v) :: memo c))) Hrest Hloc) as [H1 H2].
      { rewrite upd_length. exact Hn. }
      rewrite upd_length in H1. split; [exact H1|]. rewrite H2. apply upd_view_vis. reflexivity.
    + destruct fuel as [|fuel']; [apply IHp; assumption|].
      destruct (IHf fuel' (Nat.lt_succ_diag_r fuel') (length s) (resolve_all args locals rs) (progs f) [] s
                  (Hprogs f)) as [C1 C2]; [intros l []|lia|].
      set (s1 := exec fuel' progs (resolve_all args locals rs) (progs f) [] s) in *.
      destruct (IHp locals s1 Hrest Hloc) as [H1 H2]; [lia|].
      split; [lia|]. rewrite H2.
      unfold caller_view in *.
      assert (G : forall (l : list tree), firstn n l = firstn n (firstn (length s) l)).
      { intros l. rewrite firstn_firstn. rewrite Nat.min_l by exact Hn. reflexivity. }
      rewrite (G (map vis s1)), (G (map vis s)). rewrite C2. reflexivity.
Qed.

(* the shipped table of effect summaries is local-only *)
Lemma progs_local : forall f, local_only (progs f) = true.
Proof. intros f. do 15 (destruct f as [|f]; [reflexivity|]). reflexivity. Qed.

(* every entry point leaves the caller's view of the whole pre-existing store unchanged *)
Theorem entry_pure f s args n : (n <= length s)%nat -> caller_view n (entry f s args) = caller_view n s.
Proof.
  intros Hn. unfold entry.
  apply (exec_frame progs progs_local call_depth n args (progs f) [] s (progs_local f)); [intros l []|exact Hn].
Qed.

Theorem entry_sequence_pure fs : forall s args n, (n <= length s)%nat ->
  caller_view n (fold_left (fun s f => entry f s args) fs s) = caller_view n s.
Proof.
  induction fs as [|f r IH]; intros s args n Hn; [reflexivity|]. simpl.
  rewrite IH.
  - apply entry_pure. exact Hn.
  - unfold entry.
    destruct (exec_frame progs progs_local call_depth n args (progs f) [] s (progs_local f)) as [H _];
      [intros l []|exact Hn|lia].
Qed.

(* memoisation is transparent: a cache that is a sub-graph of the score function returns the function's
   value and stays a sub-graph *)
Definition subgraph (f : nat -> Q) (cache : list (nat * Q)) : Prop :=
  forall p v, lookup p cache = Some v -> v = f p.

Theorem memo_transparent f cache p : subgraph f cache ->
  fst (get_project_sat f cache p) = f p /\ subgraph f (snd (get_project_sat f cache p)).
Proof.
  intros H. unfold get_project_sat. destruct (lookup p cache) as [v|] eqn:E; simpl.
  - split; [apply H; exact E|exact H].
  - split; [reflexivity|]. intros p' v'. simpl. destruct (Nat.eqb p p') eqn:Ep.
    + apply Nat.eqb_eq in Ep. subst. intros [= <-]. reflexivity.
    + apply H.
Qed.
