(* Proofs/ComposePIncrease.v -- exhaustion_by_budget_increase around a CONCRETE rule model:
   generic part (any [rule : Q -> alloc -> alloc] meeting the contract the rule models meet) and the three
   instances.  The abstract theorems used: ExhaustionP.bounded_retry_spec (= C09_increase_spec),
   ComposeP.increase_res_feasible_ge / increase_irr_feasible_ge. *)
From PB Require Import Model.Compose Proofs.InstanceP Proofs.ExhaustionP Proofs.ComposeP Proofs.ComposePRules.
From PB Require Proofs.MesWf.
Open Scope Q_scope.

Section IncreaseRule.
  Variables (cs : list Q) (B : Q) (init : alloc).
  Hypothesis B_pos : 0 < B.
  Hypothesis init_feasible : feasible (mkInst cs B) init.
  Let I := mkInst cs B.

  Section Res.
    Variable rule : Q -> alloc -> alloc.
    Hypothesis contract : forall b a, 0 < b -> feasible (mkInst cs b) a ->
      feasible (mkInst cs b) (rule b a) /\ incl a (rule b a).
    Let R := fun b => rule b init.

    (* the two hypotheses of C09_increase_feasible, for the budgets the loop can reach *)
    Lemma R_feasible_for_its_budget b : B <= b -> feasible (mkInst cs b) (R b).
    Proof.
      intros Hb. apply contract; [lra|]. apply (feasible_budget_mono cs B b init Hb init_feasible).
    Qed.
    Lemma R_extends_init b : B <= b -> incl init (R b).
    Proof.
      intros Hb. apply contract; [lra|]. apply (feasible_budget_mono cs B b init Hb init_feasible).
    Qed.

    Theorem increase_rule_res_feasible stop step bound fuel k W : 0 <= step ->
      increase_rule_res cs B rule init stop step bound fuel = Some (k, W) -> feasible I W /\ incl init W.
    Proof.
      intros Hs. unfold increase_rule_res.
      apply (increase_res_feasible_ge I init init_feasible step Hs R).
      - exact R_feasible_for_its_budget.
      - exact R_extends_init.
    Qed.

    Hypothesis proper : forall b b' a, b == b' -> rule b a = rule b' a.

    Theorem increase_rule_res_spec stop step bound fuel : 0 < step ->
      let n := ntries B step bound in
      let out := fun k => rule (try_budget B step k) init in
      (fuel > n)%nat ->
      exists k W, increase_rule_res cs B rule init stop step bound fuel = Some (k, W) /\
        least_stop (infeasible1 I) (exh1 I stop (all_projects I)) out init n k W /\
        feasible I W /\ incl init W.
    Proof.
      intros Hs n out Hf.
      destruct (bounded_retry_spec alloc R (infeasible1 I) (exh1 I stop (all_projects I)) B step bound init fuel
                  (fun b b' E => proper b b' init E) Hs Hf) as [k [W [H1 H2]]].
      exists k, W. split; [exact H1|]. split; [exact H2|].
      apply (increase_rule_res_feasible stop step bound fuel k W); [lra|exact H1].
    Qed.
  End Res.

  Section Irr.
    Variable rule : Q -> alloc -> list alloc.
    Hypothesis contract : forall b a, 0 < b -> feasible (mkInst cs b) a ->
      forall W, In W (rule b a) -> feasible (mkInst cs b) W /\ incl a W.
    Let R := fun b => rule b init.

    Theorem increase_rule_irr_feasible stop step bound fuel k Ws : 0 <= step ->
      increase_rule_irr cs B rule init stop step bound fuel = Some (k, Ws) ->
      forall W, In W Ws -> feasible I W /\ incl init W.
    Proof.
      intros Hs. unfold increase_rule_irr.
      apply (increase_irr_feasible_ge I init init_feasible step Hs R).
      - intros b W Hb HW. change (B <= b) in Hb. apply (contract b init); [lra| |exact HW].
        apply (feasible_budget_mono cs B b init Hb init_feasible).
      - intros b W Hb HW. change (B <= b) in Hb. apply (contract b init); [lra| |exact HW].
        apply (feasible_budget_mono cs B b init Hb init_feasible).
    Qed.

    Hypothesis proper : forall b b' a, b == b' -> rule b a = rule b' a.

    Theorem increase_rule_irr_spec stop step bound fuel : 0 < step ->
      let n := ntries B step bound in
      let out := fun k => rule (try_budget B step k) init in
      (fuel > n)%nat ->
      exists k Ws, increase_rule_irr cs B rule init stop step bound fuel = Some (k, Ws) /\
        least_stop (infeasible_any I) (exh_any I stop (all_projects I)) out [init] n k Ws /\
        forall W, In W Ws -> feasible I W /\ incl init W.
    Proof.
      intros Hs n out Hf.
      destruct (bounded_retry_spec (list alloc) R (infeasible_any I) (exh_any I stop (all_projects I)) B step bound
                  [init] fuel (fun b b' E => proper b b' init E) Hs Hf) as [k [Ws [H1 H2]]].
      exists k, Ws. split; [exact H1|]. split; [exact H2|].
      apply (increase_rule_irr_feasible stop step bound fuel k Ws); [lra|exact H1].
    Qed.
  End Irr.
End IncreaseRule.

(* ====================================================================================================== *)
(* the three rule models                                                                                   *)
(* ====================================================================================================== *)

Definition mes_side (cs : list Q) (P : list vcls) (enum : list proj) : Prop :=
  Forall (fun c => 0 <= c) cs /\ MesWf.wf_voters P /\ (1 <= nvoters P)%nat /\
  NoDup enum /\ (forall p, In p enum -> (p < length cs)%nat).

Lemma mes_contract_of_side cs P tb enum bin : mes_side cs P enum ->
  forall b a, 0 < b -> feasible (mkInst cs b) a ->
  feasible (mkInst cs b) (mes_rule_res cs P tb enum bin b a) /\ incl a (mes_rule_res cs P tb enum bin b a).
Proof. intros [H1 [H2 [H3 [H4 H5]]]]. apply mes_rule_res_contract; assumption. Qed.

Lemma mes_contract_irr_of_side cs P tb enum bin : mes_side cs P enum ->
  forall b a, 0 < b -> feasible (mkInst cs b) a ->
  forall W, In W (mes_rule_irr cs P tb enum bin b a) -> feasible (mkInst cs b) W /\ incl a W.
Proof. intros [H1 [H2 [H3 [H4 H5]]]]. apply mes_rule_irr_contract; assumption. Qed.

(* --- Equal Shares --- *)
Theorem mes_R_contract cs P tb enum bin B init :
  mes_side cs P enum -> 0 < B -> feasible (mkInst cs B) init ->
  let R := fun b => mes_rule_res cs P tb enum bin b init in
  (forall b, B <= b -> feasible (mkInst cs b) (R b)) /\
  (forall b, B <= b -> incl init (R b)) /\
  (forall b b', b == b' -> R b = R b') /\
  (forall b, exists o, MesRule.mes_resolute (mes_input cs P tb enum bin b init) = Some o /\ R b = MesRule.o_alloc o).
Proof.
  intros Hside HB Hinit R. split; [|split; [|split]].
  - intros b. apply (R_feasible_for_its_budget cs B init HB Hinit _ (mes_contract_of_side cs P tb enum bin Hside)).
  - intros b. apply (R_extends_init cs B init HB Hinit _ (mes_contract_of_side cs P tb enum bin Hside)).
  - intros b b' E. apply mes_rule_res_proper. exact E.
  - intros b. apply mes_rule_res_some.
Qed.

Theorem increase_mes_feasible cs P tb enum bin B init stop step bound fuel k W :
  mes_side cs P enum -> 0 < B -> feasible (mkInst cs B) init -> 0 <= step ->
  increase_rule_res cs B (mes_rule_res cs P tb enum bin) init stop step bound fuel = Some (k, W) ->
  feasible (mkInst cs B) W /\ incl init W.
Proof.
  intros Hside HB Hinit.
  apply (increase_rule_res_feasible cs B init HB Hinit _ (mes_contract_of_side cs P tb enum bin Hside)).
Qed.

Theorem increase_mes_spec cs P tb enum bin B init stop step bound fuel :
  mes_side cs P enum -> 0 < B -> feasible (mkInst cs B) init -> 0 < step ->
  let I := mkInst cs B in
  let n := ntries B step bound in
  let out := fun k => mes_rule_res cs P tb enum bin (try_budget B step k) init in
  (fuel > n)%nat ->
  exists k W, increase_rule_res cs B (mes_rule_res cs P tb enum bin) init stop step bound fuel = Some (k, W) /\
    least_stop (infeasible1 I) (exh1 I stop (all_projects I)) out init n k W /\
    feasible I W /\ incl init W.
Proof.
  intros Hside HB Hinit.
  apply (increase_rule_res_spec cs B init HB Hinit _ (mes_contract_of_side cs P tb enum bin Hside)
           (mes_rule_res_proper cs P tb enum bin)).
Qed.

Theorem increase_mes_irr_feasible cs P tb enum bin B init stop step bound fuel k Ws :
  mes_side cs P enum -> 0 < B -> feasible (mkInst cs B) init -> 0 <= step ->
  increase_rule_irr cs B (mes_rule_irr cs P tb enum bin) init stop step bound fuel = Some (k, Ws) ->
  forall W, In W Ws -> feasible (mkInst cs B) W /\ incl init W.
Proof.
  intros Hside HB Hinit.
  apply (increase_rule_irr_feasible cs B init HB Hinit _ (mes_contract_irr_of_side cs P tb enum bin Hside)).
Qed.

Theorem increase_mes_irr_spec cs P tb enum bin B init stop step bound fuel :
  mes_side cs P enum -> 0 < B -> feasible (mkInst cs B) init -> 0 < step ->
  let I := mkInst cs B in
  let n := ntries B step bound in
  let out := fun k => mes_rule_irr cs P tb enum bin (try_budget B step k) init in
  (fuel > n)%nat ->
  exists k Ws, increase_rule_irr cs B (mes_rule_irr cs P tb enum bin) init stop step bound fuel = Some (k, Ws) /\
    least_stop (infeasible_any I) (exh_any I stop (all_projects I)) out [init] n k Ws /\
    forall W, In W Ws -> feasible I W /\ incl init W.
Proof.
  intros Hside HB Hinit.
  apply (increase_rule_irr_spec cs B init HB Hinit _ (mes_contract_irr_of_side cs P tb enum bin Hside)
           (mes_rule_irr_proper cs P tb enum bin)).
Qed.

(* --- greedy welfare --- *)
Theorem greedy_R_contract cs sat sp tb additive B init :
  Forall (fun c => 0 <= c) cs -> 0 < B -> feasible (mkInst cs B) init ->
  let R := fun b => greedy_rule_res cs sat sp tb additive b init in
  (forall b, B <= b -> feasible (mkInst cs b) (R b)) /\
  (forall b, B <= b -> incl init (R b)) /\
  (forall b b', b == b' -> R b = R b') /\
  (forall b, GreedyRule.greedy_welfare_res (mkInst cs b) sat sp tb additive init = Some (R b)).
Proof.
  intros Hc HB Hinit R.
  pose proof (fun b a (_ : 0 < b) => greedy_rule_res_contract cs sat sp tb Hc additive b a) as C.
  split; [|split; [|split]].
  - intros b. apply (R_feasible_for_its_budget cs B init HB Hinit _ C).
  - intros b. apply (R_extends_init cs B init HB Hinit _ C).
  - intros b b' E. apply greedy_rule_res_proper. exact E.
  - intros b. apply greedy_rule_res_some. exact Hc.
Qed.

Theorem increase_greedy_feasible cs sat sp tb additive B init stop step bound fuel k W :
  Forall (fun c => 0 <= c) cs -> 0 < B -> feasible (mkInst cs B) init -> 0 <= step ->
  increase_rule_res cs B (greedy_rule_res cs sat sp tb additive) init stop step bound fuel = Some (k, W) ->
  feasible (mkInst cs B) W /\ incl init W.
Proof.
  intros Hc HB Hinit.
  apply (increase_rule_res_feasible cs B init HB Hinit _
           (fun b a (_ : 0 < b) => greedy_rule_res_contract cs sat sp tb Hc additive b a)).
Qed.

Theorem increase_greedy_spec cs sat sp tb additive B init stop step bound fuel :
  Forall (fun c => 0 <= c) cs -> 0 < B -> feasible (mkInst cs B) init -> 0 < step ->
  let I := mkInst cs B in
  let n := ntries B step bound in
  let out := fun k => greedy_rule_res cs sat sp tb additive (try_budget B step k) init in
  (fuel > n)%nat ->
  exists k W, increase_rule_res cs B (greedy_rule_res cs sat sp tb additive) init stop step bound fuel = Some (k, W) /\
    least_stop (infeasible1 I) (exh1 I stop (all_projects I)) out init n k W /\
    feasible I W /\ incl init W.
Proof.
  intros Hc HB Hinit.
  apply (increase_rule_res_spec cs B init HB Hinit _
           (fun b a (_ : 0 < b) => greedy_rule_res_contract cs sat sp tb Hc additive b a)
           (fun b b' a E => greedy_rule_res_proper cs sat sp tb b b' E additive a)).
Qed.

Theorem increase_greedy_irr_feasible cs sat tb additive B init stop step bound fuel k Ws :
  Forall (fun c => 0 <= c) cs -> 0 < B -> feasible (mkInst cs B) init -> 0 <= step ->
  increase_rule_irr cs B (greedy_rule_irr cs sat tb additive) init stop step bound fuel = Some (k, Ws) ->
  forall W, In W Ws -> feasible (mkInst cs B) W /\ incl init W.
Proof.
  intros Hc HB Hinit.
  apply (increase_rule_irr_feasible cs B init HB Hinit _
           (fun b a (_ : 0 < b) => greedy_rule_irr_contract cs sat (fun _ => 0) tb Hc additive b a)).
Qed.

Theorem increase_greedy_irr_spec cs sat tb additive B init stop step bound fuel :
  Forall (fun c => 0 <= c) cs -> 0 < B -> feasible (mkInst cs B) init -> 0 < step ->
  let I := mkInst cs B in
  let n := ntries B step bound in
  let out := fun k => greedy_rule_irr cs sat tb additive (try_budget B step k) init in
  (fuel > n)%nat ->
  exists k Ws, increase_rule_irr cs B (greedy_rule_irr cs sat tb additive) init stop step bound fuel = Some (k, Ws) /\
    least_stop (infeasible_any I) (exh_any I stop (all_projects I)) out [init] n k Ws /\
    forall W, In W Ws -> feasible I W /\ incl init W.
Proof.
  intros Hc HB Hinit.
  apply (increase_rule_irr_spec cs B init HB Hinit _
           (fun b a (_ : 0 < b) => greedy_rule_irr_contract cs sat (fun _ => 0) tb Hc additive b a)
           (fun b b' a E => greedy_rule_irr_proper cs sat tb b b' E additive a)).
Qed.

(* --- sequential Phragmen --- *)
Theorem phr_R_contract cs A tb enum loads B init :
  NoDup enum -> (forall p, In p enum -> (p < length cs)%nat) -> 0 < B -> feasible (mkInst cs B) init ->
  let R := fun b => phr_rule_res cs A tb enum loads b init in
  (forall b, B <= b -> feasible (mkInst cs b) (R b)) /\
  (forall b, B <= b -> incl init (R b)) /\
  (forall b b', b == b' -> R b = R b') /\
  (forall b, Phragmen.phragmen_res (mkInst cs b) A tb enum loads init = Some (R b)).
Proof.
  intros He Her HB Hinit R.
  pose proof (fun b a (_ : 0 < b) => phr_rule_res_contract cs A tb enum loads He Her b a) as C.
  split; [|split; [|split]].
  - intros b. apply (R_feasible_for_its_budget cs B init HB Hinit _ C).
  - intros b. apply (R_extends_init cs B init HB Hinit _ C).
  - intros b b' E. apply phr_rule_res_proper. exact E.
  - intros b. apply phr_rule_res_some.
Qed.

Theorem increase_phr_feasible cs A tb enum loads B init stop step bound fuel k W :
  NoDup enum -> (forall p, In p enum -> (p < length cs)%nat) -> 0 < B -> feasible (mkInst cs B) init ->
  0 <= step ->
  increase_rule_res cs B (phr_rule_res cs A tb enum loads) init stop step bound fuel = Some (k, W) ->
  feasible (mkInst cs B) W /\ incl init W.
Proof.
  intros He Her HB Hinit.
  apply (increase_rule_res_feasible cs B init HB Hinit _
           (fun b a (_ : 0 < b) => phr_rule_res_contract cs A tb enum loads He Her b a)).
Qed.

Theorem increase_phr_spec cs A tb enum loads B init stop step bound fuel :
  NoDup enum -> (forall p, In p enum -> (p < length cs)%nat) -> 0 < B -> feasible (mkInst cs B) init ->
  0 < step ->
  let I := mkInst cs B in
  let n := ntries B step bound in
  let out := fun k => phr_rule_res cs A tb enum loads (try_budget B step k) init in
  (fuel > n)%nat ->
  exists k W, increase_rule_res cs B (phr_rule_res cs A tb enum loads) init stop step bound fuel = Some (k, W) /\
    least_stop (infeasible1 I) (exh1 I stop (all_projects I)) out init n k W /\
    feasible I W /\ incl init W.
Proof.
  intros He Her HB Hinit.
  apply (increase_rule_res_spec cs B init HB Hinit _
           (fun b a (_ : 0 < b) => phr_rule_res_contract cs A tb enum loads He Her b a)
           (fun b b' a E => phr_rule_res_proper cs A tb b b' E enum loads a)).
Qed.

Theorem increase_phr_irr_feasible cs A tb enum loads B init stop step bound fuel k Ws :
  NoDup enum -> (forall p, In p enum -> (p < length cs)%nat) -> 0 < B -> feasible (mkInst cs B) init ->
  0 <= step ->
  increase_rule_irr cs B (phr_rule_irr cs A tb enum loads) init stop step bound fuel = Some (k, Ws) ->
  forall W, In W Ws -> feasible (mkInst cs B) W /\ incl init W.
Proof.
  intros He Her HB Hinit.
  apply (increase_rule_irr_feasible cs B init HB Hinit _
           (fun b a (_ : 0 < b) => phr_rule_irr_contract cs A tb enum loads He Her b a)).
Qed.

Theorem increase_phr_irr_spec cs A tb enum loads B init stop step bound fuel :
  NoDup enum -> (forall p, In p enum -> (p < length cs)%nat) -> 0 < B -> feasible (mkInst cs B) init ->
  0 < step ->
  let I := mkInst cs B in
  let n := ntries B step bound in
  let out := fun k => phr_rule_irr cs A tb enum loads (try_budget B step k) init in
  (fuel > n)%nat ->
  exists k Ws, increase_rule_irr cs B (phr_rule_irr cs A tb enum loads) init stop step bound fuel = Some (k, Ws) /\
    least_stop (infeasible_any I) (exh_any I stop (all_projects I)) out [init] n k Ws /\
    forall W, In W Ws -> feasible I W /\ incl init W.
Proof.
  intros He Her HB Hinit.
  apply (increase_rule_irr_spec cs B init HB Hinit _
           (fun b a (_ : 0 < b) => phr_rule_irr_contract cs A tb enum loads He Her b a)
           (fun b b' a E => phr_rule_irr_proper cs A tb b b' E enum loads a)).
Qed.
