(* Proofs/MesIrrSpec.v -- refinement of the IRRESOLUTE Equal Shares model ([run_irr], [mes_irresolute]):
   the returned allocations are exactly the (name-sorted) outcomes of the runs of the textbook rule in
   which ANY project of the argmin set may be bought ([spec_run_any]); the executable spec
   [spec_exec_all] / [mes_spec_all] of Spec/MesSpec.v enumerates exactly those runs; hence the model
   and the executable spec return the same set of sets. *)
From PB Require Export Proofs.MesSpecExec.
From PB Require Proofs.InvarianceP.
Open Scope Q_scope.

(* ---------- the textbook rule with a free choice among the tied projects ---------- *)

Definition spec_round_any (cs : list Q) (P : list vcls) (b : list Q) (rem : list proj) (p : proj) (rho : Q) : Prop :=
  In p rem /\ affordable cs P b p /\ is_rho cs P b p rho /\
  (forall q r, In q rem -> affordable cs P b q -> is_rho cs P b q r -> rho <= r).

Inductive spec_run_any (cs : list Q) (P : list vcls) : list Q -> list proj -> list proj -> Prop :=
| sa_stop b rem : (forall q, In q rem -> ~ affordable cs P b q) -> spec_run_any cs P b rem []
| sa_buy b rem p rho b' W :
    spec_round_any cs P b rem p rho ->
    (forall i, s_bud b' i == s_bud (charge P b rho p) i) -> length b' = length b ->
    spec_run_any cs P b' (drop p rem) W ->
    spec_run_any cs P b rem (p :: W).

Lemma spec_round_is_any cs P tb b rem p rho : spec_round cs P tb b rem p rho -> spec_round_any cs P b rem p rho.
Proof. intros [H1 [H2 [H3 [H4 _]]]]. split; [exact H1|]. split; [exact H2|]. split; [exact H3|exact H4]. Qed.

(* the resolute run is one of them *)
Lemma spec_run_is_any cs P tb b rem W : spec_run cs P tb b rem W -> spec_run_any cs P b rem W.
Proof.
  induction 1 as [b rem Hst|b rem p rho b' W Hround Hb' Hl Hrun IH]; [apply sa_stop; exact Hst|].
  apply (sa_buy cs P b rem p rho b' W); try assumption. apply (spec_round_is_any cs P tb). exact Hround.
Qed.

Lemma spec_round_any_beq cs P b b2 rem p rho rho2 :
  beq b b2 -> rho == rho2 -> spec_round_any cs P b rem p rho -> spec_round_any cs P b2 rem p rho2.
Proof.
  intros Hb E [H1 [H2 [H3 H4]]]. pose proof (beq_sym _ _ Hb) as Hb'.
  split; [exact H1|]. split; [apply (affordable_beq cs P b b2 p Hb H2)|].
  split; [apply (is_rho_ext cs P b2 p rho rho2 E); apply (is_rho_beq cs P b b2 p rho Hb H3)|].
  intros q r Hq Ha Hr. rewrite <- E. apply (H4 q r Hq).
  - apply (affordable_beq cs P b2 b q Hb' Ha).
  - apply (is_rho_beq cs P b2 b q r Hb' Hr).
Qed.

Lemma spec_run_any_beq cs P b b2 rem W : beq b b2 -> spec_run_any cs P b rem W -> spec_run_any cs P b2 rem W.
Proof.
  intros Hb Hr. destruct Hr as [b rem Hst|b rem p rho b' W Hround Hb' Hl Hrun].
  - apply sa_stop. intros q Hq Ha. apply (Hst q Hq). apply (affordable_beq cs P b2 b q (beq_sym _ _ Hb) Ha).
  - apply (sa_buy cs P b2 rem p rho b' W).
    + apply (spec_round_any_beq cs P b b2 rem p rho rho Hb (Qeq_refl _) Hround).
    + intro i. rewrite (Hb' i). destruct (charge_beq P b b2 rho rho p Hb (Qeq_refl _)) as [_ H]. apply H.
    + destruct Hb as [Hlb _]. congruence.
    + exact Hrun.
Qed.

Lemma beq_refl' b : beq b b.
Proof. split; [reflexivity|intro; reflexivity]. Qed.
Lemma beq_trans' b1 b2 b3 : beq b1 b2 -> beq b2 b3 -> beq b1 b3.
Proof. intros [L1 H1] [L2 H2]. split; [congruence|]. intro i. rewrite (H1 i). apply H2. Qed.

(* ---------- the steps of the model are the rounds of spec_run_any ---------- *)

Lemma steps_sound P cs tb : wf_voters P -> forall s s', steps P tb s s' ->
  forall rem rest, Ref P cs (s_buds s) (s_projs s) rem -> stops P tb s' rest ->
  exists W, spec_run_any cs P (s_buds s) rem W /\ s_acc s' = s_acc s ++ W.
Proof.
  intros Hv s s' Hs. induction Hs as [s|s s1 s2 Hstep _ IH]; intros rem rest HRef Hstop.
  - exists []. split; [|rewrite app_nil_r; reflexivity]. apply sa_stop. intros q Hq.
    destruct HRef as [Hb [Hw [_ [_ [_ Hrem]]]]]. destruct (Hrem q Hq) as [Hin|Hn]; [|exact Hn].
    destruct (stops_unaffordable P tb cs s rest Hv Hb Hw Hstop) as [U _].
    intro Ha. apply affordable_iff in Ha. apply Ha. apply (U q Hin).
  - destruct Hstep as [buds projects acc rho tied projects' sel Ers Hsel]. cbn [s_buds s_projs s_acc] in *.
    apply pick_order_In_iff in Hsel.
    destruct (round_any P cs buds projects rem rho tied projects' Hv HRef Ers) as [_ [Htied [Hmin Hnext]]].
    destruct (Hnext sel Hsel) as [Hwsel HRef'].
    destruct (IH _ rest HRef' Hstop) as [W [HW Eacc]].
    exists (mp_id sel :: W). split; [|rewrite Eacc, <- app_assoc; reflexivity].
    destruct HRef as [Hb _].
    apply (sa_buy cs P buds rem (mp_id sel) rho (pay P sel rho buds) W).
    + destruct (Htied sel Hsel) as [T1 [T2 T3]]. split; [exact T1|]. split; [exact T2|]. split; [exact T3|].
      intros q r Hq Ha Hr. apply (Hmin q r Hq Ha Hr).
    + apply (pay_is_charge P cs buds sel rho Hb Hwsel).
    + unfold pay. apply pay_from_length.
    + exact HW.
Qed.

Lemma steps_complete P cs tb : wf_voters P -> forall b rem W, spec_run_any cs P b rem W ->
  forall buds projects acc, beq b buds -> Ref P cs buds projects rem ->
  exists s' rest, steps P tb (mkSt buds projects acc) s' /\ stops P tb s' rest /\ s_acc s' = acc ++ W.
Proof.
  intros Hv b rem W Hrun. induction Hrun as [b rem Hst|b rem p rho b' W Hround Hb' Hl Hrun IH];
    intros buds projects acc Hbq HRef.
  - destruct (round_scan P buds projects) as [[best tied] projects'] eqn:Ers.
    exists (mkSt buds projects acc), projects'. split; [constructor|]. split; [|rewrite app_nil_r; reflexivity].
    exists best, tied. cbn [s_buds s_projs]. split; [exact Ers|].
    destruct best as [r'|]; [|left; reflexivity]. destruct tied as [|x t]; [right; reflexivity|]. exfalso.
    destruct (round_any P cs buds projects rem r' (x :: t) projects' Hv HRef Ers) as [_ [Htied _]].
    destruct (Htied x (or_introl eq_refl)) as [T1 [T2 _]].
    apply (Hst (mp_id x) T1). apply (affordable_beq cs P buds b _ (beq_sym _ _ Hbq) T2).
  - pose proof (spec_round_any_beq cs P b buds rem p rho rho Hbq (Qeq_refl _) Hround) as [R1 [R2 [R3 R4]]].
    destruct (round_scan P buds projects) as [[best tied] projects'] eqn:Ers.
    pose proof HRef as [Hb [Hw [_ [_ [_ Hrem]]]]].
    assert (Hfound : exists r' x t, best = Fin r' /\ tied = x :: t).
    { destruct best as [r'|].
      - destruct tied as [|x t]; [|exists r', x, t; split; reflexivity]. exfalso.
        assert (Hstp : stops P tb (mkSt buds projects acc) projects') by (exists (Fin r'), (@nil mproj); split; [exact Ers|right; reflexivity]).
        destruct (stops_unaffordable P tb cs (mkSt buds projects acc) projects' Hv Hb Hw Hstp) as [U _]. cbn [s_buds s_projs] in U.
        destruct (Hrem p R1) as [Hin|Hn]; [|contradiction]. apply affordable_iff in R2. apply R2. apply (U p Hin).
      - exfalso.
        assert (Hstp : stops P tb (mkSt buds projects acc) projects') by (exists PInf, tied; split; [exact Ers|left; reflexivity]).
        destruct (stops_unaffordable P tb cs (mkSt buds projects acc) projects' Hv Hb Hw Hstp) as [U _]. cbn [s_buds s_projs] in U.
        destruct (Hrem p R1) as [Hin|Hn]; [|contradiction]. apply affordable_iff in R2. apply R2. apply (U p Hin). }
    destruct Hfound as [r' [x [t [-> ->]]]].
    destruct (round_any P cs buds projects rem r' (x :: t) projects' Hv HRef Ers) as [_ [Htied [Hmin Hnext]]].
    destruct (Htied x (or_introl eq_refl)) as [X1 [X2 X3]].
    pose proof (R4 (mp_id x) r' X1 X2 X3) as Hle1.
    destruct (Hmin p rho R1 R2 R3) as [Hle2 Hin].
    assert (Er : rho == r') by lra.
    specialize (Hin Er). unfold ids in Hin. apply in_map_iff in Hin. destruct Hin as [sel [Eid Hsel]].
    destruct (Hnext sel Hsel) as [Hwsel HRef']. rewrite Eid in HRef'.
    assert (Hbq' : beq b' (pay P sel r' buds)).
    { eapply beq_trans'; [split; [rewrite charge_length; exact Hl|exact Hb']|].
      eapply beq_trans'; [apply (charge_beq P b buds rho r' p Hbq Er)|].
      split; [rewrite charge_length; unfold pay; rewrite pay_from_length; reflexivity|].
      intro i. rewrite <- Eid. symmetry. apply (pay_is_charge P cs buds sel r' Hb Hwsel). }
    destruct (IH (pay P sel r' buds) (remove_proj p projects') (acc ++ [p]) Hbq' HRef') as [s' [rest [S1 [S2 S3]]]].
    exists s', rest. split; [|split; [exact S2|rewrite S3, <- app_assoc; reflexivity]].
    eapply steps_cons; [|exact S1]. rewrite <- Eid.
    apply (step_buy P tb buds projects acc r' (x :: t) projects' sel Ers). apply pick_order_In_iff. exact Hsel.
Qed.

(* ---------- every reachable terminal state is a leaf of run_irr ---------- *)

Lemma fold_opt_all {A B} (g : A -> option (list B)) : forall l L0 L,
  fold_left (fun res a => match res with
                          | None => None
                          | Some L1 => match g a with None => None | Some L' => Some (L1 ++ L') end
                          end) l (Some L0) = Some L ->
  incl L0 L /\ forall a, In a l -> exists L', g a = Some L' /\ incl L' L.
Proof.
  induction l as [|a r IH]; intros L0 L H; simpl in H.
  - injection H as <-. split; [apply incl_refl|intros ? []].
  - destruct (g a) as [L'|] eqn:E.
    + destruct (IH _ _ H) as [I1 I2]. split; [intros y Hy; apply I1; apply in_or_app; left; exact Hy|].
      intros a' [<-|Ha]; [|apply I2; exact Ha]. exists L'. split; [exact E|].
      intros y Hy. apply I1. apply in_or_app. right. exact Hy.
    + exfalso. clear -H. induction r as [|b r IH]; simpl in H; [discriminate|apply IH; exact H].
Qed.

Lemma run_irr_complete P tb : forall fuel buds projects acc L,
  run_irr fuel P tb buds projects acc = Some L ->
  forall s' rest, steps P tb (mkSt buds projects acc) s' -> stops P tb s' rest -> In (sort_alloc (s_acc s')) L.
Proof.
  induction fuel as [|f IH]; intros buds projects acc L Hrun s' rest Hs Hstop; [discriminate|].
  rewrite run_irr_S in Hrun.
  inversion Hs as [s0 E0|s0 s1 s2 Hstep Hrest E0 E2]; subst.
  - destruct Hstop as [best [tied [Ers Hc]]]. cbn [s_buds s_projs] in Ers. rewrite Ers in Hrun.
    cbn [s_acc]. destruct Hc as [->| ->].
    + injection Hrun as <-. left. reflexivity.
    + destruct best; simpl in Hrun; injection Hrun as <-; left; reflexivity.
  - inversion Hstep as [b1 p1 a1 rho tied projects' sel Ers Hsel E1 E3]; subst.
    rewrite Ers in Hrun.
    destruct (pick_order tb tied) as [|sel0 rest'] eqn:Epo; [destruct Hsel|].
    destruct (fold_opt_all (fun sel => run_irr f P tb (pay P sel rho buds) (remove_proj (mp_id sel) projects')
                                               (acc ++ [mp_id sel])) _ _ _ Hrun) as [_ Hall].
    destruct (Hall sel Hsel) as [L' [EL' Hincl]]. apply Hincl.
    apply (IH _ _ _ _ EL' s' rest Hrest Hstop).
Qed.

(* the leaves of the irresolute recursion = the sorted outcomes of all any-choice runs *)
Theorem run_irr_spec P cs tb : wf_voters P -> forall fuel buds projects acc rem L,
  Ref P cs buds projects rem -> run_irr fuel P tb buds projects acc = Some L ->
  forall X, In X L <-> exists W, spec_run_any cs P buds rem W /\ X = sort_alloc (acc ++ W).
Proof.
  intros Hv fuel buds projects acc rem L HRef Hrun X. split.
  - intro HX. destruct (run_irr_steps P tb fuel buds projects acc L Hrun X HX) as [s [rest [Hs [Hstop ->]]]].
    destruct (steps_sound P cs tb Hv _ _ Hs rem rest HRef Hstop) as [W [HW Eacc]]. cbn [s_buds s_acc] in *.
    exists W. split; [exact HW|rewrite Eacc; reflexivity].
  - intros [W [HW ->]].
    destruct (steps_complete P cs tb Hv buds rem W HW buds projects acc (beq_refl' _) HRef) as [s' [rest [S1 [S2 S3]]]].
    rewrite <- S3. apply (run_irr_complete P tb fuel buds projects acc L Hrun s' rest S1 S2).
Qed.

Lemma natl_eqb_eq : forall x y, natl_eqb x y = true -> x = y.
Proof.
  induction x as [|a x IH]; intros [|b y] H; simpl in H; try discriminate; [reflexivity|].
  apply andb_true_iff in H. destruct H as [H1 H2]. apply Nat.eqb_eq in H1. subst b. f_equal. apply IH. exact H2.
Qed.

Lemma In_dedup l W : In W l -> In W (dedup l).
Proof.
  induction l as [|y r IH]; [intros []|]. intros [<-|H]; simpl; [left; reflexivity|].
  destruct (natl_eqb y W) eqn:E; [left; apply natl_eqb_eq; exact E|].
  right. apply filter_In. split; [apply IH; exact H|rewrite E; reflexivity].
Qed.

(* M (irresolute refinement): one run of the inner algorithm in irresolute mode *)
Theorem run_once_irr_spec x b0 L :
  wf_voters (mi_voters x) -> 0 <= b0 -> NoDup (mi_enum x) ->
  (forall p, In p (mi_enum x) <-> (p < length (mi_costs x))%nat) ->
  run_once_irr x b0 = Some L ->
  forall X, In X L <->
    exists W, spec_run_any (mi_costs x) (mi_voters x) (repeat b0 (length (mi_voters x))) (si_pool (spec_of x)) W /\
              X = sort_alloc (mi_init x ++ si_zeros (spec_of x) ++ W).
Proof.
  intros Hv Hb Hn He Hrun X. unfold run_once_irr in Hrun.
  destruct (run_irr _ _ _ _ _ _) as [L0|] eqn:E; [|discriminate]. injection Hrun as <-.
  pose proof (run_irr_spec _ (mi_costs x) _ Hv _ _ _ _ _ _ (state0_Ref x b0 Hv Hb Hn He) E X) as Hspec.
  assert (HZ : Permutation (snd (built x)) (si_zeros (spec_of x))).
  { apply NoDup_Permutation.
    - destruct (mk_projects_spec (mi_voters x) (mi_costs x) (mi_bin x) (candidates x)) as [_ [_ M3]]. fold (built x) in M3.
      apply M3. unfold candidates. apply NoDup_filter. exact Hn.
    - unfold si_zeros, si_cands. apply NoDup_filter. apply NoDup_filter. apply seq_NoDup.
    - intro p. symmetry. apply (zeros_iff x p Hv He). }
  assert (Hsort : forall W, sort_alloc (start_alloc x ++ W) = sort_alloc (mi_init x ++ si_zeros (spec_of x) ++ W)).
  { intro W. apply InvarianceP.name_sort_perm_eq. unfold start_alloc. rewrite <- app_assoc.
    apply Permutation_app_head. apply Permutation_app_tail. exact HZ. }
  split.
  - intro HX. apply dedup_In in HX. apply Hspec in HX. destruct HX as [W [HW ->]]. exists W. split; [exact HW|apply Hsort].
  - intros [W [HW ->]]. apply In_dedup. apply Hspec. exists W. split; [exact HW|symmetry; apply Hsort].
Qed.

(* ---------- the executable spec enumerates exactly the any-choice runs ---------- *)

Lemma spec_exec_all_S cs P f b rem :
  spec_exec_all cs P (S f) b rem =
  match argmin (rhos cs P b rem) with
  | None => Some [[]]
  | Some (rho, T) =>
      fold_left (fun res p =>
                   match res with
                   | None => None
                   | Some L1 =>
                       match option_map (map (cons p)) (spec_exec_all cs P f (charge_red P b rho p) (drop p rem)) with
                       | None => None
                       | Some L' => Some (L1 ++ L')
                       end
                   end) T (Some [])
  end.
Proof.
  simpl. destruct (argmin (rhos cs P b rem)) as [[rho T]|]; [|reflexivity].
  generalize (@Some (list (list proj)) []). induction T as [|p T IH]; intro a0; [reflexivity|]. simpl.
  rewrite <- IH. f_equal. destruct a0 as [L1|]; [|reflexivity].
  destruct (spec_exec_all cs P f (charge_red P b rho p) (drop p rem)); reflexivity.
Qed.

Theorem spec_exec_all_spec cs P : wf_voters P -> forall fuel b rem L,
  SInv cs P b rem -> spec_exec_all cs P fuel b rem = Some L ->
  forall W, In W L <-> spec_run_any cs P b rem W.
Proof.
  intros Hv. induction fuel as [|f IH]; intros b rem L [Hb [Hs Hpos]] H W; [discriminate|].
  rewrite spec_exec_all_S in H.
  assert (Hinr : forall q, In q rem -> affordable cs P b q ->
            exists r1, In (q, r1) (rhos cs P b rem) /\ is_rho cs P b q r1).
  { intros q Hq Haf. destruct (rho_interp_is_rho cs P b q Hv Hb (Hpos q Hq) Haf) as [r1 [E1 Hr1]].
    exists r1. split; [|exact Hr1]. apply rhos_In. split; [exact Hq|]. split; [apply affordableb_iff; exact Haf|exact E1]. }
  assert (Hrin : forall q r, In (q, r) (rhos cs P b rem) -> In q rem /\ affordable cs P b q /\ is_rho cs P b q r).
  { intros q r Hin. apply rhos_In in Hin. destruct Hin as [Hq [Haf Hri]]. apply affordableb_iff in Haf.
    split; [exact Hq|]. split; [exact Haf|].
    destruct (rho_interp_is_rho cs P b q Hv Hb (Hpos q Hq) Haf) as [r1 [E1 Hr1]]. rewrite Hri in E1. injection E1 as <-. exact Hr1. }
  destruct (argmin (rhos cs P b rem)) as [[rho T]|] eqn:Ea.
  - destruct (argmin_spec _ _ _ Ea) as [[p0 Hp0] [Hmin ET]].
    destruct (Hrin p0 rho Hp0) as [P1 [P2 P3]].
    assert (Hround : forall p, In p T -> spec_round_any cs P b rem p rho).
    { intros p Hp. rewrite ET in Hp. apply in_map_iff in Hp. destruct Hp as [[q r] [E Hin]]. simpl in E. subst q.
      apply filter_In in Hin. destruct Hin as [Hin Hr]. simpl in Hr. apply Qeqb_iff in Hr.
      destruct (Hrin p r Hin) as [A [B C]]. split; [exact A|]. split; [exact B|].
      split; [apply (is_rho_ext cs P b p r rho Hr C)|].
      intros q r' Hq Haf Hr'. destruct (Hinr q Hq Haf) as [r1 [Hin1 Hr1]].
      pose proof (Hmin q r1 Hin1). pose proof (is_rho_unique cs P b q r1 r' Hr1 Hr'). lra. }
    assert (HSub : forall p, SInv cs P (charge_red P b rho p) (drop p rem)).
    { intro p. split; [apply charge_red_wf; exact Hb|]. split; [apply drop_sorted; exact Hs|].
      intros q Hq. apply Hpos. unfold drop in Hq. apply filter_In in Hq. tauto. }
    split.
    + intro HW.
      destruct (fold_opt_In (fun p => option_map (map (cons p)) (spec_exec_all cs P f (charge_red P b rho p) (drop p rem)))
                  _ _ _ H W HW) as [[]|[p [L' [Hp [EL' HW']]]]].
      destruct (spec_exec_all cs P f (charge_red P b rho p) (drop p rem)) as [L2|] eqn:E2; [|discriminate].
      simpl in EL'. injection EL' as <-. apply in_map_iff in HW'. destruct HW' as [W' [<- HW']].
      destruct (charge_red_beq P b rho p) as [Lq Eq].
      apply (sa_buy cs P b rem p rho (charge_red P b rho p) W' (Hround p Hp) Eq).
      * rewrite Lq. apply charge_length.
      * apply (IH _ _ _ (HSub p) E2). exact HW'.
    + intro Hrun. destruct Hrun as [b rem Hst|b rem p rho' b' W' Hr' Hb' Hl Hrun'].
      * exfalso. apply (Hst p0 P1 P2).
      * destruct Hr' as [R1 [R2 [R3 R4]]].
        destruct (Hinr p R1 R2) as [r1 [Hin1 Hr1]].
        assert (Er : rho' == rho).
        { pose proof (Hmin p r1 Hin1). pose proof (is_rho_unique cs P b p r1 rho' Hr1 R3).
          pose proof (R4 p0 rho P1 P2 P3). lra. }
        assert (HpT : In p T).
        { rewrite ET. apply in_map_iff. exists (p, r1). split; [reflexivity|]. apply filter_In. split; [exact Hin1|].
          simpl. apply Qeqb_iff. pose proof (is_rho_unique cs P b p r1 rho' Hr1 R3). lra. }
        destruct (fold_opt_all (fun p => option_map (map (cons p)) (spec_exec_all cs P f (charge_red P b rho p) (drop p rem)))
                    _ _ _ H) as [_ Hall].
        destruct (Hall p HpT) as [L' [EL' Hincl]]. apply Hincl.
        destruct (spec_exec_all cs P f (charge_red P b rho p) (drop p rem)) as [L2|] eqn:E2; [|discriminate].
        simpl in EL'. injection EL' as <-. apply in_map. apply (IH _ _ _ (HSub p) E2).
        apply (spec_run_any_beq cs P b' (charge_red P b rho p) (drop p rem) W'); [|exact Hrun'].
        eapply beq_trans'; [split; [rewrite charge_length; exact Hl|exact Hb']|].
        eapply beq_trans'; [apply (charge_beq P b b rho' rho p (beq_refl' b) Er)|].
        apply beq_sym. apply charge_red_beq.
  - injection H as <-. apply argmin_none in Ea. split.
    + intros [<-|[]]. apply sa_stop. intros q Hq Haf. destruct (Hinr q Hq Haf) as [r1 [Hin _]]. rewrite Ea in Hin. destruct Hin.
    + intro Hrun. destruct Hrun as [b rem Hst|b rem p rho' b' W' [R1 [R2 _]] _ _ _]; [left; reflexivity|].
      exfalso. destruct (Hinr p R1 R2) as [r1 [Hin _]]. rewrite Ea in Hin. destruct Hin.
Qed.

Theorem spec_exec_all_total cs P : forall fuel b rem,
  (length rem < fuel)%nat -> spec_exec_all cs P fuel b rem <> None.
Proof.
  induction fuel as [|f IH]; intros b rem Hf; [lia|]. rewrite spec_exec_all_S.
  destruct (argmin (rhos cs P b rem)) as [[rho T]|] eqn:Ea; [|discriminate].
  apply fold_opt_total. intros p Hp.
  assert (Hin : In p rem).
  { destruct (argmin_spec _ _ _ Ea) as [_ [_ ET]]. rewrite ET in Hp. apply in_map_iff in Hp.
    destruct Hp as [[q r] [E Hin]]. simpl in E. subst q. apply filter_In in Hin. destruct Hin as [Hin _].
    apply rhos_In in Hin. tauto. }
  pose proof (drop_length_lt p rem Hin).
  specialize (IH (charge_red P b rho p) (drop p rem)).
  destruct (spec_exec_all cs P f (charge_red P b rho p) (drop p rem)); [discriminate|].
  exfalso. apply IH; [lia|reflexivity].
Qed.

(* ---------- the irresolute model = the executable irresolute spec, as sets of sets ---------- *)

Theorem mes_irresolute_eq_spec x L :
  wf_voters (mi_voters x) -> tcost (mi_inst x) (mi_init x) <= mi_budget x -> NoDup (mi_enum x) ->
  (forall p, In p (mi_enum x) <-> (p < length (mi_costs x))%nat) ->
  mes_irresolute x = Some L ->
  exists L', mes_spec_all (spec_of x) = Some L' /\
             forall X, In X L <-> exists Y, In Y L' /\ X = sort_alloc Y.
Proof.
  intros Hv Hf Hn He Hrun.
  pose proof (share_nonneg x Hf) as Hs. pose proof (share_is_si_share x) as Es.
  assert (Hb2 : wf_buds (mi_voters x) (repeat (si_share (spec_of x)) (length (mi_voters x)))).
  { apply repeat_wf_buds. lra. }
  unfold mes_spec_all, spec_once_all.
  change (si_costs (spec_of x)) with (mi_costs x). change (si_voters (spec_of x)) with (mi_voters x).
  change (si_init (spec_of x)) with (mi_init x).
  pose proof (spec_exec_all_total (mi_costs x) (mi_voters x) (S (si_n (spec_of x)))
                (repeat (si_share (spec_of x)) (length (mi_voters x))) (si_pool (spec_of x))) as Htot.
  destruct (spec_exec_all (mi_costs x) (mi_voters x) (S (si_n (spec_of x)))
              (repeat (si_share (spec_of x)) (length (mi_voters x))) (si_pool (spec_of x))) as [L2|] eqn:Ex.
  2:{ exfalso. apply Htot; [pose proof (pool_length x); lia|reflexivity]. }
  eexists. split; [reflexivity|]. intro X.
  rewrite (run_once_irr_spec x (share x) L Hv Hs Hn He Hrun X).
  pose proof (spec_exec_all_spec _ _ Hv _ _ _ _ (pool_SInv x _ Hb2) Ex) as Hall.
  split.
  - intros [W [HW ->]]. exists (mi_init x ++ si_zeros (spec_of x) ++ W). split; [|reflexivity].
    apply in_map_iff. exists W. split; [reflexivity|]. apply Hall.
    apply (spec_run_any_beq _ _ _ _ _ _ (repeat_beq _ _ _ Es) HW).
  - intros [Y [HY ->]]. apply in_map_iff in HY. destruct HY as [W [<- HW]]. exists W. split; [|reflexivity].
    apply Hall in HW. apply (spec_run_any_beq _ _ _ _ _ _ (beq_sym _ _ (repeat_beq _ _ _ Es)) HW).
Qed.

(* ---------- helpers for the budget-increase loop in irresolute mode ---------- *)

Definition oseteq (a b : option (list (list proj))) : Prop :=
  match a, b with
  | Some L1, Some L2 => forall X, In X L1 <-> In X L2
  | None, None => True
  | _, _ => False
  end.

Lemma existsb_seteq {A} (h h' : A -> bool) l l' :
  (forall X, In X l <-> In X l') -> (forall X, In X l -> h X = h' X) -> existsb h l = existsb h' l'.
Proof.
  intros Hs Hh. destruct (existsb h l) eqn:E1, (existsb h' l') eqn:E2; try reflexivity.
  - apply existsb_exists in E1. destruct E1 as [a [Ha Hha]].
    assert (existsb h' l' = true) by (apply existsb_exists; exists a; split; [apply Hs; exact Ha|rewrite <- (Hh a Ha); exact Hha]).
    congruence.
  - apply existsb_exists in E2. destruct E2 as [a [Ha Hha]]. apply Hs in Ha.
    assert (existsb h l = true) by (apply existsb_exists; exists a; split; [exact Ha|rewrite (Hh a Ha); exact Hha]).
    congruence.
Qed.

