(* Proofs/MesMult.v -- C06 mes_mult: the Equal Shares model on voter classes with multiplicities
   selects the same set as on the expanded list of single voters (Base/Election.v [expand]).
   Route: both runs refine the deterministic textbook rule (Proofs/MesSpecRun.v, MesSpecExec.v), and
   the textbook rule on classes with budgets b is the textbook rule on the expanded voters with
   budgets [expand_buds P b] (Proofs/MultiP.v): [paid], [supp_money] are multiplicity-weighted sums,
   [charge] acts per class. *)
From PB Require Export Proofs.MesSpecExec.
From PB Require Proofs.MultiP.
Open Scope Q_scope.

Notation expand_buds := MultiP.expand_buds.

(* ---------- multiplicity-weighted sums over the supporters of a project ---------- *)

Definition wsum (p : proj) (psi : vcls -> Q -> Q) (P : list vcls) (b : list Q) : Q :=
  Qsum (map (fun i => s_mul P i * psi (nth i P (mkV [] 0)) (s_bud b i)) (s_supporters P p)).

Lemma wsum_form p psi P b : length P = length b ->
  wsum p psi P b
  = Qsum (map (fun vb => Qnat (vmul (fst vb)) * psi (fst vb) (snd vb))
              (filter (fun vb => Qltb 0 (util (fst vb) p)) (combine P b))).
Proof.
  intros HL. unfold wsum, s_supporters, s_mul, s_util, s_bud.
  rewrite <- (MultiP.idx_sum (mkV [] 0, 0) (fun vb => Qltb 0 (util (fst vb) p))
                (fun vb => Qnat (vmul (fst vb)) * psi (fst vb) (snd vb))).
  rewrite combine_length, <- HL, Nat.min_id.
  assert (E : forall i, nth i (combine P b) (mkV [] 0, 0) = (nth i P (mkV [] 0), nth i b 0))
    by (intros i; apply combine_nth; exact HL).
  f_equal.
  rewrite (filter_ext (fun i => Qltb 0 (util (fst (nth i (combine P b) (mkV [] 0, 0))) p))
                      (fun i => Qltb 0 (util (nth i P (mkV [] 0)) p))) by (intros i; rewrite E; reflexivity).
  apply map_ext. intros i. rewrite E. reflexivity.
Qed.

Lemma wsum_mult p psi P b : length P = length b ->
  (forall v bud, psi (mkV (vu v) 1) bud == psi v bud) ->
  wsum p psi (expand P) (expand_buds P b) == wsum p psi P b.
Proof.
  intros HL Hpsi.
  rewrite (wsum_form p psi P b HL), (wsum_form p psi _ _ (MultiP.expand_buds_length P b HL)).
  rewrite (MultiP.combine_expand P b HL). generalize (combine P b) as L. clear HL.
  induction L as [|[v bud] L IH]; [reflexivity|].
  cbn [flat_map fst snd]. rewrite filter_app, map_app, Qsum_app, IH. cbn [filter fst snd].
  change (util (mkV (vu v) 1) p) with (util v p).
  destruct (Qltb 0 (util v p)) eqn:E.
  - rewrite MultiP.filter_repeat_all by (cbn [fst]; exact E).
    rewrite MultiP.mp_map_repeat, MultiP.mp_Qsum_repeat. cbn [map Qsum fst snd vmul].
    rewrite (Hpsi v bud). change (Qnat 1) with 1. ring.
  - rewrite MultiP.filter_repeat_none by (cbn [fst]; exact E). cbn [map Qsum]. ring.
Qed.

Lemma paid_is_wsum P b rho p : paid P b rho p = wsum p (fun v bud => Qmin bud (rho * util v p)) P b.
Proof. reflexivity. Qed.
Lemma supp_money_is_wsum P b p : supp_money P b p = wsum p (fun _ bud => bud) P b.
Proof. reflexivity. Qed.

Lemma paid_expand P b rho p : length P = length b ->
  paid (expand P) (expand_buds P b) rho p == paid P b rho p.
Proof. intro HL. rewrite !paid_is_wsum. apply wsum_mult; [exact HL|]. intros; reflexivity. Qed.

Lemma supp_money_expand P b p : length P = length b ->
  supp_money (expand P) (expand_buds P b) p == supp_money P b p.
Proof. intro HL. rewrite !supp_money_is_wsum. apply wsum_mult; [exact HL|]. intros; reflexivity. Qed.

(* ---------- the charge acts per class ---------- *)

Definition chi (rho : Q) (p : proj) (v : vcls) (bud : Q) : Q :=
  if Qltb 0 (util v p) then bud - Qmin bud (rho * util v p) else bud.

Lemma charge_form P b rho p : length P = length b ->
  charge P b rho p = map (fun vb => chi rho p (fst vb) (snd vb)) (combine P b).
Proof.
  intro HL. unfold charge.
  assert (Hlen : length (combine P b) = length b) by (rewrite combine_length, HL, Nat.min_id; reflexivity).
  rewrite <- Hlen.
  rewrite <- (map_nth_seq (combine P b) (mkV [] 0, 0)) at 2. rewrite map_map.
  apply map_ext. intro i. rewrite (combine_nth P b i (mkV [] 0) 0 HL). reflexivity.
Qed.

Lemma combine_map_combine {A B C} (g : A * B -> C) : forall (P : list A) (b : list B),
  combine P (map g (combine P b)) = map (fun vb => (fst vb, g vb)) (combine P b).
Proof.
  induction P as [|v P IH]; intros [|x b]; simpl; try reflexivity. rewrite IH. reflexivity.
Qed.

Lemma flat_map_map' {A B C} (h : A -> B) (g : B -> list C) l : flat_map g (map h l) = flat_map (fun a => g (h a)) l.
Proof. induction l as [|a r IH]; simpl; [reflexivity|rewrite IH; reflexivity]. Qed.
Lemma map_flat_map' {A B C} (f : B -> C) (g : A -> list B) l : map f (flat_map g l) = flat_map (fun a => map f (g a)) l.
Proof. induction l as [|a r IH]; simpl; [reflexivity|rewrite map_app, IH; reflexivity]. Qed.

Lemma charge_expand P b rho p : length P = length b ->
  expand_buds P (charge P b rho p) = charge (expand P) (expand_buds P b) rho p.
Proof.
  intro HL. rewrite (charge_form P b rho p HL), (charge_form _ _ rho p (MultiP.expand_buds_length P b HL)).
  rewrite (MultiP.combine_expand P b HL). unfold MultiP.expand_buds.
  rewrite combine_map_combine, flat_map_map', map_flat_map'.
  apply flat_map_ext. intros [v bud]. cbn [fst snd]. rewrite MultiP.mp_map_repeat. reflexivity.
Qed.

(* ---------- budgets up to ==, as Forall2 ---------- *)

Lemma beq_F2 : forall b1 b2, beq b1 b2 <-> Forall2 Qeq b1 b2.
Proof.
  induction b1 as [|x r IH]; intros [|y t]; split.
  - constructor.
  - intros _. split; [reflexivity|intro; reflexivity].
  - intros [H _]. discriminate H.
  - intro H. inversion H.
  - intros [H _]. discriminate H.
  - intro H. inversion H.
  - intros [Hl H]. constructor; [apply (H 0%nat)|]. apply IH. split; [simpl in Hl; congruence|].
    intro i. apply (H (S i)).
  - intro H. inversion H as [|? ? ? ? E Hr]; subst. apply IH in Hr. destruct Hr as [Hl Hr].
    split; [simpl; congruence|]. intros [|i]; [exact E|apply Hr].
Qed.

Lemma beq_refl b : beq b b.
Proof. split; [reflexivity|intro; reflexivity]. Qed.
Lemma beq_trans b1 b2 b3 : beq b1 b2 -> beq b2 b3 -> beq b1 b3.
Proof. intros [L1 H1] [L2 H2]. split; [congruence|]. intro i. rewrite (H1 i). apply H2. Qed.

Lemma F2_repeat (a a' : Q) k : a == a' -> Forall2 Qeq (repeat a k) (repeat a' k).
Proof. intro E. induction k; simpl; constructor; assumption. Qed.

Lemma expand_buds_F2 : forall P b1 b2, Forall2 Qeq b1 b2 -> Forall2 Qeq (expand_buds P b1) (expand_buds P b2).
Proof.
  induction P as [|v P IH]; intros b1 b2 H; [constructor|].
  inversion H as [|x y r t E Hr]; subst; [constructor|].
  unfold MultiP.expand_buds. cbn [combine flat_map fst snd]. apply Forall2_app.
  - apply F2_repeat. exact E.
  - apply IH. exact Hr.
Qed.

Lemma expand_buds_beq P b1 b2 : beq b1 b2 -> beq (expand_buds P b1) (expand_buds P b2).
Proof. intro H. apply beq_F2. apply expand_buds_F2. apply beq_F2. exact H. Qed.

(* ---------- the textbook quantities on classes and on expanded voters ---------- *)

Section Transfer.
Variables (cs : list Q) (P : list vcls) (b be : list Q).
Hypothesis HL : length P = length b.
Hypothesis Hbe : beq be (expand_buds P b).

Lemma paid_x rho p : paid (expand P) be rho p == paid P b rho p.
Proof. rewrite (paid_beq (expand P) be _ rho p Hbe). apply paid_expand. exact HL. Qed.

Lemma affordable_x p : affordable cs (expand P) be p <-> affordable cs P b p.
Proof.
  unfold affordable. rewrite (supp_money_beq (expand P) be _ p Hbe), (supp_money_expand P b p HL). tauto.
Qed.

Lemma is_rho_x p r : is_rho cs (expand P) be p r <-> is_rho cs P b p r.
Proof.
  unfold is_rho. split; intros [H1 H2]; split.
  - rewrite <- (paid_x r p). exact H1.
  - intros rho' H. apply H2. rewrite (paid_x rho' p). exact H.
  - rewrite (paid_x r p). exact H1.
  - intros rho' H. apply H2. rewrite <- (paid_x rho' p). exact H.
Qed.

Lemma spec_round_x tb rem p rho :
  spec_round cs P tb b rem p rho -> spec_round cs (expand P) tb be rem p rho.
Proof.
  intros [H1 [H2 [H3 [H4 [T [T1 [T2 T3]]]]]]].
  split; [exact H1|]. split; [apply affordable_x; exact H2|]. split; [apply is_rho_x; exact H3|]. split.
  - intros q r Hq Ha Hr. apply (H4 q r Hq); [apply affordable_x; exact Ha|apply is_rho_x; exact Hr].
  - exists T. split; [|split; assumption]. intro q. rewrite (T1 q), (affordable_x q), (is_rho_x q rho). tauto.
Qed.
End Transfer.

Theorem spec_run_expand cs P tb : forall b rem W, spec_run cs P tb b rem W ->
  length P = length b -> forall be, beq be (expand_buds P b) -> spec_run cs (expand P) tb be rem W.
Proof.
  induction 1 as [b rem Hst|b rem p rho b' W Hround Hb' Hl Hrun IH]; intros HL be Hbe.
  - apply spec_stop. intros q Hq Ha. apply (Hst q Hq). apply (affordable_x cs P b be HL Hbe q). exact Ha.
  - assert (HL' : length P = length b') by congruence.
    assert (Hb'q : beq b' (charge P b rho p)) by (split; [rewrite charge_length; exact Hl|exact Hb']).
    assert (Hchain : beq (expand_buds P b') (charge (expand P) be rho p)).
    { eapply beq_trans; [apply expand_buds_beq; exact Hb'q|]. rewrite (charge_expand P b rho p HL).
      apply beq_sym. apply charge_beq; [exact Hbe|reflexivity]. }
    apply (spec_buy cs (expand P) tb be rem p rho (expand_buds P b') W).
    + apply (spec_round_x cs P b be HL Hbe). exact Hround.
    + destruct Hchain as [_ H]. exact H.
    + destruct Hchain as [H _]. rewrite H. apply charge_length.
    + apply IH; [exact HL'|apply beq_refl].
Qed.

(* ---------- pool, zero-cost projects, endowments of the two elections ---------- *)

Definition expanded (x : mes_in) : mes_in :=
  mkIn (mi_costs x) (mi_budget x) (expand (mi_voters x)) (mi_tb x) (mi_enum x) (mi_bin x) (mi_init x).

Lemma wf_voters_expand P : wf_voters (expand P).
Proof.
  unfold wf_voters, expand. rewrite Forall_forall. intros v Hv. apply in_flat_map in Hv.
  destruct Hv as [w [_ Hv]]. apply repeat_spec in Hv. subst v. simpl. lia.
Qed.

Lemma supported_expand P p : wf_voters P -> (supporters (expand P) p <> [] <-> supporters P p <> []).
Proof.
  intro Hv. rewrite <- (supported_iff P p Hv), <- (supported_iff (expand P) p (wf_voters_expand P)).
  pose proof (MultiP.mes_total_sat_mult P p) as E. unfold MultiP.mes_tsat in E.
  rewrite !Qltb_iff. rewrite E. tauto.
Qed.

Lemma si_supported_expand x p : wf_voters (mi_voters x) ->
  si_supported (spec_of (expanded x)) p = si_supported (spec_of x) p.
Proof.
  intro Hv. pose proof (si_supported_iff x p) as A. pose proof (si_supported_iff (expanded x) p) as B.
  pose proof (supported_expand (mi_voters x) p Hv) as C. change (mi_voters (expanded x)) with (expand (mi_voters x)) in B.
  destruct (si_supported (spec_of (expanded x)) p), (si_supported (spec_of x) p); try reflexivity; exfalso.
  - assert (true = true) as T by reflexivity. apply B in T. apply C in T. apply A in T. discriminate T.
  - assert (true = true) as T by reflexivity. apply A in T. apply C in T. apply B in T. discriminate T.
Qed.

Lemma pool_expand x : wf_voters (mi_voters x) -> si_pool (spec_of (expanded x)) = si_pool (spec_of x).
Proof.
  intro Hv. unfold si_pool. apply filter_ext. intro p. rewrite (si_supported_expand x p Hv). reflexivity.
Qed.
Lemma zeros_expand x : wf_voters (mi_voters x) -> si_zeros (spec_of (expanded x)) = si_zeros (spec_of x).
Proof.
  intro Hv. unfold si_zeros. apply filter_ext. intro p. rewrite (si_supported_expand x p Hv). reflexivity.
Qed.

Lemma expand_buds_repeat (a : Q) : forall P, expand_buds P (repeat a (length P)) = repeat a (length (expand P)).
Proof.
  induction P as [|v P IH]; [reflexivity|].
  unfold MultiP.expand_buds, expand in *. cbn [length repeat combine flat_map fst snd].
  rewrite IH, app_length, repeat_length, repeat_app. reflexivity.
Qed.

(* ---------- C06 mes_mult ---------- *)

Theorem run_once_mult x b0 o o' :
  wf_voters (mi_voters x) -> 0 <= b0 -> NoDup (mi_enum x) ->
  (forall p, In p (mi_enum x) <-> (p < length (mi_costs x))%nat) ->
  run_once_res x b0 = Some o -> run_once_res (expanded x) b0 = Some o' ->
  set_eq (o_alloc o) (o_alloc o').
Proof.
  intros Hv Hb Hn He Hr Hr'.
  destruct (run_once_refines_spec x b0 o Hv Hb Hn He Hr) as [Z [W [Hs [Ea HZ]]]].
  destruct (run_once_refines_spec (expanded x) b0 o' (wf_voters_expand _) Hb Hn He Hr') as [Z' [W' [Hs' [Ea' HZ']]]].
  change (mi_costs (expanded x)) with (mi_costs x) in *. change (mi_voters (expanded x)) with (expand (mi_voters x)) in *.
  change (mi_tb (expanded x)) with (mi_tb x) in *. change (mi_init (expanded x)) with (mi_init x) in *.
  rewrite (pool_expand x Hv) in Hs'. rewrite (zeros_expand x Hv) in HZ'.
  assert (Hx : spec_run (mi_costs x) (expand (mi_voters x)) (mi_tb x)
                 (repeat b0 (length (expand (mi_voters x)))) (si_pool (spec_of x)) W).
  { apply (spec_run_expand _ _ _ _ _ _ Hs); [rewrite repeat_length; reflexivity|].
    rewrite expand_buds_repeat. apply beq_refl. }
  pose proof (spec_run_det _ _ _ _ _ _ Hx _ _ (beq_refl _) Hs') as EW. subst W'.
  rewrite Ea, Ea'. intro p. rewrite !in_app_iff.
  assert (In p Z <-> In p Z').
  { split; intro H.
    - eapply Permutation_in; [symmetry; exact HZ'|]. eapply Permutation_in; [exact HZ|exact H].
    - eapply Permutation_in; [symmetry; exact HZ|]. eapply Permutation_in; [exact HZ'|exact H]. }
  tauto.
Qed.

Theorem mes_mult x o o' :
  wf_voters (mi_voters x) -> tcost (mi_inst x) (mi_init x) <= mi_budget x -> NoDup (mi_enum x) ->
  (forall p, In p (mi_enum x) <-> (p < length (mi_costs x))%nat) ->
  mes_resolute x = Some o -> mes_resolute (expanded x) = Some o' ->
  set_eq (o_alloc o) (o_alloc o').
Proof.
  intros Hv Hf Hn He Hr Hr'. unfold mes_resolute in *.
  pose proof (MultiP.mes_share_mult x) as E. fold (expanded x) in E. rewrite <- E in Hr'.
  apply (run_once_mult x (share x) o o' Hv (share_nonneg x Hf) Hn He Hr Hr').
Qed.

(* both calls return, so the statement is not vacuous *)
Corollary mes_mult_total x :
  wf_voters (mi_voters x) -> tcost (mi_inst x) (mi_init x) <= mi_budget x -> NoDup (mi_enum x) ->
  (forall p, In p (mi_enum x) <-> (p < length (mi_costs x))%nat) ->
  exists o o', mes_resolute x = Some o /\ mes_resolute (expanded x) = Some o' /\ set_eq (o_alloc o) (o_alloc o').
Proof.
  intros Hv Hf Hn He. destruct (mes_total x) as [[o Ho] _]. destruct (mes_total (expanded x)) as [[o' Ho'] _].
  exists o, o'. split; [exact Ho|]. split; [exact Ho'|]. apply (mes_mult x o o'); assumption.
Qed.
