(* Proofs/ExhaustionP.v -- proofs about Model/Exhaustion.v (C09). *)
From PB Require Import Model.Exhaustion Proofs.InstanceP.
Open Scope Q_scope.

(* ---------------------------------------------------------------------------------------------- *)
(* budgets of the tries                                                                            *)

Lemma Qofnat_S k : Qofnat (S k) == Qofnat k + 1.
Proof.
  unfold Qofnat. rewrite Nat2Z.inj_succ. unfold Z.succ. rewrite inject_Z_plus. reflexivity.
Qed.

Lemma Qofnat_nonneg k : 0 <= Qofnat k.
Proof.
  unfold Qofnat. change 0 with (inject_Z 0). rewrite <- Zle_Qle. lia.
Qed.

Lemma try_budget_0 b0 step : try_budget b0 step 0 == b0.
Proof. unfold try_budget, Qofnat. simpl. ring. Qed.

Lemma try_budget_S b0 step k : try_budget b0 step (S k) == try_budget b0 step k + step.
Proof. unfold try_budget. rewrite Qofnat_S. ring. Qed.

Lemma Qleb_proper a a' b : a == a' -> Qleb a b = Qleb a' b.
Proof.
  intros E. destruct (Qleb a b) eqn:H1, (Qleb a' b) eqn:H2; try reflexivity.
  - apply Qleb_iff in H1. apply Qleb_false_iff in H2. rewrite E in H1. exfalso.
    apply (Qlt_not_le _ _ H2 H1).
  - apply Qleb_iff in H2. apply Qleb_false_iff in H1. rewrite E in H1. exfalso.
    apply (Qlt_not_le _ _ H1 H2).
Qed.

(* z <= floor x  <->  z <= x *)
Lemma Qfloor_ge_iff z x : (z <= Qfloor x)%Z <-> inject_Z z <= x.
Proof.
  split; intro H.
  - apply Qle_trans with (inject_Z (Qfloor x)); [rewrite <- Zle_Qle; exact H|apply Qfloor_le].
  - apply Qfloor_resp_le in H. rewrite Qfloor_Z in H. exact H.
Qed.

(* the number of tries allowed by `while budget <= bound` *)
Lemma ntries_spec b0 step bound : 0 < step ->
  forall k, (k < ntries b0 step bound)%nat <-> try_budget b0 step k <= bound.
Proof.
  intros Hs k. unfold ntries, try_budget.
  pose proof (Qofnat_nonneg k) as Hk.
  destruct (Qltb bound b0) eqn:E.
  - apply Qltb_iff in E. split; [lia|]. intros H. exfalso.
    assert (0 <= Qofnat k * step) by (apply Qmult_le_0_compat; [exact Hk|apply Qlt_le_weak; exact Hs]).
    lra.
  - apply Qltb_false_iff in E.
    set (x := (bound - b0) / step).
    assert (Hx : 0 <= x).
    { unfold x. apply Qle_shift_div_l; [exact Hs|]. lra. }
    assert (Hf : (0 <= Qfloor x)%Z).
    { apply Qfloor_ge_iff. exact Hx. }
    assert (Hiff : Qofnat k <= x <-> b0 + Qofnat k * step <= bound).
    { unfold x. split; intro H.
      - assert (Qofnat k * step <= (bound - b0) / step * step).
        { apply Qmult_le_compat_r; [exact H|apply Qlt_le_weak; exact Hs]. }
        assert ((bound - b0) / step * step == bound - b0).
        { field. intro Z0. rewrite Z0 in Hs. apply (Qlt_irrefl 0 Hs). }
        lra.
      - apply Qle_shift_div_l; [exact Hs|]. lra. }
    rewrite <- Hiff. unfold Qofnat. rewrite <- Qfloor_ge_iff. lia.
Qed.

(* ---------------------------------------------------------------------------------------------- *)
(* the retry loop                                                                                  *)

Section RetryP.
  Variable T : Type.
  Variable R : Q -> T.
  Variable bad exh : T -> bool.
  Variable step : Q.
  Variable cont : Q -> bool.
  Variable b0 : Q.
  Hypothesis R_proper : forall b b', b == b' -> R b = R b'.
  Hypothesis cont_proper : forall b b', b == b' -> cont b = cont b'.

  Let bk (k : nat) : Q := try_budget b0 step k.
  Let out (k : nat) : T := R (bk k).

  (* the loop over a list of outcomes *)
  Fixpoint pick (k : nat) (prev : T) (outs : list T) : nat * T :=
    match outs with
    | [] => (k, prev)
    | o :: r => if bad o then (S k, prev) else if exh o then (S k, o) else pick (S k) o r
    end.

  Lemma first_stop_shift k k' l : first_stop bad exh k l = None -> first_stop bad exh k' l = None.
  Proof.
    revert k k'. induction l as [|o r IH]; intros k k'; simpl; [reflexivity|].
    destruct (bad o || exh o); [discriminate|]. apply IH.
  Qed.

  Lemma retry_pick n : forall fuel k b prev,
    b == bk k ->
    (forall i, (i < n)%nat -> cont (bk (k + i)) = true) ->
    (cont (bk (k + n)) = false \/ first_stop bad exh 0 (map out (seq k n)) <> None) ->
    (fuel > n)%nat ->
    retry R bad exh step cont fuel k b prev = Some (pick k prev (map out (seq k n))).
  Proof.
    induction n as [|n IH]; intros fuel k b prev Hb Hc Hend Hf.
    - destruct fuel as [|f]; [lia|]. simpl.
      destruct Hend as [He|He]; [|exfalso; apply He; reflexivity].
      rewrite Nat.add_0_r in He. rewrite (cont_proper _ _ Hb), He. reflexivity.
    - destruct fuel as [|f]; [lia|].
      assert (Hck : cont b = true).
      { rewrite (cont_proper _ _ Hb). specialize (Hc 0%nat). rewrite Nat.add_0_r in Hc. apply Hc. lia. }
      assert (HR : R b = out k) by (apply R_proper; exact Hb).
      cbn [retry seq map pick]. rewrite Hck, HR.
      destruct (bad (out k)) eqn:Eb; [reflexivity|].
      destruct (exh (out k)) eqn:Ee; [reflexivity|].
      apply IH.
      + rewrite Qred_correct. unfold bk. rewrite try_budget_S. rewrite Hb. reflexivity.
      + intros i Hi. replace (S k + i)%nat with (k + S i)%nat by lia. apply Hc. lia.
      + destruct Hend as [He|He].
        * left. replace (S k + n)%nat with (k + S n)%nat by lia. exact He.
        * right. intro Hn. apply He. cbn [seq map first_stop]. rewrite Eb, Ee. simpl.
          eapply first_stop_shift. exact Hn.
      + lia.
  Qed.

  Lemma first_stop_app pre : forall k outs,
    forallb (fun o => negb (bad o || exh o)) pre = true ->
    first_stop bad exh k (pre ++ outs) = first_stop bad exh (k + length pre) outs.
  Proof.
    induction pre as [|o r IH]; intros k outs H; simpl.
    - rewrite Nat.add_0_r. reflexivity.
    - simpl in H. apply andb_true_iff in H. destruct H as [Ho Hr].
      apply negb_true_iff in Ho. rewrite Ho. rewrite IH by exact Hr. f_equal. lia.
  Qed.

  Lemma prev_out_app (init : T) (pre outs : list T) : prev_out init (pre ++ outs) (length pre) = prev_out init pre (length pre).
  Proof.
    destruct pre as [|o r]; [reflexivity|].
    simpl length. unfold prev_out. apply app_nth1. simpl. lia.
  Qed.

  Lemma pick_ref (init : T) : forall outs pre,
    forallb (fun o => negb (bad o || exh o)) pre = true ->
    pick (length pre) (prev_out init pre (length pre)) outs = retry_ref bad exh init (pre ++ outs).
  Proof.
    induction outs as [|o r IH]; intros pre Hpre.
    - simpl. unfold retry_ref.
      rewrite first_stop_app by exact Hpre. simpl. rewrite app_nil_r. reflexivity.
    - cbn [pick].
      assert (Hn : nth (length pre) (pre ++ o :: r) init = o).
      { rewrite app_nth2 by lia. rewrite Nat.sub_diag. reflexivity. }
      assert (Hfs : first_stop bad exh 0 (pre ++ o :: r) =
                    if bad o || exh o then Some (length pre) else first_stop bad exh (S (length pre)) r).
      { rewrite first_stop_app by exact Hpre. reflexivity. }
      destruct (bad o) eqn:Eb.
      + unfold retry_ref. rewrite Hfs. simpl. rewrite Hn, Eb. rewrite prev_out_app. reflexivity.
      + destruct (exh o) eqn:Ee.
        * unfold retry_ref. rewrite Hfs. simpl. rewrite Hn, Eb. reflexivity.
        * specialize (IH (pre ++ [o])).
          rewrite app_length in IH. simpl in IH. rewrite Nat.add_1_r in IH.
          assert (Hp : nth (length pre) (pre ++ [o]) init = o).
          { rewrite app_nth2 by lia. rewrite Nat.sub_diag. reflexivity. }
          change (prev_out init (pre ++ [o]) (S (length pre))) with (nth (length pre) (pre ++ [o]) init) in IH.
          rewrite Hp in IH. rewrite IH.
          -- rewrite <- app_assoc. reflexivity.
          -- rewrite forallb_app, Hpre. simpl. rewrite Eb, Ee. reflexivity.
  Qed.

  (* loop = property statement, on the outcomes of the n tries *)
  Theorem retry_eq_ref n fuel (init : T) :
    (forall i, (i < n)%nat -> cont (bk i) = true) ->
    (cont (bk n) = false \/ first_stop bad exh 0 (map out (seq 0 n)) <> None) ->
    (fuel > n)%nat ->
    retry R bad exh step cont fuel 0 b0 init = Some (retry_ref bad exh init (map out (seq 0 n))).
  Proof.
    intros Hc Hend Hf.
    rewrite (retry_pick n fuel 0 b0 init).
    - f_equal. apply (pick_ref init (map out (seq 0 n)) []). reflexivity.
    - unfold bk. rewrite try_budget_0. reflexivity.
    - intros i Hi. apply Hc. exact Hi.
    - exact Hend.
    - exact Hf.
  Qed.

  (* what retry_ref says, in words *)
  Lemma first_stop_Some : forall outs k j d,
    first_stop bad exh k outs = Some j ->
    (k <= j)%nat /\ (j - k < length outs)%nat /\
    (bad (nth (j - k) outs d) || exh (nth (j - k) outs d) = true) /\
    (forall i, (i < j - k)%nat -> bad (nth i outs d) || exh (nth i outs d) = false).
  Proof.
    induction outs as [|o r IH]; intros k j d H; simpl in H; [discriminate|].
    destruct (bad o || exh o) eqn:E.
    - injection H as <-. rewrite Nat.sub_diag. simpl. repeat split; try lia. exact E.
    - apply (IH _ _ d) in H. destruct H as [H1 [H2 [H3 H4]]].
      replace (j - k)%nat with (S (j - S k)) by lia. simpl. repeat split; try lia.
      + exact H3.
      + intros i Hi. destruct i as [|i]; [exact E|]. apply H4. lia.
  Qed.

  Lemma first_stop_None : forall outs k d,
    first_stop bad exh k outs = None ->
    forall i, (i < length outs)%nat -> bad (nth i outs d) || exh (nth i outs d) = false.
  Proof.
    induction outs as [|o r IH]; intros k d H i Hi; simpl in *; [lia|].
    destruct (bad o || exh o) eqn:E; [discriminate|].
    destruct i as [|i]; [exact E|]. apply (IH _ d H). lia.
  Qed.

  Theorem retry_ref_spec (init : T) (outs : list T) :
    (exists j, (j < length outs)%nat /\
       (forall i, (i < j)%nat -> bad (nth i outs init) = false /\ exh (nth i outs init) = false) /\
       ((bad (nth j outs init) = true /\ retry_ref bad exh init outs = (S j, prev_out init outs j)) \/
        (bad (nth j outs init) = false /\ exh (nth j outs init) = true /\
         retry_ref bad exh init outs = (S j, nth j outs init))))
    \/ ((forall i, (i < length outs)%nat -> bad (nth i outs init) = false /\ exh (nth i outs init) = false) /\
        retry_ref bad exh init outs = (length outs, prev_out init outs (length outs))).
  Proof.
    unfold retry_ref. destruct (first_stop bad exh 0 outs) as [j|] eqn:E.
    - left. apply (first_stop_Some _ _ _ init) in E. rewrite Nat.sub_0_r in E.
      destruct E as [_ [Hj [Hs Hb]]]. exists j. split; [exact Hj|]. split.
      + intros i Hi. specialize (Hb i Hi). apply orb_false_iff in Hb. exact Hb.
      + destruct (bad (nth j outs init)) eqn:Eb.
        * left. split; reflexivity.
        * right. simpl in Hs. repeat split. exact Hs.
    - right. split; [|reflexivity]. intros i Hi.
      pose proof (first_stop_None _ _ init E i Hi) as H. apply orb_false_iff in H. exact H.
  Qed.

  (* invariants of the result *)
  Lemma retry_inv (P : T -> Prop) :
    (forall b, bad (R b) = false -> P (R b)) ->
    forall fuel k b prev k' r, P prev -> retry R bad exh step cont fuel k b prev = Some (k', r) -> P r.
  Proof.
    intros HP. induction fuel as [|f IH]; intros k b prev k' r Hprev H; simpl in H; [discriminate|].
    destruct (cont b).
    - destruct (bad (R b)) eqn:Eb.
      + injection H as _ <-. exact Hprev.
      + destruct (exh (R b)).
        * injection H as _ <-. apply HP. exact Eb.
        * eapply IH; [|exact H]. apply HP. exact Eb.
    - injection H as _ <-. exact Hprev.
  Qed.

  Lemma nth_outs n j d : (j < n)%nat -> nth j (map out (seq 0 n)) d = out j.
  Proof.
    intros H. rewrite (nth_indep _ d (out 0%nat)) by (rewrite map_length, seq_length; exact H).
    rewrite (map_nth out (seq 0 n) 0%nat j). rewrite seq_nth by exact H. reflexivity.
  Qed.

  Definition prevo (init : T) (j : nat) : T := match j with 0%nat => init | S i => out i end.

  Lemma prev_out_outs (init : T) n j : (j <= n)%nat -> prev_out init (map out (seq 0 n)) j = prevo init j.
  Proof.
    intros H. destruct j as [|j]; [reflexivity|]. simpl. apply nth_outs. lia.
  Qed.

  (* the loop returns the outcome at the least stopping try, as the property states *)
  Theorem retry_spec_gen n fuel (init : T) :
    (forall i, (i < n)%nat -> cont (bk i) = true) ->
    (cont (bk n) = false \/ first_stop bad exh 0 (map out (seq 0 n)) <> None) ->
    (fuel > n)%nat ->
    exists k r, retry R bad exh step cont fuel 0 b0 init = Some (k, r) /\
      ((exists j, (j < n)%nat /\ k = S j /\
          (forall i, (i < j)%nat -> bad (out i) = false /\ exh (out i) = false) /\
          ((bad (out j) = true /\ r = prevo init j) \/
           (bad (out j) = false /\ exh (out j) = true /\ r = out j)))
       \/ (k = n /\ (forall i, (i < n)%nat -> bad (out i) = false /\ exh (out i) = false) /\
           r = prevo init n)).
  Proof.
    intros Hc Hend Hf. rewrite (retry_eq_ref n fuel init Hc Hend Hf).
    assert (Hlen : length (map out (seq 0 n)) = n) by (rewrite map_length, seq_length; reflexivity).
    destruct (retry_ref_spec init (map out (seq 0 n))) as [[j [Hj [Hb Hr]]]|[Hb Hr]].
    - rewrite Hlen in Hj.
      assert (Hb' : forall i, (i < j)%nat -> bad (out i) = false /\ exh (out i) = false).
      { intros i Hi. specialize (Hb i Hi). rewrite nth_outs in Hb by lia. exact Hb. }
      rewrite nth_outs in Hr by exact Hj. rewrite prev_out_outs in Hr by lia.
      destruct Hr as [[H1 H2]|[H1 [H2 H3]]].
      + exists (S j), (prevo init j). split; [rewrite H2; reflexivity|].
        left. exists j. repeat split; try assumption; try lia; try apply Hb'; try assumption.
        left. split; [exact H1|reflexivity].
      + exists (S j), (out j). split; [rewrite H3; reflexivity|].
        left. exists j. split; [exact Hj|]. split; [reflexivity|]. split; [exact Hb'|].
        right. repeat split; assumption.
    - rewrite Hlen in Hr, Hb. rewrite prev_out_outs in Hr by lia.
      exists n, (prevo init n). split; [rewrite Hr; reflexivity|].
      right. split; [reflexivity|]. split; [|reflexivity].
      intros i Hi. specialize (Hb i Hi). rewrite nth_outs in Hb by exact Hi. exact Hb.
  Qed.

  (* direct form, used for the unbounded loop: stop at try k+j *)
  Lemma retry_stop_at j : forall fuel k b prev,
    b == bk k ->
    (forall i, (i <= j)%nat -> cont (bk (k + i)) = true) ->
    (forall i, (i < j)%nat -> bad (out (k + i)) = false /\ exh (out (k + i)) = false) ->
    bad (out (k + j)) || exh (out (k + j)) = true ->
    (fuel > j)%nat ->
    retry R bad exh step cont fuel k b prev =
      Some (S (k + j), if bad (out (k + j))
                       then match j with 0%nat => prev | S j' => out (k + j') end
                       else out (k + j)).
  Proof.
    induction j as [|j IH]; intros fuel k b prev Hb Hc Hno Hstop Hf.
    - destruct fuel as [|f]; [lia|]. rewrite Nat.add_0_r in *. cbn [retry].
      assert (Hck : cont b = true).
      { rewrite (cont_proper _ _ Hb). specialize (Hc 0%nat). rewrite Nat.add_0_r in Hc. apply Hc. lia. }
      assert (HR : R b = out k) by (apply R_proper; exact Hb).
      rewrite Hck, HR. destruct (bad (out k)) eqn:Eb; [reflexivity|].
      simpl in Hstop. rewrite Hstop. reflexivity.
    - destruct fuel as [|f]; [lia|]. cbn [retry].
      assert (Hck : cont b = true).
      { rewrite (cont_proper _ _ Hb). specialize (Hc 0%nat). rewrite Nat.add_0_r in Hc. apply Hc. lia. }
      assert (HR : R b = out k) by (apply R_proper; exact Hb).
      destruct (Hno 0%nat) as [Eb Ee]; [lia|]. rewrite Nat.add_0_r in Eb, Ee.
      rewrite Hck, HR, Eb, Ee.
      rewrite (IH f (S k) (Qred (b + step)) (out k)).
      + replace (S k + j)%nat with (k + S j)%nat by lia. f_equal. f_equal.
        destruct (bad (out (k + S j))); [|reflexivity].
        destruct j as [|j']; [rewrite Nat.add_0_r; reflexivity|].
        replace (S k + j')%nat with (k + S j')%nat by lia. reflexivity.
      + rewrite Qred_correct. unfold bk. rewrite try_budget_S. rewrite Hb. reflexivity.
      + intros i Hi. replace (S k + i)%nat with (k + S i)%nat by lia. apply Hc. lia.
      + intros i Hi. replace (S k + i)%nat with (k + S i)%nat by lia. apply Hno. lia.
      + replace (S k + j)%nat with (k + S j)%nat by lia. exact Hstop.
      + lia.
  Qed.

  (* no try ever stops and the loop condition never fails: the Python loop does not return *)
  Lemma retry_diverges : forall fuel k b prev,
    b == bk k ->
    (forall i, cont (bk (k + i)) = true /\ bad (out (k + i)) = false /\ exh (out (k + i)) = false) ->
    retry R bad exh step cont fuel k b prev = None.
  Proof.
    induction fuel as [|f IH]; intros k b prev Hb H; [reflexivity|]. cbn [retry].
    destruct (H 0%nat) as [Hc [Eb Ee]]. rewrite Nat.add_0_r in Hc, Eb, Ee.
    assert (HR : R b = out k) by (apply R_proper; exact Hb).
    rewrite (cont_proper _ _ Hb), Hc, HR, Eb, Ee. apply IH.
    - rewrite Qred_correct. unfold bk. rewrite try_budget_S. rewrite Hb. reflexivity.
    - intros i. replace (S k + i)%nat with (k + S i)%nat by lia. apply H.
  Qed.
End RetryP.

Arguments prevo {T} R step b0 init j.

(* ---------------------------------------------------------------------------------------------- *)
(* bounded loop: exhaustion_by_budget_increase                                                     *)

Theorem bounded_retry_spec (T : Type) (R : Q -> T) (bad exh : T -> bool) (b0 step bound : Q) (init : T)
  (fuel : nat) :
  (forall b b', b == b' -> R b = R b') -> 0 < step ->
  let n := ntries b0 step bound in
  let out := fun k => R (try_budget b0 step k) in
  (fuel > n)%nat ->
  exists k r, retry R bad exh step (fun b => Qleb b bound) fuel 0 b0 init = Some (k, r) /\
    ((exists j, (j < n)%nat /\ k = S j /\
        (forall i, (i < j)%nat -> bad (out i) = false /\ exh (out i) = false) /\
        ((bad (out j) = true /\ r = prevo R step b0 init j) \/
         (bad (out j) = false /\ exh (out j) = true /\ r = out j)))
     \/ (k = n /\ (forall i, (i < n)%nat -> bad (out i) = false /\ exh (out i) = false) /\
         r = prevo R step b0 init n)).
Proof.
  intros HR Hs n out Hf.
  apply (retry_spec_gen T R bad exh step (fun b => Qleb b bound) b0 HR).
  - intros b b' E. apply Qleb_proper. exact E.
  - intros i Hi. apply Qleb_iff. apply (ntries_spec b0 step bound Hs). exact Hi.
  - left. apply Qleb_false_iff. apply Qnot_le_lt. intro H.
    apply (ntries_spec b0 step bound Hs) in H. fold n in H. lia.
  - exact Hf.
Qed.

(* unbounded loop (`while True`): the iterated Equal Shares *)
Theorem unbounded_retry_spec (T : Type) (R : Q -> T) (bad exh : T -> bool) (b0 step : Q) (init : T) :
  (forall b b', b == b' -> R b = R b') ->
  let out := fun k => R (try_budget b0 step k) in
  (forall j fuel,
     (forall i, (i < j)%nat -> bad (out i) = false /\ exh (out i) = false) ->
     bad (out j) || exh (out j) = true ->
     (fuel > j)%nat ->
     retry R bad exh step (fun _ => true) fuel 0 b0 init =
       Some (S j, if bad (out j) then prevo R step b0 init j else out j))
  /\ ((forall i, bad (out i) = false /\ exh (out i) = false) ->
      forall fuel, retry R bad exh step (fun _ => true) fuel 0 b0 init = None).
Proof.
  intros HR out. split.
  - intros j fuel Hno Hstop Hf.
    rewrite (retry_stop_at T R bad exh step (fun _ => true) b0 HR (fun _ _ _ => eq_refl) j fuel 0 b0 init).
    + simpl. f_equal.
    + rewrite try_budget_0. reflexivity.
    + reflexivity.
    + intros i Hi. apply Hno. exact Hi.
    + exact Hstop.
    + exact Hf.
  - intros Hno fuel.
    apply (retry_diverges T R bad exh step (fun _ => true) b0 HR (fun _ _ _ => eq_refl)).
    + rewrite try_budget_0. reflexivity.
    + intros i. split; [reflexivity|]. apply Hno.
Qed.

(* ---------------------------------------------------------------------------------------------- *)
(* meaning of the boolean tests                                                                    *)

Lemma infeasible1_false_iff I W : infeasible1 I W = false <-> tcost I W <= budget I.
Proof. unfold infeasible1. rewrite negb_false_iff. apply is_feasible_iff. Qed.

Lemma infeasible1_true_iff I W : infeasible1 I W = true <-> ~ tcost I W <= budget I.
Proof.
  rewrite <- infeasible1_false_iff. destruct (infeasible1 I W); split; congruence.
Qed.

Lemma exh1_iff I stop W : exh1 I stop (all_projects I) W = true <-> stop = true /\ exhaustive I W.
Proof. unfold exh1. rewrite andb_true_iff, is_exhaustive_default. reflexivity. Qed.

Lemma infeasible_any_false_iff I Ws :
  infeasible_any I Ws = false <-> forall W, In W Ws -> tcost I W <= budget I.
Proof.
  unfold infeasible_any. split.
  - intros H W HW. apply infeasible1_false_iff.
    destruct (infeasible1 I W) eqn:E; [|reflexivity].
    assert (existsb (infeasible1 I) Ws = true) by (apply existsb_exists; exists W; auto). congruence.
  - intros H. destruct (existsb (infeasible1 I) Ws) eqn:E; [|reflexivity].
    apply existsb_exists in E. destruct E as [W [HW E]]. apply infeasible1_true_iff in E.
    exfalso. apply E. apply H. exact HW.
Qed.

Lemma exh_any_iff I stop Ws :
  exh_any I stop (all_projects I) Ws = true <-> stop = true /\ exists W, In W Ws /\ exhaustive I W.
Proof.
  unfold exh_any. rewrite andb_true_iff, existsb_exists. split.
  - intros [H1 [W [HW HE]]]. split; [exact H1|]. exists W. split; [exact HW|].
    apply is_exhaustive_default. exact HE.
  - intros [H1 [W [HW HE]]]. split; [exact H1|]. exists W. split; [exact HW|].
    apply is_exhaustive_default. exact HE.
Qed.

(* ---------------------------------------------------------------------------------------------- *)
(* feasibility / extension of the result, for any base rule                                        *)

Definition wf_alloc (I : inst) (W : alloc) : Prop := NoDup W /\ forall p, In p W -> (p < nproj I)%nat.

Lemma feasible_of_wf I W : wf_alloc I W -> tcost I W <= budget I -> feasible I W.
Proof. intros [H1 H2] H3. split; [exact H1|]. split; [exact H2|exact H3]. Qed.

(* the part of "R(b) is feasible for the instance with budget b" that does not depend on b *)
Lemma feasible_any_budget_wf I b W : feasible (mkInst (costs I) b) W -> wf_alloc I W.
Proof. intros [H1 [H2 _]]. split; [exact H1|exact H2]. Qed.

Section IncreaseP.
  Variable I : inst.
  Variable init : alloc.
  Hypothesis init_feasible : feasible I init.

  Section Resolute.
    Variable R : Q -> alloc.
    Hypothesis R_feasible_for_its_budget : forall b, feasible (mkInst (costs I) b) (R b).
    Hypothesis R_extends_init : forall b, incl init (R b).

    Theorem increase_res_feasible stop step bound fuel k W :
      increase_res I R init stop step bound fuel = Some (k, W) -> feasible I W /\ incl init W.
    Proof.
      intros H. split.
      - eapply (retry_inv alloc R (infeasible1 I) _ step _ (feasible I)); [|exact init_feasible|exact H].
        intros b Hb. apply feasible_of_wf.
        + eapply feasible_any_budget_wf. apply R_feasible_for_its_budget.
        + apply infeasible1_false_iff. exact Hb.
      - eapply (retry_inv alloc R (infeasible1 I) _ step _ (fun W => incl init W)); [| |exact H].
        + intros b _. apply R_extends_init.
        + apply incl_refl.
    Qed.

    (* the same for the iterated Equal Shares loop (any starting allocation prev0 ⊇ init) *)
    Theorem mes_iter_res_feasible avail prev0 b0 inc fuel k W :
      feasible I prev0 -> incl init prev0 ->
      mes_iter_res I R avail prev0 b0 inc fuel = Some (k, W) -> feasible I W /\ incl init W.
    Proof.
      intros Hp Hi H. split.
      - eapply (retry_inv alloc R (infeasible1 I) _ inc _ (feasible I)); [|exact Hp|exact H].
        intros b Hb. apply feasible_of_wf.
        + eapply feasible_any_budget_wf. apply R_feasible_for_its_budget.
        + apply infeasible1_false_iff. exact Hb.
      - eapply (retry_inv alloc R (infeasible1 I) _ inc _ (fun W => incl init W)); [| |exact H].
        + intros b _. apply R_extends_init.
        + exact Hi.
    Qed.
  End Resolute.

  Section Irresolute.
    Variable R : Q -> list alloc.
    Hypothesis R_feasible_for_its_budget : forall b W, In W (R b) -> feasible (mkInst (costs I) b) W.
    Hypothesis R_extends_init : forall b W, In W (R b) -> incl init W.

    Theorem increase_irr_feasible stop step bound fuel k Ws :
      increase_irr I R init stop step bound fuel = Some (k, Ws) ->
      forall W, In W Ws -> feasible I W /\ incl init W.
    Proof.
      intros H.
      eapply (retry_inv (list alloc) R (infeasible_any I) _ step _
                (fun Ws => forall W, In W Ws -> feasible I W /\ incl init W)); [| |exact H].
      - intros b Hb W HW. split.
        + apply feasible_of_wf.
          * eapply feasible_any_budget_wf. apply (R_feasible_for_its_budget b). exact HW.
          * rewrite infeasible_any_false_iff in Hb. apply Hb. exact HW.
        + apply (R_extends_init b). exact HW.
      - intros W [<-|[]]. split; [exact init_feasible|apply incl_refl].
    Qed.

    Theorem mes_iter_irr_feasible avail prev0 b0 inc fuel k Ws :
      feasible I prev0 -> incl init prev0 ->
      mes_iter_irr I R avail prev0 b0 inc fuel = Some (k, Ws) ->
      forall W, In W Ws -> feasible I W /\ incl init W.
    Proof.
      intros Hp Hi H.
      eapply (retry_inv (list alloc) R (infeasible_any I) _ inc _
                (fun Ws => forall W, In W Ws -> feasible I W /\ incl init W)); [| |exact H].
      - intros b Hb W HW. split.
        + apply feasible_of_wf.
          * eapply feasible_any_budget_wf. apply (R_feasible_for_its_budget b). exact HW.
          * rewrite infeasible_any_false_iff in Hb. apply Hb. exact HW.
        + apply (R_extends_init b). exact HW.
      - intros W [<-|[]]. split; [exact Hp|exact Hi].
    Qed.
  End Irresolute.
End IncreaseP.

(* ---------------------------------------------------------------------------------------------- *)
(* completion_by_rule_combination                                                                  *)

Lemma alloc_eqb_eq a : forall b, alloc_eqb a b = true <-> a = b.
Proof.
  induction a as [|x r IH]; intros [|y s]; simpl; try (split; [discriminate|discriminate]);
    try (split; reflexivity).
  rewrite andb_true_iff, Nat.eqb_eq, IH. split; [intros [-> ->]; reflexivity|intros [= -> ->]; auto].
Qed.

Lemma alloc_mem_In a l : alloc_mem a l = true <-> In a l.
Proof.
  unfold alloc_mem. rewrite existsb_exists. split.
  - intros [x [Hx E]]. apply alloc_eqb_eq in E. subst. exact Hx.
  - intros H. exists a. split; [exact H|]. apply alloc_eqb_eq. reflexivity.
Qed.

Section CompletionP.
  Variable I : inst.
  Let exhb := exh_all I.

  (* --- resolute --- *)
  Theorem complete_res_spec (rules : list (alloc -> alloc)) :
    (forall r a, In r rules -> incl a (r a)) ->
    (forall r a, In r rules -> feasible I a -> feasible I (r a)) ->
    forall init, feasible I init ->
    let W := complete_res I rules init in
    incl init W /\ feasible I W /\
    match rules with [] => W = init | r1 :: _ => incl (r1 init) W end /\
    (exhb W = true \/ W = fold_left (fun a r => r a) rules init).
  Proof.
    induction rules as [|r rest IH]; intros Hext Hfeas init Hinit; simpl.
    - repeat split; try apply incl_refl; try apply Hinit. right. reflexivity.
    - assert (He : incl init (r init)) by (apply Hext; left; reflexivity).
      assert (Hf : feasible I (r init)) by (apply Hfeas; [left; reflexivity|exact Hinit]).
      destruct (exh_all I (r init)) eqn:E.
      + repeat split; try apply Hf; try exact He; try apply incl_refl. left. exact E.
      + destruct (IH (fun r' a H => Hext r' a (or_intror H)) (fun r' a H => Hfeas r' a (or_intror H))
                    (r init) Hf) as [H1 [H2 [H3 H4]]].
        repeat split; try apply H2.
        * eapply incl_tran; [exact He|exact H1].
        * exact H1.
        * exact H4.
  Qed.

  Theorem complete_res_exhaustive (pre : list (alloc -> alloc)) (rl : alloc -> alloc) :
    (forall a, exhb (rl a) = true) ->
    forall init, exhb (complete_res I (pre ++ [rl]) init) = true.
  Proof.
    intros Hl. induction pre as [|r rest IH]; intros init; simpl.
    - fold exhb. rewrite Hl. apply Hl.
    - destruct (exh_all I (r init)) eqn:E; [exact E|apply IH].
  Qed.

  (* --- irresolute: one scan --- *)
  Lemma scan_fold l : forall res new allr res' new' allr',
    fold_left (scan_alloc I) l (res, new, allr) = (res', new', allr') ->
    (forall W, In W res' <-> In W res \/ (In W l /\ exhb W = true)) /\
    (forall W, In W new' <-> In W new \/ (In W l /\ exhb W = false)) /\
    (allr' = true <-> allr = true /\ forall W, In W l -> exhb W = true).
  Proof.
    induction l as [|a r IH]; intros res new allr res' new' allr' H; simpl in H.
    - injection H as E1 E2 E3. subst. split; [|split].
      + intros W. simpl. tauto.
      + intros W. simpl. tauto.
      + split; [intros Ht; split; [exact Ht|intros ? []]|intros [Ht _]; exact Ht].
    - change (exh_all I a) with (exhb a) in H. destruct (exhb a) eqn:E.
      + apply IH in H. destruct H as [H1 [H2 H3]]. split; [|split].
        * intros W. rewrite H1. simpl. split.
          -- intros [Hin|[Hin HE]]; [|tauto].
             destruct (alloc_mem a res) eqn:M; [tauto|].
             apply in_app_or in Hin. destruct Hin as [Hin|[<-|[]]]; [tauto|]. right. tauto.
          -- intros [Hin|[[<-|Hin] HE]].
             ++ left. destruct (alloc_mem a res); [exact Hin|apply in_or_app; tauto].
             ++ left. destruct (alloc_mem a res) eqn:M; [apply alloc_mem_In; exact M|].
                apply in_or_app. right. left. reflexivity.
             ++ tauto.
        * intros W. rewrite H2. simpl. split; [tauto|]. intros [Hin|[[<-|Hin] HE]]; try tauto. congruence.
        * rewrite H3. simpl. split.
          -- intros [Ha Hall]. split; [exact Ha|]. intros W [<-|HW]; [exact E|apply Hall; exact HW].
          -- intros [Ha Hall]. split; [exact Ha|]. intros W HW. apply Hall. right. exact HW.
      + apply IH in H. destruct H as [H1 [H2 H3]]. split; [|split].
        * intros W. rewrite H1. simpl. split; [tauto|]. intros [Hin|[[<-|Hin] HE]]; try tauto. congruence.
        * intros W. rewrite H2. simpl. rewrite in_app_iff. simpl. split.
          -- intros [[Hin|[<-|[]]]|[Hin HE]]; tauto.
          -- intros [Hin|[[<-|Hin] HE]]; tauto.
        * rewrite H3. split; [intros [Hf _]; discriminate|].
          intros [_ Hall]. specialize (Hall a (or_introl eq_refl)). congruence.
  Qed.

  Lemma fold_left_flat_map (A B S : Type) (f : S -> B -> S) (g : A -> list B) (l : list A) : forall s,
    fold_left (fun st a => fold_left f (g a) st) l s = fold_left f (flat_map g l) s.
  Proof.
    induction l as [|a r IH]; intros s; simpl; [reflexivity|]. rewrite fold_left_app. apply IH.
  Qed.

  Lemma scan_rule_spec r bas res res' new allr :
    scan_rule I r bas res = (res', new, allr) ->
    (forall W, In W res' <-> In W res \/ (In W (flat_map r bas) /\ exhb W = true)) /\
    (forall W, In W new <-> In W (flat_map r bas) /\ exhb W = false) /\
    (allr = true <-> forall W, In W (flat_map r bas) -> exhb W = true).
  Proof.
    unfold scan_rule. rewrite fold_left_flat_map. intros H. apply scan_fold in H.
    destruct H as [H1 [H2 H3]]. split; [exact H1|]. split.
    - intros W. rewrite H2. simpl. tauto.
    - rewrite H3. tauto.
  Qed.

  (* --- irresolute: the whole loop --- *)
  (* any property closed under the rules is inherited by every returned allocation *)
  Theorem complete_irr_closed (P : alloc -> Prop) (rules : list (alloc -> list alloc)) :
    (forall r a W, In r rules -> P a -> In W (r a) -> P W) ->
    forall bas res, (forall a, In a bas -> P a) -> (forall a, In a res -> P a) ->
    forall W, In W (complete_irr I rules bas res) -> P W.
  Proof.
    induction rules as [|r rest IH]; intros Hcl bas res Hb Hr W HW; simpl in HW.
    - apply in_app_or in HW. destruct HW; auto.
    - destruct (scan_rule I r bas res) as [[res' new] allr] eqn:E.
      apply scan_rule_spec in E. destruct E as [E1 [E2 E3]].
      assert (Hout : forall W, In W (flat_map r bas) -> P W).
      { intros W0 H0. apply in_flat_map in H0. destruct H0 as [a [Ha H0]].
        apply (Hcl r a W0); [left; reflexivity|apply Hb; exact Ha|exact H0]. }
      assert (Hres' : forall a, In a res' -> P a).
      { intros a Ha. apply E1 in Ha. destruct Ha as [Ha|[Ha _]]; auto. }
      destruct allr.
      + apply Hres'. exact HW.
      + apply (IH (fun r' a W' H => Hcl r' a W' (or_intror H)) new res'); try assumption.
        intros a Ha. apply E2 in Ha. apply Hout. apply Ha.
  Qed.

  Definition covered (a : alloc) (out : list alloc) : Prop := exists W, In W out /\ incl a W.

  (* nothing is dropped: whatever is in `bas` or `res` is contained in some returned allocation *)
  Theorem complete_irr_covers (rules : list (alloc -> list alloc)) :
    (forall r a W, In r rules -> In W (r a) -> incl a W) ->
    (forall r a, In r rules -> r a <> []) ->
    forall bas res a, In a bas \/ In a res -> covered a (complete_irr I rules bas res).
  Proof.
    induction rules as [|r rest IH]; intros Hext Hne bas res a Ha; simpl.
    - exists a. split; [apply in_or_app; tauto|apply incl_refl].
    - destruct (scan_rule I r bas res) as [[res' new] allr] eqn:E.
      apply scan_rule_spec in E. destruct E as [E1 [E2 E3]].
      assert (Hstep : exists W, incl a W /\ (In W res' \/ In W new)).
      { destruct Ha as [Ha|Ha].
        - destruct (r a) as [|W ws] eqn:Er; [exfalso; apply (Hne r a); [left; reflexivity|exact Er]|].
          assert (HW : In W (flat_map r bas)).
          { apply in_flat_map. exists a. split; [exact Ha|]. rewrite Er. left. reflexivity. }
          exists W. split.
          + apply (Hext r a W); [left; reflexivity|rewrite Er; left; reflexivity].
          + destruct (exhb W) eqn:EW; [left; apply E1; tauto|right; apply E2; tauto].
        - exists a. split; [apply incl_refl|]. left. apply E1. tauto. }
      destruct Hstep as [W [HaW HW]].
      destruct allr.
      + exists W. split; [|exact HaW]. destruct HW as [HW|HW]; [exact HW|].
        apply E2 in HW. destruct HW as [HW1 HW2].
        assert (exhb W = true) by (apply E3; [reflexivity|exact HW1]). congruence.
      + destruct (IH (fun r' a' W' H => Hext r' a' W' (or_intror H)) (fun r' a' H => Hne r' a' (or_intror H))
                    new res' W) as [W' [HW' HWW']]; [tauto|].
        exists W'. split; [exact HW'|]. eapply incl_tran; [exact HaW|exact HWW'].
  Qed.

  (* every returned allocation is exhaustive when the last rule only returns exhaustive ones *)
  Theorem complete_irr_exhaustive (pre : list (alloc -> list alloc)) (rl : alloc -> list alloc) :
    (forall a W, In W (rl a) -> exhb W = true) ->
    forall bas res, (forall W, In W res -> exhb W = true) ->
    forall W, In W (complete_irr I (pre ++ [rl]) bas res) -> exhb W = true.
  Proof.
    intros Hl. induction pre as [|r rest IH]; intros bas res Hr W HW; simpl in HW.
    - destruct (scan_rule I rl bas res) as [[res' new] allr] eqn:E.
      apply scan_rule_spec in E. destruct E as [E1 [E2 E3]].
      assert (Hall : allr = true).
      { apply E3. intros W0 H0. apply in_flat_map in H0. destruct H0 as [a [_ H0]]. apply (Hl a). exact H0. }
      rewrite Hall in HW. apply E1 in HW. destruct HW as [HW|[_ HW]]; auto.
    - destruct (scan_rule I r bas res) as [[res' new] allr] eqn:E.
      apply scan_rule_spec in E. destruct E as [E1 [E2 E3]].
      assert (Hres' : forall W, In W res' -> exhb W = true).
      { intros W0 H0. apply E1 in H0. destruct H0 as [H0|[_ H0]]; auto. }
      destruct allr; [apply Hres'; exact HW|]. apply (IH new res' Hres'). exact HW.
  Qed.

  (* --- the statement of the property for irresolute completion --- *)
  Theorem completion_irr_spec (r1 : alloc -> list alloc) (rest : list (alloc -> list alloc)) (init : alloc) :
    (forall r a W, In r (r1 :: rest) -> In W (r a) -> incl a W) ->
    (forall r a W, In r (r1 :: rest) -> feasible I a -> In W (r a) -> feasible I W) ->
    (forall r a, In r rest -> r a <> []) ->
    feasible I init ->
    let out := completion_irr I (r1 :: rest) init in
    (forall W, In W out -> incl init W /\ feasible I W /\ exists a, In a (r1 init) /\ incl a W) /\
    (forall a, In a (r1 init) -> exists W, In W out /\ incl a W).
  Proof.
    intros Hext Hfeas Hne Hinit out. unfold out, completion_irr. simpl.
    destruct (scan_rule I r1 [init] []) as [[res' new] allr] eqn:E.
    apply scan_rule_spec in E. destruct E as [E1 [E2 E3]].
    simpl in E1, E2, E3. rewrite app_nil_r in E1, E2, E3.
    assert (Hfirst : forall a, In a res' \/ In a new -> In a (r1 init)).
    { intros a [Ha|Ha]; [apply E1 in Ha; destruct Ha as [[]|[Ha _]]; exact Ha|apply E2 in Ha; apply Ha]. }
    assert (HP : forall a, In a (r1 init) ->
               incl init a /\ feasible I a /\ exists a0, In a0 (r1 init) /\ incl a0 a).
    { intros a Ha. split; [apply (Hext r1 init a); [left; reflexivity|exact Ha]|].
      split; [apply (Hfeas r1 init a); [left; reflexivity|exact Hinit|exact Ha]|].
      exists a. split; [exact Ha|apply incl_refl]. }
    split.
    - destruct allr.
      + intros W HW. apply HP. apply Hfirst. left. exact HW.
      + apply (complete_irr_closed
                 (fun W => incl init W /\ feasible I W /\ exists a, In a (r1 init) /\ incl a W) rest).
        * intros r a W Hr [Ha1 [Ha2 [a0 [Ha3 Ha4]]]] HW.
          assert (incl a W) by (apply (Hext r a W); [right; exact Hr|exact HW]).
          split; [eapply incl_tran; eassumption|]. split.
          -- apply (Hfeas r a W); [right; exact Hr|exact Ha2|exact HW].
          -- exists a0. split; [exact Ha3|eapply incl_tran; eassumption].
        * intros a Ha. apply HP. apply Hfirst. right. exact Ha.
        * intros a Ha. apply HP. apply Hfirst. left. exact Ha.
    - intros a Ha.
      assert (Hin : In a res' \/ In a new).
      { destruct (exhb a) eqn:EA; [left; apply E1; tauto|right; apply E2; tauto]. }
      destruct allr.
      + exists a. split; [|apply incl_refl]. destruct Hin as [Hin|Hin]; [exact Hin|].
        apply E2 in Hin. destruct Hin as [H1 H2].
        assert (exhb a = true) by (apply E3; [reflexivity|exact H1]). congruence.
      + apply (complete_irr_covers rest).
        * intros r a' W Hr HW. apply (Hext r a' W); [right; exact Hr|exact HW].
        * exact Hne.
        * tauto.
  Qed.
End CompletionP.

(* the oracle's reference (retry_ref on the tabulated outcomes) is what the bounded loop returns *)
Theorem bounded_retry_eq_ref (T : Type) (R : Q -> T) (bad exh : T -> bool) (b0 step bound : Q) (init : T)
  (fuel : nat) :
  (forall b b', b == b' -> R b = R b') -> 0 < step ->
  (fuel > ntries b0 step bound)%nat ->
  retry R bad exh step (fun b => Qleb b bound) fuel 0 b0 init =
    Some (retry_ref bad exh init (map (fun k => R (try_budget b0 step k)) (seq 0 (ntries b0 step bound)))).
Proof.
  intros HR Hs Hf.
  apply (retry_eq_ref T R bad exh step (fun b => Qleb b bound) b0 HR).
  - intros b b' E. apply Qleb_proper. exact E.
  - intros i Hi. apply Qleb_iff. apply (ntries_spec b0 step bound Hs). exact Hi.
  - left. apply Qleb_false_iff. apply Qnot_le_lt. intro H.
    apply (ntries_spec b0 step bound Hs) in H. lia.
  - exact Hf.
Qed.

Theorem completion_irr_exhaustive (I : inst) (pre : list (alloc -> list alloc)) (rl : alloc -> list alloc)
  (init : alloc) :
  (forall a W, In W (rl a) -> exh_all I W = true) ->
  forall W, In W (completion_irr I (pre ++ [rl]) init) -> exh_all I W = true.
Proof.
  intros Hl W HW. apply (complete_irr_exhaustive I pre rl Hl [init] []); [intros ? []|exact HW].
Qed.
