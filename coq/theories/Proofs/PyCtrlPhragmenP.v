(* Proofs/PyCtrlPhragmenP.v -- the REGENERATED sequential Phragmen rule (sequential_phragmen of
   pabutools/rules/phragmen.py, resolute branch) equals the hand model [phragmen_res] of Model/Phragmen.v that
   Props/C05.v is about.  Statements re-exported by Props/C05gen.v.  Independent of the other PyCtrl proofs.

   The generated function keeps the voters as a list of (ballot, load, multiplicity) triples (the PhragmenVoter
   objects), the model keeps the profile P and the list of loads apart; the model rounds every new load and the running
   cost with Qred, the source does not: the simulation is up to == on the loads and on the cost. *)
From Coq Require Import String.
From PB Require Import Model.PyCtrlPrims Generated.PyCtrl Proofs.PyCtrlLib.
From PB Require Import Model.Phragmen Proofs.PhragmenP.
From PB Require Base.JRAux.
Open Scope Q_scope.

Definition voter := (aballot * Q * Q)%type.
Definition v_ballot (v : voter) : aballot := fst (fst v).
Definition v_load (v : voter) : Q := snd (fst v).
Definition v_mult (v : voter) : Q := snd v.

(* a PhragmenVoter object stands for an entry (ballot, load) of the model *)
Definition vrel (v : voter) (bx : aballot * Q) : Prop :=
  v_ballot v = fst bx /\ v_load v == snd bx /\ v_mult v = Qnat (amul (fst bx)).

(* ---------- sum(voters[i].total_load() for i in supporters[p]) = wsum ---------- *)
Lemma supporters_sum (p : proj) : forall (voters voters0 : list voter) (l : list (aballot * Q)),
  Forall2 vrel voters l -> map v_ballot voters0 = map fst l ->
  Qsum (map fst (filter (fun rs : Q * voter => approves (v_ballot (snd rs)) p)
                        (combine (map (fun g : voter => v_mult g * v_load g) voters) voters0))) ==
  Qsum (map (fun bx => if approves (fst bx) p then Qnat (amul (fst bx)) * snd bx else 0) l).
Proof.
  intros voters voters0 l H. revert voters0. induction H as [|v bx voters l Hv H IH]; intros voters0 E.
  - destruct voters0; [reflexivity|discriminate].
  - destruct voters0 as [|v0 voters0]; [discriminate|]. cbn [map] in E. injection E as E0 E.
    cbn [map combine filter snd]. rewrite E0. destruct Hv as [_ [Hl Hm]].
    destruct (approves (fst bx) p); cbn [map fst Qsum]; rewrite (IH voters0 E); [|ring].
    rewrite Hm, Hl. reflexivity.
Qed.

(* ---------- the running minimum with the list of projects attaining it ---------- *)
Section ScanMin.
  Context {R : Type}.
  Variable vg : proj -> Qx.
  Variable F : option Qx * option (list proj) -> proj -> py_flow (option Qx * option (list proj)) R.
  Definition mst (best : option Qx) (arg : list proj) : option Qx * option (list proj) :=
    (best, match best with None => None | Some _ => Some arg end).
  Definition mstep (best : option Qx) (arg : list proj) (p : proj) : option Qx * list proj :=
    match best with
    | None => (Some (vg p), [p])
    | Some m => if Qx_ltb (vg p) m then (Some (vg p), [p])
                else if Qx_eqb m (vg p) then (Some m, arg ++ [p]) else (Some m, arg)
    end.
  Hypothesis HF : forall best arg p, F (mst best arg) p = Next (mst (fst (mstep best arg p)) (snd (mstep best arg p))).

  Lemma scan_min : forall l best arg,
    py_for F l (mst best arg) = inl (mst (fst (argmin_loop vg l best arg)) (snd (argmin_loop vg l best arg))).
  Proof.
    induction l as [|p l IH]; intros best arg; [reflexivity|].
    rewrite py_for_cons, HF. cbn [argmin_loop]. unfold mstep. destruct best as [m|].
    - destruct (Qx_ltb (vg p) m); [apply IH|]. destruct (Qx_eqb m (vg p)); apply IH.
    - apply IH.
  Qed.
End ScanMin.

(* the scan does not tell values that are equal up to == apart *)
Definition oqx_eq (a b : option Qx) : Prop :=
  match a, b with Some x, Some y => Qx_eq x y | None, None => True | _, _ => False end.

Lemma Qx_ltb_compat a a' b b' : Qx_eq a a' -> Qx_eq b b' -> Qx_ltb a b = Qx_ltb a' b'.
Proof.
  intros Ha Hb. destruct a as [x|], a' as [x'|], b as [y|], b' as [y'|]; cbn in *; try contradiction; try reflexivity.
  unfold Qx_ltb. cbn. f_equal. apply Qleb_compat; assumption.
Qed.
Lemma Qx_eqb_compat a a' b b' : Qx_eq a a' -> Qx_eq b b' -> Qx_eqb a b = Qx_eqb a' b'.
Proof.
  intros Ha Hb. destruct a as [x|], a' as [x'|], b as [y|], b' as [y'|]; cbn in *; try contradiction; try reflexivity.
  destruct (Qeqb x y) eqn:E1, (Qeqb x' y') eqn:E2; try reflexivity.
  - apply Qeqb_iff in E1. apply Qeqb_false_iff in E2. exfalso. apply E2. rewrite <- Ha, <- Hb. exact E1.
  - apply Qeqb_iff in E2. apply Qeqb_false_iff in E1. exfalso. apply E1. rewrite Ha, Hb. exact E2.
Qed.

Lemma argmin_loop_Qx_eq (f g : proj -> Qx) : forall l best best' arg,
  (forall p, In p l -> Qx_eq (f p) (g p)) -> oqx_eq best best' ->
  oqx_eq (fst (argmin_loop f l best arg)) (fst (argmin_loop g l best' arg)) /\
  snd (argmin_loop f l best arg) = snd (argmin_loop g l best' arg).
Proof.
  induction l as [|p l IH]; intros best best' arg Hfg Hb; [split; [exact Hb|reflexivity]|].
  cbn [argmin_loop].
  assert (Hp := Hfg p (or_introl eq_refl)).
  assert (Hl : forall q, In q l -> Qx_eq (f q) (g q)) by (intros q Hq; apply Hfg; right; exact Hq).
  destruct best as [m|], best' as [m'|]; cbn in Hb; try contradiction.
  - rewrite (Qx_ltb_compat _ _ _ _ Hp Hb), (Qx_eqb_compat _ _ _ _ Hb Hp).
    destruct (Qx_ltb (g p) m'); [apply IH; [exact Hl|exact Hp]|].
    destruct (Qx_eqb m' (g p)); apply IH; assumption.
  - apply IH; [exact Hl|exact Hp].
Qed.

(* ---------- small facts about the model ---------- *)
Lemma phr_res_S I P tb f p0 r loads alloc c :
  phr_res (S f) I P tb (p0 :: r) loads alloc c =
  match phr_round I P tb loads (p0 :: r) c with
  | RStop => Some alloc
  | RPick tied t => match tied with
                    | [] => None
                    | p :: _ => phr_res f I P tb (remove_proj p (p0 :: r)) (apply_load P loads p t) (alloc ++ [p])
                                        (Qred (c + cost I p))
                    end
  end.
Proof. reflexivity. Qed.

Lemma phr_res_mono I P tb : forall f projs loads alloc c W,
  phr_res f I P tb projs loads alloc c = Some W -> phr_res (S f) I P tb projs loads alloc c = Some W.
Proof.
  induction f as [|f IH]; intros projs loads alloc c W H; (destruct projs as [|p0 r]; [exact H|]); rewrite phr_res_S.
  - cbn [phr_res] in H. destruct (phr_round I P tb loads (p0 :: r) c); [exact H|discriminate].
  - rewrite phr_res_S in H. destruct (phr_round I P tb loads (p0 :: r) c) as [|tied t]; [exact H|].
    destruct tied as [|p tied]; [discriminate|]. apply IH. exact H.
Qed.

Lemma phr_res_mono_le I P tb f f' projs loads alloc c W : (f <= f')%nat ->
  phr_res f I P tb projs loads alloc c = Some W -> phr_res f' I P tb projs loads alloc c = Some W.
Proof. intros Hle. induction Hle as [|f' Hle IH]; [auto|]. intros H0. apply phr_res_mono. auto. Qed.

Lemma combine_map_snd {A B} (g : A * B -> B) (P : list A) (l : list B) : length l = length P ->
  combine P (map g (combine P l)) = map (fun bx => (fst bx, g bx)) (combine P l).
Proof.
  revert l. induction P as [|a P IH]; intros [|x l] H; try discriminate; [reflexivity|].
  cbn [combine map fst]. f_equal. apply IH. cbn in H. lia.
Qed.

(* projects.remove(p) on a duplicate-free collection that contains p *)
Lemma py_remove_proj l x : NoDup l -> In x l -> py_remove l x = Some (remove_proj x l).
Proof.
  induction l as [|y r IH]; intros Hnd Hin; [destruct Hin|]. inversion Hnd as [|? ? Hy Hr]; subst.
  cbn [py_remove remove_proj filter]. destruct (Nat.eqb y x) eqn:E; cbn [negb].
  - apply Nat.eqb_eq in E. subst. f_equal. symmetry. apply filter_all.
    intros z Hz. apply negb_true_iff, Nat.eqb_neq. intros ->. contradiction.
  - destruct Hin as [->|Hin]; [rewrite Nat.eqb_refl in E; discriminate|].
    fold (remove_proj x r). rewrite (IH Hr Hin). reflexivity.
Qed.

(* the supporters' total loads, read through the index lists built from the initial voters *)
Definition sup_loads (voters voters0 : list voter) (p : proj) : list Q :=
  map fst (filter (fun rs : Q * voter => approves (v_ballot (snd rs)) p)
                  (combine (map (fun g : voter => v_mult g * v_load g) voters) voters0)).

Lemma all_some_sup (voters voters0 : list voter) (p : proj) (Pf : nat * voter -> bool) (g : nat * voter -> nat)
  (sel : nat -> option Q) :
  (forall i v, Pf (i, v) = approves (v_ballot v) p) -> (forall i v, g (i, v) = i) ->
  (forall i, sel i = match py_getitem voters i with Some x => Some (v_mult x * v_load x) | None => None end) ->
  length voters = length voters0 ->
  py_all_some (map sel (map g (filter Pf (py_enumerate voters0)))) = Some (sup_loads voters voters0 p).
Proof.
  intros HP Hg Hsel Hl. rewrite map_map.
  rewrite (py_select (map (fun x : voter => v_mult x * v_load x) voters) voters0 Pf
             (fun v => approves (v_ballot v) p) (fun x => sel (g x))).
  - reflexivity.
  - intros i v. apply HP.
  - intros i v. rewrite Hg, Hsel. unfold py_getitem. rewrite nth_error_map.
    destruct (nth_error voters i); reflexivity.
  - rewrite map_length. exact Hl.
Qed.

(* `for voter in voters: if selected in voter.ballot: voter.load = t` *)
Definition upd_voter (sel : proj) (x : Q) (v : voter) : voter :=
  if approves (v_ballot v) sel then (v_ballot v, x, v_mult v) else v.

Lemma upd_loop_fin {R} (U : list voter -> voter -> py_flow (list voter) R) (sel : proj) (x : Q) :
  (forall acc v, U acc v = Next (acc ++ [upd_voter sel x v])) ->
  forall voters acc, py_for U voters acc = inl (acc ++ map (upd_voter sel x) voters).
Proof.
  intros HU. induction voters as [|v l IH]; intros acc; [cbn; rewrite app_nil_r; reflexivity|].
  rewrite py_for_cons, HU, IH, <- app_assoc. reflexivity.
Qed.

Lemma upd_loop_none {R} (U : list voter -> voter -> py_flow (list voter) R) (sel : proj) :
  (forall acc v, approves (v_ballot v) sel = false -> U acc v = Next (acc ++ [v])) ->
  forall voters acc, (forall v, In v voters -> approves (v_ballot v) sel = false) ->
  py_for U voters acc = inl (acc ++ voters).
Proof.
  intros HU. induction voters as [|v l IH]; intros acc H; [cbn; rewrite app_nil_r; reflexivity|].
  rewrite py_for_cons, HU by (apply H; left; reflexivity).
  rewrite IH by (intros w Hw; apply H; right; exact Hw). rewrite <- app_assoc. reflexivity.
Qed.

(* the PhragmenVoter objects built from the profile and the initial loads *)
Definition mkv (P : list aballot) (l : list Q) : list voter :=
  map (fun bx => (fst bx, snd bx, Qnat (amul (fst bx)))) (combine P l).

Lemma mkv_zero P : map (fun b : aballot => (b, 0, Qnat (amul b))) P = mkv P (zero_loads P).
Proof. unfold mkv, zero_loads. induction P as [|b P IH]; [reflexivity|]. cbn. rewrite IH. reflexivity. Qed.

Lemma mkv_ballots P l : length l = length P -> map v_ballot (mkv P l) = P.
Proof.
  unfold mkv. revert l. induction P as [|b P IH]; intros [|x l] H; try discriminate; [reflexivity|].
  cbn. f_equal. apply IH. cbn in H. lia.
Qed.

Lemma mkv_rel P l : Forall2 vrel (mkv P l) (combine P l).
Proof.
  unfold mkv. induction (combine P l) as [|bx r IH]; [constructor|]. cbn [map]. constructor; [|exact IH].
  unfold vrel, v_ballot, v_load, v_mult. cbn. repeat split; reflexivity.
Qed.

Lemma all_some_voters (P : list aballot) (l : list Q) (F : nat * aballot -> option voter) :
  length l = length P ->
  (forall i b, F (i, b) = match py_getitem l i with Some g => Some (b, g, Qnat (amul b)) | None => None end) ->
  py_all_some (map F (py_enumerate P)) = Some (mkv P l).
Proof.
  intros Hl HF. rewrite py_enumerate_from.
  assert (H : forall P' l' pre, length l' = length P' -> l = pre ++ l' ->
            py_all_some (map F (enum_from (length pre) P')) = Some (mkv P' l')).
  { induction P' as [|b P' IH]; intros l' pre Hl' E; [destruct l'; [reflexivity|discriminate]|].
    destruct l' as [|x l']; [discriminate|]. rewrite enum_from_cons. cbn [map py_all_some].
    rewrite HF. unfold py_getitem. rewrite E, nth_error_app_len.
    specialize (IH l' (pre ++ [x])). rewrite app_length in IH. cbn [length] in IH.
    replace (length pre + 1)%nat with (S (length pre)) in IH by lia.
    rewrite IH; [reflexivity|cbn in Hl'; lia|rewrite <- app_assoc; exact E]. }
  apply (H P l [] Hl eq_refl).
Qed.

Lemma Qltb_compat a a' b b' : a == a' -> b == b' -> Qltb a b = Qltb a' b'.
Proof. intros Ha Hb. unfold Qltb. fold (Qleb b a). fold (Qleb b' a'). f_equal. apply Qleb_compat; assumption. Qed.

Lemma Forall2_map2 {A B A' B'} (R : A -> B -> Prop) (R' : A' -> B' -> Prop) (f : A -> A') (g : B -> B') l1 l2 :
  (forall a b, R a b -> R' (f a) (g b)) -> Forall2 R l1 l2 -> Forall2 R' (map f l1) (map g l2).
Proof. intros H F. induction F; cbn; constructor; auto. Qed.

Lemma Forall2_len {A B} (R : A -> B -> Prop) l l' : Forall2 R l l' -> length l = length l'.
Proof. induction 1; cbn; congruence. Qed.

Lemma Forall2_In_l {A B} (R : A -> B -> Prop) l l' a : Forall2 R l l' -> In a l -> exists b, In b l' /\ R a b.
Proof.
  induction 1 as [|x y l l' Hxy F IH]; intros Hin; [destruct Hin|]. destruct Hin as [<-|Hin].
  - exists y. split; [left; reflexivity|exact Hxy].
  - destruct (IH Hin) as [b [Hb Hr]]. exists b. split; [right; exact Hb|exact Hr].
Qed.

Lemma upd_voter_rel sel x x' v bx : x == x' -> vrel v bx ->
  vrel (upd_voter sel x v) (fst bx, if approves (fst bx) sel then x' else snd bx).
Proof.
  intros Hx [Hb [Hl Hm]]. unfold upd_voter. rewrite Hb. unfold vrel, v_ballot, v_load, v_mult in *.
  destruct (approves (fst bx) sel); cbn [fst snd]; repeat split; auto.
Qed.

Lemma res_bind_eq {T U} (X : py_res T) (k : T -> py_res U) (v : T) : X = Ok v ->
  match X with Ok s => k s | Raise e => Raise e | OutOfFuel => OutOfFuel end = k v.
Proof. intros ->. reflexivity. Qed.

Lemma phr_irr_S I P tb f p0 r loads alloc c :
  phr_irr (S f) I P tb (p0 :: r) loads alloc c =
  match phr_round I P tb loads (p0 :: r) c with
  | RStop => Some [alloc]
  | RPick tied t => opt_concat (map (fun p => phr_irr f I P tb (remove_proj p (p0 :: r)) (apply_load P loads p t)
                                                (alloc ++ [p]) (Qred (c + cost I p))) tied)
  end.
Proof. reflexivity. Qed.

Lemma opt_concat_map_mono {A B} (g g' : A -> option (list B)) (l : list A) w :
  (forall p a, In p l -> g p = Some a -> g' p = Some a) ->
  opt_concat (map g l) = Some w -> opt_concat (map g' l) = Some w.
Proof.
  revert w. induction l as [|x l IH]; intros w H E; [exact E|]. cbn [map opt_concat] in *.
  destruct (g x) as [a|] eqn:Ea; [|discriminate]. destruct (opt_concat (map g l)) as [b|] eqn:Eb; [|discriminate].
  rewrite (H x a (or_introl eq_refl) Ea), (IH b); [exact E| |reflexivity].
  intros p a' Hp. apply H. right. exact Hp.
Qed.

Lemma phr_irr_mono I P tb : forall f projs loads alloc c W,
  phr_irr f I P tb projs loads alloc c = Some W -> phr_irr (S f) I P tb projs loads alloc c = Some W.
Proof.
  induction f as [|f IH]; intros projs loads alloc c W H; (destruct projs as [|p0 r]; [exact H|]); rewrite phr_irr_S.
  - cbn [phr_irr] in H. destruct (phr_round I P tb loads (p0 :: r) c); [exact H|discriminate].
  - rewrite phr_irr_S in H. destruct (phr_round I P tb loads (p0 :: r) c) as [|tied t]; [exact H|].
    eapply opt_concat_map_mono; [|exact H]. intros p a _ Hp. apply IH. exact Hp.
Qed.

Lemma phr_irr_mono_le I P tb f f' projs loads alloc c W : (f <= f')%nat ->
  phr_irr f I P tb projs loads alloc c = Some W -> phr_irr f' I P tb projs loads alloc c = Some W.
Proof. intros Hle. induction Hle as [|f'' Hle IH]; [auto|]. intros H0. apply phr_irr_mono. auto. Qed.

(* the tie-breaking rule is only consulted when there is a tie: on at most one project the order is the identity *)
Lemma tie_order_short (tb : proj -> Q) (l : list proj) :
  (if py_nat_lt 1 (length l) then tb_order_of_key tb l else l) = tb_order_of_key tb l.
Proof.
  unfold py_nat_lt, tb_order_of_key, tie_order. destruct l as [|x [|y r]]; reflexivity.
Qed.

Section PhragmenRes.
Variables (I : inst) (P : list aballot).
Hypothesis Hmul : Forall (fun b => (0 < amul b)%nat) P.

(* a project somebody approves has a positive approval score *)
Lemma score_pos p b : In b P -> approves b p = true -> 0 < score P p.
Proof.
  intros Hb Ha. unfold score. induction P as [|a l IH]; [destruct Hb|]. cbn [map Qsum].
  inversion Hmul as [|? ? Ha0 Hl]; subst.
  assert (Hnn : forall l', 0 <= Qsum (map (fun b0 => if approves b0 p then Qnat (amul b0) else 0) l')).
  { induction l' as [|x l' IHl]; cbn; [lra|]. destruct (approves x p); [|lra].
    assert (0 <= Qnat (amul x)) by apply Qnat_nonneg. lra. }
  destruct Hb as [->|Hb].
  - rewrite Ha. assert (0 < Qnat (amul b)) by (apply JRAux.Qnat_pos; exact Ha0). specialize (Hnn l). lra.
  - specialize (IH Hl Hb). destruct (approves a p); [|lra]. assert (0 <= Qnat (amul a)) by apply Qnat_nonneg. lra.
Qed.

(* one call of the generated inner function against one step of the model's recursion *)
(* use the result E : <call> = Ok v of a recursive call inside the goal (the call is a `fix` applied to a successor:
   rewriting with E would unfold it, so the call is generalised instead) *)
Ltac phr_use_call E :=
  match type of E with
  | _ = Ok ?v =>
      match goal with
      | |- context [match ?X with _ => _ end] =>
          lazymatch type of X with py_res _ => idtac end;
          let H := fresh "H" in
          assert (H : X = Ok v) by exact E;
          revert H; generalize X;
          let xx := fresh "xx" in let Hxx := fresh "Hxx" in
          intros xx Hxx; subst xx
      end
  end; cbv beta iota.

(* `alloc.sort(); if alloc not in allocs: allocs.append(alloc)` *)
Definition add_leaf (acc : list (list proj)) (W : list proj) : list (list proj) :=
  if py_alloc_in (name_sort W) acc then acc else acc ++ [name_sort W].

Ltac phr_leaf_irr Hres :=
  unfold py_sorted_projects; injection Hres as <-; cbn [fold_left]; unfold add_leaf;
  match goal with |- context [py_alloc_in ?a ?l] => destruct (py_alloc_in a l) end; cbn [negb];
  do 3 eexists; reflexivity.

Ltac phr_leaf Hres :=
  unfold py_sorted_projects, py_alloc_in; cbn [existsb negb app];
  injection Hres as <-; eexists; eexists; reflexivity.

Ltac phr_step V0 HV0 IH last :=
  lazymatch goal with
  | Hl : length ?loads = length P, HV : Forall2 vrel ?voters (combine P ?loads), Hc : ?cg == ?c,
    Hndp : NoDup ?projs, Hres : ?RUN ?f I P ?tb ?projs ?loads ?alloc ?c = Some ?W1 |- _ =>
    lazymatch last with true => idtac | 2%nat => idtac | _ => remember f as f1 in |- * end;
    cbv beta iota fix;
    destruct projs as [|p0 r];
    [ (* no project left *)
      unfold py_nat_eq, py_is_empty; cbn [length Nat.eqb negb]; cbv iota; cbn [negb]; cbv iota;
      lazymatch last with
      | true => assert (Hres' : Some alloc = Some W1) by (destruct f; exact Hres); phr_leaf Hres'
      | false => assert (Hres' : Some alloc = Some W1) by (destruct f; exact Hres); phr_leaf Hres'
      | _ => assert (Hres' : Some [alloc] = Some W1) by (destruct f; exact Hres); phr_leaf_irr Hres'
      end
    | unfold py_nat_eq, py_is_empty; cbn [length Nat.eqb negb]; cbv iota; cbn [negb]; cbv iota;
      assert (HlenV : length voters = length P) by
        (rewrite (Forall2_len _ _ _ HV), combine_length, Hl, Nat.min_id; reflexivity);
      assert (HlenV0 : length V0 = length P) by (rewrite <- HV0 at 2; rewrite map_length; reflexivity);
      pose (vg := fun p : proj => if Qeqb (score P p) 0 then PInf
                                  else Fin (frac (Qsum (sup_loads voters V0 p) + cost I p) (score P p)));
      match goal with
      | |- context [py_for ?SC (p0 :: r) (None, None)] =>
          assert (HSC : forall best arg p, SC (mst best arg) p =
                          Next (mst (fst (mstep vg best arg p)) (snd (mstep vg best arg p))));
          [ intros best arg p; unfold mst, mstep, vg; cbv beta iota; unfold py_eq, py_ne, py_approval_score;
            destruct (Qeqb (score P p) 0) eqn:Es; cbn [negb]; cbv beta iota;
            try (erewrite (all_some_sup voters V0 p);
                 [ | intros; reflexivity | intros; reflexivity | intros; reflexivity | congruence ]);
            unfold py_sum, py_cost;
            destruct best as [m|]; cbn [fst snd]; try reflexivity;
            repeat (match goal with |- context [if ?c then _ else _] => destruct c eqn:? end; cbn [fst snd]);
            reflexivity
          | pose proof (scan_min vg SC HSC (p0 :: r) None []) as Hscan; unfold mst at 1 in Hscan;
            match type of Hscan with ?lhs = _ =>
              match goal with |- context [py_for SC (p0 :: r) ?s0] => change (py_for SC (p0 :: r) s0) with lhs end end;
            rewrite Hscan; clear Hscan ]
      end;
      (* the model's scan *)
      assert (Hpt : forall p, In p (p0 :: r) -> Qx_eq (vg p) (new_maxload I P loads p));
      [ intros p _; unfold vg, new_maxload; destruct (Qeqb (score P p) 0); [exact Logic.I|];
        cbn [Qx_eq]; rewrite Qred_correct; unfold frac, sup_loads;
        rewrite (supporters_sum p voters V0 (combine P loads) HV) by
          (rewrite HV0; clear - Hl; revert loads Hl; induction P as [|b P' IHP]; intros [|x l] Hl; try discriminate;
           [reflexivity|cbn; f_equal; apply IHP; cbn in Hl; lia]);
        reflexivity
      | ];
      destruct (argmin_loop_Qx_eq vg (new_maxload I P loads) (p0 :: r) None None [] Hpt Logic.I) as [Hbest Harg];
      destruct (argmin_loop_spec (new_maxload I P loads) p0 r) as [m [Emod [Hle [p' [Hp' Hmp']]]]];
      rewrite Emod in Hbest, Harg; cbn [fst snd] in Hbest, Harg;
      destruct (argmin_loop vg (p0 :: r) None []) as [bg argg] eqn:Eg; cbn [fst snd] in Hbest, Harg |- *;
      subst argg; destruct bg as [mg|]; [|contradiction Hbest];
      unfold mst; cbv beta iota;
      set (arg := filter (fun q => Qx_eqb m (new_maxload I P loads q)) (p0 :: r)) in *;
      (* the stop test on the tied set *)
      rewrite py_any_map;
      assert (Eov : existsb (fun p => py_gt (cg + py_cost I p) (budget I)) arg = existsb (overshoots I c) arg) by
        (apply existsb_ext_in; intros q _; unfold py_gt, overshoots, py_cost; apply Qltb_compat; [reflexivity|rewrite Hc; reflexivity]);
      rewrite Eov; clear Eov;
      lazymatch last with
      | true => (cbn [phr_res] in Hres; (unfold phr_round in Hres; rewrite Emod in Hres; fold arg in Hres);
  destruct (existsb (overshoots I c) arg); [phr_leaf Hres|discriminate])
      | false => (rewrite phr_res_S in Hres; (unfold phr_round in Hres; rewrite Emod in Hres; fold arg in Hres);
  destruct (existsb (overshoots I c) arg); [phr_leaf Hres|];
  rewrite ?tie_order_short; unfold tb_order_of_key, py_sorted_projects;
  destruct (tie_order tb (name_sort arg)) as [|sel tl] eqn:Et; [discriminate|];
  cbn [py_getitem nth_error];
  assert (Hsel : In sel arg) by
    (apply name_sort_In, (tie_order_In tb); rewrite Et; left; reflexivity);
  assert (Hselp : In sel (p0 :: r) /\ Qx_eqb m (new_maxload I P loads sel) = true) by (apply (proj1 (filter_In (fun q => Qx_eqb m (new_maxload I P loads q)) sel (p0 :: r))); exact Hsel);
  destruct m as [x'|], mg as [x|]; cbn in Hbest; try contradiction;
  [ (* a finite new maximum load: the supporters' loads are set to it *)
    cbn [py_finite];
    erewrite (upd_loop_fin _ sel x);
      [|intros acc v; unfold upd_voter, v_ballot, v_mult; destruct (approves (fst (fst v)) sel); reflexivity];
    cbn [app]; rewrite (py_remove_proj _ sel Hndp (proj1 Hselp));
    destruct (IH (remove_proj sel (p0 :: r)) (map (upd_voter sel x) voters) (apply_load P loads sel (Fin x'))
                 (alloc ++ [sel]) (cg + py_cost I sel) (Qred (c + cost I sel)) W1) as [pr [vo E]];
    [ cbn [apply_load]; symmetry; apply set_loads_length; symmetry; exact Hl
    | cbn [apply_load]; unfold set_loads; rewrite combine_map_snd by exact Hl;
      apply (Forall2_map2 vrel vrel); [intros a b Hab; apply upd_voter_rel; assumption|exact HV]
    | rewrite Qred_correct, Hc; reflexivity
    | apply remove_proj_NoDup; exact Hndp
    | exact Hres
    | match goal with Hf1 : ?vv = S _ |- _ => subst vv end; eexists; eexists; refine (eq_trans (res_bind_eq _ _ _ E) _); reflexivity ]
  | (* an infinite one: nobody approves the project, no load changes *)
    erewrite (upd_loop_none _ sel);
      [ | intros acc v Hv; unfold v_ballot in Hv; rewrite Hv; reflexivity | (let v := fresh "v" in let Hv := fresh "Hv" in let Ea := fresh "Ea" in
  intros v Hv; destruct (approves (v_ballot v) sel) eqn:Ea; [exfalso|reflexivity];
  destruct (Forall2_In_l _ _ _ _ HV Hv) as [bx [Hbx [Hb _]]];
  assert (Hsc : 0 < score P sel) by
    (apply (score_pos sel (fst bx)); [destruct bx as [b0 x0]; apply (in_combine_l _ _ _ _ Hbx)|rewrite <- Hb; exact Ea]);
  destruct Hselp as [_ Hinf]; unfold new_maxload in Hinf;
  destruct (Qeqb (score P sel) 0) eqn:Ez; [apply Qeqb_iff in Ez; lra|cbn in Hinf; discriminate]) ];
    cbn [app]; rewrite (py_remove_proj _ sel Hndp (proj1 Hselp));
    destruct (IH (remove_proj sel (p0 :: r)) voters loads (alloc ++ [sel]) (cg + py_cost I sel)
                 (Qred (c + cost I sel)) W1) as [pr [vo E]];
    [ exact Hl | exact HV | rewrite Qred_correct, Hc; reflexivity | apply remove_proj_NoDup; exact Hndp | exact Hres
    | match goal with Hf1 : ?vv = S _ |- _ => subst vv end; eexists; eexists; refine (eq_trans (res_bind_eq _ _ _ E) _); reflexivity ] ])
      | 2%nat => (cbn [phr_irr] in Hres; (unfold phr_round in Hres; rewrite Emod in Hres; fold arg in Hres);
  destruct (existsb (overshoots I c) arg); [phr_leaf_irr Hres|discriminate])
      | 3%nat => (lazymatch f with S ?fp => rewrite phr_irr_S in Hres; (unfold phr_round in Hres; rewrite Emod in Hres; fold arg in Hres);
  destruct (existsb (overshoots I c) arg); [phr_leaf_irr Hres|];
  rewrite ?tie_order_short; unfold tb_order_of_key, py_sorted_projects;
  match goal with Hf1 : ?vv = S _ |- _ => subst vv end;
  assert (Harg_in : forall s, In s (tie_order tb (name_sort arg)) -> In s arg) by
    (intros s Hs; apply name_sort_In, (tie_order_In tb); exact Hs);
  revert Harg_in Hres; generalize (tie_order tb (name_sort arg)) as tied; intros tied Harg_in Hres;
  destruct m as [x'|], mg as [x|]; cbn in Hbest; try contradiction;
  [ (* finite new maximum load *)
    match goal with
    | |- exists pr vo al, match py_for ?LOOP tied ?acc0 with _ => _ end = _ =>
        assert (Hloop : forall tll acc lv, (forall s, In s tll -> In s arg) ->
                  opt_concat (map (fun p => phr_irr fp I P tb (remove_proj p (p0 :: r)) (apply_load P loads p (Fin x'))
                                               (alloc ++ [p]) (Qred (c + cost I p))) tll) = Some lv ->
                  py_for LOOP tll acc = inl (fold_left add_leaf lv acc));
    [ intros tll; induction tll as [|sel tll IHtl]; intros acc lv Hin Hoc;
      [ cbn in Hoc; injection Hoc as <-; reflexivity
      | cbn [map opt_concat] in Hoc;
        destruct (phr_irr fp I P tb (remove_proj sel (p0 :: r)) (apply_load P loads sel (Fin x')) (alloc ++ [sel])
                          (Qred (c + cost I sel))) as [la|] eqn:Ea; [|discriminate];
        destruct (opt_concat (map (fun p => phr_irr fp I P tb (remove_proj p (p0 :: r)) (apply_load P loads p (Fin x'))
                                             (alloc ++ [p]) (Qred (c + cost I p))) tll)) as [lb|] eqn:Eb; [|discriminate];
        injection Hoc as <-;
        assert (Hselp : In sel (p0 :: r) /\ Qx_eqb (Fin x') (new_maxload I P loads sel) = true) by
          (apply (proj1 (filter_In (fun q => Qx_eqb (Fin x') (new_maxload I P loads q)) sel (p0 :: r)));
           apply Hin; left; reflexivity);
        rewrite py_for_cons; cbv beta iota; cbn [py_finite];
        erewrite (upd_loop_fin _ sel x);
          [|intros acc' v; unfold upd_voter, v_ballot, v_mult; destruct (approves (fst (fst v)) sel); reflexivity];
        cbn [app]; rewrite (py_remove_proj _ sel Hndp (proj1 Hselp));
        destruct (IH (remove_proj sel (p0 :: r)) (map (upd_voter sel x) voters) (apply_load P loads sel (Fin x'))
                     (alloc ++ [sel]) (cg + py_cost I sel) (Qred (c + cost I sel)) acc la) as [pr [vo [al E]]];
        [ cbn [apply_load]; symmetry; apply set_loads_length; symmetry; exact Hl
        | cbn [apply_load]; unfold set_loads; rewrite combine_map_snd by exact Hl;
          apply (Forall2_map2 vrel vrel); [intros a b Hab; apply upd_voter_rel; assumption|exact HV]
        | rewrite Qred_correct, Hc; reflexivity
        | apply remove_proj_NoDup; exact Hndp
        | exact Ea
        | phr_use_call E; rewrite fold_left_app;
          apply IHtl; [intros s Hs; apply Hin; right; exact Hs|first [exact Eb|reflexivity]] ] ]
    | rewrite (Hloop tied _ W1 Harg_in Hres); do 3 eexists; reflexivity ]
    end
  | (* infinite: nobody approves a tied project *)
    match goal with
    | |- exists pr vo al, match py_for ?LOOP tied ?acc0 with _ => _ end = _ =>
        assert (Hloop : forall tll acc lv, (forall s, In s tll -> In s arg) ->
                  opt_concat (map (fun p => phr_irr fp I P tb (remove_proj p (p0 :: r)) (apply_load P loads p PInf)
                                               (alloc ++ [p]) (Qred (c + cost I p))) tll) = Some lv ->
                  py_for LOOP tll acc = inl (fold_left add_leaf lv acc));
    [ intros tll; induction tll as [|sel tll IHtl]; intros acc lv Hin Hoc;
      [ cbn in Hoc; injection Hoc as <-; reflexivity
      | cbn [map opt_concat] in Hoc;
        destruct (phr_irr fp I P tb (remove_proj sel (p0 :: r)) (apply_load P loads sel PInf) (alloc ++ [sel])
                          (Qred (c + cost I sel))) as [la|] eqn:Ea; [|discriminate];
        destruct (opt_concat (map (fun p => phr_irr fp I P tb (remove_proj p (p0 :: r)) (apply_load P loads p PInf)
                                             (alloc ++ [p]) (Qred (c + cost I p))) tll)) as [lb|] eqn:Eb; [|discriminate];
        injection Hoc as <-;
        assert (Hselp : In sel (p0 :: r) /\ Qx_eqb PInf (new_maxload I P loads sel) = true) by
          (apply (proj1 (filter_In (fun q => Qx_eqb PInf (new_maxload I P loads q)) sel (p0 :: r)));
           apply Hin; left; reflexivity);
        rewrite py_for_cons; cbv beta iota;
        erewrite (upd_loop_none _ sel);
          [ | intros acc' v Hv; unfold v_ballot in Hv; rewrite Hv; reflexivity
            | intros v Hv; destruct (approves (v_ballot v) sel) eqn:Eap; [exfalso|reflexivity];
              destruct (Forall2_In_l _ _ _ _ HV Hv) as [bx [Hbx [Hb _]]];
              assert (Hsc : 0 < score P sel) by
                (apply (score_pos sel (fst bx)); [destruct bx as [b0 x0]; apply (in_combine_l _ _ _ _ Hbx)|rewrite <- Hb; exact Eap]);
              destruct Hselp as [_ Hinf]; unfold new_maxload in Hinf;
              destruct (Qeqb (score P sel) 0) eqn:Ez; [apply Qeqb_iff in Ez; lra|cbn in Hinf; discriminate] ];
        cbn [app]; rewrite (py_remove_proj _ sel Hndp (proj1 Hselp));
        destruct (IH (remove_proj sel (p0 :: r)) voters loads (alloc ++ [sel]) (cg + py_cost I sel)
                     (Qred (c + cost I sel)) acc la) as [pr [vo [al E]]];
        [ exact Hl | exact HV | rewrite Qred_correct, Hc; reflexivity | apply remove_proj_NoDup; exact Hndp | exact Ea
        | phr_use_call E; rewrite fold_left_app;
          apply IHtl; [intros s Hs; apply Hin; right; exact Hs|first [exact Eb|reflexivity]] ] ]
    | rewrite (Hloop tied _ W1 Harg_in Hres); do 3 eexists; reflexivity ]
    end ] end)
      end
    ]
  end.

Ltac phr_sim_proof :=
  lazymatch goal with
  | HV0 : map v_ballot ?V0 = _ |- _ =>
      let f0 := fresh "f0" in
      intro f0; induction f0 as [|f IH]; intros projs voters loads alloc cg c W1 Hl HV Hc Hndp Hres;
      [ phr_step V0 HV0 Logic.I true | phr_step V0 HV0 IH false ]
  end.

Ltac phr_use :=
  lazymatch goal with
  | Hsim : (forall f projs voters loads alloc cg c W1, _),
    Em : phr_res (S (length ?pr)) _ _ ?tb ?pr ?lo ?ini ?cc = Some ?W0,
    Hl0 : length ?lo = length _,
    Hnd : NoDup ?en,
    Hf : (?fu > length ?pr)%nat
    |- match ?F ?fu ?pr ?V0 ?ini ?c0 [] with _ => _ end = _ =>
      let f := fresh "f" in
      destruct fu as [|f]; [exfalso; lia|];
      assert (Emf : phr_res f I P tb pr lo ini cc = Some W0);
      [ destruct (phr_res_total I P tb (length pr) pr lo ini cc) as [W' E']; [lia|];
        assert (W' = W0) by
          (apply (phr_res_mono_le I P tb (length pr) (S (length pr))) in E'; [congruence|lia]);
        subst W'; apply (phr_res_mono_le I P tb (length pr) f); [lia|exact E']
      | assert (Hndp : NoDup pr) by (apply NoDup_filter; exact Hnd);
        destruct (Hsim f pr V0 lo ini c0 cc W0 Hl0 (mkv_rel P lo) (Qeq_refl _) Hndp Emf) as [x [y E]];
        refine (eq_trans (res_bind_eq _ _ _ E) _); reflexivity ]
  end.

Theorem gen_phragmen_res_eq oloads oinit otb enum fuel W :
  NoDup enum ->
  match oloads with Some l => length l = length P | None => True end ->
  phragmen_res I P (match otb with None => tb_lexico | Some t => t end) enum
               (match oloads with None => zero_loads P | Some l => l end) (alloc_or_empty oinit) = Some W ->
  (fuel > length (phr_projects I enum (alloc_or_empty oinit)))%nat ->
  gen_sequential_phragmen_res I P oloads oinit otb enum fuel = Ok W.
Proof.
  intros Hnd Hlen Hm Hf. unfold gen_sequential_phragmen_res. cbv beta iota zeta.
  timeout 30 (repeat (erewrite py_for_append_map; cbv beta iota; cbn [app])).
  change py_name with tb_lexico.
  set (tb := match otb with Some t => t | None => tb_lexico end) in *.
  change (match oinit with Some a => a | None => [] end) with (alloc_or_empty oinit).
  set (init := alloc_or_empty oinit) in *.
  repeat match goal with |- context [filter ?f enum] => change (filter f enum) with (phr_projects I enum init) end.
  set (projs0 := phr_projects I enum init) in *.
  unfold phragmen_res in Hm. fold projs0 in Hm.
  set (loads0 := match oloads with Some l => l | None => zero_loads P end) in *.
  destruct (phr_res (S (length projs0)) I P tb projs0 loads0 init (tcost I init)) as [W0|] eqn:Em; [|discriminate].
  cbn [option_map] in Hm. injection Hm as <-.
  assert (Hl0 : length loads0 = length P).
  { destruct oloads; [exact Hlen|unfold loads0, zero_loads; apply map_length]. }
  destruct oloads as [l|];
    [ erewrite (all_some_voters P l); [|exact Hlen|intros i b; reflexivity] | rewrite !mkv_zero ].
  all: fold loads0.
  all: lazymatch goal with
  | |- match ?F ?fu0 ?pr0 ?V0 ?in0 ?c0 [] with _ => _ end = _ =>
      assert (HV0 : map v_ballot V0 = P) by (apply mkv_ballots; exact Hl0);
      assert (Hsim : forall f projs voters loads alloc cg c W1,
                length loads = length P -> Forall2 vrel voters (combine P loads) -> cg == c -> NoDup projs ->
                phr_res f I P tb projs loads alloc c = Some W1 ->
                exists pr vo, F (S f) projs voters alloc cg [] = Ok (pr, vo, name_sort W1, [name_sort W1]))
  end.
  1,3: timeout 120 phr_sim_proof.
  all: timeout 60 phr_use.
Qed.
Lemma add_leaf_dedup : forall (l : list (list proj)) acc seen,
  (forall W, py_alloc_in W acc = memb_nl W seen) ->
  fold_left add_leaf l acc = acc ++ dedup_nl seen (map name_sort l).
Proof.
  induction l as [|W l IH]; intros acc seen H; [cbn; rewrite app_nil_r; reflexivity|].
  cbn [fold_left map dedup_nl].
  change (add_leaf acc W) with (if py_alloc_in (name_sort W) acc then acc else acc ++ [name_sort W]). rewrite H.
  destruct (memb_nl (name_sort W) seen) eqn:E.
  - apply IH. exact H.
  - rewrite (IH (acc ++ [name_sort W]) (name_sort W :: seen)).
    + rewrite <- app_assoc. reflexivity.
    + intros X. unfold py_alloc_in, memb_nl in *. rewrite existsb_app. cbn [existsb]. rewrite H, orb_false_r.
      apply orb_comm.
Qed.

Ltac phr_sim_proof_irr :=
  lazymatch goal with
  | HV0 : map v_ballot ?V0 = _ |- _ =>
      let f0 := fresh "f0" in
      intro f0; induction f0 as [|f IH]; intros projs voters loads alloc cg c allocs W1 Hl HV Hc Hndp Hres;
      [ phr_step V0 HV0 Logic.I 2%nat | phr_step V0 HV0 IH 3%nat ]
  end.

Ltac phr_use_irr :=
  lazymatch goal with
  | Hsim : (forall f projs voters loads alloc cg c allocs W1, _),
    Em : phr_irr (S (length ?pr)) _ _ ?tb ?pr ?lo ?ini ?cc = Some ?W0,
    Hl0 : length ?lo = length _,
    Hnd : NoDup ?en,
    Hf : (?fu > length ?pr)%nat
    |- match ?F ?fu ?pr ?V0 ?ini ?c0 [] with _ => _ end = _ =>
      let f := fresh "f" in
      destruct fu as [|f]; [exfalso; lia|];
      assert (Emf : phr_irr f I P tb pr lo ini cc = Some W0);
      [ destruct (phr_irr_total I P tb (length pr) pr lo ini cc) as [W' E']; [lia|];
        assert (W' = W0) by
          (apply (phr_irr_mono_le I P tb (length pr) (S (length pr))) in E'; [congruence|lia]);
        subst W'; apply (phr_irr_mono_le I P tb (length pr) f); [lia|exact E']
      | assert (Hndp : NoDup pr) by (apply NoDup_filter; exact Hnd);
        destruct (Hsim f pr V0 lo ini c0 cc [] W0 Hl0 (mkv_rel P lo) (Qeq_refl _) Hndp Emf) as [x [y [z E]]];
        refine (eq_trans (res_bind_eq _ _ _ E) _); cbv beta iota;
        rewrite (add_leaf_dedup W0 [] []) by reflexivity; reflexivity ]
  end.

Theorem gen_phragmen_irr_eq oloads oinit otb enum fuel Ws :
  NoDup enum ->
  match oloads with Some l => length l = length P | None => True end ->
  phragmen_irr I P (match otb with None => tb_lexico | Some t => t end) enum
               (match oloads with None => zero_loads P | Some l => l end) (alloc_or_empty oinit) = Some Ws ->
  (fuel > length (phr_projects I enum (alloc_or_empty oinit)))%nat ->
  gen_sequential_phragmen_irr I P oloads oinit otb enum fuel = Ok Ws.
Proof.
  intros Hnd Hlen Hm Hf. unfold gen_sequential_phragmen_irr. cbv beta iota zeta.
  timeout 30 (repeat (erewrite py_for_append_map; cbv beta iota; cbn [app])).
  change py_name with tb_lexico.
  set (tb := match otb with Some t => t | None => tb_lexico end) in *.
  change (match oinit with Some a => a | None => [] end) with (alloc_or_empty oinit).
  set (init := alloc_or_empty oinit) in *.
  repeat match goal with |- context [filter ?f enum] => change (filter f enum) with (phr_projects I enum init) end.
  set (projs0 := phr_projects I enum init) in *.
  unfold phragmen_irr in Hm. fold projs0 in Hm.
  set (loads0 := match oloads with Some l => l | None => zero_loads P end) in *.
  destruct (phr_irr (S (length projs0)) I P tb projs0 loads0 init (tcost I init)) as [W0|] eqn:Em; [|discriminate].
  cbn [option_map] in Hm. injection Hm as <-.
  assert (Hl0 : length loads0 = length P).
  { destruct oloads; [exact Hlen|unfold loads0, zero_loads; apply map_length]. }
  destruct oloads as [l|];
    [ erewrite (all_some_voters P l); [|exact Hlen|intros i b; reflexivity] | rewrite !mkv_zero ].
  all: fold loads0.
  all: lazymatch goal with
  | |- match ?F ?fu0 ?pr0 ?V0 ?in0 ?c0 [] with _ => _ end = _ =>
      assert (HV0 : map v_ballot V0 = P) by (apply mkv_ballots; exact Hl0);
      assert (Hsim : forall f projs voters loads alloc cg c allocs W1,
                length loads = length P -> Forall2 vrel voters (combine P loads) -> cg == c -> NoDup projs ->
                phr_irr f I P tb projs loads alloc c = Some W1 ->
                exists pr vo al, F (S f) projs voters alloc cg allocs = Ok (pr, vo, al, fold_left add_leaf W1 allocs))
  end.
  1,3: timeout 120 phr_sim_proof_irr.
  all: timeout 60 phr_use_irr.
Qed.

End PhragmenRes.

(* with the model's totality: for every input the resolute rule returns, and returns the model's answer *)
Corollary gen_phragmen_res_total (I : inst) (P : list aballot) oloads oinit otb enum fuel :
  Forall (fun b => (0 < amul b)%nat) P -> NoDup enum ->
  match oloads with Some l => length l = length P | None => True end ->
  (fuel > length (phr_projects I enum (alloc_or_empty oinit)))%nat ->
  exists W, phragmen_res I P (match otb with None => tb_lexico | Some t => t end) enum
                         (match oloads with None => zero_loads P | Some l => l end) (alloc_or_empty oinit) = Some W /\
            gen_sequential_phragmen_res I P oloads oinit otb enum fuel = Ok W.
Proof.
  intros Hm Hnd Hl Hf.
  destruct (proj1 (phragmen_total I P (match otb with None => tb_lexico | Some t => t end) enum
                     (match oloads with None => zero_loads P | Some l => l end) (alloc_or_empty oinit))) as [W E].
  exists W. split; [exact E|]. apply gen_phragmen_res_eq; assumption.
Qed.

Corollary gen_phragmen_irr_total (I : inst) (P : list aballot) oloads oinit otb enum fuel :
  Forall (fun b => (0 < amul b)%nat) P -> NoDup enum ->
  match oloads with Some l => length l = length P | None => True end ->
  (fuel > length (phr_projects I enum (alloc_or_empty oinit)))%nat ->
  exists Ws, phragmen_irr I P (match otb with None => tb_lexico | Some t => t end) enum
                          (match oloads with None => zero_loads P | Some l => l end) (alloc_or_empty oinit) = Some Ws /\
             gen_sequential_phragmen_irr I P oloads oinit otb enum fuel = Ok Ws.
Proof.
  intros Hm Hnd Hl Hf.
  destruct (proj2 (phragmen_total I P (match otb with None => tb_lexico | Some t => t end) enum
                     (match oloads with None => zero_loads P | Some l => l end) (alloc_or_empty oinit))) as [W E].
  exists W. split; [exact E|]. apply gen_phragmen_irr_eq; assumption.
Qed.

Lemma alias_phragmen_res : py_inputs_untouched gen_alias_sequential_phragmen_res = true.
Proof. reflexivity. Qed.
Lemma alias_phragmen_irr : py_inputs_untouched gen_alias_sequential_phragmen_irr = true.
Proof. reflexivity. Qed.
Lemma phragmen_all_translated : gen_untranslated_phragmen = [].
Proof. reflexivity. Qed.
