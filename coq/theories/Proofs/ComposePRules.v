(* Proofs/ComposePRules.v -- the contract of the exhaustion wrappers discharged for the three concrete rule
   models of Model/Compose.v (mes_rule_res/irr, greedy_rule_res/irr, phr_rule_res/irr):
     X_rule_res_contract    for a positive budget b and an allocation a feasible for it, X(b, a) is feasible
                            for b and contains a                    (from the models' feasibility theorems)
     X_rule_res_proper      the outcome depends on the VALUE of the budget only (b == b' -> same outcome)
     X_rule_res_some        the [or_else] default is never used (totality theorems)
   and the same for the irresolute models. *)
From PB Require Import Model.Compose Proofs.InstanceP Proofs.ExhaustionP Proofs.ComposeP.
From PB Require Proofs.MesWf Proofs.MesRun Proofs.MesFeasible Proofs.GreedyP Proofs.GreedyAddP Proofs.PhragmenP.
Open Scope Q_scope.

(* ---------- generic facts ---------- *)

Lemma feasible_budget_mono cs B b a : B <= b -> feasible (mkInst cs B) a -> feasible (mkInst cs b) a.
Proof.
  intros Hb [H1 [H2 H3]]. split; [exact H1|]. split; [exact H2|]. simpl in *.
  change (tcost (mkInst cs b) a) with (tcost (mkInst cs B) a). lra.
Qed.

Lemma feasible_budget_eq cs b b' a : b == b' -> feasible (mkInst cs b) a -> feasible (mkInst cs b') a.
Proof. intros E. apply feasible_budget_mono. rewrite E. apply Qle_refl. Qed.

Lemma Qleb_compat_r x b b' : b == b' -> Qleb x b = Qleb x b'.
Proof.
  intros E. destruct (Qleb x b) eqn:H1, (Qleb x b') eqn:H2; try reflexivity.
  - apply Qleb_iff in H1. apply Qleb_false_iff in H2. lra.
  - apply Qleb_iff in H2. apply Qleb_false_iff in H1. lra.
Qed.

Lemma Qltb_compat_l x b b' : b == b' -> Qltb b x = Qltb b' x.
Proof.
  intros E. destruct (Qltb b x) eqn:H1, (Qltb b' x) eqn:H2; try reflexivity.
  - apply Qltb_iff in H1. apply Qltb_false_iff in H2. lra.
  - apply Qltb_iff in H2. apply Qltb_false_iff in H1. lra.
Qed.

Lemma existsb_ext' {A} (f g : A -> bool) l : (forall x, f x = g x) -> existsb f l = existsb g l.
Proof. intros H. induction l as [|x r IH]; simpl; [reflexivity|]. rewrite H, IH. reflexivity. Qed.

(* ====================================================================================================== *)
(* Equal Shares                                                                                            *)
(* ====================================================================================================== *)
Section MesContract.
  Variables (cs : list Q) (P : list vcls) (tb : proj -> Q) (enum : list proj) (bin : bool).
  Hypothesis costs_nonneg : Forall (fun c => 0 <= c) cs.
  Hypothesis voters_wf : MesWf.wf_voters P.
  Hypothesis voters_some : (1 <= nvoters P)%nat.
  Hypothesis enum_nodup : NoDup enum.
  Hypothesis enum_range : forall p, In p enum -> (p < length cs)%nat.

  Lemma mes_input_hyps b a : 0 < b -> feasible (mkInst cs b) a ->
    MesFeasible.mes_hyps (mes_input cs P tb enum bin b a).
  Proof.
    intros Hb Ha. unfold MesFeasible.mes_hyps. simpl.
    split; [split; [exact costs_nonneg|exact Hb]|].
    split; [exact voters_wf|]. split; [exact voters_some|]. split; [exact Ha|].
    split; [exact enum_nodup|exact enum_range].
  Qed.

  Theorem mes_rule_res_contract b a : 0 < b -> feasible (mkInst cs b) a ->
    feasible (mkInst cs b) (mes_rule_res cs P tb enum bin b a) /\ incl a (mes_rule_res cs P tb enum bin b a).
  Proof.
    intros Hb Ha. unfold mes_rule_res.
    destruct (MesRule.mes_resolute (mes_input cs P tb enum bin b a)) as [o|] eqn:E; simpl.
    - exact (MesFeasible.mes_feasible _ o (mes_input_hyps b a Hb Ha) E).
    - split; [exact Ha|apply incl_refl].
  Qed.

  Theorem mes_rule_irr_contract b a : 0 < b -> feasible (mkInst cs b) a ->
    forall W, In W (mes_rule_irr cs P tb enum bin b a) -> feasible (mkInst cs b) W /\ incl a W.
  Proof.
    intros Hb Ha W. unfold mes_rule_irr.
    destruct (MesRule.mes_irresolute (mes_input cs P tb enum bin b a)) as [L|] eqn:E; simpl.
    - exact (MesFeasible.mes_irr_feasible _ L (mes_input_hyps b a Hb Ha) E W).
    - intros [].
  Qed.
End MesContract.

(* no hypothesis at all: the default of [or_else] is never taken *)
Theorem mes_rule_res_some cs P tb enum bin b a :
  exists o, MesRule.mes_resolute (mes_input cs P tb enum bin b a) = Some o /\
            mes_rule_res cs P tb enum bin b a = MesRule.o_alloc o.
Proof.
  destruct (MesFeasible.mes_total (mes_input cs P tb enum bin b a)) as [[o Ho] _].
  exists o. split; [exact Ho|]. unfold mes_rule_res. rewrite Ho. reflexivity.
Qed.

Theorem mes_rule_irr_some cs P tb enum bin b a :
  MesRule.mes_irresolute (mes_input cs P tb enum bin b a) = Some (mes_rule_irr cs P tb enum bin b a).
Proof.
  destruct (MesFeasible.mes_total (mes_input cs P tb enum bin b a)) as [_ [L HL]].
  unfold mes_rule_irr. rewrite HL. reflexivity.
Qed.

(* the budget limit enters Equal Shares only through the (normalised) share per voter *)
Lemma mes_share_proper cs P tb enum bin b b' a : b == b' ->
  MesRule.share (mes_input cs P tb enum bin b a) = MesRule.share (mes_input cs P tb enum bin b' a).
Proof.
  intros E. unfold MesRule.share. apply Qred_complete. simpl.
  change (tcost (MesRule.mi_inst (mes_input cs P tb enum bin b a)) a)
    with (tcost (MesRule.mi_inst (mes_input cs P tb enum bin b' a)) a).
  rewrite E. reflexivity.
Qed.

Theorem mes_rule_res_proper cs P tb enum bin b b' a : b == b' ->
  mes_rule_res cs P tb enum bin b a = mes_rule_res cs P tb enum bin b' a.
Proof.
  intros E. unfold mes_rule_res, MesRule.mes_resolute. rewrite (mes_share_proper cs P tb enum bin b b' a E).
  reflexivity.
Qed.

Theorem mes_rule_irr_proper cs P tb enum bin b b' a : b == b' ->
  mes_rule_irr cs P tb enum bin b a = mes_rule_irr cs P tb enum bin b' a.
Proof.
  intros E. unfold mes_rule_irr, MesRule.mes_irresolute. rewrite (mes_share_proper cs P tb enum bin b b' a E).
  reflexivity.
Qed.

(* ====================================================================================================== *)
(* greedy welfare                                                                                          *)
(* ====================================================================================================== *)
Section GreedyContract.
  Variables (cs : list Q) (sat : list proj -> Q) (sp tb : proj -> Q).
  Hypothesis costs_nonneg : Forall (fun c => 0 <= c) cs.

  Theorem greedy_rule_res_contract additive b a : feasible (mkInst cs b) a ->
    feasible (mkInst cs b) (greedy_rule_res cs sat sp tb additive b a) /\
    incl a (greedy_rule_res cs sat sp tb additive b a).
  Proof.
    intros Ha. unfold greedy_rule_res.
    destruct (GreedyRule.greedy_welfare_res (mkInst cs b) sat sp tb additive a) as [W|] eqn:E; simpl.
    - destruct (GreedyAddP.greedy_feasible (mkInst cs b) sat sp tb costs_nonneg a Ha) as [H _].
      exact (H additive W E).
    - split; [exact Ha|apply incl_refl].
  Qed.

  Theorem greedy_rule_irr_contract additive b a : feasible (mkInst cs b) a ->
    forall W, In W (greedy_rule_irr cs sat tb additive b a) -> feasible (mkInst cs b) W /\ incl a W.
  Proof.
    intros Ha W. unfold greedy_rule_irr.
    destruct (GreedyRule.greedy_welfare_irr (mkInst cs b) sat tb additive a) as [Ws|] eqn:E; simpl.
    - destruct (GreedyAddP.greedy_feasible (mkInst cs b) sat sp tb costs_nonneg a Ha) as [_ H].
      exact (H additive Ws W E).
    - intros [].
  Qed.

  Theorem greedy_rule_res_some additive b a :
    GreedyRule.greedy_welfare_res (mkInst cs b) sat sp tb additive a =
      Some (greedy_rule_res cs sat sp tb additive b a).
  Proof.
    destruct (GreedyAddP.greedy_total (mkInst cs b) sat sp tb costs_nonneg additive a) as [[W HW] _].
    unfold greedy_rule_res. rewrite HW. reflexivity.
  Qed.

  Theorem greedy_rule_irr_some additive b a :
    GreedyRule.greedy_welfare_irr (mkInst cs b) sat tb additive a =
      Some (greedy_rule_irr cs sat tb additive b a) /\ greedy_rule_irr cs sat tb additive b a <> [].
  Proof.
    destruct (GreedyAddP.greedy_total (mkInst cs b) sat sp tb costs_nonneg additive a) as [_ [Ws [HW Hne]]].
    unfold greedy_rule_irr. rewrite HW. split; [reflexivity|exact Hne].
  Qed.

  (* every outcome of the greedy rule is exhaustive, whatever it starts from (also an infeasible start) *)
  Theorem greedy_rule_res_exhaustive additive b a :
    exhaustive (mkInst cs b) (greedy_rule_res cs sat sp tb additive b a).
  Proof.
    destruct (GreedyAddP.greedy_exhaustive (mkInst cs b) sat sp tb costs_nonneg) as [H _].
    apply (H additive a). apply greedy_rule_res_some.
  Qed.

  Theorem greedy_rule_irr_exhaustive additive b a W :
    In W (greedy_rule_irr cs sat tb additive b a) -> exhaustive (mkInst cs b) W.
  Proof.
    destruct (GreedyAddP.greedy_exhaustive (mkInst cs b) sat sp tb costs_nonneg) as [_ H].
    apply (H additive a). apply greedy_rule_irr_some.
  Qed.
End GreedyContract.

(* --- the outcome depends on the value of the budget only --- *)
Section GreedyProper.
  Variables (cs : list Q) (sat : list proj -> Q) (sp tb : proj -> Q).
  Variables (b b' : Q).
  Hypothesis E : b == b'.
  Let I := mkInst cs b.
  Let I' := mkInst cs b'.

  Lemma next_feasible_proper feas alloc s :
    GreedyRule.next_feasible I feas alloc s = GreedyRule.next_feasible I' feas alloc s.
  Proof.
    unfold GreedyRule.next_feasible. apply filter_ext. intros p. f_equal.
    apply Qleb_compat_r. exact E.
  Qed.

  Lemma gen_leaves_proper resolute : forall fuel feas alloc,
    GreedyRule.gen_leaves I sat tb resolute fuel feas alloc =
    GreedyRule.gen_leaves I' sat tb resolute fuel feas alloc.
  Proof.
    induction fuel as [|f IH]; intros feas alloc; destruct feas as [|p0 r]; try reflexivity.
    cbn [GreedyRule.gen_leaves].
    change (GreedyRule.tied_projects I' sat tb (p0 :: r) alloc)
      with (GreedyRule.tied_projects I sat tb (p0 :: r) alloc).
    f_equal. apply map_ext. intros s. rewrite next_feasible_proper. apply IH.
  Qed.

  Lemma initial_feasible_proper a : GreedyRule.initial_feasible I a = GreedyRule.initial_feasible I' a.
  Proof.
    unfold GreedyRule.initial_feasible. apply filter_ext. intros p. f_equal. apply Qleb_compat_r. exact E.
  Qed.

  Lemma add_pass_proper : forall l r r', r == r' -> GreedyRule.add_pass I l r = GreedyRule.add_pass I' l r'.
  Proof.
    induction l as [|p l IH]; intros r r' Er; [reflexivity|]. cbn [GreedyRule.add_pass].
    change (cost I' p) with (cost I p). rewrite (Qleb_compat_r (cost I p) r r' Er).
    destruct (Qleb (cost I p) r'); [f_equal|]; apply IH; rewrite Er; reflexivity.
  Qed.

  Theorem greedy_rule_res_proper additive a :
    greedy_rule_res cs sat sp tb additive b a = greedy_rule_res cs sat sp tb additive b' a.
  Proof.
    unfold greedy_rule_res. fold I I'. f_equal. destruct additive; simpl.
    - f_equal. unfold GreedyRule.greedy_add_res. f_equal.
      change (GreedyRule.add_candidates I' sp tb a) with (GreedyRule.add_candidates I sp tb a).
      apply add_pass_proper. change (tcost I' a) with (tcost I a).
      change (budget I) with b. change (budget I') with b'. lra.
    - unfold GreedyRule.greedy_gen_res. rewrite initial_feasible_proper, gen_leaves_proper. reflexivity.
  Qed.

  Theorem greedy_rule_irr_proper additive a :
    greedy_rule_irr cs sat tb additive b a = greedy_rule_irr cs sat tb additive b' a.
  Proof.
    unfold greedy_rule_irr. fold I I'. f_equal. unfold GreedyRule.greedy_welfare_irr, GreedyRule.greedy_gen_irr.
    rewrite initial_feasible_proper, gen_leaves_proper. reflexivity.
  Qed.
End GreedyProper.

(* ====================================================================================================== *)
(* sequential Phragmen                                                                                     *)
(* ====================================================================================================== *)
Section PhragmenContract.
  Variables (cs : list Q) (A : list aballot) (tb : proj -> Q) (enum : list proj) (loads : list Q).
  Hypothesis enum_nodup : NoDup enum.
  Hypothesis enum_range : forall p, In p enum -> (p < length cs)%nat.

  Theorem phr_rule_res_contract b a : feasible (mkInst cs b) a ->
    feasible (mkInst cs b) (phr_rule_res cs A tb enum loads b a) /\ incl a (phr_rule_res cs A tb enum loads b a).
  Proof.
    intros Ha. unfold phr_rule_res.
    destruct (Phragmen.phragmen_res (mkInst cs b) A tb enum loads a) as [W|] eqn:E; simpl.
    - exact (PhragmenP.phragmen_feasible_res (mkInst cs b) A tb enum loads a W enum_nodup enum_range Ha E).
    - split; [exact Ha|apply incl_refl].
  Qed.

  Theorem phr_rule_irr_contract b a : feasible (mkInst cs b) a ->
    forall W, In W (phr_rule_irr cs A tb enum loads b a) -> feasible (mkInst cs b) W /\ incl a W.
  Proof.
    intros Ha W. unfold phr_rule_irr.
    destruct (Phragmen.phragmen_irr (mkInst cs b) A tb enum loads a) as [Ws|] eqn:E; simpl.
    - exact (PhragmenP.phragmen_feasible_irr (mkInst cs b) A tb enum loads a Ws W enum_nodup enum_range Ha E).
    - intros [].
  Qed.
End PhragmenContract.

Theorem phr_rule_res_some cs A tb enum loads b a :
  Phragmen.phragmen_res (mkInst cs b) A tb enum loads a = Some (phr_rule_res cs A tb enum loads b a).
Proof.
  destruct (PhragmenP.phragmen_total (mkInst cs b) A tb enum loads a) as [[W HW] _].
  unfold phr_rule_res. rewrite HW. reflexivity.
Qed.

Theorem phr_rule_irr_some cs A tb enum loads b a :
  Phragmen.phragmen_irr (mkInst cs b) A tb enum loads a = Some (phr_rule_irr cs A tb enum loads b a).
Proof.
  destruct (PhragmenP.phragmen_total (mkInst cs b) A tb enum loads a) as [_ [W HW]].
  unfold phr_rule_irr. rewrite HW. reflexivity.
Qed.

Section PhragmenProper.
  Variables (cs : list Q) (A : list aballot) (tb : proj -> Q).
  Variables (b b' : Q).
  Hypothesis E : b == b'.
  Let I := mkInst cs b.
  Let I' := mkInst cs b'.

  Lemma phr_round_proper loads projs c :
    Phragmen.phr_round I A tb loads projs c = Phragmen.phr_round I' A tb loads projs c.
  Proof.
    unfold Phragmen.phr_round.
    change (Phragmen.new_maxload I' A loads) with (Phragmen.new_maxload I A loads).
    destruct (Phragmen.argmin_loop (Phragmen.new_maxload I A loads) projs None []) as [m arg].
    rewrite (existsb_ext' (Phragmen.overshoots I c) (Phragmen.overshoots I' c)); [reflexivity|].
    intros p. unfold Phragmen.overshoots. apply Qltb_compat_l. exact E.
  Qed.

  Lemma phr_res_proper : forall fuel projs loads alloc c,
    Phragmen.phr_res fuel I A tb projs loads alloc c = Phragmen.phr_res fuel I' A tb projs loads alloc c.
  Proof.
    induction fuel as [|f IH]; intros projs loads alloc c; destruct projs as [|p0 r]; try reflexivity;
      cbn [Phragmen.phr_res]; rewrite phr_round_proper; try reflexivity.
    destruct (Phragmen.phr_round I' A tb loads (p0 :: r) c) as [|tied t]; [reflexivity|].
    destruct tied as [|p tl]; [reflexivity|]. apply IH.
  Qed.

  Lemma phr_irr_proper : forall fuel projs loads alloc c,
    Phragmen.phr_irr fuel I A tb projs loads alloc c = Phragmen.phr_irr fuel I' A tb projs loads alloc c.
  Proof.
    induction fuel as [|f IH]; intros projs loads alloc c; destruct projs as [|p0 r]; try reflexivity;
      cbn [Phragmen.phr_irr]; rewrite phr_round_proper; try reflexivity.
    destruct (Phragmen.phr_round I' A tb loads (p0 :: r) c) as [|tied t]; [reflexivity|].
    f_equal. apply map_ext. intros p. apply IH.
  Qed.

  Lemma phr_projects_proper enum a : Phragmen.phr_projects I enum a = Phragmen.phr_projects I' enum a.
  Proof.
    unfold Phragmen.phr_projects. apply filter_ext. intros p. f_equal. apply Qleb_compat_r. exact E.
  Qed.

  Theorem phr_rule_res_proper enum loads a :
    phr_rule_res cs A tb enum loads b a = phr_rule_res cs A tb enum loads b' a.
  Proof.
    unfold phr_rule_res. fold I I'. f_equal. unfold Phragmen.phragmen_res.
    rewrite phr_projects_proper, phr_res_proper. reflexivity.
  Qed.

  Theorem phr_rule_irr_proper enum loads a :
    phr_rule_irr cs A tb enum loads b a = phr_rule_irr cs A tb enum loads b' a.
  Proof.
    unfold phr_rule_irr. fold I I'. f_equal. unfold Phragmen.phragmen_irr.
    rewrite phr_projects_proper, phr_irr_proper. reflexivity.
  Qed.
End PhragmenProper.
