(* Proofs/PyCtrlCompP.v -- the REGENERATED rule comparisons of Generated/PyCtrl.v (popularity_comparison,
   social_welfare_comparison of pabutools/rules/composition.py) equal the hand model Model/Composition.v, for all
   wrapped rules and all inputs.  Statements re-exported by Props/C19gen.v. *)
From Coq Require Import String.
From PB Require Import Model.PyCtrlPrims Generated.PyCtrl Proofs.PyCtrlLib.
From PB Require Import Model.Composition Proofs.CompositionP.
Open Scope Q_scope.

Lemma py_alloc_eqb_comp a b : py_alloc_eqb a b = alloc_eqb a b.
Proof. reflexivity. Qed.

Section Comparison.
Context {X SC : Type}.
Variables (I : inst) (sp : py_satprofile).

(* the outcome record of the model for an allocation: the satisfaction of every element of the profile *)
Definition mk_out (W : py_alloc) : outcome := mkOut W (map (fun s => fst s W) sp).
Definition good (o : outcome) : Prop := o = mk_out (o_alloc o).
Definition mults : list nat := map snd sp.

Lemma good_mk W : good (mk_out W).
Proof. reflexivity. Qed.

Lemma total_mk W : py_total_satisfaction sp W = total mults (mk_out W).
Proof.
  unfold py_total_satisfaction, total, mults, mk_out. cbn [o_vsat].
  induction sp as [|s r IH]; [reflexivity|]. cbn [map Qsum total_of]. rewrite IH. reflexivity.
Qed.

(* ---- the distinct results ---- *)
Definition dd_step (seen : list outcome) (o : outcome) : list outcome :=
  if existsb (same_alloc o) seen then seen else seen ++ [o].
Lemma dedup_fold outs : forall seen, fold_left dd_step outs seen = dedup_acc seen outs.
Proof.
  induction outs as [|o r IH]; intros seen; [reflexivity|]. cbn [fold_left dedup_acc]. unfold dd_step at 2.
  destruct (existsb (same_alloc o) seen); apply IH.
Qed.
Lemma alloc_in_map W seen : py_alloc_in W (map o_alloc seen) = existsb (same_alloc (mk_out W)) seen.
Proof. unfold py_alloc_in. rewrite existsb_map_c. reflexivity. Qed.

Lemma dedup_good outs : forall seen, Forall good seen -> Forall good outs -> Forall good (dedup_acc seen outs).
Proof.
  induction outs as [|o r IH]; intros seen Hs Ho; [exact Hs|]. cbn [dedup_acc]. inversion Ho; subst.
  destruct (existsb (same_alloc o) seen); apply IH; try assumption.
  apply Forall_app. split; [assumption|constructor; [assumption|constructor]].
Qed.

(* ---- the argmax-with-ties scan, as the source writes it (Base/Argmax.v), on a state (max, argmax list) that
        starts as (None, None) ---- *)
Section Scan.
  Context {A P R : Type}.
  Variables (key : A -> Q) (pl : A -> P).
  Variable F : option Q * option (list P) -> A -> py_flow (option Q * option (list P)) R.
  Definition scan_state (best : option Q) (acc : list A) : option Q * option (list P) :=
    (best, match best with None => None | Some _ => Some (map pl acc) end).
  Hypothesis HF_none : forall x, F (None, None) x = Next (Some (key x), Some [pl x]).
  Hypothesis HF_some : forall b acc x, F (Some b, Some acc) x =
    if negb (Qleb (key x) b) then Next (Some (key x), Some [pl x])
    else if Qeqb (key x) b then Next (Some b, Some (acc ++ [pl x]))
    else Next (Some b, Some acc).

  Lemma Qeqb_of_leb x b : Qleb x b = true -> Qeqb x b = Qleb b x.
  Proof.
    intros H. apply Qleb_iff in H. destruct (Qleb b x) eqn:E.
    - apply Qleb_iff in E. apply Qeqb_iff. lra.
    - apply Qleb_false_iff in E. apply Qeqb_false_iff. lra.
  Qed.

  Lemma scan_sim : forall l best acc,
    exists best', py_for F l (scan_state best acc) =
      inl (match best, l with
           | None, [] => (None, None)
           | _, _ => (Some best', Some (map pl (argmax_scan Qleb key l best acc)))
           end).
  Proof.
    induction l as [|x l IH]; intros best acc.
    - destruct best as [b|]; [exists b|exists 0]; reflexivity.
    - rewrite py_for_cons. destruct best as [b|]; unfold scan_state at 1.
      + rewrite HF_some. cbn [argmax_scan].
        destruct (negb (Qleb (key x) b)) eqn:E1.
        * destruct (IH (Some (key x)) [x]) as [b' Hb']. exists b'. exact Hb'.
        * apply negb_false_iff in E1. rewrite (Qeqb_of_leb _ _ E1).
          destruct (Qleb b (key x)).
          -- destruct (IH (Some b) (acc ++ [x])) as [b' Hb']. exists b'.
             unfold scan_state in Hb'. rewrite map_app in Hb'. exact Hb'.
          -- destruct (IH (Some b) acc) as [b' Hb']. exists b'. exact Hb'.
      + rewrite HF_none. cbn [argmax_scan].
        destruct (IH (Some (key x)) [x]) as [b' Hb']. exists b'. exact Hb'.
  Qed.
End Scan.

Variable rules : list (py_rule X py_alloc).
Variable ps : list (py_kwargs X).
Variable init : py_alloc.
Definition outs : list outcome := map (fun rp => mk_out (fst rp (snd rp) (budget I) init)) (combine rules ps).

Lemma outs_good : Forall good outs.
Proof. unfold outs. apply Forall_forall. intros o Ho. apply in_map_iff in Ho. destruct Ho as [rp [<- _]]. apply good_mk. Qed.

Lemma results_good : Forall good (results outs).
Proof. apply dedup_good; [constructor|apply outs_good]. Qed.

(* the first loop of both comparisons: results = the distinct rule outputs in order of first occurrence *)
Lemma results_loop {R} (F : list py_alloc -> py_rule X py_alloc * py_kwargs X -> py_flow (list py_alloc) R) :
  (forall seen rp, F (map o_alloc seen) rp =
     Next (map o_alloc (dd_step seen (mk_out (fst rp (snd rp) (budget I) init))))) ->
  py_for F (combine rules ps) [] = inl (map o_alloc (results outs)).
Proof.
  intros HF. unfold results, outs. rewrite <- dedup_fold, fold_left_map_c.
  apply (py_for_sim_next F (fun seen rp => dd_step seen (mk_out (fst rp (snd rp) (budget I) init))) (map o_alloc) HF _ []).
Qed.
End Comparison.

Lemma argmax_scan_map {A B} (g : A -> B) (key : A -> Q) (key' : B -> Q) : forall l best acc,
  Forall (fun x => key' (g x) = key x) l ->
  argmax_scan Qleb key' (map g l) best (map g acc) = map g (argmax_scan Qleb key l best acc).
Proof.
  induction l as [|x l IH]; intros best acc H; [reflexivity|]. inversion H as [|? ? Hx Hl]; subst.
  cbn [map argmax_scan]. rewrite Hx. destruct best as [b|].
  - destruct (negb (Qleb (key x) b)); [apply (IH _ [x] Hl)|].
    destruct (Qleb b (key x)); [|apply IH; exact Hl].
    rewrite <- (IH _ (acc ++ [x]) Hl), map_app. reflexivity.
  - apply (IH _ [x] Hl).
Qed.

Lemma dedup_acc_nonempty : forall os seen, seen <> [] -> dedup_acc seen os <> [].
Proof.
  induction os as [|o r IH]; intros seen H; [exact H|]. cbn [dedup_acc].
  destruct (existsb (same_alloc o) seen); apply IH; [exact H|]. destruct seen; discriminate.
Qed.

Lemma results_nil_iff (os : list outcome) : results os = [] <-> os = [].
Proof.
  split; [|intros ->; reflexivity]. destruct os as [|o r]; [reflexivity|]. unfold results. cbn [dedup_acc existsb].
  intros H. exfalso. revert H. apply dedup_acc_nonempty. discriminate.
Qed.

Section Swc.
Context {X SC : Type}.

Ltac comparison_prefix Hlen ps :=
  cbv zeta;
  match goal with |- context [match ?o with Some n0 => negb (py_nat_eq (length ?rs) (length n0)) | None => false end] =>
    change (match o with Some n0 => negb (py_nat_eq (length rs) (length n0)) | None => false end) with (bad_lengths rs o);
    let Eb := fresh "Eb" in
    destruct (bad_lengths rs o) eqn:Eb; [reflexivity|];
    pose proof (kws_length rs o Eb) as Hlen;
    change (match o with Some p => p | None => map (fun _ => py_no_kwargs) rs end) with (kws_or_empty rs o) in *;
    set (ps := kws_or_empty rs o) in *; clearbody ps
  end.

Ltac results_side sp :=
  intros seen [r p]; cbn [fst snd]; cbv beta iota zeta;
  try (erewrite py_for_found; [|intros x; reflexivity]);
  try (erewrite py_for_found_nobreak; [|intros b x; cbv beta; match goal with |- context [if ?c then _ else _] => destruct c end; reflexivity]);
  cbn [orb];
  try (erewrite (existsb_ext_in _ (py_alloc_eqb _)); [|intros x _; apply py_alloc_eqb_sym]);
  change (existsb (py_alloc_eqb ?a) ?l) with (py_alloc_in a l);
  rewrite ?(alloc_in_map sp); unfold dd_step;
  match goal with |- context [existsb ?f ?l] => destruct (existsb f l) end; cbn [negb];
  rewrite ?map_app; reflexivity.

Theorem gen_swc_eq (rules : list (py_rule X py_alloc)) (I : inst) (prof : py_cprofile SC) (sc : SC) oparams oinit :
  gen_social_welfare_comparison I prof sc rules oparams oinit =
  if bad_lengths rules oparams then Raise "ValueError"
  else Ok (match rules with
           | [] => None
           | _ => Some (map o_alloc (swc (mults (cp_as_sat prof sc))
                                         (outs I (cp_as_sat prof sc) rules (kws_or_empty rules oparams) (alloc_or_empty oinit))))
           end).
Proof.
  unfold gen_social_welfare_comparison. comparison_prefix Hlen ps.
  timeout 60 py_norm_headers.
  change (match oinit with Some a => a | None => [] end) with (alloc_or_empty oinit).
  set (sp := cp_as_sat prof sc). set (init := alloc_or_empty oinit).
  erewrite (results_loop I sp rules ps init); [|results_side sp].
  assert (Hkey : Forall (fun o => py_total_satisfaction sp (o_alloc o) = total (mults sp) o)
                        (results (outs I sp rules ps init))).
  { eapply Forall_impl; [|apply results_good]. intros o Ho. rewrite Ho at 2. apply total_mk. }
  match goal with
  | |- match py_for ?F ?l0 (None, None) with _ => _ end = _ =>
      pose proof (scan_sim (py_total_satisfaction sp) (fun W : py_alloc => W) F) as Hs;
      assert (H1 : forall x, F (None, None) x = Next (Some (py_total_satisfaction sp x), Some [x]))
        by (intros x; reflexivity);
      specialize (Hs H1); clear H1;
      match type of Hs with ?Hyp -> _ =>
        assert (H2 : Hyp) by
          (intros b acc x; cbv beta iota; unfold py_gt, py_eq, py_lt, py_ge, py_le, py_ne, Qltb; py_q_cases);
        specialize (Hs H2); clear H2
      end;
      destruct (Hs l0 None []) as [b' Hb']; clear Hs
  end.
  unfold scan_state in Hb'. rewrite Hb'. clear Hb'.
  destruct rules as [|r0 rules']; [reflexivity|]. destruct ps as [|p0 ps']; [discriminate|].
  destruct (map o_alloc (results (outs I sp (r0 :: rules') (p0 :: ps') init))) eqn:El.
  { exfalso. apply map_eq_nil in El. apply (proj1 (results_nil_iff _)) in El. unfold outs in El. cbn [map combine] in El. discriminate. }
  rewrite <- El. f_equal. f_equal. rewrite map_id.
  unfold swc, argmax_all. apply (argmax_scan_map o_alloc (total (mults sp)) (py_total_satisfaction sp) _ None [] Hkey).
Qed.
End Swc.

(* ---------- popularity_comparison ---------- *)
Lemma Qnat_add a b : Qnat (a + b) == Qnat a + Qnat b.
Proof. unfold Qnat. rewrite Nat2Z.inj_add, inject_Z_plus. reflexivity. Qed.

Lemma forallb_enum {A} (g : A -> bool) (l : list A) : forall k,
  forallb (fun y => g (snd y)) (enum_from k l) = forallb g l.
Proof. induction l as [|x l IH]; intros k; [reflexivity|]. rewrite enum_from_cons. cbn. rewrite IH. reflexivity. Qed.

Lemma forallb_map_c {A B} (f : A -> B) (g : B -> bool) l : forallb g (map f l) = forallb (fun x => g (f x)) l.
Proof. induction l as [|x l IH]; [reflexivity|]. cbn. rewrite IH. reflexivity. Qed.

(* voter s ranks the value v top among the values sats *)
Definition ptop (sats : list Q) (v : Q) : bool := forallb (fun v' => Qleb v' v) sats.
(* one voter's contribution to the support vector (aligned with the results R) *)
Definition vote (R : list py_alloc) (s : (py_alloc -> Q) * nat) (sup : list Q) : list Q :=
  map (fun vs_s => if ptop (map (fun r => fst s r) R) (fst vs_s) then snd vs_s + Qnat (snd s) else snd vs_s)
      (combine (map (fun r => fst s r) R) sup).

Lemma vote_length R s sup : length sup = length R -> length (vote R s sup) = length R.
Proof. intros H. unfold vote. rewrite map_length, combine_length, map_length. lia. Qed.

Lemma vote_step {A} (key : A -> Q) (T : Q -> bool) (m : nat) (acc : A -> nat) : forall (l : list A) (sup : list Q),
  Forall2 (fun q o => q == Qnat (acc o)) sup l ->
  Forall2 (fun q o => q == Qnat (acc o + (if T (key o) then m else O)))
          (map (fun vs_s => if T (fst vs_s) then snd vs_s + Qnat m else snd vs_s) (combine (map key l) sup)) l.
Proof.
  intros l sup H. induction H as [|q o sup l Hq H IH]; [constructor|].
  cbn [map combine fst snd]. constructor; [|exact IH].
  destruct (T (key o)); rewrite Qnat_add, Hq; [reflexivity|]. change (Qnat 0) with 0. ring.
Qed.

Lemma Forall2_impl {A B} (P Q' : A -> B -> Prop) l l' :
  (forall a b, P a b -> Q' a b) -> Forall2 P l l' -> Forall2 Q' l l'.
Proof. intros H F. induction F; constructor; auto. Qed.

Section Votes.
Variable sp_all : py_satprofile.
Variable res : list outcome.
Hypothesis res_good : Forall (good sp_all) res.

Lemma vs_good j s o pre suf : sp_all = pre ++ s :: suf -> length pre = j -> good sp_all o -> vs j o = fst s (o_alloc o).
Proof.
  intros E Hj Ho. unfold vs. rewrite Ho. unfold mk_out. cbn [o_vsat o_alloc].
  rewrite E, map_app. cbn [map]. subst j. rewrite app_nth2; rewrite map_length; [|lia]. rewrite Nat.sub_diag. reflexivity.
Qed.

Lemma votes_support : forall suf pre, sp_all = pre ++ suf -> forall sup (acc : outcome -> nat),
  Forall2 (fun q o => q == Qnat (acc o)) sup res ->
  Forall2 (fun q o => q == Qnat (acc o + support_spec res o (length pre) (map snd suf)))
          (fold_left (fun sup s => vote (map o_alloc res) s sup) suf sup) res.
Proof.
  induction suf as [|s suf IH]; intros pre E sup acc H.
  - cbn. eapply Forall2_impl; [|exact H]. intros q o Hq. cbn beta in Hq. rewrite Nat.add_0_r. exact Hq.
  - cbn [fold_left map support_spec snd].
    specialize (IH (pre ++ [s]) ltac:(rewrite <- app_assoc; exact E)).
    rewrite app_length in IH. cbn [length] in IH. replace (length pre + 1)%nat with (S (length pre)) in IH by lia.
    eapply Forall2_impl; [|apply (IH _ (fun o => (acc o + (if is_top res (length pre) o then snd s else O))%nat))].
    + intros q o Hq. cbn beta in Hq. rewrite Hq. rewrite Nat.add_assoc. reflexivity.
    + unfold vote. rewrite map_map.
      assert (Hk : map (fun o => fst s (o_alloc o)) res = map (vs (length pre)) res).
      { apply map_ext_in. intros o Ho. symmetry. eapply vs_good; [exact E|reflexivity|].
        rewrite Forall_forall in res_good. apply res_good. exact Ho. }
      rewrite Hk.
      assert (Ht : forall o, ptop (map (vs (length pre)) res) (vs (length pre) o) = is_top res (length pre) o).
      { intros o. unfold ptop, is_top. rewrite forallb_map_c. reflexivity. }
      pose proof (vote_step (vs (length pre)) (ptop (map (vs (length pre)) res)) (snd s) acc res sup H) as Hv.
      eapply Forall2_impl; [|exact Hv]. intros q o Hq. cbn beta in Hq. rewrite Ht in Hq. exact Hq.
Qed.
End Votes.

(* the final selection on a support vector that is (up to ==) a vector of natural numbers *)
Lemma select_support (f : outcome -> nat) (MX : nat) (mx : Q) : forall (res : list outcome) (sup : list Q),
  Forall2 (fun q o => q == Qnat (f o)) sup res -> mx == Qnat MX ->
  map fst (filter (fun rs => py_eq (snd rs) mx) (combine (map o_alloc res) sup)) =
  map o_alloc (filter (fun o => Nat.eqb (f o) MX) res).
Proof.
  intros res sup H Hm. induction H as [|q o sup res Hq H IH]; [reflexivity|].
  cbn [map combine filter snd]. unfold py_eq at 1.
  assert (E : Qeqb q mx = Nat.eqb (f o) MX).
  { rewrite <- Qnat_eqb. destruct (Qeqb (Qnat (f o)) (Qnat MX)) eqn:E.
    - apply Qeqb_iff. apply Qeqb_iff in E. rewrite Hq, Hm. exact E.
    - apply Qeqb_false_iff. apply Qeqb_false_iff in E. rewrite Hq, Hm. exact E. }
  rewrite E. destruct (Nat.eqb (f o) MX); cbn [map fst]; rewrite IH; reflexivity.
Qed.

Lemma max_support (f : outcome -> nat) : forall (res : list outcome) (sup : list Q) a na,
  Forall2 (fun q o => q == Qnat (f o)) sup res -> a == Qnat na ->
  fold_left py_max2 sup a == Qnat (fold_left Nat.max (map f res) na).
Proof.
  intros res sup a na H. revert a na. induction H as [|q o sup res Hq H IH]; intros a na Ha; [exact Ha|].
  cbn [fold_left map]. apply IH. apply py_max2_nat; assumption.
Qed.

Lemma fold_max_lr l : forall a, fold_left Nat.max l a = Nat.max a (fold_right Nat.max O l).
Proof. induction l as [|x l IH]; intros a; cbn; [lia|]. rewrite IH. lia. Qed.

Lemma option_eta {A} (o : option A) : match o with Some g => Some g | None => None end = o.
Proof. destruct o; reflexivity. Qed.

Section Popularity.
Context {X SC : Type}.

Ltac comparison_prefix Hlen ps :=
  cbv zeta;
  match goal with |- context [match ?o with Some n0 => negb (py_nat_eq (length ?rs) (length n0)) | None => false end] =>
    change (match o with Some n0 => negb (py_nat_eq (length rs) (length n0)) | None => false end) with (bad_lengths rs o);
    let Eb := fresh "Eb" in
    destruct (bad_lengths rs o) eqn:Eb; [reflexivity|];
    pose proof (kws_length rs o Eb) as Hlen;
    change (match o with Some p => p | None => map (fun _ => py_no_kwargs) rs end) with (kws_or_empty rs o) in *;
    set (ps := kws_or_empty rs o) in *; clearbody ps
  end.

Ltac results_side sp :=
  intros seen [r p]; cbn [fst snd]; cbv beta iota zeta;
  try (erewrite py_for_found; [|intros x; reflexivity]);
  try (erewrite py_for_found_nobreak; [|intros b x; cbv beta; match goal with |- context [if ?c then _ else _] => destruct c end; reflexivity]);
  cbn [orb];
  try (erewrite (existsb_ext_in _ (py_alloc_eqb _)); [|intros x _; apply py_alloc_eqb_sym]);
  change (existsb (py_alloc_eqb ?a) ?l) with (py_alloc_in a l);
  rewrite ?(alloc_in_map sp); unfold dd_step;
  match goal with |- context [existsb ?f ?l] => destruct (existsb f l) end; cbn [negb];
  rewrite ?map_app; reflexivity.

Theorem gen_popularity_eq (rules : list (py_rule X py_alloc)) (I : inst) (prof : py_cprofile SC) (sc : SC) oparams oinit :
  gen_popularity_comparison I prof sc rules oparams oinit =
  if bad_lengths rules oparams then Raise "ValueError"
  else match rules with
       | [] => match cp_as_sat prof sc with [] => Raise "ValueError" | _ => Raise "TypeError" end
       | _ => Ok (map o_alloc (popularity (mults (cp_as_sat prof sc))
                                          (outs I (cp_as_sat prof sc) rules (kws_or_empty rules oparams) (alloc_or_empty oinit))))
       end.
Proof.
  unfold gen_popularity_comparison. comparison_prefix Hlen ps.
  timeout 60 py_norm_headers.
  change (match oinit with Some a => a | None => [] end) with (alloc_or_empty oinit).
  set (sp := cp_as_sat prof sc). set (init := alloc_or_empty oinit).
  erewrite (results_loop I sp rules ps init); [|results_side sp].
  destruct rules as [|r0 rules'].
  { destruct sp; reflexivity. }
  destruct ps as [|p0 ps']; [discriminate|].
  set (os := outs I sp (r0 :: rules') (p0 :: ps') init).
  set (res := results os).
  assert (Hne : res <> []).
  { intros E. apply (proj1 (results_nil_iff _)) in E. unfold os, outs in E. cbn [map combine] in E. discriminate. }
  set (R := map o_alloc res).
  assert (HRne : R <> []) by (intros E; apply map_eq_nil in E; exact (Hne E)).
  match goal with
  | |- match py_for ?V sp ?s0 with _ => _ end = _ =>
      assert (Hvoter : forall sup s, length sup = length R ->
                V sup s = Next (vote R s sup) /\ length (vote R s sup) = length R)
  end.
  { intros sup s Hl. split; [|apply vote_length; exact Hl]. cbv beta.
    set (sats := map (fun v_r : py_alloc => py_sat_sat s v_r) R).
    assert (Hsne : py_enumerate sats <> []).
    { unfold sats, py_enumerate. destruct R; [congruence|]. discriminate. }
    match goal with
    | |- context [py_for ?SCAN (py_enumerate sats) (None, None)] =>
        pose proof (scan_sim (fun x : nat * Q => snd x) (fun x : nat * Q => fst x) SCAN) as Hs;
        assert (H1 : forall x, SCAN (None, None) x = Next (Some (snd x), Some [fst x])) by (intros [i v]; reflexivity);
        specialize (Hs H1); clear H1;
        match type of Hs with ?Hyp -> _ =>
          assert (H2 : Hyp) by
            (intros b acc [i v]; cbv beta iota; cbn [fst snd];
             unfold py_gt, py_eq, py_lt, py_ge, py_le, py_ne, Qltb; py_q_cases);
          specialize (Hs H2); clear H2
        end;
        destruct (Hs (py_enumerate sats) None []) as [b' Hb']; clear Hs
    end.
    unfold scan_state in Hb'. rewrite Hb'. clear Hb'.
    destruct (py_enumerate sats) as [|e0 en] eqn:Een; [congruence|]. rewrite <- Een. clear Hsne Een e0 en.
    change (argmax_scan Qleb (fun x : nat * Q => snd x) (py_enumerate sats) None [])
      with (argmax_all Qleb (fun x : nat * Q => snd x) (py_enumerate sats)).
    rewrite (argmax_all_filter _ _ Qleb (fun x : nat * Q => snd x) Qleb_total Qleb_trans).
    rewrite (filter_ext _ (fun ix : nat * Q => ptop sats (snd ix))).
    2:{ intros ix. unfold is_max, ptop. rewrite py_enumerate_from.
        apply (forallb_enum (fun v' => Qleb v' (snd ix))). }
    erewrite (py_for_bump _ (py_sat_multiplicity s) (ptop sats));
      [reflexivity | intros ? ? ? Hg; rewrite Hg; reflexivity | unfold sats; rewrite map_length; exact Hl]. }
  match goal with
  | |- match py_for ?V sp ?s0 with _ => _ end = _ =>
      destruct (py_for_sim_inv V (fun sup s => vote R s sup) (fun sup => length sup = length R)
                  (fun sup s Hl => Hvoter sup s Hl) sp s0) as [Ev Hlf];
        [rewrite map_length; reflexivity|]
  end.
  rewrite Ev. clear Ev Hvoter.
  set (f := fun o => support_spec res o 0 (mults sp)).
  match type of Hlf with
  | length ?t = _ =>
      assert (Hal : Forall2 (fun q o => q == Qnat (f o)) t res);
      [ pose proof (votes_support sp res (results_good I sp _ _ init) sp [] eq_refl
                      (map (fun _ => 0) R) (fun _ => O)) as Hv;
        cbn [length] in Hv; eapply Forall2_impl; [|apply Hv];
        [ intros q o Hq; exact Hq
        | unfold R; clear; induction res as [|o l IH]; [constructor|]; cbn [map]; constructor; [reflexivity|exact IH] ]
      | remember t as supf eqn:Esup; clear Esup ]
  end.
  destruct supf as [|x0 supr] eqn:Es.
  { exfalso. cbn [length] in Hlf. symmetry in Hlf. apply length_zero_iff_nil in Hlf. exact (HRne Hlf). }
  rewrite <- Es in *. unfold py_max_opt. rewrite Es at 1.
  set (mx := fold_left py_max2 supr x0).
  (* the final selection: by index list, or directly over zip(results, result_support) *)
  first
  [ rewrite ?map_map;
    erewrite (py_select R supf _ (fun s => py_eq s mx));
      [ | intros; reflexivity | intros i s; cbv beta iota; apply option_eta | symmetry; exact Hlf ]
  | unfold py_zip;
    match goal with
    | |- context [map ?g (filter ?pf (combine R supf))] =>
        rewrite (map_ext g fst) by (intros [a0 b0]; reflexivity);
        rewrite (filter_ext pf (fun rs => py_eq (snd rs) mx)) by (intros [a0 b0]; reflexivity)
    end ].
  f_equal.
  assert (Hmx : mx == Qnat (fold_right Nat.max O (map f res))).
  { rewrite Es in Hal. inversion Hal as [|q o sup' res' Hq Ht]; subst. unfold mx.
    rewrite (max_support f res' supr x0 (f o) Ht Hq). rewrite fold_max_lr. reflexivity. }
  unfold R. refine (eq_trans (select_support f _ mx res supf Hal Hmx) _).
  unfold popularity. fold res.
  assert (Hsup : forall o, In o res -> support res (mults sp) o = f o).
  { intros o Ho. apply support_is_spec; [apply results_NoDup|exact Ho]. }
  rewrite (map_ext_in (support res (mults sp)) f res Hsup). f_equal.
  apply filter_ext_in. intros o Ho. rewrite (Hsup o Ho). reflexivity.
Qed.
End Popularity.

(* ---------- aliasing ---------- *)
Lemma alias_popularity : py_inputs_untouched gen_alias_popularity_comparison = true.
Proof. reflexivity. Qed.
Lemma alias_swc : py_inputs_untouched gen_alias_social_welfare_comparison = true.
Proof. reflexivity. Qed.
Lemma composition_all_translated : gen_untranslated_composition = [].
Proof. reflexivity. Qed.
